#!/bin/bash
# seedimport.sh <Cxx> <suffix>: copy /tmp/seedwt_<Cxx>/seed_out into /verif/seeded/<Cxx>-<suffix>, confirm it in a scratch worktree, run the property's check
set -e
P=$1; S=${2:-a}; D=/verif/seeded/$P-$S; W=/tmp/seedwt_$P
mkdir -p $D
cp $W/seed_out/patch.diff $W/seed_out/demo.py $D/
python3 - "$P" "$D" "$W" <<'PY'
import json,sys
p,d,w=sys.argv[1:4]
notes=open(w+'/seed_out/notes.txt').read()
json.dump({'property':p,'summary':notes[:1500],'needs':'see summary','source':'fresh sub-agent given only the property text and a scratch worktree'},open(d+'/meta.json','w'),indent=1)
PY
cd /verif && python3 harness/seedtest.py confirm $D | python3 -c "import json,sys; d=json.load(sys.stdin); print({k:v for k,v in d.items() if k not in ('demo_output_with_patch','tests_tail')})"
python3 harness/seedtest.py run $D $P | python3 -c "import json,sys; d=json.load(sys.stdin); print({k:(v['exit'],v['lines'][:2]) for k,v in d.items()})"
