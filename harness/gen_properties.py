'''Re-states lemmas of the proof files as theorems of Properties/Cxx.v (statement printed by coqtop, closed by exact).
Usage: cd /verif/coq && python3 ../harness/gen_properties.py C03 C12 ...   (regenerates the session-4 block of those files)'''
import subprocess, re, sys, json
SPEC = {
 'C03': (['Proofs.RatDerivAnalytic'], [('C03_curve_kernels_are_derivatives','curve_kernels_are_derivatives'),('C03_quot1_is_partial_derivative','quot1_is_partial_derivative'),('C03_surface_kernels_are_partials','surface_kernels_are_partials'),('C03_surface_mixed_partial','surf_d11_is_mixed_partial'),('C03_rational_curve_derivative_is_derivative','rational_curve_derivative_is_derivative'),('C03_rational_surface_derivative_is_partial','rational_surface_derivative_is_partial'),('C03_tangent_is_normalised','normalize3_spec'),('C03_normal_is_normalised_cross','normal3_spec')]),
 'C12': (['Proofs.ObjEval','Proofs.IdenticalEndToEnd'], [('C12_compatible_then_evaluate','compatible_eval'),('C12_identical_dir_knots','identical_dir_knots'),('C12_identical_dir_then_evaluate','identical_dir_eval'),('C12_identical_dir_then_evaluate_second','identical_dir_eval2'),('C12_identical_same_order_succeeds','identical_dir_same_order_ok'),('C12_make_identical_knots','make_identical_knots'),('C12_make_identical_then_evaluate','make_identical_eval'),('C12_hypotheses_satisfiable','ex_hyps')]),
 'C01': (['Proofs.DenseSparse'], [('C01_dense_sparse_agree','dense_sparse_agree'),('C01_dense_sparse_entry','dense_sparse_entry'),('C01_dense_sparse_distinct','dense_sparse_distinct'),('C01_dense_sparse_nonperiodic','dense_sparse_nonperiodic'),('C01_sparse_row_shape','sparse_row_shape')]),
 'C02': (['Model.EvalForms','Proofs.EvalFormsProofs'], [('C02_grid_spec','grid_spec'),('C02_pointwise_is_grid_diagonal','pointwise_diagonal'),('C02_pointwise_unequal_lengths','pointwise_unequal'),('C02_singleton_lists_give_one_point','grid_singletons'),('C02_scalars_give_one_point','scalars_eval'),('C02_grid_value_error_iff','grid_value_error_iff')]),
 'C06': (['Proofs.ObjEval','Proofs.ReparamEndToEnd','Proofs.ReverseEndToEnd','Proofs.SwapEndToEnd'], [('C06_reparam_then_evaluate','reparam_dir_eval'),('C06_reparam_then_evaluate_scaled_tolerance','reparam_dir_eval_scaled'),('C06_reparam_curve_then_evaluate','reparam_curve_eval'),('C06_reparam_domain','reparam_dir_domain'),('C06_reparam_inverse','reparam_dir_inverse'),('C06_reparam_total','reparam_dir_total'),
   ('C06_reverse_then_evaluate','reverse_eval'),('C06_reverse_then_evaluate_clear','reverse_eval_clear'),('C06_reverse_then_evaluate_at_knot','reverse_eval_knot'),('C06_reverse_domain','reverse_domain'),('C06_reverse_wf','reverse_wf'),('C06_reverse_involution','reverse_involution'),
   ('C06_swap_then_evaluate','swap_eval'),('C06_swap_wf','swap_wf'),('C06_swap_involution','swap_involution'),('C06_swap_curve','swap_curve')]),
 'C07': (['Proofs.ObjEval','Proofs.SplitTiling','Proofs.RestrictDirEval','Proofs.SplitEndToEnd','Proofs.SplitCompose'], [('C07_split_insert_spec','split_insert_spec'),('C07_split_succeeds','obj_split_ok'),('C07_split_count','split_length'),('C07_split_tiling','split_tiling'),('C07_split_then_evaluate','split_then_evaluate'),('C07_piece_param_intro','piece_param_intro'),('C07_split_piece_eval','split_piece_eval'),('C07_split_skips_outside','split_pieces_skip'),('C07_hypotheses_satisfiable','ex_hyps')]),
 'C08': (['Proofs.SeamContinuity','Proofs.MakePeriodicKnots'], [('C08_seam_derivatives','seam_derivatives'),('C08_seam_derivatives_list','seam_derivatives_list'),('C08_wrap_value','wrap_value'),('C08_continuous_at_multiple_knot','dB_continuous_at_multiple_knot'),('C08_make_periodic_images','mp_images'),('C08_make_periodic_sorted','mp_sorted'),('C08_make_periodic_seam_rows','mp_seam_rows'),('C08_open_close_knots','open_close_knots'),('C08_close_open_make_periodic','close_open_make_periodic'),('C08_split_opens_at_seam','split_opens_at_seam')]),
 'C13': (['Proofs.CompositeShapes','Gen.DiscSquare','Proofs.DiscSquareTie'], [('C13_sphere_from_revolve_net','sphere_from_revolve_net'),('C13_torus_from_revolve_net','torus_from_revolve_net'),('C13_solid_torus_from_revolve_net','solid_torus_from_revolve_net'),('C13_cylinder_from_extrude_net','cylinder_from_extrude_net'),('C13_solid_cylinder_from_extrude_net','solid_cylinder_from_extrude_net'),('C13_extrude_cartesian_rational','extrude_cartesian_rational'),('C13_radial_interpolation','radial_interpolation'),('C13_disc_square_boundary','disc_square_gen_boundary'),('C13_disc_square_inside','disc_square_gen_inside'),('C13_placement_frame','placement_frame'),('C13_sphere_factory_chain','sphere_factory_chain'),('C13_torus_factory_chain','torus_factory_chain'),('C13_cylinder_placed','cylinder_placed'),('C13_solid_cylinder_placed','solid_cylinder_placed')]),
 'C17': (['Model.Catalogue','Proofs.CatalogueProofs'], [('C17_add_idempotent','add_idempotent'),('C17_lookup_after_add','lookup_after_add'),('C17_nodes_are_cells','nodes_are_cells'),('C17_order_independent','order_independent'),('C17_orientation_independent','orientation_independent'),('C17_reoriented_copy_known','reoriented_copy_known'),('C17_order_orientation_independent','order_orientation_independent'),('C17_graph_invariants','graph_invariants'),('C17_higher_neighbours','higher_neighbours'),('C17_boundary_spec','boundary_spec'),('C17_lattice2_counts','lattice2_counts'),('C17_lattice3_counts','lattice3_counts')]),
 'C18': (['Model.Faces','Proofs.FacesProofs'], [('C18_cell_numbers_bijection','cell_numbers_bijection'),('C18_face_count','face_count'),('C18_internal_face_owner_neighbor','internal_face_owner_neighbor'),('C18_adjacent_cells_have_face','adjacent_cells_have_face'),('C18_internal_pairs_NoDup','internal_pairs_NoDup'),('C18_cell_six_faces','cell_six_faces'),('C18_internal_face_nodes','internal_face_nodes'),('C18_boundary_lower_face_nodes','boundary_lower_face_nodes'),('C18_boundary_upper_face_nodes','boundary_upper_face_nodes'),('C18_internal_face_orientation','internal_face_orientation'),('C18_boundary_upper_face_orientation','boundary_upper_face_orientation'),('C18_boundary_lower_face_orientation','boundary_lower_face_orientation'),('C18_owner_below_neighbour','faces_final_assert'),('C18_no_face_twice','patch_faces_key_NoDup')]),
 'C19': (['Model.Stl','Model.Spl','Proofs.StlProofs','Proofs.SplProofs'], [('C19_spl_roundtrip','spl_roundtrip'),('C19_spl_index_map','spl_cps_nth'),('C19_spl_index_bijection','spl_index_surj'),('C19_spl_decode_sound','spl_decode_sound'),('C19_spl_truncated_rejected','spl_truncated_rejected'),('C19_stl_declared_count','stl_declared_count'),('C19_stl_vertices_on_grid','stl_vertices_on_grid'),('C19_stl_grid_covered','stl_grid_covered'),('C19_stl_write_surface_spec','stl_write_surface_spec'),('C19_stl_split_spec','stl_split_spec'),('C19_stl_params_general','stl_params_general'),('C19_stl_pad3','pad3_spec')]),
}
def header(pid):
    src=open('theories/Properties/%s.v'%pid).read()
    # imports of the existing file
    m=re.findall(r'^(From [^\n]*\n(?:  [^\n]*\n)*)',src,flags=re.M)
    return ''.join(m)+'Import ListNotations.\n'
out={}
WANT = set(sys.argv[1:])
for pid,(mods,ths) in SPEC.items():
    if WANT and pid not in WANT: continue
    pre=header(pid)
    extra='From SplipyModel Require Import %s.\n'%' '.join(mods)
    scope='Open Scope R_scope.\n' if 'Open Scope R_scope' in open('theories/Properties/%s.v'%pid).read() else ''
    script=pre+extra+scope+'Set Printing Width 118.\n'+('Set Printing Implicit.\n' if pid in ('C19',) else '')+''.join('Check @%s.\n'%l for _,l in ths)
    p=subprocess.run('timeout 600 coqtop -Q theories SplipyModel -w -all',shell=True,input=script,text=True,capture_output=True)
    txt=p.stdout
    # split by "lemma\n     : type"
    blocks=re.split(r'\n(?=@?[A-Za-z_][A-Za-z0-9_\']*\n     : )',txt)
    types={}
    for b in blocks:
        m=re.match(r'@?([A-Za-z_][A-Za-z0-9_\']*)\n     : (.*)',b,flags=re.S)
        if m:
            t=m.group(2)
            t=re.split(r'\n\n',t)[0]
            t=re.sub(r'\nCoq < .*','',t,flags=re.S)
            types[m.group(1)]=t.rstrip()
    add=['\n(* ------------------------------------------------------------------------------------------------------\n   Added in build session 4 (statements re-stated from the proof files by harness tooling; each is closed by\n   exact). *)\n', extra, scope]
    for nm,l in ths:
        if l not in types:
            print('MISSING',pid,l, p.stderr[-300:]); continue
        add.append('Theorem %s :\n  %s.\nProof. exact %s. Qed.\nPrint Assumptions %s.\n\n'%(nm,types[l].replace('\n','\n  '),'@'+l,nm))
    out[pid]=''.join(add)
MARK='\n(* ------------------------------------------------------------------------------------------------------\n   Added in build session 4'
for pid,txt in out.items():
    p='theories/Properties/%s.v'%pid
    src=open(p).read()
    if MARK in src: src=src[:src.index(MARK)]
    open(p,'w').write(src.rstrip('\n')+'\n'+txt)
for pid in out: print(pid,len(out[pid]))
