"""Classifiers for known findings: pure predicates over a failure case dict and the
finding's params.  Each is as narrow as the defect it describes."""
from fractions import Fraction as Fr


def _obj(case):
    return case.get('obj') or (case.get('case') or {}).get('obj')


def _nfun(b):
    return len(b['knots']) - b['order'] - (b['periodic'] + 1)


def _touched_dirs(case):
    o = _obj(case)
    if o is None:
        return []
    op = case.get('op', '')
    if op in ('refine', 'all_directions') or case.get('direction') is None:
        return list(range(len(o['bases'])))
    return [case['direction']]


def periodic_small(case, params):
    """the operation touches a periodic direction with fewer than order+continuity basis functions:
    the head and tail ghost-knot ranges overlap and the library's periodic algorithms (insertion,
    ghost-knot repair, roll, split) are not defined for it"""
    o = _obj(case)
    if o is None:
        return False
    if params.get('ops') and case.get('op') not in params['ops']:
        return False        # the finding is about these operations only (evaluation of such objects is correct)
    for d in _touched_dirs(case):
        b = o['bases'][d]
        if b['periodic'] >= 0 and _nfun(b) < b['order'] + b['periodic']:
            return True
    return False


def nonperiodic_end_insert(case, params):
    """insert_knot(x) with x equal to the end of the domain of a non-periodic, non-open knot vector
    raises IndexError"""
    o = _obj(case)
    if o is None or not str(case.get('op', '')).startswith('insert') or 'IndexError' not in case.get('what', ''):
        return False
    b = o['bases'][case['direction']]
    if b['periodic'] >= 0:
        return False
    k = [Fr(x) for x in b['knots']]
    end = k[len(k) - b['order']]
    return any(Fr(x) == end for x in case.get('knots', []))


def _dir_flags(b):
    from collections import Counter
    k = [Fr(x) for x in b['knots']]
    p = b['order']
    s, e = k[p - 1], k[len(k) - p]
    # multiplicity as the library counts it: copies of a knot that agree within the knot tolerance (1e-10) are one knot
    tol = Fr(1, 10 ** 10)
    m = Counter(k)
    m = {x: sum(v for y, v in m.items() if abs(y - x) <= tol) for x in m}
    return dict(jump=any(v >= p and s < x < e for x, v in m.items()),
                nonopen=(b['periodic'] < 0 and (k[0] < s or k[-1] > e)),
                periodic=b['periodic'] >= 0)


def order_jump_knot(case, params):
    """raise_order / set_order on an object that has an interior knot of multiplicity >= order (the object
    itself may jump there): the Greville collocation matrix is singular (LinAlgError or non-finite result)"""
    o = _obj(case)
    if o is None or not any(w in case.get('what', '') for w in ('LinAlgError', 'non-finite')):
        return False
    return any(_dir_flags(b)['jump'] for b in o['bases'])


def order_nonopen(case, params):
    """raise_order / set_order on an object with a non-periodic direction whose knot vector is not open
    (first/last knot outside the domain): Greville points fall outside the domain, the interpolation
    problem is singular or the call raises"""
    o = _obj(case)
    if o is None or not any(w in case.get('what', '') for w in ('LinAlgError', 'non-finite', 'RuntimeError', 'ValueError')):
        return False
    if 'raise_order' not in case.get('what', ''):
        return False
    return any(_dir_flags(b)['nonopen'] for b in o['bases'])


def lower_order_periodic(case, params):
    """lower_order on an object with a periodic direction raises NameError (undefined knot_spans in
    BSplineBasis.lower_order)"""
    o = _obj(case)
    if o is None or 'lower_order' not in case.get('what', '') or 'NameError' not in case.get('what', ''):
        return False
    return any(_dir_flags(b)['periodic'] for b in o['bases'])


def _splitvector(n, parts):
    """refinement._splitvector"""
    delta = n // parts
    sizes = [delta] * parts
    for i in range(parts - (n - parts * delta) + 1, parts):
        sizes[i] += 1
    res = [0]
    for i in range(1, parts):
        res.append(sizes[i] + res[i - 1])
    return res


def nonperiodic_end_split(case, params):
    """split() at a value equal to end() of a non-periodic, non-open direction raises IndexError (the knot
    insertion at end() that precedes the slicing fails, see C04-nonperiodic-end)"""
    o = _obj(case)
    if o is not None and case.get('op') == 'subdivide' and 'IndexError' in case.get('what', ''):
        # subdivide picks its split points among the distinct domain knots by _splitvector; when that choice
        # contains the last knot of a non-open direction it calls split(end()) -- the same defect
        nn = case['n']
        nn = list(nn) if isinstance(nn, (list, tuple)) else [nn] * len(o['bases'])      # one count per direction, or one for all
        if len(nn) != len(o['bases']):
            return False
        for b, n_d in zip(o['bases'], nn):
            k = [Fr(x) for x in b['knots']]
            p = b['order']
            if b['periodic'] >= 0:
                continue
            dom = sorted(set(x for x in k if k[p - 1] <= x <= k[len(k) - p]))
            nonopen_end = sum(1 for x in k if x == k[len(k) - p]) < p
            if nonopen_end and (len(dom) - 1) in _splitvector(len(dom), int(n_d) + 1)[1:]:
                return True
        return False
    if o is None or case.get('op') != 'split' or 'IndexError' not in case.get('what', ''):
        return False
    b = o['bases'][case['direction']]
    if b['periodic'] >= 0:
        return False
    k = [Fr(x) for x in b['knots']]
    end = k[len(k) - b['order']]
    return any(Fr(x) == end for x in case.get('points', []))


def open_close_controlpoints(case, params):
    """split(seam) followed by make_periodic(same continuity >= 1) returns the right knot vector but control
    points that differ from the original near the seam (the merging weights i/continuity are not the inverse
    of the opening for non-uniform / repeated knots next to the seam)"""
    o = _obj(case)
    if o is None or case.get('op') != 'open_close' or 'control point' not in case.get('what', ''):
        return False
    # only the behaviour of the code as transcribed in Model/Periodic.v is the recorded defect: the implementation's
    # result must coincide with the model's, and the failure must be the L2 round-trip statement itself
    if not case.get('what', '').startswith('L2:') or not case.get('impl_matches_transcription'):
        return False
    b = o['bases'][case['direction']]
    return b['periodic'] >= 1


def _both(case):
    out = []
    for key in ('obj', 'other'):
        o = case.get(key)
        if o:
            out += o['bases']
    return out


def identical_jump_knot(case, params):
    """make_splines_identical needs raise_order on an operand with an interior knot of multiplicity >= order:
    singular Greville collocation (see C05-jump-knot)"""
    if not any(w in case.get('what', '') for w in ('LinAlgError', 'non-finite')):
        return False
    return any(_dir_flags(b)['jump'] for b in _both(case))


def identical_periodic_small(case, params):
    """make_splines_identical on an operand with a periodic direction of fewer than order+continuity functions
    (insertion / lower_periodic are not defined there, see C04-periodic-small)"""
    return any(b['periodic'] >= 0 and _nfun(b) < b['order'] + b['periodic'] for b in _both(case))


def integrate_periodic_small(case, params):
    """BSplineBasis.integrate on a periodic basis with fewer than order+continuity functions"""
    if case.get('op') != 'integrate':
        return False
    b = (case.get('args') or {}).get('basis') or case.get('args')
    if not b or 'knots' not in b:
        return False
    return b['periodic'] >= 0 and len(b['knots']) - b['order'] - b['periodic'] - 1 < b['order'] + b['periodic']


def lower_order_weights(case, params):
    """lower_order (an approximation: interpolation of the homogeneous control points at the Greville points of the
    lower-order basis) applied to a rational object gives a non-positive weight"""
    hist = case.get('history') or []
    if not hist or hist[-1][0] != 'lower_order' or 'non-positive weight' not in case.get('what', ''):
        return False
    start = case.get('start') or {}
    # the object is rational at that point: it started rational or was made rational on the way
    return bool(start.get('rational')) or any(h[0] in ('force_rational', 'make_identical') for h in hist)
