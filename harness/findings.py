"""Classifiers for known findings: pure predicates over a failure case dict and the
finding's params.  Each is as narrow as the defect it describes."""
