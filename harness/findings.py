"""Classifiers for known findings: pure predicates over a failure case dict and the
finding's params.  Each is as narrow as the defect it describes."""
from fractions import Fraction as Fr


def _obj(case):
    return case.get('obj') or (case.get('case') or {}).get('obj')


def _nfun(b):
    return len(b['knots']) - b['order'] - (b['periodic'] + 1)


def _touched_dirs(case):
    o = _obj(case)
    if o is None:
        return []
    op = case.get('op', '')
    if op in ('refine', 'all_directions') or case.get('direction') is None:
        return list(range(len(o['bases'])))
    return [case['direction']]


def periodic_small(case, params):
    """the operation touches a periodic direction with fewer than order+continuity basis functions:
    the head and tail ghost-knot ranges overlap and the library's periodic algorithms (insertion,
    ghost-knot repair, roll, split) are not defined for it"""
    o = _obj(case)
    if o is None:
        return False
    for d in _touched_dirs(case):
        b = o['bases'][d]
        if b['periodic'] >= 0 and _nfun(b) < b['order'] + b['periodic']:
            return True
    return False


def nonperiodic_end_insert(case, params):
    """insert_knot(x) with x equal to the end of the domain of a non-periodic, non-open knot vector
    raises IndexError"""
    o = _obj(case)
    if o is None or not str(case.get('op', '')).startswith('insert') or 'IndexError' not in case.get('what', ''):
        return False
    b = o['bases'][case['direction']]
    if b['periodic'] >= 0:
        return False
    k = [Fr(x) for x in b['knots']]
    end = k[len(k) - b['order']]
    return any(Fr(x) == end for x in case.get('knots', []))
