#!/usr/bin/env python3
"""Prepare a round of seeded-change exercises for fresh sub-agents.

  mkseedround.py <letters of the earlier rounds, e.g. abcdef>

Creates scratch worktrees /tmp/seedwt_C01 .. /tmp/seedwt_C20 of /repo (HEAD, with the compiled extension copied in) and writes
TASK.md into each: the property text, the rules, and the sites of the earlier rounds (so that the new change differs).  Then start
one sub-agent per worktree with the prompt "Read the file /tmp/seedwt_Cxx/TASK.md and carry out the task it describes exactly.
Work only inside /tmp/seedwt_Cxx.  Do not look at /repo or /verif."; import each result with harness/seedimport.sh Cxx <letter>
(one at a time: it patches /repo while the check runs) and remove the worktree (git -C /repo worktree remove --force ...)."""
import os, subprocess, sys
PREV = sys.argv[1] if len(sys.argv) > 1 else 'abcdefg'
for i in range(1, 21):
    w = '/tmp/seedwt_C%02d' % i
    subprocess.run('git -C /repo worktree remove --force %s 2>/dev/null; git -C /repo worktree prune; git -C /repo worktree add -q %s HEAD && '
                   'cp /repo/splipy/basis_eval.cpython-312-x86_64-linux-gnu.so %s/splipy/ && mkdir -p %s/seed_out' % (w, w, w, w), shell=True, check=True)
import json,re
props={}
for l in open('/verif/properties.jsonl'):
    p=json.loads(l); props[p['id']]=p
for i in range(1,21):
    pid='C%02d'%i
    p=props[pid]
    prev=[]
    for s in PREV:
        if not os.path.exists('/verif/seeded/%s-%s/meta.json'%(pid,s)):
            continue
        m=json.load(open('/verif/seeded/%s-%s/meta.json'%(pid,s)))
        pd=open('/verif/seeded/%s-%s/patch.diff'%(pid,s)).read()
        files=re.findall(r'^\+\+\+ b/(\S+)',pd,flags=re.M)
        t=re.sub(r'[=\-]{4,}','',m['summary']); t=' '.join(t.split())
        prev.append('- %s: %s'%(', '.join(files), t[:330]))
    txt=f"""# Task: seed a realistic regression that breaks one semantic property of the Splipy library

You work ONLY inside the git worktree `/tmp/seedwt_{pid}` (a checkout of the SINTEF/Splipy library, Python package `splipy/`,
tests in `test/`).  Do not read or write anything outside this directory (in particular nothing under /repo or /verif).
Run Python as `/venv/bin/python` with `PYTHONPATH=/tmp/seedwt_{pid}` (the compiled extension `splipy/basis_eval*.so` is already
in place; if -- and only if -- you change `splipy/basis_eval.pyx` you must rebuild it in the worktree:
`cd /tmp/seedwt_{pid} && /venv/bin/python -m cython -3 splipy/basis_eval.pyx -o splipy/basis_eval.c && gcc -shared -fPIC -O2 -fwrapv -w -I $(/venv/bin/python -c "import sysconfig;print(sysconfig.get_paths()['include'])") -I $(/venv/bin/python -c "import numpy;print(numpy.get_include())") splipy/basis_eval.c -o splipy/basis_eval.cpython-312-x86_64-linux-gnu.so`).
There is no network.  NEVER use `git stash` (the stash is shared between all worktrees of this repository and other people work in
sibling worktrees): to test without your change use `git diff -- splipy > /tmp/seedwt_{pid}/seed_out/patch.diff; git apply -R seed_out/patch.diff; ...; git apply seed_out/patch.diff`.

## The property (id {pid}): {p.get('title','')}

{p.get('statement', p.get('text',''))}

Why tests cannot settle it: {p.get('why_tests_cant','')}

Code anchors: {json.dumps(p.get('anchors',{}).get('mechanism',[]))}

## What to produce

A small change to the library source (under `splipy/`, not the tests) that a developer could plausibly make (refactoring slip,
"optimisation", wrong index/axis/sign, dropped argument, stale cache, off-by-one at a boundary, wrong branch for a rare case,
a tolerance replaced by a looser/tighter or relative one, two sites that each look fine alone, ...) such that

1. the library still imports and the EXISTING test suite still passes unchanged:
   `cd /tmp/seedwt_{pid} && PYTHONPATH=/tmp/seedwt_{pid} /venv/bin/python -m pytest -q -p no:cacheprovider --timeout=900 --benchmark-disable` (exit code 0; 539 tests);
2. the property above is genuinely violated by the changed library (according to the property text, not merely a changed detail);
3. the violation needs something specific to manifest -- an unusual input (a particular multiplicity pattern, periodicity,
   rational weights, non-default argument spelling or keyword, a later parametric direction, negative coordinates, a particular
   orientation, memory layout or dtype, tiny/huge magnitudes, degenerate sizes such as a single knot span or order 1/2), a multi-step
   sequence of operations, or two cooperating sites -- NOT something ordinary use or a one-line smoke test exposes at once;
4. it is at a DIFFERENT site and uses a DIFFERENT mechanism than these earlier exercises (do not repeat them; prefer a code path
   or a clause of the property text that none of them touched -- read the property text clause by clause):
{chr(10).join(prev)}

Write into `/tmp/seedwt_{pid}/seed_out/`:
* `patch.diff` -- output of `git -C /tmp/seedwt_{pid} diff -- splipy` (must apply with `git apply` to a clean checkout; do not include
  `seed_out/`, the .so or .c files in it);
* `demo.py` -- a self-contained program (imports splipy from PYTHONPATH, uses only numpy/splipy) that exits 0 on the unchanged library and
  exits non-zero (printing what is wrong) on the changed library; it must decide by checking the PROPERTY (e.g. compare against an
  independent computation), not by looking at the source;
* `notes.txt` -- what was changed, why it violates the property, what it needs in order to manifest, what you ran and saw.

Verify all of it yourself before finishing: run demo.py with the patch (must fail), revert with `git apply -R` and run it without (must pass), re-apply,
run the full test suite with the patch (must pass).  Leave the worktree WITH the patch applied when you finish.  Keep the change minimal (a few lines).
Your final message should be a 3-5 line summary (file/function changed, what is needed to manifest, confirmation results).
"""
    open('/tmp/seedwt_%s/TASK.md'%pid,'w').write(txt)
print('ok')
