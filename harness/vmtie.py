"""Kernel-evaluated correspondence for models that the extracted runner does not execute.

A tie is a list of cases; each case is (description, Coq term of type bool, JSON-able input).  The term evaluates the Q instance of a
transcribed routine (Model/*.v) on the very input the implementation was run on and compares with what the implementation
returned: exactly for booleans/integers, within a stated tolerance for numbers (the comparison itself happens in Coq, so only the
tokens `true`/`false` are parsed).  One coqc call per tie file evaluates the whole list with vm_compute.  A `false` (or a file that no
longer compiles) is a model/implementation disagreement and is reported like every other L1 disagreement.
"""
import os
import re
import sys
from fractions import Fraction

sys.path.insert(0, os.path.dirname(os.path.abspath(__file__)))
import common as C

HEADER = '''From Coq Require Import List ZArith QArith Qabs Bool Arith.
From SplipyModel Require Import Model.Num Model.BasisDef Model.Obj %s.
Import ListNotations.
Definition qclose (eps a b : Q) : bool := Qle_bool (Qabs (a - b)) eps.
Fixpoint qclose_l (eps : Q) (a b : list Q) : bool :=
  match a, b with [], [] => true | x :: a', y :: b' => qclose eps x y && qclose_l eps a' b' | _, _ => false end.
Definition dot3 (a b : list Q) : Q := nth 0 a 0 * nth 0 b 0 + nth 1 a 0 * nth 1 b 0 + nth 2 a 0 * nth 2 b 0.
Definition crs3 (a b : list Q) : list Q :=
  [nth 1 a 0 * nth 2 b 0 - nth 2 a 0 * nth 1 b 0; nth 2 a 0 * nth 0 b 0 - nth 0 a 0 * nth 2 b 0; nth 0 a 0 * nth 1 b 0 - nth 1 a 0 * nth 0 b 0].
(* b (unit vector from the implementation) is a positive multiple of d (direction from the model), up to eps *)
Definition same_dir (eps : Q) (b d : list Q) : bool :=
  let c := crs3 b d in Qle_bool (dot3 c c) (eps * eps * dot3 d d) && negb (Qle_bool (dot3 b d) 0).
Definition is_ok {A} (r : res A) : bool := match r with Ok _ => true | Err _ => false end.
Definition ok_or {A} (r : res A) (d : A) : A := match r with Ok x => x | Err _ => d end.
'''


def q(x):
    f = C.fr(x)
    return '(%d # %d)' % (f.numerator, f.denominator)


def ql(xs):
    return '[' + '; '.join(q(x) for x in xs) + ']'


def basis(b):
    """a splipy BSplineBasis as a model term"""
    return '(mkBasis %d %s %d)' % (b.order, ql(b.knots), b.periodic + 1)


def run_tie(name, imports, cases, timeout=900):
    """cases: list of (desc, term, input).  Returns (n_checked, [failing (desc, input)], error or None)."""
    if not cases:
        return 0, [], None
    d = os.path.join(C.VERIF, 'build', 'tmp')
    os.makedirs(d, exist_ok=True)
    bad, n = [], 0
    SH = 250
    for s in range(0, len(cases), SH):
        part = cases[s:s + SH]
        fn = os.path.join(d, 'VmTie_%s_%d.v' % (name, s // SH))
        with open(fn, 'w') as f:
            f.write(HEADER % ' '.join(imports))
            f.write('Open Scope Q_scope.\nDefinition results : list bool := [\n')
            f.write(';\n'.join('  (%s)' % t for _, t, _ in part))
            f.write('].\nEval vm_compute in results.\n')
        r = C.sh('cd %s && timeout %d coqc -Q theories SplipyModel -w -all %s' % (os.path.join(C.VERIF, 'coq'), timeout, fn), timeout=timeout + 30)
        out = r.stdout if hasattr(r, 'stdout') else r[1]
        rc = r.returncode if hasattr(r, 'returncode') else r[0]
        m = re.search(r'=\s*\[(.*?)\]\s*:\s*list bool', out, flags=re.S)
        for ext in ('.vo', '.vok', '.vos', '.glob'):
            try:
                os.remove(fn[:-2] + ext)
            except OSError:
                pass
        if rc != 0 or not m:
            return n, bad, 'tie file %s did not evaluate (rc=%s): %s' % (os.path.basename(fn), rc, (out + (getattr(r, 'stderr', '') or ''))[-1500:])
        toks = re.findall(r'true|false', m.group(1))
        if len(toks) != len(part):
            return n, bad, 'tie file %s: %d results for %d cases' % (os.path.basename(fn), len(toks), len(part))
        for (desc, term, inp), t in zip(part, toks):
            n += 1
            if t != 'true':
                bad.append((desc, inp, term))
    return n, bad, None


def report(V, corr, name, model, n, bad, err):
    """feed the outcome into the check's L1 collector"""
    if err:
        corr += {'what': 'vmtie %s: correspondence of %s could not be evaluated' % (name, model), 'error': err}
    for desc, inp, term in bad[:20]:
        corr += {'what': 'vmtie %s: implementation and kernel-evaluated model (%s) disagree: %s' % (name, model, desc), 'input': inp,
                 'coq_term': term[:3000]}
    return {'cases': n, 'disagreements': len(bad), 'model': model, 'error': err}


def obj(o):
    """a splipy SplineObject as a model term (control net flat in C order, rows = control points incl. the weight)"""
    import numpy as np
    cp = np.asarray(o.controlpoints, dtype=float).reshape(-1, o.controlpoints.shape[-1])
    return '(mkObj [%s] [%s] %d %s)' % ('; '.join(basis(b) for b in o.bases), '; '.join(ql(r) for r in cp), o.dimension,
                                       'true' if o.rational else 'false')


def obj_close(term, o, eps):
    """bool term: the model object `term : res (obj Q)` equals the implementation object o (orders, periodicity, knots and control
    net within eps, dimension, rational flag)"""
    import numpy as np
    cp = np.asarray(o.controlpoints, dtype=float).reshape(-1, o.controlpoints.shape[-1])
    return ('match %s with Ok o_ => (Nat.eqb (length (o_bases o_)) %d) && forallb (fun bb => Nat.eqb (b_order (fst bb)) (b_order (snd bb)) && '
            'Nat.eqb (b_per1 (fst bb)) (b_per1 (snd bb)) && qclose_l %s (b_knots (fst bb)) (b_knots (snd bb))) (combine (o_bases o_) [%s]) && '
            'qclose_l %s (concat (o_cps o_)) %s && Nat.eqb (o_dim o_) %d && Bool.eqb (o_rat o_) %s | Err _ => false end'
            % (term, len(o.bases), q(eps), '; '.join(basis(b) for b in o.bases), q(eps), ql(cp.reshape(-1)), o.dimension,
               'true' if o.rational else 'false'))
