"""C01 — basis evaluation equals the Cox-de Boor definition.
L0: Properties/C01.v.  L1: BSplineBasis.evaluate vs the transcribed model
(basis_eval.pyx + basis.py).  L2: BSplineBasis.evaluate vs the property's own
reading (ref_row at the statement-level normalised parameter/side)."""
import os
import sys
import time
import random
from fractions import Fraction as Fr

sys.path.insert(0, os.path.dirname(os.path.dirname(os.path.abspath(__file__))))
import common as C
import gen_basis as G
import build_pyx

PID = 'C01'


def statement_normalise(b, t, from_right, tol):
    """(t', side') or None (zero row) as the *property statement* reads it, on the snapped t."""
    p, k, per = b['order'], b['knots'], b['periodic']
    start, end = k[p - 1], k[len(k) - p]
    if per >= 0:
        if t < start or t > end:
            T = end - start
            t = (t - start) - T * ((t - start) // T) + start
        if abs(t - start) < tol and not from_right:
            t = end          # left limit at the seam is the one at the domain end
    right = from_right
    if abs(t - end) < tol:
        right = False        # at the domain end always the limit from inside
    if t < start or t > end:
        return None          # outside a non-periodic domain: zero row (basis level)
    if abs(t - start) < tol and not right:
        return None          # start approached from the left
    return t, right


def snap_py(k, t, tol):
    import bisect
    i = bisect.bisect_left(k, t)
    if i < len(k) and abs(k[i] - t) < tol:
        return k[i]
    if i > 0 and abs(k[i - 1] - t) < tol:
        return k[i - 1]
    return t


def run(tier, seed, replay=None):
    t0 = time.time()
    V = C.Verdict(PID, tier, seed)
    l0 = C.l0_check(PID, thorough=(tier == 'thorough'))
    splipy = build_pyx.load_splipy()
    from splipy import BSplineBasis, state
    import numpy as np
    rng = random.Random(seed)
    nb = 500 if tier == 'quick' else 6000
    tolf = state.knot_tolerance
    tol = C.fr(tolf)
    cases = []
    if replay:
        import json
        rc = json.load(open(replay))
        rc = rc.get('case', rc)
        b = dict(order=rc['order'], knots=[Fr(x) for x in rc['knots']], periodic=rc['periodic'])
        cases.append((b, [(Fr(rc['t']), 'replay')], [rc['d']], [bool(rc['from_right'])]))
    else:
        for i in range(nb):
            b = G.gen_basis(rng, kind=('general' if i % 5 == 4 else None), big=(i % 17 == 0))
            pts = G.basis_points(rng, b, tol)
            ds = list(range(0, b['order'] + 2))
            if tier == 'quick' and len(ds) > 4:
                ds = [0, 1] + rng.sample(ds[2:], 2)
            cases.append((b, pts, ds, [True, False]))
    lines1, lines2, meta, impl = [], [], [], []
    dist = {'order': {}, 'kind': {}, 'd': {}, 'tag': {}, 'nfun': {}}
    rejected = 0
    for (b, pts, ds, sides) in cases:
        kf = [float(x) for x in b['knots']]
        if any(C.fr(x) != y for x, y in zip(kf, b['knots'])):
            rejected += 1
            continue
        try:
            basis = BSplineBasis(b['order'], kf, b['periodic'])
        except ValueError as e:
            V.failure({'what': 'constructor rejected a well-formed knot vector', 'case': dict(b, knots=[str(x) for x in b['knots']]), 'err': str(e)})
            continue
        tf = [float(x) for x, _ in pts]          # what the implementation receives
        te = [C.fr(x) for x in tf]               # exact value of that double
        n = basis.num_functions()
        for d in ds:
            for fr_ in sides:
                try:
                    N = basis.evaluate(tf, d, fr_)
                    Ns = basis.evaluate(tf, d, fr_, sparse=True)
                except Exception as e:  # noqa
                    # find one offending parameter for the replay
                    bad_t = None
                    for x_ in tf:
                        try:
                            basis.evaluate([x_], d, fr_)
                        except Exception:  # noqa
                            bad_t = x_
                            break
                    V.failure({'what': 'evaluate raised %s on a valid basis' % type(e).__name__,
                               'case': dict(b, knots=[str(x) for x in b['knots']]), 'd': d, 'from_right': fr_, 't': bad_t})
                    continue
                Nd = Ns.toarray() if hasattr(Ns, 'toarray') else np.asarray(Ns)
                impl.append((N, Nd))
                lines1.append('basis_evaluate %s %d %d %s %d %d %s' % (
                    C.qlist(b['knots']), b['order'], b['periodic'] + 1, C.qs(tol), d, int(fr_), C.qlist(te)))
                meta.append((b, pts, te, d, fr_))
                dist['order'][b['order']] = dist['order'].get(b['order'], 0) + len(te)
                dist['kind'][b.get('kind', '?')] = dist['kind'].get(b.get('kind', '?'), 0) + len(te)
                dist['d'][d] = dist['d'].get(d, 0) + len(te)
                dist['nfun'][n] = dist['nfun'].get(n, 0) + len(te)
                for _, tag in pts:
                    dist['tag'][tag] = dist['tag'].get(tag, 0) + 1
    out1 = C.run_model(lines1)
    # L2 lines: one ref_row per point
    l2idx = []
    for ci, (b, pts, te, d, fr_) in enumerate(meta):
        for pi, t in enumerate(te):
            ts = snap_py(b['knots'], t, tol)
            nm = statement_normalise(b, ts, fr_, tol)
            if nm is None or d >= b['order']:
                l2idx.append((ci, pi, None))
            else:
                l2idx.append((ci, pi, len(lines2)))
                lines2.append('ref_row %d %s %d %d %d %s' % (int(nm[1]), C.qlist(b['knots']), b['order'], b['periodic'] + 1, d, C.qs(nm[0])))
    out2 = C.run_model(lines2)
    evals = 0
    seen = set()
    nontriv = 0
    samples = []
    corr_bad = C.Corr()
    for ci, (b, pts, te, d, fr_) in enumerate(meta):
        N, Nd = impl[ci]
        rows = out1[ci].list(lambda: out1[ci].qlist())
        n = len(b['knots']) - b['order'] - (b['periodic'] + 1)
        if N.shape != (len(te), n):
            V.failure({'what': 'shape', 'shape': list(N.shape), 'expected': [len(te), n]})
            continue
        scale = float(max(1, *(abs(float(x)) for r in rows for x in r))) if rows and rows[0] else 1.0
        for pi, t in enumerate(te):
            evals += 1
            key = C.case_hash([b['order'], [str(x) for x in b['knots']], b['periodic'], str(t), d, fr_])
            if key not in seen:
                seen.add(key)
                if len(set(b['knots'])) > 2 or b['periodic'] >= 0 or d > 0:
                    nontriv += 1
            okrow = all(C.close(N[pi, j], rows[pi][j], scale) for j in range(n))
            oksp = all(abs(N[pi, j] - Nd[pi, j]) <= 1e-9 * max(1, scale) for j in range(n))
            if not okrow and corr_bad.open():
                corr_bad += {'what': 'L1 correspondence: impl row differs from transcribed model',
                            'case': dict(order=b['order'], knots=[str(x) for x in b['knots']], periodic=b['periodic'],
                                         t=str(t), d=d, from_right=fr_),
                            'impl': [float(x) for x in N[pi]], 'model': [str(x) for x in rows[pi]]}
            if not oksp:
                V.failure({'what': 'dense and sparse forms differ',
                           'case': dict(order=b['order'], knots=[str(x) for x in b['knots']], periodic=b['periodic'],
                                        t=str(t), d=d, from_right=fr_),
                           'dense': [float(x) for x in N[pi]], 'sparse': [float(x) for x in Nd[pi]]})
    for (ci, pi, li) in l2idx:
        b, pts, te, d, fr_ = meta[ci]
        N, _ = impl[ci]
        n = N.shape[1]
        if li is None:
            exp = [Fr(0)] * n
        else:
            exp = out2[li].qlist()
        scale = float(max([1] + [abs(float(x)) for x in exp]))
        bad = [j for j in range(n) if not C.close(N[pi, j], exp[j], scale)]
        extra = []
        if li is not None and d == 0:
            if any(N[pi, j] < -1e-12 for j in range(n)):
                extra.append('negative value')
            if abs(sum(N[pi]) - 1) > 1e-9:
                extra.append('row sum %r != 1' % float(sum(N[pi])))
        if bad or extra:
            V.failure({'what': 'L2: evaluate differs from the Cox-de Boor definition' + (' ' + ';'.join(extra) if extra else ''),
                       'case': dict(order=b['order'], knots=[str(x) for x in b['knots']], periodic=b['periodic'],
                                    t=str(te[pi]), t_hex=float(te[pi]).hex(), d=d, from_right=fr_),
                       'impl': [float(x) for x in N[pi]], 'expected': [str(x) for x in exp]})
        elif len(samples) < 4 and li is not None and len(set(b['knots'])) > 3 and d > 0:
            samples.append(dict(order=b['order'], knots=[str(x) for x in b['knots']], periodic=b['periodic'],
                                t=str(te[pi]), d=d, from_right=fr_, row=[str(x) for x in exp]))
    extra_no_input = corr_bad
    rc = V.finish(l0, extra_no_input)
    C.write_evidence(PID, tier, seed, l0, {
        'evaluations': evals, 'distinct_nontrivial': nontriv,
        'rule': 'structured generator (orders 1-7; open/non-open/periodic with every continuity, 0-6 interior knots, '
                'multiplicities 1..p; affine placements); points: every knot, mid-spans, random dyadics, knot +- {1/4,3/4,4} tol, '
                'outside/wrapped; d=0..p+1; both sides.  non-trivial = distinct (basis,t,d,side) with interior knots, periodic or d>0',
        'traces_validated_against_impl': evals,
        'input_distribution': {k: {str(a): b for a, b in sorted(v.items(), key=lambda x: str(x[0]))} for k, v in dist.items()},
        'rejected_inexact': rejected,
        'samples': samples or [{'note': 'no sample recorded'}],
    }, t0, V.nviol, assumptions=['knot_tolerance=%r' % tolf], known=V.known)
    return rc


if __name__ == '__main__':
    sys.exit(C.guarded_main(PID, run))
