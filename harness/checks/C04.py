"""C04 — knot insertion and refinement never change the geometry."""
import os
import random
import sys
import time
from fractions import Fraction as Fr

sys.path.insert(0, os.path.dirname(os.path.dirname(os.path.abspath(__file__))))
import common as C
import objs as O
import build_pyx

PID = 'C04'


def mult(b, x, tol):
    return sum(1 for k in b['knots'] if abs(k - x) < tol)


def wrap(b, x):
    s, e = O.domain(b)
    if b['periodic'] >= 0 and (x < s or x >= e):
        T = e - s
        return (x - s) - T * ((x - s) // T) + s
    return x


def periodic_consistent(b, tol):
    """ghost knots are the periodic images: k[j+n] - k[j] = T for the first p+per1 knots"""
    if b['periodic'] < 0:
        return True
    p, k = b['order'], b['knots']
    s, e = O.domain(b)
    T = e - s
    n = len(k) - p - (b['periodic'] + 1)
    if n < 1:
        return False
    for j in range(p + b['periodic'] + 1):
        if j + n < len(k) and abs(float(k[j + n] - k[j] - T)) > 1e-9 * max(1.0, abs(float(T))):
            return False
    return True


def choose_knots(rng, b, tol, count):
    """insertion values for one direction (exact Fractions that are exactly representable), each admissible
    (resulting multiplicity <= order)"""
    s, e = O.domain(b)
    p = b['order']
    out = []
    added = {}
    uniq = sorted(set(x for x in b['knots'] if s <= x <= e))
    for _ in range(count):
        kind = rng.choice(['new', 'new', 'existing', 'existing', 'outside', 'boundary', 'near'])
        if kind == 'existing' and len(uniq) > 2:
            x = rng.choice(uniq[1:-1])
        elif kind == 'near' and len(uniq) > 2:
            # the literal 0.7 next to the computed knot 7*0.1: within the knot tolerance of an existing knot, not equal to it
            x = rng.choice(uniq[1:-1]) + rng.choice([-1, -1, 1]) * Fr(1, 2 ** rng.choice([40, 36]))
        elif kind == 'boundary':
            x = rng.choice([s, e])
        elif kind == 'outside' and b['periodic'] >= 0:
            T = e - s
            x = s + T * Fr(rng.randint(1, 63), 64) + rng.choice([-2, -1, 1, 2]) * T
        else:
            x = s + (e - s) * Fr(rng.randint(1, 63), 64)
        xw = wrap(b, x)
        m = mult(b, xw, tol) + added.get(xw, 0)
        if b['periodic'] >= 0 and (abs(xw - s) < tol or abs(xw - e) < tol):
            m = mult(b, s, tol) + added.get(s, 0) + added.get(e, 0)   # the seam knot counts once per period
            m = max(mult(b, s, tol), mult(b, e, tol)) + added.get(s, 0) + added.get(e, 0)
        if m + 1 > p:
            continue
        added[xw] = added.get(xw, 0) + 1
        out.append(x)
    return out


def run(tier, seed, replay=None):
    t0 = time.time()
    V = C.Verdict(PID, tier, seed)
    O.FAR_PROB = 0.08     # some objects live far from the origin on compressed knot vectors
    l0 = C.l0_check(PID, thorough=(tier == 'thorough'))
    build_pyx.load_splipy()
    import numpy as np
    from splipy import state
    from splipy.utils import refinement
    rng = random.Random(seed)
    tolf = state.knot_tolerance
    tol = C.fr(tolf)
    nobj = 600 if tier == 'quick' else 5000
    cases = []
    dist = {'op': {}, 'pardim': {}, 'periodic_dir': {}, 'n_inserted': {}, 'errors': {}}
    if replay:
        import json
        rc = json.load(open(replay))
        rc = rc.get('case', rc)
        todo = [(O.spec_from_json(rc['obj']), rc)]
    else:
        todo = [(O.gen_obj(rng, kinds=['open', 'open', 'nonopen', 'periodic', 'periodic']), None) for _ in range(nobj)]
    for spec, forced in todo:
        pd = len(spec['bases'])
        o = O.make_impl(spec)
        pre = O.snapshot(o)
        if forced:
            op, d, xs, extra = forced['op'], forced['direction'], [Fr(x) for x in forced.get('knots', [])], forced.get('extra')
        else:
            d = rng.randrange(pd)
            op = rng.choice(['insert1', 'insert1', 'insertN', 'insertN', 'refine', 'refine_dir', 'graded'])
            extra = None
            xs = []
            if op == 'insert1':
                xs = choose_knots(rng, spec['bases'][d], tol, 1)
                if not xs:
                    continue
            elif op == 'insertN':
                xs = choose_knots(rng, spec['bases'][d], tol, rng.randint(2, 4))
                if not xs:
                    continue
            elif op in ('refine', 'refine_dir'):
                extra = rng.choice([1, 1, 3])
            else:
                extra = (rng.choice(['geometric', 'geometric', 'center', 'edge']), rng.choice([0.5, 0.8, 1.0, 1.1, 1.3]), rng.randint(1, 4), rng.random() < 0.4, rng.random() < 0.4)
        b = spec['bases'][d]
        dist['op'][op] = dist['op'].get(op, 0) + 1
        dist['pardim'][pd] = dist['pardim'].get(pd, 0) + 1
        dist['periodic_dir'][b['periodic'] >= 0] = dist['periodic_dir'].get(b['periodic'] >= 0, 0) + 1
        case = dict(op=op, direction=d, knots=[str(x) for x in xs], extra=extra, obj=O.spec_json(pre))
        err = None
        try:
            if op == 'insert1':
                ret = o.insert_knot(float(xs[0]), O.spell(rng, d))
            elif op == 'insertN':
                ret = o.insert_knot([float(x) for x in xs], O.spell(rng, d))
            elif op == 'refine':
                ret = o.refine(extra)
            elif op == 'refine_dir':
                ret = o.refine(extra, direction=O.spell(rng, d))
            else:
                kind, par, n, rev = extra[:4]
                twice = len(extra) > 4 and extra[4]
                # the utilities skip knots that already exist: a repeated identical call (or a uniform grading of an
                # already uniform direction) must be a no-op, not merely "usually" insert something
                for _rep in range(2 if twice else 1):
                    if kind == 'geometric':
                        ret = refinement.geometric_refine(o, par, n, O.spell(rng, d), rev)
                    elif kind == 'center':
                        ret = refinement.center_refine(o, par, n, O.spell(rng, d))
                    else:
                        ret = refinement.edge_refine(o, par, n, O.spell(rng, d))
            if ret is not o:
                V.failure(dict(case, what='in-place operation did not return the object itself'))
        except Exception as e:  # noqa
            err = type(e).__name__
            dist['errors'][err] = dist['errors'].get(err, 0) + 1
        if err is None and not O.finite(o):
            V.failure(dict(case, what='L2: knot insertion / refinement produced non-finite control points'))
            continue
        post = O.snapshot(o) if err is None else None
        cases.append(dict(case=case, pre=pre, post=post, err=err, op=op, d=d, xs=xs, extra=extra, spec=spec))
    # ---- model runs: L1 post-state, L2 map before/after
    lines = []
    idx = []
    for c in cases:
        pre, post = c['pre'], c['post']
        ent = {}
        if c['op'] in ('insert1', 'insertN'):
            ent['l1'] = len(lines)
            lines.append('obj_insert_knots %s %d %s' % (O.obj_tokens(pre), c['d'], C.qlist(c['xs'])))
        elif c['op'] in ('refine', 'refine_dir'):
            dirs = range(len(pre['bases'])) if c['op'] == 'refine' else [c['d']]
            ent['rk'] = []
            for dd in dirs:
                ent['rk'].append((dd, len(lines)))
                lines.append('refine_knots %s %s %d' % (C.qs(tol), O.basis_tokens(pre['bases'][dd]), c['extra']))
        if post is not None:
            pr = O.probe_tuples(rng, pre, tol)
            ent['probes'] = pr
            ent['ev_pre'] = len(lines)
            lines.append(O.eval_cmd(tol, pre, pr))
            ent['ev_post'] = len(lines)
            lines.append(O.eval_cmd(tol, post, pr))
        idx.append(ent)
    outs = C.run_model(lines)
    # second round for refine: model insertion of the model's refine knots
    lines2, idx2 = [], {}
    for ci, (c, ent) in enumerate(zip(cases, idx)):
        if 'rk' in ent:
            cur = None
            seqs = []
            for dd, li in ent['rk']:
                seqs.append((dd, outs[li].qlist()))
            ent['rk_vals'] = seqs
    # chain the refine insertions direction by direction through the model
    pending = [(ci, 0, c['pre']) for ci, (c, ent) in enumerate(zip(cases, idx)) if 'rk_vals' in ent]
    model_post = {}
    while pending:
        batch = []
        for (ci, step, cur) in pending:
            dd, vals = idx[ci]['rk_vals'][step]
            batch.append('obj_insert_knots %s %d %s' % (O.obj_tokens(cur), dd, C.qlist(vals)))
        res = C.run_model(batch)
        nxt = []
        for (ci, step, cur), tk in zip(pending, res):
            if tk.word() == 'Err':
                model_post[ci] = ('Err', tk.word())
                continue
            ob = O.read_obj(tk)
            if step + 1 < len(idx[ci]['rk_vals']):
                nxt.append((ci, step + 1, ob))
            else:
                model_post[ci] = ('Ok', ob)
        pending = nxt
    evals = 0
    nontriv = set()
    corr_bad = C.Corr()
    samples = []
    for ci, (c, ent) in enumerate(zip(cases, idx)):
        evals += 1
        case = c['case']
        pre, post = c['pre'], c['post']
        b = pre['bases'][c['d']]
        nontriv.add(C.case_hash(case))
        # --- L1
        mp = None
        if 'l1' in ent:
            tk = outs[ent['l1']]
            mp = ('Err', (tk.word(), tk.word())[1]) if tk.peek() == 'Err' else ('Ok', (tk.word(), O.read_obj(tk))[1])
        elif ci in model_post:
            mp = model_post[ci]
        if mp is not None:
            if mp[0] == 'Err':
                if c['err'] != mp[1] and corr_bad.open():
                    corr_bad += dict(case, what='L1: model raises %s, implementation %s' % (mp[1], c['err'] or 'succeeds'))
            elif c['err'] is not None:
                if corr_bad.open():
                    corr_bad += dict(case, what='L1: implementation raises %s, model succeeds' % c['err'])
            else:
                dfr = O.snaps_differ(post, mp[1])
                if dfr and corr_bad.open():
                    corr_bad += dict(case, what='L1: post-state differs from model: ' + dfr)
        # --- L2: the property itself
        if c['err'] is not None:
            V.failure(dict(case, what='L2: admissible knot insertion raised %s' % c['err']))
            continue
        d = c['d']
        va = O.parse_eval(outs[ent['ev_pre']])
        vb = O.parse_eval(outs[ent['ev_post']])
        df = O.maps_differ(va, vb)
        if df:
            V.failure(dict(case, what='L2: evaluated map changed by the insertion: ' + df[1], param=[str(x) for x in ent['probes'][df[0]]],
                           param_hex=[float(x).hex() for x in ent['probes'][df[0]]]))
            continue
        # structure: knots = old + inserted (wrapped), one more control point per knot, other directions untouched
        dirs = [d]
        if c['op'] == 'refine':
            dirs = list(range(len(pre['bases'])))
        ok_struct = True
        for dd in range(len(pre['bases'])):
            kb, ka = pre['bases'][dd]['knots'], post['bases'][dd]['knots']
            if dd not in dirs:
                if kb != ka or pre['shape'][dd] != post['shape'][dd]:
                    V.failure(dict(case, what='L2: direction %d was modified' % dd))
                    ok_struct = False
                continue
            nins = len(ka) - len(kb)
            if post['shape'][dd] - pre['shape'][dd] != nins:
                V.failure(dict(case, what='L2: control points grew by %d but knots by %d' % (post['shape'][dd] - pre['shape'][dd], nins)))
                ok_struct = False
            if any(float(ka[i + 1] - ka[i]) < -1e-12 for i in range(len(ka) - 1)):
                V.failure(dict(case, what='L2: knot vector not sorted after insertion', knots_after=[str(x) for x in ka]))
                ok_struct = False
            if not periodic_consistent(post['bases'][dd], tol):
                V.failure(dict(case, what='L2: periodic images inconsistent after insertion', knots_after=[str(x) for x in ka]))
                ok_struct = False
            if c['op'] in ('insert1', 'insertN'):
                if nins != len(c['xs']):
                    V.failure(dict(case, what='L2: %d knots inserted for %d requested' % (nins, len(c['xs']))))
                    ok_struct = False
                else:
                    s_, e_ = O.domain(pre['bases'][dd])
                    dom_b = sorted(x for x in kb if s_ <= x <= e_)
                    s2, e2 = O.domain(post['bases'][dd])
                    dom_a = sorted(x for x in ka if s2 <= x <= e2)
                    want = sorted(dom_b + [wrap(pre['bases'][dd], x) for x in c['xs']])
                    if pre['bases'][dd]['periodic'] >= 0:
                        # a seam insertion appears at both ends of the domain
                        want = sorted(dom_b + [wrap(pre['bases'][dd], x) for x in c['xs']] +
                                      [e_ if abs(wrap(pre['bases'][dd], x) - s_) < tol else s_ for x in c['xs']
                                       if abs(wrap(pre['bases'][dd], x) - s_) < tol or abs(wrap(pre['bases'][dd], x) - e_) < tol])
                    if len(dom_a) != len(want) or any(abs(float(x - y)) > 1e-9 * max(1.0, abs(float(y))) for x, y in zip(dom_a, want)):
                        V.failure(dict(case, what='L2: knot vector is not the old one plus the inserted values',
                                       knots_after=[str(x) for x in ka], expected_domain_knots=[str(x) for x in want]))
                        ok_struct = False
        dist['n_inserted'][sum(len(post['bases'][dd]['knots']) - len(pre['bases'][dd]['knots']) for dd in dirs)] = \
            dist['n_inserted'].get(sum(len(post['bases'][dd]['knots']) - len(pre['bases'][dd]['knots']) for dd in dirs), 0) + 1
        if ok_struct and len(samples) < 3 and b['periodic'] >= 0 and c['op'] == 'insertN':
            samples.append(case)
    rc = V.finish(l0, corr_bad)
    C.write_evidence(PID, tier, seed, l0, {
        'evaluations': evals, 'distinct_nontrivial': len(nontriv),
        'rule': 'random objects (pardim 1-3, open/non-open/periodic directions, rational 40%); operations: insert_knot single/list '
                '(existing knots, new values, domain ends, values outside a periodic domain), refine(n), refine(n,direction), '
                'geometric/center/edge refine; non-trivial = distinct (object, operation, arguments)',
        'traces_validated_against_impl': evals,
        'input_distribution': {k: {str(a): b for a, b in v.items()} for k, v in dist.items()},
        'samples': samples or [cases[0]['case']] if cases else [{'note': 'none'}],
    }, t0, V.nviol, assumptions=['knot_tolerance=%r' % tolf], known=V.known)
    return rc


if __name__ == '__main__':
    sys.exit(C.guarded_main(PID, run))
