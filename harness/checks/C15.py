"""C15 — boundary extraction and boundary-filling constructions agree with evaluation."""
import itertools
import os
import random
import sys
import time
from fractions import Fraction as Fr

sys.path.insert(0, os.path.dirname(os.path.dirname(os.path.abspath(__file__))))
import common as C
import objs as O
import build_pyx

PID = 'C15'


def run(tier, seed, replay=None):
    t0_ = time.time()
    V = C.Verdict(PID, tier, seed)
    O.FAR_PROB = 0.08     # some objects live far from the origin on compressed knot vectors
    # edge_curves closes its loop by comparing stored (homogeneous) end points with the absolute control-point tolerance:
    # a net uniformly scaled by 2^-30 is, by that definition, one point (C20: points within the tolerance are one vertex)
    O.TINY_WEIGHTS = False
    l0 = C.l0_check(PID, thorough=(tier == 'thorough'))
    build_pyx.load_splipy()
    import numpy as np
    from splipy import BSplineBasis, Curve, Surface, Volume, state
    from splipy import curve_factory as cf, surface_factory as sf, volume_factory as vf
    from splipy.utils import sections
    rng = random.Random(seed)
    tol = C.fr(state.knot_tolerance)
    reps = 90 if tier == 'quick' else 500
    dist = {'op': {}, 'pardim': {}, 'rational': {}, 'selector': {}}
    evals = 0
    nontriv = set()
    samples = []
    l1 = []

    def count(op, **kw):
        nonlocal evals
        evals += 1
        dist['op'][op] = dist['op'].get(op, 0) + 1
        for k, v in kw.items():
            dist[k][str(v)] = dist[k].get(str(v), 0) + 1

    def fail(op, args, what):
        V.failure({'what': '%s: %s' % (op, what), 'op': op, 'args': args})

    def close(a, b, rel=1e-9):
        a, b = np.asarray(a, dtype=float), np.asarray(b, dtype=float)
        return a.shape == b.shape and np.all(np.isfinite(a)) and np.max(np.abs(a - b), initial=0) <= rel * max(1.0, np.max(np.abs(b), initial=0))

    def continuous(spec):
        return all(max([b['knots'].count(k) for k in b['knots'][b['order']:-b['order']]] or [0]) < b['order'] for b in spec['bases'] if b['periodic'] < 0)

    def gen(pd, kinds=None, rational=None, dim=None, pmax=None):
        while True:
            s = O.gen_obj(rng, pardim=pd, kinds=kinds or ['open'], nint_max=2, pmax=pmax or {1: 4, 2: 4, 3: 3}[pd], dim=dim, rational=rational, big_periodic=True)
            if continuous(s):
                return s

    def rparams(o, fixed=None):
        """random parameter tuple of o; fixed: {direction: 0 or -1} pins a direction to its start/end"""
        out = []
        for d in range(o.pardim):
            if fixed and d in fixed:
                out.append(o.start(d) if fixed[d] == 0 else o.end(d))
            else:
                out.append(o.start(d) + (o.end(d) - o.start(d)) * rng.randint(0, 32) / 32.0)
        return out

    def same_map(a, b, n=5, rev=None):
        """two objects of equal pardim evaluate alike at matching relative parameters (rev: directions of b reversed)"""
        for _ in range(n):
            fr_ = [rng.randint(0, 16) / 16.0 for _ in range(a.pardim)]
            pa = [a.start(d) + (a.end(d) - a.start(d)) * f for d, f in enumerate(fr_)]
            pb = [b.start(d) + (b.end(d) - b.start(d)) * ((1 - f) if rev and d in rev else f) for d, f in enumerate(fr_)]
            va, vb = np.asarray(a.evaluate(*pa)).reshape(-1), np.asarray(b.evaluate(*pb)).reshape(-1)
            n_ = max(len(va), len(vb))
            va, vb = np.concatenate([va, np.zeros(n_ - len(va))]), np.concatenate([vb, np.zeros(n_ - len(vb))])
            if not close(va, vb, 1e-8):
                return False
        return True

    cpc_l1 = []
    el_cases = []
    # ---------------------------------------------------------------- sections, corners, edges, faces, const_par_curve
    for it in range(reps):
        pd = rng.choice([1, 2, 2, 3, 3])
        # fixed directions must be open (a periodic direction has no boundary); free directions may be periodic
        spec = gen(pd, kinds=['open', 'open', 'periodic'])
        o = O.make_impl(spec)
        per = [b['periodic'] >= 0 for b in spec['bases']]
        args0 = dict(obj=O.spec_json(spec))
        nontriv.add(C.case_hash(args0))
        sels = list(itertools.product([0, -1, None], repeat=pd))
        rng.shuffle(sels)
        for sel in sels[: (9 if tier == 'quick' else 27)]:
            if any(s is not None and per[d] for d, s in enumerate(sel)):
                continue
            kw = rng.random() < 0.3
            try:
                if kw:
                    sec = o.section(**{'uvw'[d]: s for d, s in enumerate(sel) if s is not None})
                else:
                    sec = o.section(*sel)
            except Exception as e:  # noqa
                fail('section', dict(args0, selector=list(sel), keyword=kw), 'raised %s' % type(e).__name__)
                continue
            count('section', pardim=pd, rational=spec['rational'], selector=sum(1 for s in sel if s is None))
            free = [d for d, s in enumerate(sel) if s is None]
            fixed = {d: s for d, s in enumerate(sel) if s is not None}
            ok = True
            for _ in range(3):
                p = rparams(o, fixed)
                want = np.asarray(o.evaluate(*p)).reshape(-1)
                if free:
                    if sec.pardim != len(free):
                        ok = False
                        break
                    got = np.asarray(sec.evaluate(*[p[d] for d in free])).reshape(-1)
                else:
                    got = np.asarray(sec, dtype=float).reshape(-1)
                    if spec['rational']:
                        got = got[:-1] / got[-1]
                if not close(got, want):
                    ok = False
                    break
            if not ok:
                fail('section', dict(args0, selector=list(sel), keyword=kw), 'the section does not evaluate to the object restricted to that boundary')
            if len(samples) < 2 and len(free) == 1 and pd == 3:
                samples.append(dict(op='section', selector=list(sel), **args0))
            if free and len(free) < pd and len(l1) < 400:
                l1.append(('section', spec, list(sel), O.snapshot(sec)))
        if any(per):
            continue
        # corners in both orders
        try:
            for order in ('C', 'F'):
                cs = np.asarray(o.corners(order=order))
                idx = list(itertools.product([0, -1], repeat=pd))
                if order == 'C':
                    idx = [tuple(reversed(i)) for i in idx]
                count('corners')
                for cpt, ix in zip(cs, idx):
                    want = np.asarray(o.evaluate(*[o.start(d) if i == 0 else o.end(d) for d, i in enumerate(ix)])).reshape(-1)
                    got = cpt[:-1] / cpt[-1] if spec['rational'] else cpt
                    if not close(got, want):
                        fail('corners', dict(args0, order=order), 'corner %s is not the object at that corner' % (ix,))
                        break
        except Exception as e:  # noqa
            fail('corners', args0, 'raised %s' % type(e).__name__)
        # documented orders of edges() / faces()
        try:
            if pd == 2:
                want = [{0: 0}, {0: -1}, {1: 0}, {1: -1}]
                got = o.edges()
                name = 'Surface.edges'
            elif pd == 3:
                want = [{0: 0}, {0: -1}, {1: 0}, {1: -1}, {2: 0}, {2: -1}]
                got = o.faces()
                name = 'Volume.faces'
            else:
                want, got, name = [], [], ''
            for fx, sec in zip(want, got):
                count(name)
                p = rparams(o, fx)
                free = [d for d in range(pd) if d not in fx]
                if not close(np.asarray(sec.evaluate(*[p[d] for d in free])).reshape(-1), np.asarray(o.evaluate(*p)).reshape(-1)):
                    fail(name, args0, 'entry for %s is not that boundary' % fx)
                    break
            if pd == 3:
                wantE = [{0: 0, 1: 0}, {0: -1, 1: 0}, {0: 0, 1: -1}, {0: -1, 1: -1}, {0: 0, 2: 0}, {0: -1, 2: 0}, {0: 0, 2: -1}, {0: -1, 2: -1},
                         {1: 0, 2: 0}, {1: -1, 2: 0}, {1: 0, 2: -1}, {1: -1, 2: -1}]
                # documented: (umin,vmin) (umax,vmin) (umin,vmax) (umax,vmax) (umin,wmin) ... (vmin,wmin) (vmax,wmin) (vmin,wmax) (vmax,wmax)
                for fx, sec in zip(wantE, o.edges()):
                    count('Volume.edges')
                    p = rparams(o, fx)
                    free = [d for d in range(pd) if d not in fx]
                    if not close(np.asarray(sec.evaluate(*[p[d] for d in free])).reshape(-1), np.asarray(o.evaluate(*p)).reshape(-1)):
                        fail('Volume.edges', args0, 'entry for %s is not that edge' % fx)
                        break
        except Exception as e:  # noqa
            fail('edges/faces', args0, 'raised %s' % type(e).__name__)
        if pd == 2:
            # parameter lines: the two ends of the domain (also of directions that are not clamped there: periodic seams,
            # non-open knot vectors), a knot, and a value between knots
            spec_c = gen(2, kinds=['open', 'periodic', 'nonopen'])
            oc = O.make_impl(spec_c)
            args_c = dict(obj=O.spec_json(spec_c))
            todo_c = []
            for d in range(2):
                b = spec_c['bases'][d]
                s_, e_ = O.domain(b)
                todo_c.append((d, float(s_)))
                # insert_knot(end()) on a non-open knot vector is the recorded finding C04-nonperiodic-end: not asked here
                nonopen_end = b['periodic'] < 0 and b['knots'][-1] > e_
                if not nonopen_end:
                    todo_c.append((d, float(e_)))
                todo_c.append((d, float(rng.choice(sorted(set(x for x in b['knots'] if s_ <= x <= e_ and not (nonopen_end and x == e_)))))))
                todo_c.append((d, float(s_ + (e_ - s_) * Fr(rng.randint(1, 31), 32))))
            for d, kv in todo_c:
                o, args0_keep = oc, args0
                args0 = args_c
                try:
                    cpc = o.const_par_curve(kv, d)
                    count('const_par_curve')
                    cpc_l1.append((O.snapshot(oc), C.fr(kv), d, O.snapshot(cpc), dict(args0, knot=kv, direction=d)))
                    for _ in range(3):
                        t = o.start(1 - d) + (o.end(1 - d) - o.start(1 - d)) * rng.randint(0, 16) / 16.0
                        p = [kv, t] if d == 0 else [t, kv]
                        if not close(np.asarray(cpc.evaluate(t)).reshape(-1), np.asarray(o.evaluate(*p)).reshape(-1), 1e-8):
                            fail('const_par_curve', dict(args0, knot=kv, direction=d), 'the curve is not the surface along that parameter line')
                            break
                except Exception as e:  # noqa
                    fail('const_par_curve', dict(args0, knot=kv, direction=d), 'raised %s' % type(e).__name__)
                args0 = args0_keep

    # ---------------------------------------------------------------- edge_curves (2 and 4), edge_surfaces (2 and 6)
    for it in range(reps):
        # two curves, possibly incompatible
        a, b = gen(1), gen(1)
        if rng.random() < 0.35:
            # the same order, the same break points and the same number of control points, but the repeated knot sits at a
            # different break point in the two curves (bases that differ only in WHERE the multiplicities are)
            p_ = rng.choice([3, 4])
            nb_ = rng.randint(3, 5)
            i1_, i2_ = rng.sample(range(1, nb_), 2)
            for sp_, im_ in ((a, i1_), (b, i2_)):
                kn_ = [Fr(0)] * p_
                for j_ in range(1, nb_):
                    kn_ += [Fr(j_)] * (2 if j_ == im_ else 1)
                kn_ += [Fr(nb_)] * p_
                sp_['bases'] = [dict(order=p_, knots=kn_, periodic=-1, kind='open')]
                ncp_ = len(kn_) - p_
                ncomp_ = len(sp_['cps'][0])
                sp_['cps'] = [[Fr(rng.randint(-16, 16), 2) if c_ < sp_['dim'] else Fr(rng.choice([1, 2, 3]), 2) for c_ in range(ncomp_)] for _ in range(ncp_)]
                if sp_['rational']:
                    sp_['cps'] = [[x_ * pt_[-1] for x_ in pt_[:-1]] + [pt_[-1]] for pt_ in sp_['cps']]
                sp_['ctor'] = 'raw'
        ca, cb = O.make_impl(a), O.make_impl(b)
        args = dict(curves=[O.spec_json(a), O.spec_json(b)])
        nontriv.add(C.case_hash(args))
        try:
            srf = sf.edge_curves(ca.clone(), cb.clone())
            count('edge_curves 2')
            e = srf.edges()
            if not (same_map(e[2], ca) and same_map(e[3], cb)):
                fail('edge_curves 2', args, 'the v-boundaries of the surface are not the two input curves')
        except Exception as e_:  # noqa
            fail('edge_curves 2', args, 'raised %s' % type(e_).__name__)
        # four curves: the boundary of a random surface, rotated / reversed / re-represented
        s = gen(2, rational=rng.random() < 0.3, dim=rng.choice([2, 3]))
        degenerate = rng.random() < 0.25
        if degenerate:
            # a triangular patch: one edge collapsed to a point, so two corners of the loop coincide (a greedy search for
            # "the curve that continues here" can then pick the wrong one of two candidates)
            n0_, n1_ = O.nfun(s['bases'][0]), O.nfun(s['bases'][1])
            which_ = rng.randrange(4)
            idx_ = {0: [i_ * n1_ for i_ in range(n0_)], 1: [i_ * n1_ + n1_ - 1 for i_ in range(n0_)],
                    2: list(range(n1_)), 3: [(n0_ - 1) * n1_ + j_ for j_ in range(n1_)]}[which_]
            for k_ in idx_:
                s['cps'][k_] = list(s['cps'][idx_[0]])
            s['ctor'] = 'raw'
        so = O.make_impl(s)
        e = so.edges()                      # umin(v), umax(v), vmin(u), vmax(u)
        loop = [e[2].clone(), e[1].clone(), e[3].clone().reverse(), e[0].clone().reverse()]   # bottom, right, top (reversed), left (reversed)
        rot = rng.randrange(4)
        loop = loop[rot:] + loop[:rot]
        flipped = []
        for i in range(4):
            if i > 0 and rng.random() < 0.4:     # the first curve fixes the direction of the loop
                loop[i].reverse()
                flipped.append(i)
        if rng.random() < 0.5:
            i = rng.randrange(4)
            loop[i].raise_order(1)
        if rng.random() < 0.5:
            i = rng.randrange(4)
            loop[i].refine(1)
        order = list(range(4))
        if flipped or rng.random() < 0.3:
            # any order that closes: keep the first, shuffle the rest (the routine searches for the continuation)
            rest = order[1:]
            rng.shuffle(rest)
            order = [0] + rest
        args = dict(surface=O.spec_json(s), rotation=rot, reversed=flipped, order=order, degenerate_edge=degenerate)
        nontriv.add(C.case_hash(args))
        try:
            given = [loop[i] for i in order]
            keep = [O.snapshot(c) for c in given]
            res = sf.edge_curves([c for c in given])
            count('edge_curves 4', rational=s['rational'])
            re_ = res.edges()
            # L1 (Model/EdgeLoop.v loop_order2): the end points the routine compares (stored control points after
            # make_splines_compatible), through the model of the search; its arrangement must be the one realised
            comp_ = [c.clone() for c in given]
            for i_ in range(4):
                for j_ in range(i_ + 1, 4):
                    Curve.make_splines_compatible(comp_[i_], comp_[j_])
            from splipy import state as st_
            el_cases.append(dict(args=args, given=given, edges=re_, line='edge_loop %s %s 4 %s' % (
                C.qs(st_.controlpoint_relative_tolerance), C.qs(st_.controlpoint_absolute_tolerance),
                ' '.join('%s %s' % (C.qlist(np.asarray(c_[0]).reshape(-1)), C.qlist(np.asarray(c_[-1]).reshape(-1))) for c_ in comp_))))
            for c in loop:
                if not any(same_map(c, x) or same_map(c, x, rev=[0]) for x in re_):
                    fail('edge_curves 4', args, 'an input curve is not an edge of the Coons patch')
                    break
            for c, k in zip(given, keep):
                if O.snaps_differ(k, O.snapshot(c), rel=0):
                    fail('edge_curves 4', args, 'an input curve was modified')
                    break
        except Exception as e_:  # noqa
            fail('edge_curves 4', args, 'raised %s' % type(e_).__name__)
        # two and six faces
        if it % 2 == 0:
            v = gen(3, rational=False, dim=3)
            vo = O.make_impl(v)
            fs = vo.faces()
            args = dict(volume=O.spec_json(v))
            try:
                r2 = vf.edge_surfaces(fs[4].clone(), fs[5].clone())
                count('edge_surfaces 2')
                f2 = r2.faces()
                if not (same_map(f2[4], fs[4]) and same_map(f2[5], fs[5])):
                    fail('edge_surfaces 2', args, 'the w-faces of the volume are not the two input surfaces')
                r6 = vf.edge_surfaces([f.clone() for f in fs])
                count('edge_surfaces 6')
                f6 = r6.faces()
                for i in range(6):
                    if not same_map(f6[i], fs[i]):
                        fail('edge_surfaces 6', args, 'face %d of the result is not input surface %d' % (i, i))
                        break
            except Exception as e_:  # noqa
                fail('edge_surfaces', args, 'raised %s' % type(e_).__name__)
        # two independent surfaces: any mix of rationality, orders, knot vectors and physical dimension, either one first
        sa_, sb_ = gen(2, rational=rng.random() < 0.5, dim=rng.choice([2, 3])), gen(2, rational=rng.random() < 0.5, dim=rng.choice([2, 3]))
        fa_, fb_ = O.make_impl(sa_), O.make_impl(sb_)
        args = dict(surfaces=[O.spec_json(sa_), O.spec_json(sb_)])
        nontriv.add(C.case_hash(args))
        try:
            r2 = vf.edge_surfaces(fa_.clone(), fb_.clone()) if rng.random() < 0.5 else vf.edge_surfaces([fa_.clone(), fb_.clone()])
            count('edge_surfaces 2 independent', rational=(sa_['rational'], sb_['rational']))
            f2 = r2.faces()
            if not (same_map(f2[4], fa_) and same_map(f2[5], fb_)):
                fail('edge_surfaces 2', args, 'the w-faces of the volume are not the two input surfaces')
            elif not same_map(r2.section(w=0), fa_) or not same_map(r2.section(w=-1), fb_):
                fail('edge_surfaces 2', args, 'the sections w=0 / w=-1 of the volume are not the two input surfaces')
        except Exception as e_:  # noqa
            fail('edge_surfaces 2', args, 'raised %s' % type(e_).__name__)

    # ---------------------------------------------------------------- extrude / thicken contain their generator
    for it in range(reps):
        c = gen(1, dim=rng.choice([2, 3]), rational=rng.random() < 0.3)
        co = O.make_impl(c)
        amount = [rng.randint(-4, 4) / 2.0 for _ in range(3)]
        if not any(amount):
            amount[2] = 1.0
        args = dict(curve=O.spec_json(c), amount=amount)
        nontriv.add(C.case_hash(args))
        try:
            ex = sf.extrude(co.clone(), amount)
            count('extrude curve')
            e = ex.edges()
            top = co.clone().set_dimension(3).translate(amount)
            if not (same_map(e[2], co) and same_map(e[3], top)):
                fail('extrude curve', args, 'the v=0 / v=1 edges are not the curve and its translate')
        except Exception as e_:  # noqa
            fail('extrude curve', args, 'raised %s' % type(e_).__name__)
        s = gen(2, dim=rng.choice([2, 3]), rational=rng.random() < 0.3)
        so = O.make_impl(s)
        args = dict(surface=O.spec_json(s), amount=amount)
        try:
            ev = vf.extrude(so.clone(), amount)
            count('extrude surface')
            f = ev.faces()
            top = so.clone().set_dimension(3).translate(amount)
            if not (same_map(f[4], so) and same_map(f[5], top)):
                fail('extrude surface', args, 'the w=0 / w=1 faces are not the surface and its translate')
        except Exception as e_:  # noqa
            fail('extrude surface', args, 'raised %s' % type(e_).__name__)
        # thicken (planar curve, constant amount): the curve is the centre line v = 1/2
        c2 = gen(1, dim=2, rational=False, pmax=4)
        c2o = O.make_impl(c2)
        tg = np.asarray(c2o.bases[0].greville())
        vel = np.asarray(c2o.derivative(tg))
        if np.min(np.linalg.norm(vel.reshape(len(tg), -1), axis=1)) < 1e-3:
            continue
        amt = rng.choice([0.25, 0.5, 1.0])
        args = dict(curve=O.spec_json(c2), amount=amt)
        try:
            th = sf.thicken(c2o.clone(), amt)
            count('thicken')
            bad = False
            # the result is parametrised over [0,1] x [0,1] (edge_curves normalises); compare at matching relative parameters
            rel = lambda t: th.start(0) + (th.end(0) - th.start(0)) * (t - c2o.start(0)) / (c2o.end(0) - c2o.start(0))  # noqa
            for _ in range(4):
                t = c2o.start(0) + (c2o.end(0) - c2o.start(0)) * rng.randint(0, 16) / 16.0
                mid = np.asarray(th.evaluate(rel(t), 0.5)).reshape(-1)
                if not close(mid, np.asarray(c2o.evaluate(t)).reshape(-1), 1e-7):
                    bad = True
            if bad:
                fail('thicken', args, 'the generating curve is not the centre line v = 1/2 of the thickened surface')
            # the two edges are at distance amount from the curve at the Greville points
            for t in tg:
                x = np.asarray(c2o.evaluate(t)).reshape(-1)
                for vv in (0.0, 1.0):
                    d = np.linalg.norm(np.asarray(th.evaluate(rel(t), vv)).reshape(-1) - x)
                    if abs(d - amt) > 1e-7 * max(1, amt):
                        bad = True
            if bad:
                fail('thicken', args, 'edge points at the Greville parameters are not at the requested distance')
        except Exception as e_:  # noqa
            fail('thicken', args, 'raised %s' % type(e_).__name__)

    # ---------------------------------------------------------------- L1: sections vs the extracted model
    corr_bad = C.Corr()

    # ---------------------------------------------------------------- L1: the four-curve loop search vs Model/EdgeLoop.v
    if el_cases:
        outs_ = C.run_model([c_['line'] for c_ in el_cases])
        for c_, tk in zip(el_cases, outs_):
            count('L1 edge_loop')
            if tk.word() != 'Ok':
                corr_bad += {'what': 'L1: edge_curves accepted four curves for which the model of the loop search raises', 'op': 'edge_curves 4', 'args': c_['args']}
                continue
            arr_ = tk.list(lambda: (tk.int(), tk.int()))
            e_ = c_['edges']            # umin, umax, vmin, vmax
            slots_ = [(e_[2], False), (e_[1], False), (e_[3], True), (e_[0], True)]     # bottom, right, top (reversed), left (reversed)
            for (i_, f_), (edge_, rev_) in zip(arr_, slots_):
                if not same_map(c_['given'][i_], edge_, rev=([0] if bool(f_) != rev_ else None)):
                    corr_bad += {'what': 'L1: edge_curves arranged the four curves differently from the model of the loop search (model: %s)' % (arr_,),
                                 'op': 'edge_curves 4', 'args': c_['args']}
                    break
    lines = []
    for kind, spec, sel, snap in l1[: (150 if tier == 'quick' else 100000)]:
        lines.append('obj_section %s %s' % (O.obj_tokens(spec), C.ilist([2 if s is None else (0 if s == 0 else 1) for s in sel])))
    outs = C.run_model(lines) if lines else []
    nl1 = 0
    for tk, (kind, spec, sel, snap) in zip(outs, l1):
        nl1 += 1
        mo = O.read_obj(tk)
        dfr = O.snaps_differ(snap, mo, rel=1e-12)
        if dfr and corr_bad.open():
            corr_bad += {'what': 'L1: section %s differs from the model: %s' % (sel, dfr), 'op': 'section', 'args': dict(obj=O.spec_json(spec), selector=sel)}
    # ---- L1: Surface.const_par_curve vs Model/ConstPar.v (insertion to multiplicity order-1, choice of the control-point row)
    tolq = C.fr(1e-10)
    clines = ['const_par_curve %s %s %s %d' % (C.qs(tolq), O.obj_tokens(sn), C.qs(kv), d) for (sn, kv, d, got, a_) in cpc_l1[: (200 if tier == 'quick' else 100000)]]
    couts = C.run_model(clines) if clines else []
    for tk, (sn, kv, d, got, a_) in zip(couts, cpc_l1):
        nl1 += 1
        if tk.word() != 'Ok':
            corr_bad += {'what': 'L1: the model of const_par_curve raises %s, the implementation returns a curve' % tk.word(), 'op': 'const_par_curve', 'args': a_}
            continue
        mo = O.read_obj(tk)
        dfr = O.snaps_differ(got, mo, rel=1e-9)
        if dfr:
            corr_bad += {'what': 'L1: const_par_curve differs from the model: %s' % dfr, 'op': 'const_par_curve', 'args': a_}
    dist['op']['L1 comparisons'] = nl1
    # ---- kernel-evaluated tie: surface_factory.coons_patch vs Model/CoonsLib.v (coons_patch_obj on Q, vm_compute)
    import vmtie as T
    ccases = []
    for _ in range(12 if tier == 'quick' else 120):
        def rknots(p_):
            inner = sorted(rng.sample(range(1, 8), rng.randint(0, 3)))
            a_, b_ = rng.choice([(0.0, 1.0), (1.0, 3.0), (-2.0, 2.0), (0.0, 4.0)])
            return [a_] * p_ + [a_ + (b_ - a_) * x_ / 8.0 for x_ in inner] + [b_] * p_
        pu, pv = rng.choice([2, 3, 4]), rng.choice([2, 3])
        bu_, bv_ = BSplineBasis(pu, rknots(pu)), BSplineBasis(pv, rknots(pv))
        n_, m_ = bu_.num_functions(), bv_.num_functions()
        dim_ = rng.choice([2, 3])
        rat_ = rng.random() < 0.4
        w_ = dim_ + (1 if rat_ else 0)

        def rpt():
            v_ = [rng.randint(-32, 32) / 8.0 for _c in range(dim_)]
            return v_ + ([rng.choice([1.0, 0.75, 1.25, 1.5])] if rat_ else [])
        c00, c10, c11, c01 = rpt(), rpt(), rpt(), rpt()
        net = lambda a_, k_, b_: np.array([a_] + [rpt() for _i in range(k_ - 2)] + [b_])
        bottom = Curve(bu_, net(c00, n_, c10), rat_)
        topf = Curve(bu_, net(c01, n_, c11), rat_)       # left to right; the factory wants it right to left
        leftf = Curve(bv_, net(c00, m_, c01), rat_)      # bottom to top; the factory wants it top to bottom
        right = Curve(bv_, net(c10, m_, c11), rat_)
        top, left = topf.clone().reverse(), leftf.clone().reverse()
        try:
            srf = sf.coons_patch(bottom.clone(), right.clone(), top.clone(), left.clone())
        except Exception as e:  # noqa
            corr_bad += {'what': 'vmtie coons: coons_patch raised %s on four compatible curves' % type(e).__name__, 'op': 'coons_patch'}
            continue
        count('vmtie coons_patch', rational=rat_)
        term = T.obj_close('coons_patch_obj %s %s %s %s' % (T.obj(bottom), T.obj(right), T.obj(top), T.obj(left)), srf, 1e-9)
        ccases.append(('coons_patch(bottom, right, top, left): orders %d,%d, %dx%d, dimension %d, rational %s' % (pu, pv, n_, m_, dim_, rat_), term,
                       dict(bottom=[bottom.knots(0, True).tolist(), bottom.controlpoints.tolist()],
                            right=[right.knots(0, True).tolist(), right.controlpoints.tolist()], top=[top.knots(0, True).tolist(), top.controlpoints.tolist()],
                            left=[left.knots(0, True).tolist(), left.controlpoints.tolist()], rational=rat_)))
    tie_c = T.report(V, corr_bad, 'coons', 'Model/CoonsLib.v coons_patch_obj', *T.run_tie('coons', ['Model.CoonsLib'], ccases))
    dist['op']['vmtie coons'] = tie_c['cases']
    rc = V.finish(l0, corr_bad)
    C.write_evidence(PID, tier, seed, l0, {
        'evaluations': evals, 'distinct_nontrivial': len(nontriv),
        'rule': 'random objects (pardim 1-3, rational or not, open in the fixed directions, periodic allowed in the free ones): every section selector incl. keyword forms, corners in both '
                'orders, edges()/faces() in the documented order, const_par_curve at knots and between; edge_curves of 2 (incompatible) curves and of the 4 boundary curves of a random surface '
                'given rotated / reversed / shuffled / re-represented; edge_surfaces of 2 and 6 faces of a random volume; extrude of curves and surfaces; thicken of planar curves; '
                'non-trivial = distinct inputs',
        'traces_validated_against_impl': evals,
        'input_distribution': {k: {str(a): b for a, b in v.items()} for k, v in dist.items()},
        'samples': samples or [{'ops': sorted(dist['op'])}],
    }, t0_, V.nviol, known=V.known)
    return rc


if __name__ == '__main__':
    sys.exit(C.guarded_main(PID, run))
