"""C09 — affine transformations commute with evaluation, weights untouched."""
import os
import random
import sys
import time
from fractions import Fraction as Fr
from math import atan2

sys.path.insert(0, os.path.dirname(os.path.dirname(os.path.abspath(__file__))))
import common as C
import objs as O
import build_pyx

PID = 'C09'
AXES = [((0, 0, 1), 1), ((0, 0, -1), 1), ((1, 0, 0), 1), ((0, 1, 0), 1), ((0, -1, 0), 1), ((1, 2, 2), 3), ((2, 3, 6), 7),
        ((-1, 4, 8), 9), ((0, 3, 4), 5), ((3, 0, -4), 5), ((2, -2, 1), 3), ((-2, -3, 6), 7)]
HALF_TANS = [Fr(0), Fr(1, 2), Fr(-1, 2), Fr(1, 3), Fr(2), Fr(-3), Fr(1), Fr(-1), Fr(3, 4), Fr(-5, 2), Fr(1, 7)]


def cross(a, b):
    return [a[1] * b[2] - a[2] * b[1], a[2] * b[0] - a[0] * b[2], a[0] * b[1] - a[1] * b[0]]


def expected_map(op, args, p, dim):
    """the affine map named by the operation, applied to the evaluated point p (list of Fractions);
    returns the new point (dimension may change)"""
    if op in ('translate', 'iadd', 'add', 'radd'):
        x = [Fr(v) for v in args['x']]
        q = list(p) + [Fr(0)] * max(0, len(x) - len(p))
        return [a + (x[i] if i < len(x) else 0) for i, a in enumerate(q)]
    if op in ('isub', 'sub'):
        x = [Fr(v) for v in args['x']]
        q = list(p) + [Fr(0)] * max(0, len(x) - len(p))
        return [a - (x[i] if i < len(x) else 0) for i, a in enumerate(q)]
    if op in ('scale', 'imul', 'mul', 'rmul'):
        s = [Fr(v) for v in args['s']]
        while len(s) < 3:
            s = s + [s[-1]]
        return [a * s[i] for i, a in enumerate(p)]
    if op in ('idiv', 'div'):
        s = [Fr(v) for v in args['s']]
        while len(s) < 3:
            s = s + [s[-1]]
        return [a / s[i] for i, a in enumerate(p)]
    if op == 'rotate':
        ch, sh = Fr(args['ch']), Fr(args['sh'])
        c, s = ch * ch - sh * sh, 2 * sh * ch
        n = [Fr(v) for v in args['normal']]
        inv = Fr(args['inv'])
        u = [v * inv for v in n]
        if dim == 2 and n[0] == 0 and n[1] == 0:
            sg = 1 if n[2] > 0 else -1
            s2 = s * sg
            return [p[0] * c - p[1] * s2, p[0] * s2 + p[1] * c]
        q = list(p) + [Fr(0)] * (3 - len(p))
        up = cross(u, q)
        dot = sum(a * b for a, b in zip(u, q))
        return [q[i] * c + up[i] * s + u[i] * dot * (1 - c) for i in range(3)]
    if op == 'mirror':
        n = [Fr(v) for v in args['normal']]
        inv = Fr(args['inv'])
        u = [v * inv for v in n]
        dot = sum(a * b for a, b in zip(u, p))
        return [p[i] - 2 * dot * u[i] for i in range(3)]
    if op == 'project':
        keep = ['x' in args['plane'].lower(), 'y' in args['plane'].lower(), 'z' in args['plane'].lower()]
        return [a if keep[i] else Fr(0) for i, a in enumerate(p)]
    if op == 'set_dimension':
        nd = args['dim']
        return (list(p) + [Fr(0)] * nd)[:nd]
    if op == 'force_rational':
        return list(p)
    raise KeyError(op)


def divisor(args):
    """the divisor of / and /= in the spelling the case asks for"""
    import numpy as np
    vals = [Fr(v) for v in args['s']]
    form = args.get('form', 'scalar')
    if form == 'scalar':
        return float(vals[0])
    if form == 'list':
        return [int(v) if v.denominator == 1 else float(v) for v in vals]
    if form == 'tuple':
        return tuple(int(v) if v.denominator == 1 else float(v) for v in vals)
    if form == 'intarray':
        return np.array([int(v) for v in vals])
    return np.array([float(v) for v in vals])


def run(tier, seed, replay=None):
    t0 = time.time()
    V = C.Verdict(PID, tier, seed)
    l0 = C.l0_check(PID, thorough=(tier == 'thorough'))
    build_pyx.load_splipy()
    import numpy as np
    from splipy import state
    rng = random.Random(seed)
    tol = C.fr(state.knot_tolerance)
    nobj = 300 if tier == 'quick' else 2500
    hist_len = 4 if tier == 'quick' else 6
    steps = []
    dist = {'op': {}, 'dim': {}, 'rational': {}, 'errors': {}}
    if replay:
        import json
        rc = json.load(open(replay))
        rc = rc.get('case', rc)
        specs = [O.spec_from_json(rc['obj'])]
        forced = rc
    else:
        specs = [O.gen_obj(rng, kinds=['open', 'open', 'periodic'], dim=rng.choice([1, 2, 2, 3, 3])) for _ in range(nobj)]
        forced = None
    OPS = ['translate', 'translate', 'scale', 'scale', 'rotate', 'rotate', 'mirror', 'project', 'set_dimension', 'force_rational',
           'iadd', 'isub', 'imul', 'idiv', 'add', 'radd', 'sub', 'mul', 'rmul', 'div']
    for spec in specs:
        o = O.make_impl(spec)
        for stepno in range(1 if forced else hist_len):
            pre = O.snapshot(o)
            dim = pre['dim']
            if forced:
                op, args = forced['op'], forced['args']
            else:
                op = rng.choice(OPS)
                args = {}
                if op in ('translate', 'iadd', 'isub', 'add', 'radd', 'sub'):
                    n = rng.choice([dim, dim, dim, 3, max(1, dim - 1)]) if op == 'translate' else rng.choice([dim, dim, 3])
                    args['x'] = [str(Fr(rng.randint(-40, 40), rng.choice([1, 2, 4]))) for _ in range(n)]
                elif op in ('scale', 'imul', 'mul', 'rmul'):
                    if op == 'scale' and rng.random() < 0.5:
                        args['s'] = [str(rng.choice([Fr(2), Fr(-1), Fr(1, 2), Fr(0), Fr(3), Fr(-3, 2)])) for _ in range(rng.choice([2, 3]))]
                        args['form'] = rng.choice(['args', 'list'])
                    else:
                        args['s'] = [str(rng.choice([Fr(2), Fr(-1), Fr(1, 2), Fr(3), Fr(-3, 2), Fr(1, 4)]))]
                        args['form'] = 'scalar'
                elif op in ('idiv', 'div'):
                    args['s'] = [str(rng.choice([Fr(2), Fr(-4), Fr(1, 2), Fr(8)]))]
                    args['form'] = 'scalar'
                    if rng.random() < 0.5:
                        # one divisor per physical direction, as an integer or float array
                        args['s'] = [str(Fr(rng.choice([2, 4, -2, 5, 1, 8]))) for _ in range(dim)]
                        args['form'] = rng.choice(['intarray', 'intarray', 'floatarray'])   # 1.0 / x: arrays only, lists are not supported by the library
                elif op == 'rotate':
                    m = rng.choice(HALF_TANS)
                    ch, sh = (1 - m * m) / (1 + m * m), 2 * m / (1 + m * m)
                    ax, nrm = rng.choice(AXES[:2] * 3 + AXES) if dim == 2 else rng.choice(AXES)
                    lam = rng.choice([Fr(1), Fr(1), Fr(2), Fr(1, 2), Fr(3), Fr(1, 2 ** 32), Fr(2 ** 20), Fr(3, 2 ** 30)])   # the axis is a direction: any length
                    args = dict(ch=str(ch), sh=str(sh), normal=[str(lam * a) for a in ax], inv=str(1 / (lam * nrm)))
                elif op == 'mirror':
                    ax, nrm = rng.choice(AXES)
                    lam = rng.choice([Fr(1), Fr(2), Fr(1, 2), Fr(-3), Fr(1, 2 ** 32), Fr(-2 ** 20)])
                    args = dict(normal=[str(lam * a) for a in ax], inv=str(1 / (abs(lam) * nrm)))
                elif op == 'project':
                    args['plane'] = rng.choice(['xy', 'XZ', 'yz', 'x', 'y', 'z', 'xyz', 'Yx'])
                elif op == 'set_dimension':
                    args['dim'] = rng.choice([1, 2, 3, 3])
            dist['op'][op] = dist['op'].get(op, 0) + 1
            dist['dim'][dim] = dist['dim'].get(dim, 0) + 1
            dist['rational'][pre['rational']] = dist['rational'].get(pre['rational'], 0) + 1
            case = dict(op=op, args=args, obj=O.spec_json(pre))
            err = None
            result = o
            try:
                if op == 'translate':
                    ret = o.translate([float(Fr(v)) for v in args['x']])
                elif op == 'scale':
                    vals = [float(Fr(v)) for v in args['s']]
                    ret = o.scale(vals[0]) if args['form'] == 'scalar' else (o.scale(*vals) if args['form'] == 'args' else o.scale(vals))
                elif op == 'rotate':
                    theta = 2 * atan2(float(Fr(args['sh'])), float(Fr(args['ch'])))
                    ret = o.rotate(theta, tuple(float(Fr(v)) for v in args['normal']))
                elif op == 'mirror':
                    ret = o.mirror([float(Fr(v)) for v in args['normal']])
                elif op == 'project':
                    ret = o.project(args['plane'])
                elif op == 'set_dimension':
                    ret = o.set_dimension(args['dim'])
                elif op == 'force_rational':
                    ret = o.force_rational()
                elif op == 'iadd':
                    o += [float(Fr(v)) for v in args['x']]
                    ret = o
                elif op == 'isub':
                    o -= [float(Fr(v)) for v in args['x']]
                    ret = o
                elif op == 'imul':
                    o *= float(Fr(args['s'][0]))
                    ret = o
                elif op == 'idiv':
                    o /= divisor(args)
                    ret = o
                else:
                    before_bytes = o.controlpoints.tobytes()
                    if op == 'add':
                        result = o + [float(Fr(v)) for v in args['x']]
                    elif op == 'radd':
                        result = [float(Fr(v)) for v in args['x']] + o
                    elif op == 'sub':
                        result = o - [float(Fr(v)) for v in args['x']]
                    elif op == 'mul':
                        result = o * float(Fr(args['s'][0]))
                    elif op == 'rmul':
                        result = float(Fr(args['s'][0])) * o
                    elif op == 'div':
                        result = o / divisor(args)
                    ret = o
                    if result is o or o.controlpoints.tobytes() != before_bytes:
                        V.failure(dict(case, what='infix operator modified or returned its operand'))
                if op not in ('add', 'radd', 'sub', 'mul', 'rmul', 'div') and ret is not o:
                    V.failure(dict(case, what='in-place operation %s did not return the object itself' % op))
            except Exception as e:  # noqa
                err = type(e).__name__
                dist['errors'][err] = dist['errors'].get(err, 0) + 1
            post = O.snapshot(result) if err is None else None
            steps.append(dict(case=case, pre=pre, post=post, err=err, op=op, args=args))
            if err is not None:
                break
            o = result if op in ('add', 'radd', 'sub', 'mul', 'rmul', 'div') else o
    lines, idx = [], []
    for st in steps:
        pre, op, a = st['pre'], st['op'], st['args']
        ent = {'l1': len(lines)}
        ot = O.obj_tokens(pre)
        if op in ('translate', 'iadd', 'add', 'radd'):
            lines.append('obj_translate %s %s' % (ot, C.qlist([Fr(v) for v in a['x']])))
        elif op in ('isub', 'sub'):
            lines.append('obj_translate %s %s' % (ot, C.qlist([-Fr(v) for v in a['x']])))
        elif op in ('scale', 'imul', 'mul', 'rmul'):
            lines.append('obj_scale %s %s' % (ot, C.qlist([Fr(v) for v in a['s']])))
        elif op in ('idiv', 'div'):
            lines.append('obj_scale %s %s' % (ot, C.qlist([C.fr(1.0 / float(Fr(v))) for v in a['s']])))
        elif op == 'rotate':
            lines.append('obj_rotate %s %s %s %s %s' % (ot, C.qs(Fr(a['ch'])), C.qs(Fr(a['sh'])), C.qlist([Fr(v) for v in a['normal']]), C.qs(Fr(a['inv']))))
        elif op == 'mirror':
            lines.append('obj_mirror %s %s %s' % (ot, C.qlist([Fr(v) for v in a['normal']]), C.qs(Fr(a['inv']))))
        elif op == 'project':
            keep = [int(ch in a['plane'].lower()) for ch in 'xyz']
            lines.append('obj_project %s %s' % (ot, C.ilist(keep)))
        elif op == 'set_dimension':
            lines.append('obj_set_dimension %s %d' % (ot, a['dim']))
        elif op == 'force_rational':
            lines.append('obj_force_rational %s' % ot)
        if st['err'] is None:
            pr = O.probe_tuples(rng, pre, tol, n_random=2, with_outside_periodic=False)[:8]
            ent['probes'] = pr
            ent['ev_pre'] = len(lines)
            lines.append(O.eval_cmd(tol, pre, pr))
            ent['ev_post'] = len(lines)
            lines.append(O.eval_cmd(tol, st['post'], pr))
        idx.append(ent)
    outs = C.run_model(lines)
    evals = 0
    nontriv = set()
    corr_bad = C.Corr()
    samples = []
    for st, ent in zip(steps, idx):
        evals += 1
        case, pre, post, op, a = st['case'], st['pre'], st['post'], st['op'], st['args']
        nontriv.add(C.case_hash(case))
        tk = outs[ent['l1']]
        if op in ('project', 'set_dimension', 'force_rational'):
            mp = ('Ok', O.read_obj(tk))
        else:
            mp = ('Err', (tk.word(), tk.word())[1]) if tk.peek() == 'Err' else ('Ok', (tk.word(), O.read_obj(tk))[1])
        if mp[0] == 'Err':
            if st['err'] != mp[1] and corr_bad.open():
                corr_bad += dict(case, what='L1: model raises %s, implementation %s' % (mp[1], st['err'] or 'succeeds'))
        elif st['err'] is not None:
            if corr_bad.open():
                corr_bad += dict(case, what='L1: implementation raises %s, model succeeds' % st['err'])
        else:
            dfr = O.snaps_differ(post, mp[1])
            if dfr and corr_bad.open():
                corr_bad += dict(case, what='L1: post-state differs from model: ' + dfr)
        # ---- L2
        dim = pre['dim']
        if st['err'] is not None:
            ok = False
            if op == 'mirror' and dim != 3 and st['err'] == 'RuntimeError':
                ok = True
            if op == 'rotate' and dim == 1 and Fr(a['normal'][0]) == 0 and Fr(a['normal'][1]) == 0 and st['err'] == 'RuntimeError':
                ok = True   # documented: rotation undefined for geometries other than 2D and 3D
            if op in ('translate', 'iadd', 'isub', 'add', 'radd', 'sub') and len(a['x']) < dim:
                ok = True   # a vector shorter than the dimension is not an admissible argument
            if op == 'scale' and len(a['s']) == 2 and dim == 3 and a.get('form') != 'scalar':
                ok = False
            if not ok:
                V.failure(dict(case, what='L2: %s raised %s' % (op, st['err'])))
            continue
        if op == 'mirror' and dim != 3:
            V.failure(dict(case, what='L2: mirror of a %d-D object did not raise' % dim))
            continue
        va = O.parse_eval(outs[ent['ev_pre']])
        vb = O.parse_eval(outs[ent['ev_post']])
        bad = None
        for i, ((ea, pa), (eb, pb)) in enumerate(zip(va, vb)):
            if ea or eb:
                bad = (i, 'evaluation error %s/%s' % (ea, eb))
                break
            exp = expected_map(op, a, pa, dim)
            if len(exp) != len(pb):
                bad = (i, 'dimension %d, expected %d' % (len(pb), len(exp)))
                break
            sc = max([1.0] + [abs(float(x)) for x in exp])
            if any(abs(float(x - y)) > 1e-9 * sc for x, y in zip(exp, pb)):
                bad = (i, 'point %s, expected %s' % ([float(x) for x in pb], [float(x) for x in exp]))
                break
        if bad:
            V.failure(dict(case, what='L2: %s does not commute with evaluation: %s' % (op, bad[1]), param=[str(x) for x in ent['probes'][bad[0]]]))
            continue
        # weights and parametrisation untouched
        if [b['knots'] for b in pre['bases']] != [b['knots'] for b in post['bases']] or \
           [(b['order'], b['periodic']) for b in pre['bases']] != [(b['order'], b['periodic']) for b in post['bases']]:
            V.failure(dict(case, what='L2: %s changed the parametrisation' % op))
        if pre['rational'] and post['rational'] and [p[-1] for p in pre['cps']] != [p[-1] for p in post['cps']]:
            V.failure(dict(case, what='L2: %s changed the weights' % op))
        if op == 'force_rational' and not post['rational']:
            V.failure(dict(case, what='L2: force_rational left the object non-rational'))
        if len(samples) < 3 and op == 'rotate' and pre['rational']:
            samples.append(case)
    rc = V.finish(l0, corr_bad)
    C.write_evidence(PID, tier, seed, l0, {
        'evaluations': evals, 'distinct_nontrivial': len(nontriv),
        'rule': 'random objects (dim 1-3, rational 40%%, pardim 1-3); histories of %d operations: translate (shorter/equal/longer vectors), '
                'scale (scalar, per-axis args/list, negative, zero), rotate (rational half-angle tangents in all quadrants; axes from Pythagorean '
                'triples and coordinate axes, scaled), mirror, project, set_dimension, force_rational, += -= *= /= and infix + - * / (both sides); '
                'non-trivial = distinct (pre-state, op, args)' % hist_len,
        'traces_validated_against_impl': evals,
        'input_distribution': {k: {str(a): b for a, b in v.items()} for k, v in dist.items()},
        'samples': samples or [steps[0]['case']],
    }, t0, V.nviol, assumptions=['trig oracle: angles with rational half-angle cosine/sine'], known=V.known)
    return rc


if __name__ == '__main__':
    sys.exit(C.guarded_main(PID, run))
