"""C03 — derivatives are the true partial derivatives of the evaluated map."""
import itertools
import os
import random
import sys
import time
from fractions import Fraction as Fr
from math import comb

sys.path.insert(0, os.path.dirname(os.path.dirname(os.path.abspath(__file__))))
import common as C
import objs as O
import build_pyx

PID = 'C03'


def leibniz_quotient(h, alpha, dim):
    """exact derivative of order alpha (multi-index) of n/W from homogeneous derivative values
    h[beta] = list of dim+1 Fractions for every beta <= alpha"""
    pd = len(alpha)
    Q = {}
    W0 = h[(0,) * pd][dim]
    if W0 == 0:
        return None
    for a in itertools.product(*[range(x + 1) for x in alpha]):   # lexicographic: every beta < a precedes a
        acc = [h[a][c] for c in range(dim)]
        for b in itertools.product(*[range(x + 1) for x in a]):
            if not any(b):
                continue
            cf = 1
            for x, y in zip(a, b):
                cf *= comb(x, y)
            rest = tuple(x - y for x, y in zip(a, b))
            for c in range(dim):
                acc[c] -= cf * h[b][dim] * Q[rest][c]
        Q[a] = [x / W0 for x in acc]
    return Q[tuple(alpha)]


def jump_at(b, t, tol):
    """the parameter is (within tol of) an interior knot of multiplicity >= order: the object itself
    may jump there, so a one-sided derivative of 'the evaluated map' is not defined"""
    s_, e_ = O.domain(b)
    m = sum(1 for x in b['knots'] if abs(x - t) < tol)
    return m >= b['order'] and s_ < t < e_


def run(tier, seed, replay=None):
    t0 = time.time()
    V = C.Verdict(PID, tier, seed)
    # derivatives of a rational object whose extent is 1e-6 of its distance from the origin lose that many digits in
    # double precision (cancellation in the quotient rule): a statement about rounding, not about the formula checked here
    O.OFFSET_PROB = 0.0
    l0 = C.l0_check(PID, thorough=(tier == 'thorough'))
    build_pyx.load_splipy()
    import numpy as np
    from splipy import state
    rng = random.Random(seed)
    tolf = state.knot_tolerance
    tol = C.fr(tolf)
    nobj = 400 if tier == 'quick' else 3000
    Q = []       # queries: dict(snap, alpha, ab (list per dir), abt, spelling, tensor, tuples, impl (array or None), err)
    dist = {'pardim': {}, 'total_order': {}, 'rational': {}, 'spelling': {}, 'errors': {}, 'above': {}}
    if replay:
        import json
        rc = json.load(open(replay))
        rc = rc.get('case', rc)
        todo = [(O.spec_from_json(rc['obj']), rc)]
    else:
        todo = [(O.gen_obj(rng, kinds=['open', 'open', 'nonopen', 'periodic']), None) for _ in range(nobj)]
    for spec, forced in todo:
        o = O.make_impl(spec)
        snap = O.snapshot(o)
        pd = len(spec['bases'])
        dist['pardim'][pd] = dist['pardim'].get(pd, 0) + 1
        dist['rational'][spec['rational']] = dist['rational'].get(spec['rational'], 0) + 1
        # periodic directions accept any real parameter: images of interior points and of the seam itself (where both
        # one-sided limits are asked for) are part of the domain of derivative() too
        dpts = [[q for q in O.dir_points(rng, b, tol, outside=True) if q[1] not in ('fuzz', 'out')] for b in spec['bases']]
        reqs = []
        if forced:
            reqs.append((tuple(forced['alpha']), forced['above'], forced.get('spelling', 'tuple'), forced.get('tensor', True),
                         [tuple(Fr(x) for x in forced['params'])]))
        else:
            orders = [b['order'] for b in spec['bases']]
            for _ in range(5):
                alpha = tuple(rng.choice([0, 0, 1, 1, 2, 3, p + 1]) for p in orders)
                if sum(alpha) > 4:
                    alpha = tuple(min(a, 1) for a in alpha)
                abk = rng.choice(['true', 'false', 'tuple'])
                if abk == 'true':
                    above = True
                elif abk == 'false':
                    above = False
                else:
                    above = tuple(rng.random() < 0.5 for _ in range(pd))
                if pd == 1 and isinstance(above, tuple):
                    above = above[0]
                spelling = rng.choice(['tuple', 'list', 'int']) if pd > 1 else rng.choice(['int', 'tuple'])
                tensor = True if pd == 1 else (rng.random() < 0.7)
                npts = rng.choice([1, 2])
                if tensor:
                    grids = [[rng.choice(d)[0] for _ in range(npts)] for d in dpts]
                    tuples = list(itertools.product(*grids))
                    reqs.append((alpha, above, spelling, tensor, tuples, grids))
                else:
                    cols = [[rng.choice(d)[0] for _ in range(npts)] for d in dpts]
                    tuples = list(zip(*cols))
                    reqs.append((alpha, above, spelling, tensor, tuples, cols))
        for rq in reqs:
            alpha, above, spelling, tensor, tuples = rq[:5]
            lists = rq[5] if len(rq) > 5 else [[tp[k]] for tp in tuples[:1] for k in range(pd)]
            if spelling == 'int' and len(set(alpha)) > 1:
                spelling = 'tuple'
            dval = {'tuple': tuple(alpha), 'list': list(alpha), 'int': alpha[0]}[spelling]
            if pd == 1 and spelling == 'tuple':
                dval = (alpha[0],)
            ab_list = list(above) if isinstance(above, tuple) else [bool(above)] * pd
            # the limit from below does not exist at the start of a non-periodic domain: never ask for it
            changed = False
            for k_, b_ in enumerate(spec['bases']):
                s_k, _e = O.domain(b_)
                if b_['periodic'] < 0 and not ab_list[k_] and any(abs(tp[k_] - s_k) < tol for tp in tuples):
                    ab_list[k_] = True
                    changed = True
            if changed:
                above = ab_list[0] if pd == 1 else tuple(ab_list)
            abt = bool(above) if not isinstance(above, tuple) else (len(above) > 0)
            args = [[float(x) for x in g] for g in lists]
            dist['total_order'][sum(alpha)] = dist['total_order'].get(sum(alpha), 0) + 1
            dist['spelling'][spelling] = dist['spelling'].get(spelling, 0) + 1
            dist['above'][str(type(above).__name__)] = dist['above'].get(str(type(above).__name__), 0) + 1
            ent = dict(snap=snap, alpha=tuple(alpha), ab=ab_list, abt=abt, above=above, spelling=spelling, tensor=tensor,
                       tuples=[tuple(C.fr(float(x)) for x in tp) for tp in tuples])
            try:
                if pd == 1:
                    res = o.derivative(args[0], d=dval, above=above)
                else:
                    res = o.derivative(*args, d=dval, above=above, tensor=tensor)
                res = np.asarray(res, dtype=float)
                if pd == 1 and tuple(res.shape) != (len(args[0]), spec['dim']):
                    # "returns an n x dim array" for a list of n parameters, whatever the order of the derivative
                    V.failure({'what': 'derivative of a curve at a list of %d parameters has shape %s, expected (%d, %d)'
                                       % (len(args[0]), list(res.shape), len(args[0]), spec['dim']),
                               'obj': O.spec_json(snap), 'alpha': list(alpha), 'op': 'derivative'})
                ent['impl'] = res.reshape(-1, spec['dim'])
                if ent['impl'].shape[0] != len(tuples):
                    V.failure({'what': 'derivative result has wrong number of points', 'shape': list(res.shape),
                               'obj': O.spec_json(snap), 'alpha': list(alpha)})
                    continue
                ent['err'] = None
            except Exception as e:  # noqa
                ent['impl'] = None
                ent['err'] = type(e).__name__
                dist['errors'][ent['err']] = dist['errors'].get(ent['err'], 0) + 1
            Q.append(ent)
    # ---- L1: model of the dispatch (generic routine / regenerated closed forms)
    lines = []
    for q in Q:
        s, a = q['snap'], q['alpha']
        pd = len(s['bases'])
        pts = '%d %s' % (len(q['tuples']), ' '.join(C.qlist(tp) for tp in q['tuples']))
        if pd == 1:
            lines.append('curve_deriv %s %s %d %d %s' % (C.qs(tol), O.obj_tokens(s), a[0], int(q['ab'][0]), C.qlist([tp[0] for tp in q['tuples']])))
        elif pd == 2:
            lines.append('surface_deriv %s %s %d %d %s %s' % (C.qs(tol), O.obj_tokens(s), a[0], a[1], C.ilist([int(x) for x in q['ab']]), pts))
        else:
            lines.append('obj_deriv %s %s %s %s %s' % (C.qs(tol), O.obj_tokens(s), C.ilist(a), C.ilist([int(x) for x in q['ab']]), pts))
    outs = C.run_model(lines)
    # ---- L2: exact jets from homogeneous derivative values
    l2 = []
    l2idx = []
    for qi, q in enumerate(Q):
        s, a = q['snap'], q['alpha']
        betas = list(itertools.product(*[range(x + 1) for x in a])) if s['rational'] else [tuple(a)]
        if s['rational'] and sum(a) > 4:
            betas = []
        pts = '%d %s' % (len(q['tuples']), ' '.join(C.qlist(tp) for tp in q['tuples']))
        start = len(l2)
        for b in betas:
            l2.append('eval_h %s %s %s %s %s' % (C.qs(tol), O.obj_tokens(s), C.ilist(b), C.ilist([int(x) for x in q['ab']]), pts))
        l2idx.append((start, betas))
    outs2 = C.run_model(l2)
    evals = 0
    skipped_jump = 0
    nontriv = set()
    corr_bad = C.Corr()
    samples = []
    for qi, q in enumerate(Q):
        s, a = q['snap'], q['alpha']
        dim = s['dim']
        tk = outs[qi]
        n = tk.int()
        model_err = None
        model_vals = []
        for ti in range(n):
            tag = tk.word()
            if tag == 'Err':
                model_err = tk.word()
                model_vals.append(None)
            else:
                model_vals.append(tk.qlist())
        case = {'obj': O.spec_json(s), 'alpha': list(a), 'above': q['above'], 'spelling': q['spelling'], 'tensor': q['tensor'],
                'params': [str(x) for x in q['tuples'][0]]}
        # L1 comparison
        if q['err'] is not None:
            if model_err is None and corr_bad.open():
                corr_bad += dict(case, what='L1: implementation raises %s, model returns values' % q['err'])
        else:
            if model_err is not None:
                if corr_bad.open():
                    corr_bad += dict(case, what='L1: model raises %s, implementation returns values' % model_err)
            else:
                for ti in range(n):
                    mv = model_vals[ti]
                    sc = max([1.0] + [abs(float(x)) for x in mv])
                    if not all(C.close(q['impl'][ti][c], mv[c], sc) for c in range(dim)) and corr_bad.open():
                        corr_bad += dict(case, what='L1: derivative differs from model', params=[str(x) for x in q['tuples'][ti]],
                                        impl=[float(x) for x in q['impl'][ti]], model=[str(x) for x in mv])
        # L2: the statement
        start, betas = l2idx[qi]
        supported = True
        if s['rational']:
            pd = len(s['bases'])
            tot = sum(a)
            supported = (tot <= 1) or (pd <= 2 and tot <= 3)
        # parse every eval_h output of this query up front: H[bi][ti]
        H = []
        for bi, b in enumerate(betas):
            tk2 = outs2[start + bi]
            H.append([tk2.qlist() for _ in range(tk2.int())])
        for ti in range(n):
            evals += 1
            if s['rational'] and any(jump_at(b, t, tol) for b, t in zip(s['bases'], q['tuples'][ti])):
                skipped_jump += 1
                continue
            nontriv.add(C.case_hash([case['obj'], list(a), str(q['above']), [str(x) for x in q['tuples'][ti]]]))
            if not supported:
                if q['err'] is None:
                    V.failure(dict(case, what='L2: rational derivative of unsupported order returned numbers instead of raising'))
                continue
            if not betas:
                continue
            h = {b: H[bi][ti] for bi, b in enumerate(betas)}
            if s['rational']:
                exp = leibniz_quotient(h, a, dim)
                if exp is None:
                    continue
            else:
                exp = h[tuple(a)]
            if q['err'] is not None:
                V.failure(dict(case, what='L2: derivative raised %s on a supported order inside the domain' % q['err']))
                break
            sc = max([1.0] + [abs(float(x)) for x in exp])
            if not all(C.close(q['impl'][ti][c], exp[c], sc) for c in range(dim)):
                V.failure(dict(case, what='L2: derivative differs from the exact partial derivative',
                               params=[str(x) for x in q['tuples'][ti]], params_hex=[float(x).hex() for x in q['tuples'][ti]],
                               impl=[float(x) for x in q['impl'][ti]], expected=[str(x) for x in exp]))
            elif len(samples) < 3 and s['rational'] and sum(a) >= 2:
                samples.append(dict(case, expected=[str(x) for x in exp]))
    # ---- derivative splines, tangents, normals (on the implementation, exact oracle = derivative itself already checked)
    nds = ntn = 0
    for spec, forced in todo[: (60 if tier == 'quick' else 600)]:
        if forced:
            break
        o = O.make_impl(spec)
        pd = len(spec['bases'])
        tp = []
        for b in spec['bases']:
            s_, e_ = O.domain(b)
            tp.append(float(s_ + (e_ - s_) * Fr(rng.randint(1, 63), 64)))
        if not spec['rational'] and all(b['order'] >= 2 for b in spec['bases']):
            if rng.random() < 0.35:
                # the same object far from the origin or on a tiny domain in one direction (knot values large or small
                # compared with the knot spans): the derivative spline must still agree with derivative()
                dmv = rng.randrange(pd)
                a_ = rng.choice([1.0e6, -2.5e5, 3.0e7, 0.0])
                w_ = rng.choice([4.0, 1.0, 2.0 ** -20]) if a_ == 0.0 else rng.choice([4.0, 1.0, 64.0])
                s0, e0 = o.start(dmv), o.end(dmv)
                o = o.clone()
                o.reparam((a_, a_ + w_), direction=dmv)
                tp[dmv] = a_ + (tp[dmv] - s0) / (e0 - s0) * w_
                spec = dict(spec, moved=dict(direction=dmv, start=a_, width=w_))
            for d in range(pd):
                try:
                    ds = o.get_derivative_spline(d)
                    v1 = np.asarray(ds.evaluate(*tp))
                    al = [0] * pd
                    al[d] = 1
                    v2 = np.asarray(o.derivative(*tp, d=tuple(al)) if pd > 1 else o.derivative(tp[0], d=1))
                    nds += 1
                    if not np.allclose(v1, v2, rtol=1e-6, atol=1e-6 * max(1e-300, np.abs(v2).max())):
                        V.failure({'what': 'derivative spline differs from derivative()', 'obj': O.spec_json(spec), 'moved': spec.get('moved'), 'direction': d,
                                   'params': tp, 'spline': v1.tolist(), 'derivative': v2.tolist()})
                except Exception as e:  # noqa
                    V.failure({'what': 'get_derivative_spline raised %s' % type(e).__name__, 'obj': O.spec_json(spec), 'moved': spec.get('moved'), 'direction': d, 'msg': str(e)})
        # tangents
        try:
            for d in range(pd):
                al = [0] * pd
                al[d] = 1
                der = np.asarray(o.derivative(*tp, d=tuple(al)) if pd > 1 else o.derivative(tp[0], d=1))
                nrm = np.linalg.norm(der)
                if nrm < 1e-9:
                    continue
                tg = np.asarray(o.tangent(*tp, direction=d) if pd > 1 else o.tangent(tp[0]))
                ntn += 1
                if not np.allclose(tg, der / nrm, rtol=1e-9, atol=1e-9):
                    V.failure({'what': 'tangent is not the normalised first derivative', 'obj': O.spec_json(spec), 'direction': d, 'params': tp,
                               'tangent': tg.tolist(), 'expected': (der / nrm).tolist()})
            if pd == 2 and spec['dim'] == 3:
                du = np.asarray(o.derivative(*tp, d=(1, 0)))
                dv = np.asarray(o.derivative(*tp, d=(0, 1)))
                cr = np.cross(du / np.linalg.norm(du), dv / np.linalg.norm(dv)) if min(np.linalg.norm(du), np.linalg.norm(dv)) > 1e-9 else None
                if cr is not None and np.linalg.norm(cr) > 1e-9:
                    nm = np.asarray(o.normal(*tp))
                    ntn += 1
                    if not np.allclose(nm, cr / np.linalg.norm(cr), rtol=1e-8, atol=1e-8):
                        V.failure({'what': 'normal is not the normalised cross product of the tangents', 'obj': O.spec_json(spec), 'params': tp,
                                   'normal': nm.tolist(), 'expected': (cr / np.linalg.norm(cr)).tolist()})
        except Exception as e:  # noqa
            V.failure({'what': 'tangent/normal raised %s' % type(e).__name__, 'obj': O.spec_json(spec), 'params': tp, 'msg': str(e)})
    # ---- tangents with per-direction limits: tangent() without direction, tangent(direction=i) and normal() must all use the
    # caller's `above` flag of EVERY direction (a crease or jump along a knot line of another direction decides the value),
    # on grids and pointwise; oracle = derivative(..., above=...) (checked against the exact model above), normalised
    for it in range(40 if tier == 'quick' else 600):
        pd = rng.choice([2, 2, 3])
        spec = O.gen_obj(rng, pardim=pd, dim=3 if pd == 2 and rng.random() < 0.7 else rng.choice([2, 3]), kinds=['open'], pmax=3, nint_max=2, multi=0.8)
        o = O.make_impl(spec)
        # parameters ON interior knot lines where there are any (else interior points), one per direction
        tp = []
        for b in spec['bases']:
            s_, e_ = O.domain(b)
            inner = sorted(set(x for x in b['knots'] if s_ < x < e_))
            tp.append(float(rng.choice(inner)) if inner and rng.random() < 0.8 else float(s_ + (e_ - s_) * Fr(rng.randint(1, 63), 64)))
        above = tuple(rng.random() < 0.5 for _ in range(pd))
        tensor = rng.random() < 0.5
        args_ = [[t_] for t_ in tp] if (not tensor or rng.random() < 0.5) else list(tp)     # pointwise evaluation takes lists
        case_ = {'obj': O.spec_json(spec), 'params': tp, 'above': list(above), 'tensor': tensor, 'listed': isinstance(args_[0], list)}
        try:
            ders = []
            for d in range(pd):
                al = [0] * pd
                al[d] = 1
                ders.append(np.asarray(o.derivative(*tp, d=tuple(al), above=above)).reshape(-1))
            if any(np.linalg.norm(v_) < 1e-9 or not np.all(np.isfinite(v_)) for v_ in ders):
                continue
            unit = [v_ / np.linalg.norm(v_) for v_ in ders]
            allt = o.tangent(*args_, above=above, tensor=tensor)
            ntn += 1
            if len(allt) != pd or any(not np.allclose(np.asarray(allt[d]).reshape(-1), unit[d], rtol=1e-9, atol=1e-9) for d in range(pd)):
                V.failure(dict(case_, what='tangent() without direction is not the tuple of normalised one-sided first derivatives',
                               tangent=[np.asarray(x_).reshape(-1).tolist() for x_ in allt], expected=[u_.tolist() for u_ in unit]))
                continue
            for d in range(pd):
                one = np.asarray(o.tangent(*args_, direction=O.spell(rng, d), above=above, tensor=tensor)).reshape(-1)
                if not np.allclose(one, unit[d], rtol=1e-9, atol=1e-9):
                    V.failure(dict(case_, what='tangent(direction=%d) is not the normalised one-sided first derivative' % d, tangent=one.tolist(), expected=unit[d].tolist()))
                    break
            if pd == 2 and spec['dim'] == 3:
                cr = np.cross(unit[0], unit[1])
                if np.linalg.norm(cr) > 1e-6:
                    nm = np.asarray(o.normal(*args_, above=above, tensor=tensor)).reshape(-1)
                    ntn += 1
                    if not np.allclose(nm, cr / np.linalg.norm(cr), rtol=1e-8, atol=1e-8):
                        V.failure(dict(case_, what='normal() is not the normalised cross product of the one-sided tangents', normal=nm.tolist(), expected=(cr / np.linalg.norm(cr)).tolist()))
        except Exception as e:  # noqa
            V.failure(dict(case_, what='tangent/normal with above=%s raised %s' % (above, type(e).__name__), msg=str(e)))
    rc = V.finish(l0, corr_bad)
    C.write_evidence(PID, tier, seed, l0, {
        'evaluations': evals + nds + ntn, 'distinct_nontrivial': len(nontriv),
        'rule': 'random objects (pardim 1-3, rational 40%); multi-indices with per-direction orders from {0,1,2,3,p+1}; d spelled as int/tuple/list; '
                'above as bool or tuple; tensor grids and tensor=False; parameters at ends, knots and interior; '
                'non-trivial = distinct (object, multi-index, above, parameter)',
        'traces_validated_against_impl': evals,
        'skipped_at_jump_knots': skipped_jump,
        'derivative_spline_probes': nds, 'tangent_normal_probes': ntn,
        'input_distribution': {k: {str(a): b for a, b in v.items()} for k, v in dist.items()},
        'samples': samples or [{'note': 'none'}],
    }, t0, V.nviol, assumptions=['knot_tolerance=%r' % tolf,
                                 'kernels regenerated from curve.py/surface.py/splineobject.py on this run'], known=V.known)
    return rc


if __name__ == '__main__':
    sys.exit(C.guarded_main(PID, run))
