"""C12 — make_splines_identical: one common discretisation, both geometries unchanged."""
import os
import random
import sys
import time
from fractions import Fraction as Fr

sys.path.insert(0, os.path.dirname(os.path.dirname(os.path.abspath(__file__))))
import common as C
import objs as O
import build_pyx

PID = 'C12'


def run(tier, seed, replay=None):
    t0 = time.time()
    V = C.Verdict(PID, tier, seed)
    O.FAR_PROB = 0.08     # some objects live far from the origin on compressed knot vectors
    l0 = C.l0_check(PID, thorough=(tier == 'thorough'))
    build_pyx.load_splipy()
    import numpy as np
    from splipy import state, SplineObject
    rng = random.Random(seed)
    tol = C.fr(state.knot_tolerance)
    npair = 300 if tier == 'quick' else 3000
    cases = []
    dist = {'pardim': {}, 'op': {}, 'rational': {}, 'periodic': {}, 'dims': {}, 'errors': {}}
    if replay:
        import json
        rc = json.load(open(replay))
        rc = rc.get('case', rc)
        todo = [(O.spec_from_json(rc['obj']), O.spec_from_json(rc['other']), rc)]
    else:
        todo = []
        for _ in range(npair):
            pd = rng.choice([1, 1, 2, 2, 3])
            kinds = ['open', 'open', 'open', 'periodic']
            bigp = rng.random() < 0.6
            if rng.random() < 0.4:
                # related pairs: the same kind in every direction (so two periodic directions meet, with equal or different
                # continuity and order) and repeated interior knots, which then also occur among the ghost knots
                dk = [rng.choice(['open', 'periodic', 'periodic']) for _ in range(pd)]
                a = O.gen_obj(rng, pardim=pd, dir_kinds=dk, nint_max=2, pmax={1: 5, 2: 4, 3: 3}[pd], big_periodic=True, multi=0.7)
                b = O.gen_obj(rng, pardim=pd, dir_kinds=dk, nint_max=2, pmax={1: 5, 2: 4, 3: 3}[pd], big_periodic=True, multi=0.7)
                todo.append((a, b, None))
                continue
            if rng.random() < 0.12:
                # seam pairs: two periodic objects on the SAME bases (so nothing is lowered or raised); the seam knot is inserted
                # once more into the first one below (marker '_seam'), so the seam multiplicities differ
                pd_ = rng.choice([1, 1, 2])
                a = O.gen_obj(rng, pardim=pd_, dir_kinds=['periodic'] * pd_, nint_max=2, pmax=4, big_periodic=True)
                # smooth seams (order 4 or 5, continuity order-2: seam multiplicity 1), enough functions
                import gen_basis as GB_
                for i_ in range(pd_):
                    p_ = rng.choice([4, 4, 5])
                    nb_ = rng.randint(2 * p_, 2 * p_ + 3)
                    brk_ = [Fr(rng.randint(-3, 3))]
                    for _ in range(nb_):
                        brk_.append(brk_[-1] + Fr(rng.choice([1, 2, 3]), rng.choice([1, 2])))
                    a['bases'][i_] = dict(order=p_, knots=GB_.periodic_knots(p_, brk_, [1] * (nb_ - 1), p_ - 2), periodic=p_ - 2, kind='periodic')
                n_ = 1
                for x_ in a['bases']:
                    n_ *= O.nfun(x_)
                nc_ = len(a['cps'][0])
                a['cps'] = [[Fr(rng.randint(-16, 16), 2) if c_ < a['dim'] else Fr(rng.choice([1, 2, 3]), 2) for c_ in range(nc_)] for _ in range(n_)]
                if a['rational']:
                    a['cps'] = [[x_ * pt_[-1] for x_ in pt_[:-1]] + [pt_[-1]] for pt_ in a['cps']]
                a['ctor'], a['intcps'] = 'raw', False
                b = dict(a, cps=[list(pt_) for pt_ in reversed(a['cps'])], bases=[dict(x_, knots=list(x_['knots'])) for x_ in a['bases']])
                a['_seam'] = True
                todo.append((a, b, None))
                continue
            a = O.gen_obj(rng, pardim=pd, kinds=kinds, nint_max=2, pmax={1: 4, 2: 4, 3: 3}[pd], big_periodic=bigp)
            b = O.gen_obj(rng, pardim=pd, kinds=kinds, nint_max=2, pmax={1: 4, 2: 4, 3: 3}[pd], big_periodic=bigp)
            if rng.random() < 0.2:
                # near-copies: the second operand has the structure of the first (orders, knot counts, multiplicities) with
                # its interior knots moved by 1e-7 .. 1e-6 of the domain: thousands of knot tolerances apart (so both values
                # must appear in the common knot vector), yet equal to 5 digits -- exact thirds against 0.333333 from a file
                a = O.gen_obj(rng, pardim=pd, kinds=['open'], nint_max=3, pmax={1: 4, 2: 4, 3: 3}[pd])
                b = dict(a, bases=[dict(x_, knots=list(x_['knots'])) for x_ in a['bases']], cps=[list(reversed(pt_)) if False else list(pt_) for pt_ in reversed(a['cps'])])
                for x_ in b['bases']:
                    s_, e_ = O.domain(x_)
                    mv_ = {}
                    for k_ in sorted(set(x_['knots'])):
                        if s_ < k_ < e_:
                            mv_[k_] = k_ + (e_ - s_) * rng.choice([-1, 1]) * Fr(1, 2 ** rng.choice([20, 22, 23]))
                    x_['knots'] = [mv_.get(k_, k_) for k_ in x_['knots']]
            todo.append((a, b, None))
    for sa, sb, forced in todo:
        pd = len(sa['bases'])
        a, b = O.make_impl(sa), O.make_impl(sb)
        if not forced and (sa.get('_seam') or rng.random() < 0.25):
            # the seam knot of a periodic direction inserted once more in one operand (its multiplicity at the seam then differs
            # from the other operand's): the common knot vector must take the larger multiplicity there, once.  Only between
            # operands of equal periodicity: lowering the periodicity of an object whose seam knot was refined is outside this check
            for d_, (ba_, bb_) in enumerate(zip(sa['bases'], sb['bases'])):
                if ba_['periodic'] >= 0 and bb_['periodic'] == ba_['periodic'] and O.nfun(ba_) >= ba_['order'] + ba_['periodic'] + 1 and O.nfun(bb_) >= bb_['order'] + bb_['periodic'] + 1:
                    tgt_, bt_ = (a, ba_) if (sa.get('_seam') or rng.random() < 0.5) else (b, bb_)
                    st_ = O.domain(bt_)[0]
                    if sum(1 for x_ in bt_['knots'] if x_ == st_) + 1 > bt_['order'] - 2:
                        continue        # keep the object C1 across the seam (order elevation of less smooth objects: the C05 findings)
                    try:
                        tgt_.insert_knot(float(O.domain(bt_)[0]), d_)
                    except Exception:  # noqa
                        pass
        pa, pb = O.snapshot(a), O.snapshot(b)
        if forced:
            op, direction = forced['op'], forced['direction']
        else:
            op = rng.choice(['identical', 'identical', 'identical', 'compatible'])
            direction = rng.choice([None, None, rng.randrange(pd)])
        dist['pardim'][pd] = dist['pardim'].get(pd, 0) + 1
        dist['op'][op] = dist['op'].get(op, 0) + 1
        dist['rational'][(sa['rational'], sb['rational'])] = dist['rational'].get((sa['rational'], sb['rational']), 0) + 1
        dist['dims'][(sa['dim'], sb['dim'])] = dist['dims'].get((sa['dim'], sb['dim']), 0) + 1
        kp = (sum(1 for x in sa['bases'] if x['periodic'] >= 0), sum(1 for x in sb['bases'] if x['periodic'] >= 0))
        dist['periodic'][kp] = dist['periodic'].get(kp, 0) + 1
        case = dict(op=op, direction=direction, obj=O.spec_json(pa), other=O.spec_json(pb))
        err = None
        try:
            if op == 'compatible':
                SplineObject.make_splines_compatible(a, b)
            elif direction is None:
                SplineObject.make_splines_identical(a, b)
            else:
                SplineObject.make_splines_identical(a, b, direction=direction)
        except Exception as e:  # noqa
            err = type(e).__name__
            dist['errors'][err] = dist['errors'].get(err, 0) + 1
        ok = err is None and O.finite(a) and O.finite(b)
        if err is None and not ok:
            V.failure(dict(case, what='L2: make_splines_identical produced non-finite numbers'))
            continue
        cases.append(dict(case=case, pa=pa, pb=pb, qa=O.snapshot(a) if ok else None, qb=O.snapshot(b) if ok else None, err=err, op=op, direction=direction))
    lines, idx = [], []
    for c in cases:
        e = {'l1': len(lines)}
        if c['op'] == 'compatible':
            lines.append('obj_compatible %s %s' % (O.obj_tokens(c['pa']), O.obj_tokens(c['pb'])))
        else:
            lines.append('obj_make_identical %s %s %s %d' % (C.qs(tol), O.obj_tokens(c['pa']), O.obj_tokens(c['pb']), -1 if c['direction'] is None else c['direction']))
        if c['err'] is None:
            e['ev'] = []
            for (pre, post) in ((c['pa'], c['qa']), (c['pb'], c['qb'])):
                pts_pre, pts_post = [], []
                for _ in range(6):
                    tp, tq = [], []
                    for d, (b0, b1) in enumerate(zip(pre['bases'], post['bases'])):
                        s0, e0 = O.domain(b0)
                        s1, e1 = O.domain(b1)
                        f = Fr(rng.randint(1, 63), 64)
                        tp.append(s0 + (e0 - s0) * f)
                        tq.append(s1 + (e1 - s1) * f)
                    if all(C.fr(float(x)) == x for x in tp + tq):
                        pts_pre.append(tuple(tp))
                        pts_post.append(tuple(tq))
                e['ev'].append((len(lines), len(lines) + 1, pts_pre))
                lines.append(O.eval_cmd(tol, pre, pts_pre))
                lines.append(O.eval_cmd(tol, post, pts_post))
        idx.append(e)
    outs = C.run_model(lines)
    evals = 0
    nontriv = set()
    corr_bad = C.Corr()
    samples = []
    for c, e in zip(cases, idx):
        evals += 1
        case = c['case']
        nontriv.add(C.case_hash(case))
        tk = outs[e['l1']]
        if c['op'] == 'compatible':
            ma, mb = O.read_obj(tk), O.read_obj(tk)
            merr = None
        else:
            if tk.word() == 'Err':
                merr = tk.word()
            else:
                merr = None
                ma, mb = O.read_obj(tk), O.read_obj(tk)
        if merr is not None:
            if merr != 'Singular' and c['err'] != merr and corr_bad.open():
                corr_bad += dict(case, what='L1: model raises %s, implementation %s' % (merr, c['err'] or 'succeeds'))
        elif c['err'] is not None:
            if corr_bad.open():
                corr_bad += dict(case, what='L1: implementation raises %s, model succeeds' % c['err'])
        else:
            for nm, x, y in (('first', c['qa'], ma), ('second', c['qb'], mb)):
                dfr = O.snaps_differ(x, y, rel=1e-7)
                if dfr and corr_bad.open():
                    corr_bad += dict(case, what='L1: %s object differs from model: %s' % (nm, dfr))
        # ---- L2
        if c['err'] is not None:
            V.failure(dict(case, what='L2: %s raised %s' % (c['op'], c['err'])))
            continue
        qa, qb = c['qa'], c['qb']
        if qa['dim'] != qb['dim'] or qa['rational'] != qb['rational']:
            V.failure(dict(case, what='L2: dimension/rationality differ after the call'))
            continue
        if qa['dim'] != max(c['pa']['dim'], c['pb']['dim']) or qa['rational'] != (c['pa']['rational'] or c['pb']['rational']):
            V.failure(dict(case, what='L2: unexpected common dimension/rationality'))
        if c['op'] == 'identical':
            dirs = range(len(qa['bases'])) if c['direction'] is None else [c['direction']]
            for d in dirs:
                x, y = qa['bases'][d], qb['bases'][d]
                if x['order'] != y['order'] or x['periodic'] != y['periodic']:
                    V.failure(dict(case, what='L2: direction %d: order/periodicity differ (%s vs %s)' % (d, (x['order'], x['periodic']), (y['order'], y['periodic']))))
                    continue
                if len(x['knots']) != len(y['knots']) or any(abs(float(s - t)) > 1e-9 for s, t in zip(x['knots'], y['knots'])):
                    V.failure(dict(case, what='L2: direction %d: knot vectors differ' % d, knots1=[str(t) for t in x['knots']], knots2=[str(t) for t in y['knots']]))
                    continue
                if abs(float(O.domain(x)[0])) > 1e-12 or abs(float(O.domain(x)[1]) - 1) > 1e-12:
                    V.failure(dict(case, what='L2: direction %d: domain is %s, not [0,1]' % (d, [str(t) for t in O.domain(x)])))
        for which, (l_a, l_b, pts) in zip(('first', 'second'), e['ev']):
            va = O.parse_eval(outs[l_a])
            vb = O.parse_eval(outs[l_b])
            # pad the old values with zeros up to the new dimension
            nd = qa['dim']
            va = [(er, (list(v) + [Fr(0)] * (nd - len(v))) if v is not None else None) for er, v in va]
            df = O.maps_differ(va, vb, rel=1e-7)
            if df:
                V.failure(dict(case, what='L2: the %s object no longer evaluates to its old map: %s' % (which, df[1]), param=[str(x) for x in pts[df[0]]]))
                break
        if len(samples) < 3 and c['op'] == 'identical' and c['direction'] is None and len(qa['bases']) > 1:
            samples.append(case)
    rc = V.finish(l0, corr_bad)
    C.write_evidence(PID, tier, seed, l0, {
        'evaluations': evals, 'distinct_nontrivial': len(nontriv),
        'rule': 'random pairs of objects of equal pardim (1-3) with different orders, knots, multiplicities, domains, periodicities, rationality and dimensions; '
                'make_splines_compatible, make_splines_identical for all directions or one; non-trivial = distinct (pair, call)',
        'traces_validated_against_impl': evals,
        'input_distribution': {k: {str(a): b for a, b in v.items()} for k, v in dist.items()},
        'samples': samples or [cases[0]['case']],
    }, t0, V.nviol, known=V.known)
    return rc


if __name__ == '__main__':
    sys.exit(C.guarded_main(PID, run))
