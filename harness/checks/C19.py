"""C19 — file output is a faithful image of the objects and reads back to the same shape."""
import math
import os
import random
import shutil
import struct
import sys
import tempfile
import time
from fractions import Fraction as Fr

sys.path.insert(0, os.path.dirname(os.path.dirname(os.path.abspath(__file__))))
import common as C
import objs as O
import build_pyx

PID = 'C19'


def parse_g2(path):
    """independent reader of spline records: returns list of dict(type, dim, rational, bases=[(n, order, knots)], cps=[rows])"""
    toks = open(path).read().split('\n')
    lines = [l.split() for l in toks if l.strip()]
    out, i = [], 0
    while i < len(lines):
        t, a, b, c = map(int, lines[i])
        assert (a, b, c) == (1, 0, 0)
        pd = {100: 1, 200: 2, 700: 3}[t]
        dim, rat = int(lines[i + 1][0]), int(lines[i + 1][1])
        i += 2
        bases, n_all = [], 1
        for _ in range(pd):
            n, p = int(lines[i][0]), int(lines[i][1])
            kn = [float(x) for x in lines[i + 1]]
            assert len(kn) == n + p
            bases.append((n, p, kn))
            n_all *= n
            i += 2
        cps = [[float(x) for x in lines[i + j]] for j in range(n_all)]
        i += n_all
        out.append(dict(type=t, dim=dim, rational=rat, bases=bases, cps=cps))
    return out


def write_g2(path, recs):
    """independent writer (repr precision)"""
    with open(path, 'w') as f:
        for r in recs:
            f.write('%d 1 0 0\n%d %d\n' % (r['type'], r['dim'], r['rational']))
            for n, p, kn in r['bases']:
                f.write('%d %d\n%s\n' % (n, p, ' '.join(repr(float(k)) for k in kn)))
            for row in r['cps']:
                f.write(' '.join(repr(float(x)) for x in row) + '\n')
            f.write('\n')


def run(tier, seed, replay=None):
    t0_ = time.time()
    V = C.Verdict(PID, tier, seed)
    # the ASCII formats write a fixed number of decimals of a picture/file-wide frame: an object whose extent is 1e-6 of its
    # distance from the origin is below that resolution (SVG collapses it to a point the reader cannot parse back)
    O.OFFSET_PROB = 0.0
    O.SCALE_PROB = 0.0       # (same reason: objects of magnitude 2^-20 and 2^+20 in one drawing; the G2 block scales by 1e+-9 / 1e+-150 itself)
    l0 = C.l0_check(PID, thorough=(tier == 'thorough'))
    build_pyx.load_splipy()
    import numpy as np
    from splipy import BSplineBasis, Curve, Surface, Volume
    from splipy import curve_factory as cf, surface_factory as sf
    from splipy.io import G2, STL, SVG, SPL
    rng = random.Random(seed)
    reps = 60 if tier == 'quick' else 300
    dist = {'op': {}, 'pardim': {}, 'rational': {}, 'periodic': {}, 'magnitude': {}}
    evals = 0
    nontriv = set()
    samples = []
    l1 = []
    tmp = tempfile.mkdtemp(prefix='c19_')

    def count(op, **kw):
        nonlocal evals
        evals += 1
        dist['op'][op] = dist['op'].get(op, 0) + 1
        for k, v in kw.items():
            dist[k][str(v)] = dist[k].get(str(v), 0) + 1

    def fail(op, args, what):
        V.failure({'what': '%s: %s' % (op, what), 'op': op, 'args': args})

    def close16(a, b):
        a, b = np.asarray(a, dtype=float), np.asarray(b, dtype=float)
        return a.shape == b.shape and np.all(np.abs(a - b) <= 2e-15 * np.maximum(np.abs(a), np.abs(b)) + 1e-300)

    def same_map(a, b, tol=1e-9):
        for _ in range(5):
            fr_ = [rng.randint(0, 16) / 16.0 for _ in range(a.pardim)]
            pa = [a.start(d) + (a.end(d) - a.start(d)) * f for d, f in enumerate(fr_)]
            pb = [b.start(d) + (b.end(d) - b.start(d)) * f for d, f in enumerate(fr_)]
            va, vb = np.asarray(a.evaluate(*pa)).reshape(-1), np.asarray(b.evaluate(*pb)).reshape(-1)
            if va.shape != vb.shape or np.max(np.abs(va - vb)) > tol * max(1.0, np.max(np.abs(va))):
                return False
        return True

    try:
        # ------------------------------------------------------------ G2: write then read, and an independent reader
        for it in range(reps):
            nobj = rng.randint(1, 4)
            specs = []
            for _ in range(nobj):
                s = O.gen_obj(rng, kinds=['open', 'open', 'open', 'periodic'], nint_max=2, pmax={1: 5, 2: 4, 3: 3}, big_periodic=True) if False else \
                    O.gen_obj(rng, kinds=['open', 'open', 'open', 'periodic'], nint_max=2, big_periodic=True)
                mag = rng.choice([0, 0, 0, 1, 2])
                if mag:
                    f = Fr(10) ** (rng.choice([-1, 1]) * (150 if mag == 2 else 9))
                    s['cps'] = [[x * f if (not s['rational'] or j < s['dim']) else x for j, x in enumerate(pt)] for pt in s['cps']]
                    if s['rational']:
                        s['cps'] = [[pt[j] if j == s['dim'] else pt[j] for j in range(len(pt))] for pt in s['cps']]
                if s['rational'] and rng.random() < 0.4:
                    # rational with every weight equal to one (what force_rational() gives), or within 1e-6 of one: still a
                    # rational object, to be read back as one, with these weights
                    eps_ = rng.choice([Fr(0), Fr(0), Fr(1, 2 ** 20), Fr(1, 2 ** 23)])
                    s['intcps'] = False
                    s['cps'] = [[(x_ / pt_[-1]) * (1 + eps_ * ((i_ % 3) - 1)) for x_ in pt_[:-1]] + [1 + eps_ * ((i_ % 3) - 1)] for i_, pt_ in enumerate(s['cps'])]
                specs.append((s, mag))
            objs = [O.make_impl(s) for s, _ in specs]
            args = dict(objects=[O.spec_json(s) for s, _ in specs])
            nontriv.add(C.case_hash(args))
            fn = os.path.join(tmp, 'w%d.g2' % it)
            try:
                with G2(fn) as f:
                    f.write([o.clone() for o in objs])
                with G2(fn) as f:
                    back = f.read()
                recs = parse_g2(fn)
            except Exception as e:  # noqa
                fail('g2 roundtrip', args, 'raised %s' % type(e).__name__)
                continue
            for (s, mag), o in zip(specs, objs):
                count('g2 roundtrip', pardim=o.pardim, rational=o.rational, periodic=any(b['periodic'] >= 0 for b in s['bases']), magnitude=mag)
            if len(samples) < 2:
                samples.append(dict(op='g2 roundtrip', objects=args['objects'][:1]))
            if len(back) != len(objs) or len(recs) != len(objs):
                fail('g2 roundtrip', args, '%d objects written, %d read back, %d records in the file' % (len(objs), len(back), len(recs)))
                continue
            for o, b_, r in zip(objs, back, recs):
                per = any(o.periodic(d) for d in range(o.pardim))
                if type(b_) is not type(o) or b_.rational != o.rational or b_.dimension != o.dimension:
                    fail('g2 roundtrip', args, 'kind / rationality / dimension changed')
                    break
                if r['type'] != {1: 100, 2: 200, 3: 700}[o.pardim] or r['dim'] != o.dimension or r['rational'] != int(o.rational):
                    fail('g2 roundtrip', args, 'the record header does not describe the object')
                    break
                ref = o
                if per:
                    ref = o.clone()
                    for d in range(ref.pardim):
                        if ref.periodic(d):
                            ref = ref.split(ref.start(d), d)
                    if not same_map(o, ref):
                        continue        # C07/C08 territory (recorded there); nothing to compare against
                okb = all(b1.order == b2.order and close16(b1.knots, b2.knots) for b1, b2 in zip(ref.bases, b_.bases))
                if not okb or not close16(ref.controlpoints, b_.controlpoints):
                    fail('g2 roundtrip', args, 'orders / knots / control points do not agree to 16 significant digits after reading back')
                    break
                # independent reader: the file is a faithful image (first index fastest)
                fcps = np.asarray(ref.controlpoints).reshape(-1, ref.dimension + ref.rational, order='F')
                if [b[1] for b in r['bases']] != [b.order for b in ref.bases] or not all(close16(b[2], bb.knots) for b, bb in zip(r['bases'], ref.bases)) \
                        or not close16(np.asarray(r['cps']), fcps):
                    fail('g2 roundtrip', args, 'the file contents (independent reader) differ from the object')
                    break
                if b_.periodic() if o.pardim == 1 else any(b_.periodic(d) for d in range(b_.pardim)):
                    fail('g2 roundtrip', args, 'a periodic object did not come back opened')
                    break
                if not per and len(l1) < 300:
                    l1.append((O.snapshot(o), r))
            # independent writer -> library reader
            fn2 = os.path.join(tmp, 'i%d.g2' % it)
            recs2 = []
            for o in objs:
                if any(o.periodic(d) for d in range(o.pardim)):
                    continue
                recs2.append(dict(type={1: 100, 2: 200, 3: 700}[o.pardim], dim=o.dimension, rational=int(o.rational),
                                  bases=[(b.num_functions(), b.order, list(b.knots)) for b in o.bases],
                                  cps=np.asarray(o.controlpoints).reshape(-1, o.dimension + o.rational, order='F').tolist()))
            if recs2:
                try:
                    write_g2(fn2, recs2)
                    with G2(fn2) as f:
                        back2 = f.read()
                    count('g2 independent writer')
                    k = 0
                    for o in objs:
                        if any(o.periodic(d) for d in range(o.pardim)):
                            continue
                        b_ = back2[k]
                        k += 1
                        if type(b_) is not type(o) or not all(b1.order == b2.order and np.array_equal(b1.knots, b2.knots) for b1, b2 in zip(o.bases, b_.bases)) \
                                or not np.array_equal(np.asarray(o.controlpoints), np.asarray(b_.controlpoints)):
                            fail('g2 independent writer', args, 'a record written by an independent writer does not read to the object it describes')
                            break
                except Exception as e:  # noqa
                    fail('g2 independent writer', args, 'raised %s' % type(e).__name__)

        # ------------------------------------------------------------ G2 analytic primitive records
        def unit(v):
            v = np.asarray(v, dtype=float)
            return v / np.linalg.norm(v)
        for it in range(reps):
            c = np.array([rng.randint(-4, 4) / 2.0 for _ in range(3)])
            nrm = np.array(rng.choice([(0, 0, 1), (0, 0, -2), (1, 2, 2), (2, -1, 2), (0, 3, 4), (1, 0, 0), (0, -1, 0)]), dtype=float)
            t1 = np.cross(nrm, [1.0, 0.3, 0.2])
            xax = unit(t1) * rng.choice([1.0, 2.0])
            r = rng.choice([0.5, 1.0, 2.5])
            r2 = rng.choice([0.25, 0.75])
            nh, xh = unit(nrm), unit(xax)
            fmt = lambda v: ' '.join(repr(float(x)) for x in v)  # noqa
            # parameter ranges of the records: not always the canonical ones (a range may start anywhere)
            twopi = 6.283185307179586
            u0 = rng.choice([0.0, 0.0, 0.5, -1.0])
            u1 = u0 + rng.choice([twopi, 1.5, 3.0])
            v0 = rng.choice([0.0, -1.5, 0.75, 2.0])
            v1 = v0 + rng.choice([2.0, 0.5, 3.25])
            full = (u0 == 0.0 and u1 == twopi)
            ex_, ey_ = xh, unit(np.cross(nh, xh))

            def on_circle_arc(p, rad):
                return abs(np.linalg.norm(p - c) - rad) < 1e-9 and abs(np.dot(p - c, nh)) < 1e-9

            def cyl_ok(o, p):
                # on the cylinder of radius r about the axis through c, with axial coordinate inside the record's v-range
                ax = float(np.dot(p - c, nh))
                return abs(np.linalg.norm(np.cross(p - c, nh)) - r) < 1e-9 and v0 - 1e-9 <= ax <= v1 + 1e-9
            cases = {
                'circle': ('130 1 0 0\n3\n%r\n%s\n%s\n%s\n0 6.283185307179586\n0\n' % (r, fmt(c), fmt(nrm), fmt(xax)),
                           lambda o, p: abs(np.linalg.norm(p - c) - r) < 1e-9 and abs(np.dot(p - c, nh)) < 1e-9),
                'line': ('120 1 0 0\n3\n%s\n%s\n1\n%r %r\n0\n' % (fmt(c), fmt(nrm), v0, v1),
                         lambda o, p: np.linalg.norm(np.cross(p - c, nh)) < 1e-9
                         and min(v0, v1) * np.linalg.norm(nrm) - 1e-9 <= np.dot(p - c, nh) <= max(v0, v1) * np.linalg.norm(nrm) + 1e-9),
                'sphere': ('270 1 0 0\n3\n%r\n%s\n%s\n%s\n0 6.283185307179586\n-1.5707963267948966 1.5707963267948966\n0\n' % (r, fmt(c), fmt(nrm), fmt(xax)),
                           lambda o, p: abs(np.linalg.norm(p - c) - r) < 1e-9),
                'cylinder': ('260 1 0 0\n3\n%r\n%s\n%s\n%s\n1\n0 6.283185307179586\n%r %r\n0\n' % (r, fmt(c), fmt(nh), fmt(xax), v0, v1),
                             cyl_ok),
                'torus': ('290 1 0 0\n3\n%r\n%r\n%s\n%s\n%s\n0\n0 6.283185307179586\n0 6.283185307179586\n0\n' % (r + 1, r2, fmt(c), fmt(nrm), fmt(xax)),
                          lambda o, p: abs(math.hypot(np.linalg.norm(np.cross(p - c, nh)) - (r + 1), np.dot(p - c, nh)) - r2) < 1e-9),
                'disc': ('292 1 0 0\n3\n%s\n%r\n%s\n%s\n1\n0\n0\n0\n0\n0 %r\n0 6.283185307179586\n0\n' % (fmt(c), r, fmt(nrm), fmt(xax), r),
                         lambda o, p: abs(np.dot(p - c, nh)) < 1e-9 and np.linalg.norm(p - c) <= r + 1e-9),
                'plane': ('250 1 0 0\n3\n%s\n%s\n%s\n1\n%r %r\n%r %r\n0\n' % (fmt(c), fmt(nrm), fmt(xax), u0, u0 + 1.5, v0, v1),
                          lambda o, p: abs(np.dot(p - c, nh)) < 1e-9),
            }
            # where the parametrisation is anchored (the records carry an x-axis): the point at the start of the angular /
            # first parameter lies in the half plane spanned by the axis and the x-axis; a plane is  c + u x + v (n x x)
            def anchored(name, o):
                if name == 'circle':
                    p0 = np.asarray(o.evaluate(o.start(0))).reshape(-1)
                    return np.linalg.norm(p0 - (c + r * ex_)) < 1e-9
                if name in ('sphere', 'cylinder', 'torus', 'disc'):
                    ang = 1 if name in ('disc', 'torus') else 0       # disc: (radius, angle); torus: (tube angle, angle about the axis)
                    for _ in range(3):
                        par = [o.start(d_) + (o.end(d_) - o.start(d_)) * rng.random() for d_ in range(2)]
                        par[ang] = o.start(ang)
                        q = np.asarray(o.evaluate(*par)).reshape(-1) - c
                        if abs(np.dot(q, ey_)) > 1e-9 or np.dot(q, ex_) < -1e-9:
                            return False
                    return True
                if name == 'plane':
                    for _ in range(3):
                        par = [o.start(d_) + (o.end(d_) - o.start(d_)) * rng.random() for d_ in range(2)]
                        q = np.asarray(o.evaluate(*par)).reshape(-1) - c
                        if abs(np.dot(q, ex_) - par[0]) > 1e-9 or abs(np.dot(q, ey_) - par[1]) > 1e-9:
                            return False
                    return True
                return True
            name = list(cases)[it % len(cases)]
            txt, on = cases[name]
            fn = os.path.join(tmp, 'p%d.g2' % it)
            open(fn, 'w').write(txt)
            args = dict(primitive=name, record=txt)
            nontriv.add(C.case_hash(args))
            try:
                with G2(fn) as f:
                    objs = f.read()
                count('g2 primitive ' + name)
                if len(objs) != 1:
                    fail('g2 primitive', args, '%d objects read from one record' % len(objs))
                    continue
                o = objs[0]
                for _ in range(6):
                    p = np.asarray(o.evaluate(*[o.start(d) + (o.end(d) - o.start(d)) * rng.random() for d in range(o.pardim)])).reshape(-1)
                    if not on(o, p):
                        fail('g2 primitive', args, 'a point of the %s read from its record is not on the shape it describes' % name)
                        break
                else:
                    if not anchored(name, o):
                        fail('g2 primitive', args, 'the %s read from its record is not placed on the x-axis the record gives '
                                                   '(start of the first/angular parameter, or the plane parametrisation c + u x + v (n x x))' % name)
            except Exception as e:  # noqa
                fail('g2 primitive', args, 'raised %s' % type(e).__name__)

        spl_l1, stl_l1 = [], []
        # ------------------------------------------------------------ SPL records
        for it in range(reps):
            s = O.gen_obj(rng, kinds=['open'], nint_max=2, rational=False)
            o = O.make_impl(s)
            fn = os.path.join(tmp, 's%d.spl' % it)
            with open(fn, 'w') as f:
                f.write('C %d %d 0 # header\n' % (o.pardim, o.dimension))
                for b in o.bases:
                    f.write('%d\n' % b.order)
                for b in o.bases:
                    f.write('%d\n' % b.num_functions())
                f.write('1e-6\n')
                for b in o.bases:
                    for k in b.knots:
                        f.write(repr(float(k)) + '\n')
                arr = np.asarray(o.controlpoints)
                for x in arr.transpose().reshape(-1):          # component slowest, first parametric index fastest
                    f.write(repr(float(x)) + '\n')
            args = dict(obj=O.spec_json(s))
            try:
                with SPL(fn) as f:
                    back = f.read()
                count('spl')
                if len(back) != 1 or not all(b1.order == b2.order and np.array_equal(b1.knots, b2.knots) for b1, b2 in zip(o.bases, back[0].bases)) \
                        or not np.array_equal(np.asarray(back[0].controlpoints), np.asarray(o.controlpoints)):
                    fail('spl', args, 'an SPL record does not read to the object it describes')
                elif len(back) == 1:
                    # the same token lines go to the model's reader (Model/Spl.v)
                    toklines = [[C.fr(67), C.fr(o.pardim), C.fr(o.dimension), C.fr(0)]] + [[C.fr(b.order)] for b in o.bases] + \
                               [[C.fr(b.num_functions())] for b in o.bases] + [[C.fr(1e-6)]] + [[C.fr(float(k))] for b in o.bases for k in b.knots] + \
                               [[C.fr(float(x))] for x in np.asarray(o.controlpoints).transpose().reshape(-1)]
                    spl_l1.append((args, toklines, O.snapshot(back[0]), O.snapshot(o)))
            except Exception as e:  # noqa
                fail('spl', args, 'raised %s' % type(e).__name__)

        # ------------------------------------------------------------ STL
        for it in range(reps):
            dim = rng.choice([3, 3, 2])
            s = O.gen_obj(rng, pardim=2, kinds=['open'], nint_max=2, pmax=3, dim=dim, rational=rng.random() < 0.3)
            if it % 4 >= 2:
                # a collapsed edge (a pole, as on spheres and radial discs): all control points of the u = start edge coincide,
                # which gives facets of zero area -- they are facets of the file like any other
                n1_ = O.nfun(s['bases'][1])
                for j_ in range(n1_):
                    s['cps'][j_] = list(s['cps'][0])
            o = O.make_impl(s)
            binary = bool(it % 2)
            n = rng.choice([None, None, 4, (3, 5)])
            fn = os.path.join(tmp, 't%d.stl' % it)
            args = dict(obj=O.spec_json(s), binary=binary, n=n)
            nontriv.add(C.case_hash(args))
            try:
                with STL(fn, binary=binary) as f:
                    f.write(o.clone(), n)
                count('stl', pardim=2, rational=s['rational'])
                verts = []
                if binary:
                    data = open(fn, 'rb').read()
                    declared = struct.unpack('<I', data[80:84])[0]
                    nf = (len(data) - 84) // 50
                    if declared != nf or (len(data) - 84) % 50:
                        fail('stl', args, 'binary STL declares %d facets, the file holds %d' % (declared, nf))
                    for k in range(nf):
                        vals = struct.unpack('<12fH', data[84 + 50 * k: 84 + 50 * (k + 1)])
                        verts += [vals[3:6], vals[6:9], vals[9:12]]
                    atol = 1e-6
                else:
                    txt = open(fn).read()
                    nf = txt.count('endfacet')
                    for l in txt.split('\n'):
                        l = l.split()
                        if l and l[0] == 'vertex':
                            verts.append([float(x) for x in l[1:4]])
                    if len(verts) != 3 * nf or not txt.rstrip().endswith('endsolid python'):
                        fail('stl', args, 'ASCII STL is malformed (%d vertices for %d facets)' % (len(verts), nf))
                    atol = 6e-5
                verts = np.asarray(verts, dtype=float)
                if len(verts) == 0:
                    fail('stl', args, 'no facets written')
                    continue
                # every vertex is a point of the surface: compare with a dense sampling of the evaluation grid used
                uu = np.linspace(o.start(0), o.end(0), 4) if n == 4 else (np.linspace(o.start(0), o.end(0), 3) if n == (3, 5) else None)
                if n is None:
                    def pts_(d):
                        kn = list(o.knots(d))
                        p = o.order(d)
                        if p == 2:
                            return kn
                        out = []
                        for a, b in zip(kn[:-1], kn[1:]):
                            out += list(np.linspace(a, b, 2 * p - 3, endpoint=False))
                        return sorted(out + kn)
                    uu, vv = pts_(0), pts_(1)
                else:
                    vv = np.linspace(o.start(1), o.end(1), 4 if n == 4 else 5)
                grid = np.asarray(o.evaluate(uu, vv)).reshape(-1, dim)
                if dim == 2:
                    grid = np.hstack([grid, np.zeros((len(grid), 1))])
                sc = max(1.0, np.abs(grid).max())
                for v in verts:
                    # ASCII: four fixed decimals, an ABSOLUTE error of at most 5e-5 per coordinate whatever the magnitude;
                    # binary: single precision, relative to the magnitude
                    if np.min(np.linalg.norm(grid - v, axis=1)) > (atol * sc * 10 if binary else 1e-4):
                        fail('stl', args, 'a vertex in the file is not a point of the tessellated surface')
                        break
                want_f = 2 * (len(uu) - 1) * (len(vv) - 1)
                if nf != want_f:
                    fail('stl', args, '%d facets in the file, the tessellation has %d' % (nf, want_f))
                stl_l1.append((args, O.snapshot(o), n, verts, nf, (atol * 10 if binary else None)))
            except Exception as e:  # noqa
                fail('stl', args, 'raised %s' % type(e).__name__)

        # ------------------------------------------------------------ SVG: write, read back, one similarity for the whole drawing
        for it in range(reps):
            ncrv = rng.randint(1, 3)
            specs = []
            while len(specs) < ncrv:
                sp = O.gen_obj(rng, pardim=1, kinds=['open'], nint_max=2, pmax=4, dim=2, rational=False)
                sb = sp['bases'][0]
                # continuous curves (a curve that jumps cannot be elevated to a cubic: recorded under C05)
                if max([sb['knots'].count(k) for k in sb['knots'][sb['order']:-sb['order']]] or [0]) < sb['order']:
                    specs.append(sp)
            crvs = [O.make_impl(s) for s in specs]
            fn = os.path.join(tmp, 'd%d.svg' % it)
            stepwise = rng.random() < 0.4
            if stepwise:
                # one object written several times, modified between the write calls (the file shows each state as it was
                # when write() was called): the drawing holds the curve, the curve moved, the curve moved and turned
                w0 = crvs[0].clone()
                w1 = w0.clone().translate([3.0, -2.0])
                w2 = w1.clone().rotate(0.5)
                crvs = [w0, w1, w2]
                specs = [O.snapshot(c_) for c_ in crvs]
            args = dict(curves=[O.spec_json(s) for s in specs], stepwise=stepwise)
            nontriv.add(C.case_hash(args))
            try:
                with SVG(fn) as f:
                    if stepwise:
                        live = w0.clone()
                        f.write(live)
                        live.translate([3.0, -2.0])
                        f.write(live)
                        live.rotate(0.5)
                        f.write(live)
                    else:
                        f.write([c.clone() for c in crvs])
                with SVG(fn) as f:
                    back = f.read()
                count('svg')
                if len(back) != len(crvs):
                    fail('svg', args, '%d curves written, %d read back' % (len(crvs), len(back)))
                    continue
                # fit one similarity  q = s * (x, -y) + t  (axis flip allowed) from all sample points, then check
                P, Q = [], []
                spans_ok = True
                for a, b_ in zip(crvs, back):
                    ka, kb = list(a.knots(0)), list(b_.knots(0))
                    if len(ka) != len(kb):
                        spans_ok = False
                        break
                    # the file holds one cubic Bezier piece per knot span: compare span by span
                    for (a0, a1), (b0, b1) in zip(zip(ka[:-1], ka[1:]), zip(kb[:-1], kb[1:])):
                        for fr_ in (0.0, 0.25, 0.5, 0.75, 1.0):
                            P.append(np.asarray(a.evaluate(a0 + (a1 - a0) * fr_)).reshape(-1)[:2])
                            Q.append(np.asarray(b_.evaluate(b0 + (b1 - b0) * fr_)).reshape(-1)[:2])
                if not spans_ok:
                    fail('svg', args, 'a curve read back has a different number of knot spans')
                    continue
                P, Q = np.array(P), np.array(Q)
                best = None
                for flip in (1.0, -1.0):
                    Pf = P * np.array([1.0, flip])
                    pc, qc = Pf.mean(axis=0), Q.mean(axis=0)
                    den = np.sum((Pf - pc) ** 2)
                    if den == 0:
                        continue
                    s_ = np.sum((Pf - pc) * (Q - qc)) / den
                    res = np.max(np.abs(s_ * (Pf - pc) + qc - Q))
                    if best is None or res < best[0]:
                        best = (res, s_)
                if best is None or best[0] > 1e-6 * max(1.0, np.abs(Q).max()) or best[1] <= 0:
                    fail('svg', args, 'the curves read back are not the input curves up to one similarity (residual %r)' % (None if best is None else best[0]))
            except Exception as e:  # noqa
                fail('svg', args, 'raised %s' % type(e).__name__)
    finally:
        shutil.rmtree(tmp, ignore_errors=True)

    # ---------------------------------------------------------------- L1: file records vs the extracted encoder
    corr_bad = C.Corr()
    lines = []
    for snap, r in l1[: (150 if tier == 'quick' else 100000)]:
        lines.append('g2_encode %s' % O.obj_tokens(snap))
    outs = C.run_model(lines) if lines else []
    nl1 = 0
    for tk, (snap, r) in zip(outs, l1):
        nl1 += 1
        rows = tk.list(tk.qlist)
        want = [[r['type'], 1, 0, 0], [r['dim'], r['rational']]]
        for n, p, kn in r['bases']:
            want += [[n, p], kn]
        want += r['cps']
        got = [[float(x) for x in row] for row in rows]
        ok = len(got) == len(want) and all(len(a) == len(b) and all(abs(x - y) <= 2e-15 * max(abs(x), abs(y)) for x, y in zip(a, b)) for a, b in zip(got, want))
        if not ok and corr_bad.open():
            corr_bad += {'what': 'L1: the G2 record differs from the model encoder', 'op': 'g2', 'args': dict(obj=O.spec_json(snap))}
    # ---- L1: SPL reader vs Model/Spl.v (same token lines), and files written from the model's own writer
    tolq = C.fr(1e-10)
    sl = []
    for (a_, toklines, back_snap, o_snap) in spl_l1:
        sl.append('spl_decode %s %d %s' % (C.qs(tolq), len(toklines), ' '.join(C.qlist(t_) for t_ in toklines)))
        sl.append('spl_lines %s %s' % (C.qs(C.fr(1e-6)), O.obj_tokens(o_snap)))
    so = C.run_model(sl) if sl else []
    tmp2 = tempfile.mkdtemp(prefix='c19b_')
    try:
        for i_, (a_, toklines, back_snap, o_snap) in enumerate(spl_l1):
            nl1 += 1
            tk = so[2 * i_]
            if tk.word() != 'Some':
                corr_bad += {'what': 'L1: the model SPL reader rejects a record the implementation reads', 'op': 'spl', 'args': a_}
            else:
                mo = O.read_obj(tk)
                df = O.snaps_differ(back_snap, mo, rel=0)
                if df:
                    corr_bad += {'what': 'L1: SPL.read differs from the model reader: %s' % df, 'op': 'spl', 'args': a_}
            mlines = so[2 * i_ + 1].list(so[2 * i_ + 1].qlist)
            fn = os.path.join(tmp2, 'm%d.spl' % i_)
            with open(fn, 'w') as f:
                f.write('C ' + ' '.join(str(int(x)) for x in mlines[0][1:]) + '\n')
                for row in mlines[1:]:
                    f.write(' '.join(repr(float(x)) if x.denominator != 1 or abs(x) > 10 ** 15 else str(int(x)) for x in row) + '\n')
            try:
                with SPL(fn) as f:
                    back2 = f.read()
                df = O.snaps_differ(O.snapshot(back2[0]), o_snap, rel=0) if len(back2) == 1 else 'not exactly one object'
                if df:
                    corr_bad += {'what': 'L1: a file written by the model SPL writer reads to a different object: %s' % df, 'op': 'spl', 'args': a_}
            except Exception as e:  # noqa
                corr_bad += {'what': 'L1: a file written by the model SPL writer cannot be read (%s)' % type(e).__name__, 'op': 'spl', 'args': a_}
    finally:
        shutil.rmtree(tmp2, ignore_errors=True)
    # ---- L1: STL facets in file order vs Model/Stl.v
    tl = []
    for (a_, snap, n_, verts, nf, at_) in stl_l1:
        has = 0 if n_ is None else 1
        n0, n1 = (0, 0) if n_ is None else ((n_, n_) if isinstance(n_, int) else tuple(n_))
        tl.append('stl_write_surface %s %s %d %d %d' % (C.qs(tolq), O.obj_tokens(snap), has, n0, n1))
    to = C.run_model(tl) if tl else []
    for tk, (a_, snap, n_, verts, nf, at_) in zip(to, stl_l1):
        nl1 += 1
        if tk.word() != 'Ok':
            corr_bad += {'what': 'L1: the model STL writer raises %s, the implementation writes a file' % tk.word(), 'op': 'stl', 'args': a_}
            continue
        mcount = tk.int()
        tris = tk.list(lambda: [tk.qlist(), tk.qlist(), tk.qlist()])
        mverts = np.asarray([[float(x) for x in p_] for t_ in tris for p_ in t_], dtype=float).reshape(-1, 3)
        if mcount != nf or len(tris) != nf:
            corr_bad += {'what': 'L1: %d facets in the file, the model writes %d (declares %d)' % (nf, len(tris), mcount), 'op': 'stl', 'args': a_}
        elif mverts.shape != np.asarray(verts).shape or np.max(np.abs(mverts - verts)) > (6e-5 if at_ is None else at_ * max(1.0, np.abs(mverts).max())):
            corr_bad += {'what': 'L1: the facets in the file differ from the model tessellation (order or values)', 'op': 'stl', 'args': a_}
    dist['op']['L1 comparisons'] = nl1
    rc = V.finish(l0, corr_bad)
    C.write_evidence(PID, tier, seed, l0, {
        'evaluations': evals, 'distinct_nontrivial': len(nontriv),
        'rule': 'lists of 1-4 random objects (pardim 1-3, rational or not, periodic or not, magnitudes 1e-150..1e150) written to G2 and read back (kinds, orders, knots, control points to 16 '
                'digits; periodic opened at the seam) and parsed by an independent reader; records from an independent writer; G2 primitive records (circle, line, sphere, cylinder, torus, disc, '
                'plane) with random placement; SPL records; STL ascii/binary with default and explicit resolutions (vertices on the surface, facet counts); SVG write/read up to one similarity; '
                'non-trivial = distinct inputs',
        'traces_validated_against_impl': evals,
        'input_distribution': {k: {str(a): b for a, b in v.items()} for k, v in dist.items()},
        'samples': samples or [{'ops': sorted(dist['op'])}],
    }, t0_, V.nviol, known=V.known)
    return rc


if __name__ == '__main__':
    sys.exit(C.guarded_main(PID, run))
