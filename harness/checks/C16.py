"""C16 — lengths, areas, volumes, centres and curvatures are representation independent."""
import math
import os
import random
import sys
import time
from fractions import Fraction as Fr

sys.path.insert(0, os.path.dirname(os.path.dirname(os.path.abspath(__file__))))
import common as C
import objs as O
import gen_basis as G
import build_pyx

PID = 'C16'


def run(tier, seed, replay=None):
    t0_ = time.time()
    V = C.Verdict(PID, tier, seed)
    # curvature, torsion and normals are quotients of differences of derivatives: on an object whose extent is 1e-6 of its
    # distance from the origin double precision leaves too few digits to compare against exact values
    O.OFFSET_PROB = 0.0
    l0 = C.l0_check(PID, thorough=(tier == 'thorough'))
    build_pyx.load_splipy()
    import numpy as np
    from splipy import BSplineBasis, Curve, Surface, Volume, state
    from splipy import curve_factory as cf, surface_factory as sf, volume_factory as vf
    rng = random.Random(seed)
    tol = C.fr(state.knot_tolerance)
    reps = 70 if tier == 'quick' else 400
    dist = {'op': {}, 'measure': {}, 'pardim': {}, 'rational': {}}
    evals = 0
    nontriv = set()
    samples = []
    l1 = []

    def count(op, **kw):
        nonlocal evals
        evals += 1
        dist['op'][op] = dist['op'].get(op, 0) + 1
        for k, v in kw.items():
            dist[k][str(v)] = dist[k].get(str(v), 0) + 1

    def fail(op, args, what):
        V.failure({'what': '%s: %s' % (op, what), 'op': op, 'args': args})

    def continuous(spec):
        return all(max([b['knots'].count(k) for k in b['knots'][b['order']:-b['order']]] or [0]) < b['order'] - 1 for b in spec['bases'] if b['periodic'] < 0)

    def regular_obj(pd, rational=None):
        """a smooth regular object: a lattice plus a small perturbation (so that the Jacobian keeps its sign), C1 at least"""
        while True:
            # orders differ between the directions (each direction has its own quadrature rule): 2..5 for surfaces, 2..4 for volumes
            s = O.gen_obj(rng, pardim=pd, kinds=['open'], nint_max=2 if pd < 3 else 1, pmax={1: 4, 2: 5, 3: 4}[pd], dim=max(pd, rng.choice([2, 3])) if pd < 3 else 3, rational=rational)
            if not continuous(s) or any(b['order'] < (3 if pd == 1 else 2) for b in s['bases']):
                continue
            shape = [O.nfun(b) for b in s['bases']]
            grev = []
            for b in s['bases']:
                p, k = b['order'], b['knots']
                grev.append([sum(k[i + 1:i + p]) / (p - 1) for i in range(O.nfun(b))])
            cps = []
            import itertools
            for idx in itertools.product(*[range(n) for n in shape]):
                pt = [Fr(0)] * s['dim']
                for d, i in enumerate(idx):
                    pt[d] = grev[d][i] * 2
                pt = [x + Fr(rng.randint(-8, 8), 64) for x in pt]
                if s['rational']:
                    w = rng.choice([Fr(1), Fr(1), Fr(3, 4), Fr(5, 4), Fr(3, 2)])
                    pt = [x * w for x in pt] + [w]
                cps.append(pt)
            s['cps'] = cps
            return s

    def measure(o):
        if o.pardim == 1:
            return o.length()
        if o.pardim == 2:
            return o.area()
        return o.volume()

    def reference(o):
        r = o.clone()
        if o.pardim == 1:
            r.raise_order(2)
            r.refine(15)
        elif o.pardim == 2:
            r.raise_order(1, 1)
            r.refine(3)
        else:
            r.refine(1)
        return measure(r)
    mname = {1: 'length', 2: 'area', 3: 'volume'}

    # ---------------------------------------------------------------- invariance of length / area / volume and centre
    for it in range(reps):
        pd = rng.choice([1, 1, 2, 2, 3])
        spec = regular_obj(pd, rational=rng.random() < 0.3)
        o = O.make_impl(spec)
        args = dict(obj=O.spec_json(spec))
        nontriv.add(C.case_hash(args))
        try:
            m0 = measure(o)
            ref = reference(o)
            c0 = np.asarray(o.center(), dtype=float)
        except Exception as e:  # noqa
            fail(mname[pd], args, 'raised %s' % type(e).__name__)
            continue
        err0 = abs(m0 - ref)
        # accuracy of the reference itself: compare with one more refinement
        r2 = o.clone()
        r2.refine(1)
        reftol = max(1e-7, 20 * abs(reference(r2) - ref) / max(abs(ref), 1e-300))
        slack = reftol * abs(ref)
        # the Jacobian must keep its sign for |J| to be polynomial (and the parametrisation regular)
        if pd >= 2 and spec['dim'] == pd:
            gp = [np.linspace(o.start(d), o.end(d), 9) for d in range(pd)]
            if pd == 2:
                J = np.cross(o.derivative(*gp, d=(1, 0)), o.derivative(*gp, d=(0, 1)))
            else:
                du, dv, dw = (o.derivative(*gp, d=dd) for dd in ((1, 0, 0), (0, 1, 0), (0, 0, 1)))
                J = np.einsum('...i,...i', du, np.cross(dv, dw))
            if np.min(J) * np.max(J) <= 0:
                continue
        exact_measure = (pd == 2 and spec['dim'] == 2 and not spec['rational']) or (pd == 3 and not spec['rational'])
        if exact_measure and err0 > 1e-9 * abs(ref):
            fail(mname[pd], args, 'polynomial integrand not integrated exactly: %r vs refined %r' % (m0, ref))
        count(mname[pd], measure=mname[pd], pardim=pd, rational=spec['rational'])
        if len(samples) < 2 and pd == 2:
            samples.append(dict(op='area', **args))

        def check(op, o2, want_m, want_c, exact):
            """exact: same quadrature points up to symmetry -> the computed number itself must agree;
            otherwise both objects are the same geometry, so their heavily refined measures must agree (each computed
            number then differs from it only by its own quadrature error)"""
            count(op)
            try:
                m2 = measure(o2) if exact else reference(o2)
                c2 = np.asarray(o2.center(), dtype=float)
            except Exception as e:  # noqa
                fail(op, args, 'measure raised %s after the operation' % type(e).__name__)
                return
            lim = (1e-9 if exact else reftol) * max(1.0, abs(want_m))
            if abs(m2 - want_m) > lim:
                fail(op, args, '%s changed: %r, expected %r (allowed deviation %g)' % (mname[pd], m2, want_m, lim))
            if want_c is not None and np.max(np.abs(c2 - want_c)) > 1e-9 * max(1.0, np.max(np.abs(want_c))):
                fail(op, args, 'center changed: %s, expected %s' % (c2.tolist(), np.asarray(want_c).tolist()))
        # re-representation (quadrature accuracy for the measure, exact for the centre)
        d = rng.randrange(pd)
        b = spec['bases'][d]
        s_, e_ = O.domain(b)
        kn = float(s_ + (e_ - s_) * Fr(rng.randint(1, 31), 32))
        check('insert_knot', o.clone().insert_knot(kn, d), ref, c0, False)
        check('refine', o.clone().refine(1), ref, c0, False)
        ra = [0] * pd
        ra[d] = 1
        check('raise_order', o.clone().raise_order(*ra), ref, c0, False)
        check('reverse', o.clone().reverse(d), m0, c0, True)
        if pd >= 2:
            d2 = (d + 1) % pd
            check('swap', o.clone().swap(d, d2), m0, c0, True)
        # split and sum
        try:
            parts = o.clone().split(kn, d)
            count('split sum')
            tot = sum(reference(p_) for p_ in parts)
            if abs(tot - ref) > slack + 1e-9 * abs(ref):
                fail('split sum', dict(args, at=kn, direction=d), '%ss of the pieces sum to %r, whole %r' % (mname[pd], tot, ref))
        except Exception as e:  # noqa
            fail('split sum', dict(args, at=kn, direction=d), 'raised %s' % type(e).__name__)
        # Curve.length(t0, t1): sub-intervals add up, agree with the length of the split pieces, and do not depend on
        # where the parametric origin lies (the domain is moved so that 0 is the start, an interior point or a limit)
        if pd == 1:
            try:
                count('length(t0,t1)')
                width = float(e_ - s_)
                for shift_to in ('start0', 'inside0', 'as_is'):
                    oc = o.clone()
                    if shift_to == 'start0':
                        oc.reparam((0.0, width))
                    elif shift_to == 'inside0':
                        oc.reparam((-0.25 * width, 0.75 * width))
                    a0, b0 = oc.start(0), oc.end(0)
                    mid = 0.0 if shift_to == 'inside0' else a0 + (b0 - a0) * rng.randint(1, 15) / 16.0
                    whole = oc.length()
                    l_ab = oc.length(a0, b0)
                    l_am = oc.length(a0, mid)
                    l_mb = oc.length(mid, b0)
                    l_m_ = oc.length(t0=mid)
                    l__m = oc.length(t1=mid)
                    pcs = oc.clone().split(mid)
                    ref_am, ref_mb = pcs[0].length(), pcs[1].length()
                    lim = 1e-9 * max(1.0, abs(whole))
                    msgs = []
                    if abs(l_ab - whole) > lim:
                        msgs.append('length(start,end)=%r but length()=%r' % (l_ab, whole))
                    if abs(l_am - ref_am) > lim or abs(l__m - ref_am) > lim:
                        msgs.append('length(start,%r)=%r / length(t1=%r)=%r but the split piece has length %r' % (mid, l_am, mid, l__m, ref_am))
                    if abs(l_mb - ref_mb) > lim or abs(l_m_ - ref_mb) > lim:
                        msgs.append('length(%r,end)=%r / length(t0=%r)=%r but the split piece has length %r' % (mid, l_mb, mid, l_m_, ref_mb))
                    if abs(oc.length(mid, mid)) > lim:
                        msgs.append('length(%r,%r) of an empty interval is %r' % (mid, mid, oc.length(mid, mid)))
                    for m_ in msgs:
                        fail('length(t0,t1)', dict(args, domain=[a0, b0], mid=mid), m_)
            except Exception as e:  # noqa
                fail('length(t0,t1)', args, 'raised %s' % type(e).__name__)
        # rigid motion: exactly invariant; uniform scaling: proper power; centre follows the motion
        if spec['dim'] == 3 or pd < 3:
            ang = rng.uniform(-3, 3)
            sh = [rng.randint(-4, 4) / 2.0 for _ in range(spec['dim'])]
            mv = o.clone()
            if spec['dim'] == 3:
                ax = [rng.randint(-2, 2) for _ in range(3)]
                if not any(ax):
                    ax = [0, 0, 1]
                mv.rotate(ang, ax)
                probe = Curve(BSplineBasis(2), [c0.tolist(), c0.tolist()]).rotate(ang, ax).translate(sh)
            else:
                mv.rotate(ang)
                probe = Curve(BSplineBasis(2), [c0.tolist(), c0.tolist()]).rotate(ang).translate(sh)
            mv.translate(sh)
            check('rigid motion', mv, m0, np.asarray(probe.controlpoints[0], dtype=float), True)
            sc = rng.choice([0.5, 2.0, 3.0])
            check('uniform scaling', o.clone().scale(sc), m0 * sc ** pd, c0 * sc, True)
        l1.append((spec, c0))

    # ---------------------------------------------------------------- basis integrals: exact, sub-intervals, sum to t1 - t0
    for it in range(reps):
        b = G.gen_basis(rng, kind=rng.choice(['open', 'open', 'nonopen', 'periodic']), pmax=4, nint_max=3)
        if b['order'] < 1 or O.nfun(b) < 1:
            continue
        ib = BSplineBasis(b['order'], [float(x) for x in b['knots']], b['periodic'])
        s_, e_ = O.domain(b)
        a_ = s_ + (e_ - s_) * Fr(rng.randint(0, 16), 32)
        b_ = a_ + (e_ - a_) * Fr(rng.randint(1, 16), 16)
        if rng.random() < 0.3:
            a_, b_ = s_, e_
        args = dict(basis={'order': b['order'], 'knots': [str(x) for x in b['knots']], 'periodic': b['periodic']}, t0=str(a_), t1=str(b_))
        nontriv.add(C.case_hash(args))
        try:
            I = np.asarray(ib.integrate(float(a_), float(b_)), dtype=float)
        except Exception as e:  # noqa
            fail('integrate', args, 'raised %s' % type(e).__name__)
            continue
        count('integrate', measure='basis integral')
        # independent: Gauss-Legendre per knot span (exact for the piecewise polynomials)
        gx, gw = np.polynomial.legendre.leggauss(b['order'] + 1)
        brk = sorted(set([float(a_), float(b_)] + [float(x) for x in b['knots'] if a_ < x < b_]))
        want = np.zeros(ib.num_functions())
        for k0, k1 in zip(brk[:-1], brk[1:]):
            tg = (gx + 1) / 2 * (k1 - k0) + k0
            want += np.asarray(ib.evaluate(tg)).T @ (gw / 2 * (k1 - k0))
        if I.shape != want.shape or np.max(np.abs(I - want)) > 1e-10 * max(1.0, float(b_ - a_)):
            fail('integrate', args, 'basis integrals differ from piecewise Gauss quadrature of evaluate(): %s vs %s' % (I.tolist(), want.tolist()))
        if abs(I.sum() - float(b_ - a_)) > 1e-10 * max(1.0, float(b_ - a_)):
            fail('integrate', args, 'basis integrals sum to %r, expected t1 - t0 = %r' % (I.sum(), float(b_ - a_)))
        l1.append((b, (a_, b_), I))

    # ---------------------------------------------------------------- curvature, torsion, Frenet frame
    for it in range(reps):
        while True:
            spec = O.gen_obj(rng, pardim=1, kinds=['open'], nint_max=2, pmax=5, dim=3, rational=rng.random() < 0.3)
            if spec['bases'][0]['order'] >= 4 and continuous(spec):
                break
        o = O.make_impl(spec)
        args = dict(obj=O.spec_json(spec))
        ts = [o.start(0) + (o.end(0) - o.start(0)) * (rng.randint(1, 63) / 64.0 + 1 / 256.0) for _ in range(4)]
        try:
            v = np.asarray(o.derivative(ts, 1))
            a = np.asarray(o.derivative(ts, 2))
            j = np.asarray(o.derivative(ts, 3))
            w = np.cross(v, a)
            if np.min(np.linalg.norm(w, axis=1)) < 1e-6 * max(1.0, np.max(np.linalg.norm(v, axis=1)) ** 3):
                continue
            kap = np.linalg.norm(w, axis=1) / np.linalg.norm(v, axis=1) ** 3
            tau = np.einsum('ij,ij->i', w, j) / np.linalg.norm(w, axis=1) ** 2
            count('curvature/torsion', measure='curvature')
            kv = np.asarray(o.curvature(ts))
            tv = np.asarray(o.torsion(ts))
            if np.max(np.abs(kv - kap)) > 1e-8 * max(1.0, np.max(kap)) or np.max(np.abs(tv - tau)) > 1e-8 * max(1.0, np.max(np.abs(tau))):
                fail('curvature/torsion', dict(args, t=ts), 'vector evaluation differs from |v x a|/|v|^3, (v x a).a\'/|v x a|^2')
            for i, t in enumerate(ts):
                k1, t1 = float(o.curvature(t)), float(o.torsion(t))
                if abs(k1 - kap[i]) > 1e-8 * max(1.0, kap[i]):
                    fail('curvature/torsion', dict(args, t=t), 'curvature at a single parameter is %r, expected %r' % (k1, float(kap[i])))
                if abs(t1 - tau[i]) > 1e-8 * max(1.0, abs(tau[i])):
                    fail('curvature/torsion', dict(args, t=t), 'torsion at a single parameter is %r, expected %r' % (t1, float(tau[i])))
                    break
            # one-sided values at interior knots: curvature / torsion taken from below (above=False) use the derivatives
            # from below (they differ from the ones from above where the curve is only C1 / C2)
            s_, e_ = O.domain(spec['bases'][0])
            iknots = sorted(set(float(x) for x in spec['bases'][0]['knots'] if s_ < x < e_))
            for tk in iknots[:3]:
                for ab in (True, False):
                    v1 = np.asarray(o.derivative(tk, 1, above=ab)).reshape(-1)
                    a1 = np.asarray(o.derivative(tk, 2, above=ab)).reshape(-1)
                    j1 = np.asarray(o.derivative(tk, 3, above=ab)).reshape(-1)
                    w1 = np.cross(v1, a1)
                    if np.linalg.norm(w1) < 1e-6 * max(1.0, np.linalg.norm(v1) ** 3):
                        continue
                    kw = np.linalg.norm(w1) / np.linalg.norm(v1) ** 3
                    tw = float(np.dot(w1, j1)) / np.linalg.norm(w1) ** 2
                    kg = float(np.asarray(o.curvature(tk, above=ab)).reshape(-1)[0])
                    tg = float(np.asarray(o.torsion(tk, above=ab)).reshape(-1)[0])
                    tga = float(np.asarray(o.torsion([tk], above=ab)).reshape(-1)[0])
                    if abs(kg - kw) > 1e-8 * max(1.0, kw):
                        fail('curvature/torsion', dict(args, t=tk, above=ab), 'curvature at a knot from %s is %r, expected %r' % ('above' if ab else 'below', kg, kw))
                    if abs(tg - tw) > 1e-8 * max(1.0, abs(tw)) or abs(tga - tw) > 1e-8 * max(1.0, abs(tw)):
                        fail('curvature/torsion', dict(args, t=tk, above=ab), 'torsion at a knot from %s is %r (array form %r), expected %r' % ('above' if ab else 'below', tg, tga, tw))
            # Frenet frame orthonormal
            T = np.asarray(o.tangent(ts))
            Bn = np.asarray(o.binormal(ts))
            Nn = np.asarray(o.normal(ts))
            for i in range(len(ts)):
                M = np.array([T[i], Nn[i], Bn[i]])
                if np.max(np.abs(M @ M.T - np.eye(3))) > 1e-9:
                    fail('frenet', dict(args, t=ts[i]), 'tangent, normal, binormal are not orthonormal')
                    break
            # representation independence of curvature and torsion
            o2 = o.clone().raise_order(1).refine(1)
            if np.max(np.abs(np.asarray(o2.curvature(ts)) - kap)) > 1e-6 * max(1.0, np.max(kap)) or np.max(np.abs(np.asarray(o2.torsion(ts)) - tau)) > 1e-6 * max(1.0, np.max(np.abs(tau))):
                fail('curvature/torsion', dict(args, t=ts), 'curvature/torsion change under order elevation and refinement')
            # rigid motion invariant, scaling by s divides both by s
            o3 = o.clone().rotate(0.7, [1, 2, 2]).translate([1, -2, 0.5])
            if np.max(np.abs(np.asarray(o3.curvature(ts)) - kap)) > 1e-8 * max(1.0, np.max(kap)) or np.max(np.abs(np.asarray(o3.torsion(ts)) - tau)) > 1e-8 * max(1.0, np.max(np.abs(tau))):
                fail('curvature/torsion', dict(args, t=ts), 'curvature/torsion change under a rigid motion')
            o4 = o.clone().scale(2.0)
            if np.max(np.abs(np.asarray(o4.curvature(ts)) * 2 - kap)) > 1e-8 * max(1.0, np.max(kap)) or np.max(np.abs(np.asarray(o4.torsion(ts)) * 2 - tau)) > 1e-8 * max(1.0, np.max(np.abs(tau))):
                fail('curvature/torsion', dict(args, t=ts), 'curvature/torsion do not scale by 1/s under uniform scaling')
        except Exception as e:  # noqa
            fail('curvature/torsion', args, 'raised %s' % type(e).__name__)

    # ---------------------------------------------------------------- planar curves: curvature is the unsigned |v x a| / |v|^3
    for it in range(reps):
        while True:
            spec = O.gen_obj(rng, pardim=1, kinds=['open'], nint_max=2, pmax=5, dim=2, rational=rng.random() < 0.3)
            if spec['bases'][0]['order'] >= 3 and continuous(spec):
                break
        o = O.make_impl(spec)
        args = dict(obj=O.spec_json(spec))
        ts = [o.start(0) + (o.end(0) - o.start(0)) * (rng.randint(1, 63) / 64.0 + 1 / 256.0) for _ in range(5)]
        try:
            v = np.asarray(o.derivative(ts, 1))
            a = np.asarray(o.derivative(ts, 2))
            sp_ = np.linalg.norm(v, axis=1)
            if np.min(sp_) < 1e-6:
                continue
            kap = np.abs(v[:, 0] * a[:, 1] - v[:, 1] * a[:, 0]) / sp_ ** 3
            count('planar curvature', measure='curvature')
            kv = np.asarray(o.curvature(ts))
            ks = np.array([float(o.curvature(t)) for t in ts])
            lim = 1e-8 * max(1.0, np.max(kap))
            if np.max(np.abs(kv - kap)) > lim or np.max(np.abs(ks - kap)) > lim:
                fail('planar curvature', dict(args, t=ts), 'curvature (array %s, scalar %s) differs from |v x a| / |v|^3 = %s' % (kv.tolist(), ks.tolist(), kap.tolist()))
                continue
            # reversal and embedding in 3-D do not change it
            r_ = o.clone().reverse()
            tr = [r_.start(0) + r_.end(0) - t for t in ts]
            e3 = o.clone().set_dimension(3)
            if np.max(np.abs(np.asarray(r_.curvature(tr)) - kap)) > lim or np.max(np.abs(np.asarray(e3.curvature(ts)) - kap)) > lim:
                fail('planar curvature', dict(args, t=ts), 'curvature changes under reversal or embedding in 3-D')
            if np.max(np.abs(np.asarray(o.torsion(ts)))) != 0:
                fail('planar curvature', dict(args, t=ts), 'torsion of a planar curve is not zero')
        except Exception as e:  # noqa
            fail('planar curvature', args, 'raised %s' % type(e).__name__)

    # ---------------------------------------------------------------- analytic shapes under refinement
    def converge(name, make, exact, measure_):
        try:
            o = make()
            errs = []
            for _ in range(3):
                errs.append(abs(measure_(o) - exact) / exact)
                o.refine(1)
            count('analytic ' + name, measure='analytic')
            if errs[-1] > 1e-4 or errs[-1] > errs[0] * 1.01 + 1e-12:
                fail('analytic ' + name, dict(shape=name), 'relative errors under refinement %s do not converge to the analytic value %r' % (errs, exact))
        except Exception as e:  # noqa
            fail('analytic ' + name, dict(shape=name), 'raised %s' % type(e).__name__)
    r, h, R = 1.5, 2.0, 3.0
    converge('circle length', lambda: cf.circle(r), 2 * math.pi * r, lambda o: o.length())
    converge('circle p4C1 length', lambda: cf.circle(r, type='p4C1'), 2 * math.pi * r, lambda o: o.length())
    converge('arc length', lambda: cf.circle_segment(2.0, r), 2.0 * r, lambda o: o.length())
    converge('disc area', lambda: sf.disc(r), math.pi * r * r, lambda o: o.area())
    converge('square disc area', lambda: sf.disc(r, type='square'), math.pi * r * r, lambda o: o.area())
    converge('cylinder area', lambda: sf.cylinder(r, h), 2 * math.pi * r * h, lambda o: o.area())
    converge('sphere area', lambda: sf.sphere(r), 4 * math.pi * r * r, lambda o: o.area())
    converge('torus area', lambda: sf.torus(1.0, R), 4 * math.pi ** 2 * R, lambda o: o.area())
    converge('cylinder volume', lambda: vf.cylinder(r, h), math.pi * r * r * h, lambda o: o.volume())
    converge('sphere volume', lambda: vf.sphere(r), 4.0 / 3 * math.pi * r ** 3, lambda o: o.volume())
    converge('torus volume', lambda: vf.torus(1.0, R), 2 * math.pi ** 2 * R, lambda o: o.volume())
    try:
        c = cf.circle(r)
        count('analytic circle curvature', measure='analytic')
        for t in (0.3, 1.0, 2.5, 4.0):
            if abs(float(c.curvature(t)) - 1 / r) > 1e-9:
                fail('analytic circle curvature', dict(t=t), 'curvature of a circle of radius %r is %r' % (r, float(c.curvature(t))))
        c3 = cf.circle(r).set_dimension(3)
        if abs(float(c3.torsion(1.0))) > 1e-9:
            fail('analytic circle torsion', dict(t=1.0), 'torsion of a planar curve is %r' % float(c3.torsion(1.0)))
    except Exception as e:  # noqa
        fail('analytic circle curvature', {}, 'raised %s' % type(e).__name__)

    # ---------------------------------------------------------------- L1: centre and basis integrals vs the exact model
    corr_bad = C.Corr()
    lines, meta = [], []
    for ent in l1[: (200 if tier == 'quick' else 100000)]:
        if len(ent) == 2:
            spec, c0 = ent
            lines.append('obj_center %s %s' % (C.qs(tol), O.obj_tokens(spec)))
            meta.append(('center', spec, c0))
        else:
            b, (a_, b_), I = ent
            lines.append('basis_integrate %s %d %d %s %s %s' % (C.qs(tol), b['order'], b['periodic'] + 1, C.qlist(b['knots']), C.qs(a_), C.qs(b_)))
            meta.append(('integrate', b, I))
    outs = C.run_model(lines) if lines else []
    nl1 = 0
    for tk, (kind, x, want) in zip(outs, meta):
        nl1 += 1
        got = np.array([float(v) for v in tk.qlist()])
        want = np.asarray(want, dtype=float).reshape(-1)
        if (got.shape != want.shape or np.max(np.abs(got - want), initial=0) > 1e-10 * max(1.0, np.max(np.abs(want), initial=0))) and corr_bad.open():
            corr_bad += {'what': 'L1: %s differs from the exact model: %s vs %s' % (kind, want.tolist(), got.tolist()), 'op': kind,
                        'args': O.spec_json(x) if kind == 'center' else {'order': x['order'], 'knots': [str(v) for v in x['knots']], 'periodic': x['periodic']}}
    dist['op']['L1 comparisons'] = nl1
    # ---- curves with straight legs (zero acceleration: the Frenet frame is completed by a helper direction): polylines and
    # order-3 curves with collinear control triples, several parameters in ONE call, legs along the coordinate axes included
    # (the helper direction depends on the leg); every frame must be finite and orthonormal and equal to the single-point call
    from splipy import curve_factory as cf_
    for it in range(reps):
        npt = rng.randint(3, 6)
        pts_ = [np.array([rng.randint(-3, 3) for _ in range(3)], dtype=float)]
        while len(pts_) < npt:
            step = rng.choice([np.array(v_, dtype=float) for v_ in ((0, 0, 2), (0, 0, -1), (1, 0, 0), (0, 3, 0), (1, 1, 0), (1, -2, 2), (0, 1, 1))])
            if len(pts_) < 2 or np.linalg.norm(np.cross(step, pts_[-1] - pts_[-2])) > 1e-9 or np.dot(step, pts_[-1] - pts_[-2]) > 0:
                pts_.append(pts_[-1] + step)
        try:
            crv = cf_.polygon(pts_)
            ts = [crv.start(0) + (crv.end(0) - crv.start(0)) * (2 * i_ + 1) / (2.0 * (npt - 1)) for i_ in range(npt - 1)]
            rng.shuffle(ts)
            args = dict(points=[p_.tolist() for p_ in pts_], t=ts)
            nontriv.add(C.case_hash(args))
            T = np.asarray(crv.tangent(ts)).reshape(len(ts), 3)
            Bn = np.asarray(crv.binormal(ts)).reshape(len(ts), 3)
            Nn = np.asarray(crv.normal(ts)).reshape(len(ts), 3)
            count('frenet on straight legs', measure='frenet')
            for i in range(len(ts)):
                M = np.array([T[i], Nn[i], Bn[i]])
                if not np.all(np.isfinite(M)) or np.max(np.abs(M @ M.T - np.eye(3))) > 1e-9:
                    fail('frenet', dict(args, at=ts[i]), 'tangent, normal, binormal on a straight leg are not a finite orthonormal frame: %s' % M.tolist())
                    break
                B1 = np.asarray(crv.binormal(ts[i])).reshape(-1)
                if not np.allclose(B1, Bn[i], atol=1e-9):
                    fail('frenet', dict(args, at=ts[i]), 'the binormal depends on which other parameters are evaluated in the same call: %s alone, %s in the list' % (B1.tolist(), Bn[i].tolist()))
                    break
        except Exception as e:  # noqa
            fail('frenet', dict(points=[p_.tolist() for p_ in pts_]), 'frame on straight legs raised %s' % type(e).__name__)
    # ---- planar surfaces of ANY shape (random nets fold over: the Jacobian changes sign): the area is a property of the point set
    # traced with multiplicity, so the surface lying in the plane z = 0 of 3-space (and then moved rigidly) has the same area.
    # Both routes use the same Gauss points, hence agreement to rounding, not to quadrature accuracy
    for it in range(reps):
        spec = O.gen_obj(rng, pardim=2, dim=2, kinds=['open'], pmax=4, nint_max=2, rational=rng.random() < 0.3)
        o = O.make_impl(spec)
        args = dict(obj=O.spec_json(spec))
        nontriv.add(C.case_hash(args))
        try:
            a2 = float(o.area())
            o3 = o.clone().set_dimension(3)
            o3.rotate(rng.choice([0.5, 1.0, 2.5]), rng.choice([(1, 0, 0), (1, 2, 2), (0, 1, 0)]))
            o3.translate([1.5, -2.0, 0.25])
            a3 = float(o3.area())
            count('area in the plane vs in space', measure='area', pardim=2, rational=spec['rational'])
            if not (np.isfinite(a2) and abs(a2 - a3) <= 1e-9 * max(1.0, abs(a3))):
                fail('area', args, 'the area of a planar surface is %r, of the same surface moved rigidly in 3-space %r' % (a2, a3))
        except Exception as e:  # noqa
            fail('area', args, 'planar vs spatial area raised %s' % type(e).__name__)
    # ---- kernel-evaluated tie: Curve.binormal / Curve.normal vs Model/Frenet.v (binormal_dir, normal_dir on Q, vm_compute):
    #      the unit vector returned by the implementation is a positive multiple of the direction the model computes from x', x''
    import vmtie as T
    fcases = []
    for _ in range(30 if tier == 'quick' else 300):
        kind = rng.choice(['cubic', 'cubic', 'polyline', 'polyline-axis', 'tiny', 'long'])
        if kind.startswith('polyline'):
            pts_ = [[rng.randint(-8, 8) / 2.0 for _c in range(3)] for _i in range(4)]
            if kind == 'polyline-axis':
                ax_ = rng.randrange(3)
                pts_[1] = list(pts_[0]); pts_[1][ax_] += rng.choice([-2.0, 1.5, 3.0])
            crv = Curve(BSplineBasis(2, [0, 0, 1, 2, 3, 3]), pts_)
            t_ = rng.choice([0.25, 0.5, 0.75]) if kind == 'polyline-axis' else rng.choice([0.5, 1.5, 2.25])
        else:
            sc_ = {'tiny': 2.0 ** -40, 'long': 1.0}.get(kind, 1.0)
            b_ = {'long': 2.0 ** 31}.get(kind, 1.0)
            crv = Curve(BSplineBasis(4, [0, 0, 0, 0, b_ / 2, b_, b_, b_, b_]), [[sc_ * rng.randint(-16, 16) / 4.0 for _c in range(3)] for _i in range(5)])
            t_ = b_ * rng.choice([0.125, 0.375, 0.625, 0.9375])
        dx_, ddx_ = crv.derivative(t_, 1), crv.derivative(t_, 2)
        if not np.any(np.abs(np.cross(dx_, ddx_ if np.any(ddx_) else [0, 0, 1])) > 1e-9 * (np.linalg.norm(dx_) * max(np.linalg.norm(ddx_), 1e-300))):
            continue    # velocity parallel to the acceleration (or to the helper): no frame to compare
        try:
            bn_, nn_ = crv.binormal(t_), crv.normal(t_)
        except Exception as e:  # noqa
            corr_bad += {'what': 'vmtie frenet: binormal/normal raised %s' % type(e).__name__, 'op': 'frenet'}
            continue
        dist['op']['vmtie frenet ' + kind] = dist['op'].get('vmtie frenet ' + kind, 0) + 1
        inp_ = dict(kind=kind, knots=crv.knots(0, True).tolist(), controlpoints=crv.controlpoints.tolist(), t=t_)
        if kind not in ('tiny', 'long'):
            fcases.append(('binormal(%r) of a %s curve' % (t_, kind), 'same_dir (1 # 1000000) %s (binormal_dir %s %s)' % (T.ql(bn_), T.ql(dx_), T.ql(ddx_)), inp_))
        if kind not in ('tiny', 'long'):    # the implementation switches to its helper direction below an ABSOLUTE size of the acceleration
            fcases.append(('normal(%r) of a %s curve' % (t_, kind), 'same_dir (1 # 1000000) %s (normal_dir %s %s)' % (T.ql(nn_), T.ql(dx_), T.ql(ddx_)), inp_))
        fcases.append(('|binormal(%r)| = 1 on a %s curve' % (t_, kind), 'qclose (1 # 1000000) (dot3 %s %s) 1' % (T.ql(bn_), T.ql(bn_)), inp_))
        fcases.append(('|normal(%r)| = 1 on a %s curve' % (t_, kind), 'qclose (1 # 1000000) (dot3 %s %s) 1' % (T.ql(nn_), T.ql(nn_)), inp_))
    tie_f = T.report(V, corr_bad, 'frenet', 'Model/Frenet.v binormal_dir, normal_dir', *T.run_tie('frenet', ['Model.Frenet'], fcases))
    dist['op']['vmtie frenet evaluated'] = tie_f['cases']
    rc = V.finish(l0, corr_bad)
    C.write_evidence(PID, tier, seed, l0, {
        'evaluations': evals, 'distinct_nontrivial': len(nontriv),
        'rule': 'regular random objects (pardim 1-3, rational or not): length/area/volume and centre before/after knot insertion, refinement, order elevation (against a heavily refined '
                'reference, deviation at most 3x the original quadrature error), reversal, swap, split-and-sum, rigid motion (exact), uniform scaling (proper power); exactness for polynomial '
                'integrands; basis integrals on random sub-intervals vs independent piecewise Gauss quadrature and summing to t1-t0; curvature/torsion (scalar and vector calls) vs the defining '
                'formulas, Frenet orthonormality, invariance; analytic circle/arc/disc/cylinder/sphere/torus values under refinement; non-trivial = distinct inputs',
        'traces_validated_against_impl': evals,
        'input_distribution': {k: {str(a): b for a, b in v.items()} for k, v in dist.items()},
        'samples': samples or [{'ops': sorted(dist['op'])}],
    }, t0_, V.nviol, known=V.known)
    return rc


if __name__ == '__main__':
    sys.exit(C.guarded_main(PID, run))
