"""C18 — global numbering and mesh export are consistent for any patch order / orientation."""
import itertools
import os
import random
import shutil
import sys
import tempfile
import time

sys.path.insert(0, os.path.dirname(os.path.dirname(os.path.abspath(__file__))))
import common as C
import objs as O
import complexes as X
import build_pyx

PID = 'C18'


def run(tier, seed, replay=None):
    t0_ = time.time()
    V = C.Verdict(PID, tier, seed)
    l0 = C.l0_check(PID, thorough=(tier == 'thorough'))
    build_pyx.load_splipy()
    import numpy as np
    from splipy import state
    from splipy.splinemodel import SplineModel, Orientation, IFEMWriter
    from splipy.utils import section_from_index
    from splipy.io.ofoam import OpenFOAM
    rng = random.Random(seed)
    reps = 70 if tier == 'quick' else 400
    dist = {'op': {}, 'pardim': {}, 'kind': {}, 'patches': {}, 'order': {}}
    evals = 0
    nontriv = set()
    samples = []
    l1 = []

    def count(op, **kw):
        nonlocal evals
        evals += 1
        dist['op'][op] = dist['op'].get(op, 0) + 1
        for k, v in kw.items():
            dist[k][str(v)] = dist[k].get(str(v), 0) + 1

    def fail(op, args, what, **extra):
        V.failure(dict({'what': '%s: %s' % (op, what), 'op': op, 'args': args}, **extra))

    def describe(cx, **kw):
        d = dict(pardim=cx['pardim'], dim=cx['dim'], kind=cx['kind'], cells=[list(c) for c in cx['cells']],
                 patches=[O.spec_json(O.snapshot(p)) for p in cx['patches']])
        d.update(kw)
        return d

    def key(pt):
        return tuple(int(round(v * 1e6)) for v in pt)

    # ---------------------------------------------------------------- numbering of control points and cells
    for it in range(reps):
        pd = rng.choice([2, 2, 3, 3])
        order = rng.choice([2, 2, 3, 4]) if pd == 2 else rng.choice([2, 2, 3])
        asym_ = rng.random() < 0.4      # knot vectors that are not symmetric under reversal (conforming: the same along each lattice axis)
        ref = rng.choice([0, 0, 1, 2]) if pd == 2 else rng.choice([0, 0, 1])
        rep_knot = order >= 3 and rng.random() < 0.5
        rat18 = rng.choice([False, False, False, True, 'mixed', 'weighted'])     # rational, or rational and polynomial patches side by side
        ring = rng.random() < 0.3
        if ring:
            # complexes closing around an axis: a patch adjacent to itself (one interface between its two ends), two
            # patches meeting along two interfaces, closed chains
            cx = X.build_ring(rng, pd, order=order, refine=ref, repeat_knot=rep_knot, rational=rat18, asym=asym_)
        else:
            cx = X.build(rng, pd, order=order, refine=ref, repeat_knot=rep_knot, rational=rat18, asym=asym_)
        args = describe(cx, order=order, refine=ref)
        args['repeated_knot'] = rep_knot
        nontriv.add(C.case_hash(args))
        try:
            model = SplineModel(pd, cx['dim'])
            model.add(cx['patches'], **(dict(raise_on_twins=False) if (ring and cx['kind'] == 'ring2') else {}))
            model.generate_cp_numbers()
            model.generate_cell_numbers()
        except Exception as e:  # noqa
            fail('numbering', args, 'raised %s' % type(e).__name__)
            continue
        count('numbering', pardim=pd, kind=cx['kind'], patches=len(cx['patches']), order=order)
        if len(samples) < 2 and len(cx['patches']) > 2:
            samples.append(dict(op='numbering', kind=cx['kind'], cells=args['cells'], pardim=pd, order=order))
        num_of = {}
        pts_of = {}
        bad = None
        for node in model.catalogue.top_nodes():
            nums = np.asarray(node.cp_numbers)
            cps = np.asarray(node.obj.controlpoints)
            cps = cps[..., :-1] / cps[..., -1:] if node.obj.rational else cps[..., :cx['dim']]    # the points, not the storage
            if nums.shape != cps.shape[:-1]:
                bad = 'cp_numbers has shape %s, the control net %s' % (nums.shape, cps.shape[:-1])
                break
            for idx in itertools.product(*[range(n) for n in nums.shape]):
                k, n = key(cps[idx]), int(nums[idx])
                if num_of.setdefault(k, n) != n:
                    bad = 'one geometric control point carries two global numbers (%d and %d)' % (num_of[k], n)
                    break
                if pts_of.setdefault(n, k) != k:
                    bad = 'global number %d is given to two different points' % n
                    break
            if bad:
                break
        if not bad and sorted(pts_of) != list(range(model.ncps)):
            bad = 'the numbers used are not exactly 0..ncps-1 (ncps = %d, %d distinct numbers, %d distinct points)' % (model.ncps, len(pts_of), len(num_of))
        if not bad:
            allc = np.asarray(model.cps())
            for n, k in pts_of.items():
                if key(allc[n]) != k:
                    bad = 'cps()[%d] is not the point carrying number %d' % (n, n)
                    break
        if bad:
            fail('numbering', args, bad)
        else:
            ids = {}
            plist = []
            for node in model.catalogue.top_nodes():
                cps = np.asarray(node.obj.controlpoints)
                cps = (cps[..., :-1] / cps[..., -1:] if node.obj.rational else cps[..., :cx['dim']]).reshape(-1, cx['dim'])
                plist.append(([ids.setdefault(key(q), len(ids)) for q in cps], np.asarray(node.cp_numbers).reshape(-1).tolist()))
            l1.append((args, plist, model.ncps))
        # cells
        seen = []
        for node in model.catalogue.top_nodes():
            cn = np.asarray(node.cell_numbers)
            want = tuple(len(k) - 1 for k in node.obj.knots())
            if cn.shape != want:
                fail('cell numbering', args, 'cell_numbers has shape %s, the knot spans %s' % (cn.shape, want))
            seen += cn.reshape(-1).tolist()
        if sorted(seen) != list(range(model.ncells)):
            fail('cell numbering', args, 'cell numbers do not enumerate every knot-span cell exactly once')

        # ------------------------------------------------------------ IFEM connections
        try:
            w = IFEMWriter(model)
            conns = list(w.connections())
            count('ifem connections')
            shared, bnd = X.interior_faces(cx['cells'], pd, cx.get('period'))
            if len(conns) != len(shared):
                fail('ifem connections', args, '%d connections listed, the complex has %d interfaces' % (len(conns), len(shared)))
            seenc = set()
            for cn_ in conns:
                m, s_ = w.nodes[cn_.master - 1], w.nodes[cn_.slave - 1]
                fm = m.obj.section(*section_from_index(pd, pd - 1, cn_.midx - 1), unwrap_points=False)
                fs = s_.obj.section(*section_from_index(pd, pd - 1, cn_.sidx - 1), unwrap_points=False)
                kk = (cn_.master, cn_.slave, cn_.midx, cn_.sidx)
                if kk in seenc or cn_.master > cn_.slave or (cn_.master == cn_.slave and cn_.midx >= cn_.sidx):
                    fail('ifem connections', args, 'an interface is named twice or with master > slave: %s' % (cn_,))
                    break
                seenc.add(kk)
                try:
                    ori = Orientation.compute(fm, fs)
                except Exception:  # noqa
                    fail('ifem connections', args, 'faces %d of patch %d and %d of patch %d do not coincide' % (cn_.midx, cn_.master, cn_.sidx, cn_.slave))
                    break
                # decode the orientation flag and check that it really maps the slave face onto the master face
                flag = cn_.orient
                if pd == 2:
                    perm, flip = (0,), (bool(flag & 1),)
                else:
                    swap = bool(flag & 4)
                    perm = (1, 0) if swap else (0, 1)
                    bits = [bool(flag & 1), bool(flag & 2)]          # bit i belongs to axis perm[::-1][i]
                    flip = [False, False]
                    for i, axis in enumerate(perm[::-1]):
                        flip[axis] = bits[i]
                    flip = tuple(flip)
                dec = Orientation(perm, flip)
                # (a rational and a polynomial patch may share the interface: compare the points, not the storage)
                a_ = np.asarray(fm.controlpoints)[..., :-1] / np.asarray(fm.controlpoints)[..., -1:] if fm.rational else np.asarray(fm.controlpoints)
                b_ = np.asarray(fs.controlpoints)[..., :-1] / np.asarray(fs.controlpoints)[..., -1:] if fs.rational else np.asarray(fs.controlpoints)
                mapped = np.stack([dec.map_array(b_[..., c_]) for c_ in range(b_.shape[-1])], axis=-1)
                if mapped.shape != a_.shape or not np.allclose(mapped, a_, atol=1e-8):
                    fail('ifem connections', args, 'the orientation flag %d does not map the slave face onto the master face (%s)' % (flag, cn_,))
                    break
        except Exception as e:  # noqa
            fail('ifem connections', args, 'raised %s' % type(e).__name__)

    # ---------------------------------------------------------------- faces of trilinear right-handed models, OpenFOAM order
    of_cases = []
    for it in range(reps):
        ref = rng.choice([0, 1, 1, 2])
        ringf = rng.random() < 0.25
        if it % 8 == 3:
            # the smallest mesh: one cell, no internal face at all
            ref = 0
            cx = X.build(rng, 3, dim=3, order=2, refine=0, right_handed=True, cells=[(0, 0, 0)], kind='single')
        elif ringf:
            # closed rings: a volume adjacent to itself, two volumes sharing two interfaces, closed chains
            cx = X.build_ring(rng, 3, order=2, refine=ref, right_handed=True)
        else:
            cx = X.build(rng, 3, dim=3, order=2, refine=ref, right_handed=True)
        args = describe(cx, refine=ref)
        nontriv.add(C.case_hash(args))
        try:
            model = SplineModel(3, 3, force_right_hand=True)
            model.add(cx['patches'], **(dict(raise_on_twins=False) if cx['kind'] == 'ring2' else {}))
            for i_, node in enumerate(model.boundary()):
                node.name = 'b%d' % (i_ % 3)
            model.generate_cp_numbers()
            model.generate_cell_numbers()
            faces = model.faces()
        except Exception as e:  # noqa
            fail('faces', args, 'raised %s' % type(e).__name__)
            continue
        count('faces', kind=cx['kind'], patches=len(cx['patches']))
        allc = np.asarray(model.cps())
        # cell -> its 8 corner numbers, centroid
        cells = {}
        for node in model.catalogue.top_nodes():
            cn = np.asarray(node.cell_numbers)
            nums = np.asarray(node.cp_numbers)
            for idx in itertools.product(*[range(n) for n in cn.shape]):
                corner = [int(nums[tuple(i + o for i, o in zip(idx, off))]) for off in itertools.product([0, 1], repeat=3)]
                cells[int(cn[idx])] = corner
        try:
            cent = {c_: allc[v].mean(axis=0) for c_, v in cells.items()}
        except Exception:  # noqa  (numbering already reported above)
            continue
        per_cell = {c_: 0 for c_ in cells}
        seenf = {}
        bad = None
        for f in faces:
            nodes = tuple(int(x) for x in f['nodes'])
            ow, nb = int(f['owner']), int(f['neighbor'])
            fk = tuple(sorted(nodes))
            if fk in seenf:
                bad = 'a face is listed twice'
                break
            seenf[fk] = 1
            if len(set(nodes)) != 4 or not set(nodes) <= set(cells.get(ow, [])):
                bad = 'a face is not a quadrilateral of its owner cell'
                break
            per_cell[ow] += 1
            p = allc[list(nodes)]
            normal = np.cross(p[1] - p[0], p[3] - p[0]) + np.cross(p[3] - p[2], p[1] - p[2])
            fc = p.mean(axis=0)
            if nb >= 0:
                if not ow < nb:
                    bad = 'internal face with owner %d not below neighbour %d' % (ow, nb)
                    break
                if f['name'] is not None:
                    bad = 'an internal face carries a boundary name'
                    break
                if not set(nodes) <= set(cells.get(nb, [])):
                    bad = 'an internal face is not a face of its neighbour cell'
                    break
                per_cell[nb] += 1
                if np.dot(normal, cent[nb] - cent[ow]) <= 0:
                    bad = 'the vertex order of an internal face makes its normal point from neighbour to owner'
                    break
            else:
                if f['name'] is None:
                    bad = 'a boundary face has no boundary name'
                    break
                if np.dot(normal, fc - cent[ow]) <= 0:
                    bad = 'the vertex order of a boundary face makes its normal point into the owner cell'
                    break
        if not bad and any(v != 6 for v in per_cell.values()):
            bad = 'some cell is bounded by %s faces instead of six' % sorted(set(per_cell.values()))
        if bad:
            fail('faces', args, bad)
            continue
        # OpenFOAM files
        tmp = tempfile.mkdtemp(prefix='c18_')
        try:
            target = os.path.join(tmp, 'mesh') if it % 2 else tmp
            with OpenFOAM(target) as of:
                of.write(model)
            count('openfoam')

            def body(name):
                txt = open(os.path.join(target, name)).read()
                txt = txt[txt.index('}') + 1:]
                lines_ = [l.strip() for l in txt.strip().split('\n')]
                n = int(lines_[0])
                return n, lines_[2:2 + n]
            nf, fl = body('faces')
            no, ol = body('owner')
            nn, nl = body('neighbour')
            ow = [int(x) for x in ol]
            nb = [int(x) for x in nl]
            if not (nf == no == nn == len(faces)):
                fail('openfoam', args, 'faces/owner/neighbour files disagree on the number of faces')
            nint = sum(1 for x in nb if x >= 0)
            if any(x < 0 for x in nb[:nint]) or any(x >= 0 for x in nb[nint:]):
                fail('openfoam', args, 'internal faces are not written before the boundary faces')
            elif any((ow[i], nb[i]) > (ow[i + 1], nb[i + 1]) for i in range(nint - 1)):
                fail('openfoam', args, 'internal faces are not sorted by owner, then neighbour')
            btxt = open(os.path.join(target, 'boundary')).read()
            import re
            blocks = re.findall(r'(\w+)\s*\{\s*type patch;\s*nFaces (\d+);\s*startFace (\d+);', btxt)
            declared = int(btxt[btxt.index('}') + 1:].strip().split('\n')[0])
            if declared != len(blocks) or len(blocks) != len(set(b_[0] for b_ in blocks)):
                fail('openfoam', args, 'the boundary file declares %d patches and lists %d blocks (%d distinct names)' % (declared, len(blocks), len(set(b_[0] for b_ in blocks))))
            pos = nint
            for nm, nfa, st in blocks:
                if int(st) != pos:
                    fail('openfoam', args, 'boundary %s does not start where the previous block ends' % nm)
                    break
                pos += int(nfa)
            else:
                if pos != nf:
                    fail('openfoam', args, 'boundary blocks do not cover all boundary faces')
            # L1 (Model/OFoam.v): the same face list, in the order faces() returns it, through the model of the three stable
            # sorts and of the groupby loop; compared with the files entry by entry
            nmidx = lambda x_: -1 if x_ is None else int(str(x_)[1:])
            of_cases.append(dict(args=args, line='ofoam %d %s' % (len(faces), ' '.join(
                '4 %d %d %d %d %d %d %d' % (tuple(int(v_) for v_ in f_['nodes']) + (int(f_['owner']), int(f_['neighbor']), nmidx(f_['name']))) for f_ in faces)),
                file_faces=[tuple(int(v_) for v_ in l_.strip('()').split()) for l_ in fl], owner=ow, neighbour=nb,
                blocks=[(int(nm_[1:]), int(nfa_), int(st_)) for nm_, nfa_, st_ in blocks], declared=declared))
        except Exception as e:  # noqa
            fail('openfoam', dict(args, new_directory=bool(it % 2)), 'raised %s' % type(e).__name__)
        finally:
            shutil.rmtree(tmp, ignore_errors=True)

    # ---------------------------------------------------------------- L1: OpenFOAM ordering vs Model/OFoam.v
    if of_cases:
        outs_ = C.run_model([c_['line'] for c_ in of_cases])
        for c_, tk in zip(of_cases, outs_):
            mf_ = tk.list(lambda: (tuple(tk.ilist()), tk.int(), tk.int(), tk.int()))
            mb_ = tk.list(lambda: (tk.int(), tk.int(), tk.int()))
            mdecl, mnint = tk.int(), tk.int()
            count('L1 openfoam')
            got_ = [(fn_, o_, n_) for fn_, o_, n_ in zip(c_['file_faces'], c_['owner'], c_['neighbour'])]
            want_ = [(fn_, o_, n_) for fn_, o_, n_, _ in mf_]
            if got_ != want_:
                k_ = next((i_ for i_, (a_, b_) in enumerate(zip(got_, want_)) if a_ != b_), min(len(got_), len(want_)))
                corr_bad += {'what': 'L1: OpenFOAM files: face %d is %s, model %s' % (k_, got_[k_] if k_ < len(got_) else None, want_[k_] if k_ < len(want_) else None),
                             'op': 'openfoam', 'args': c_['args']}
            elif c_['blocks'] != mb_ or c_['declared'] != mdecl:
                corr_bad += {'what': 'L1: OpenFOAM boundary file: blocks %s declared %d, model %s declared %d' % (c_['blocks'], c_['declared'], mb_, mdecl),
                             'op': 'openfoam', 'args': c_['args']}
    # ---------------------------------------------------------------- L1: faces() and cell numbers vs Model/Faces.v
    # structured trilinear patches (cell shape nx x ny x nz), alone or as the second of two disconnected patches (so that
    # the cell numbers start at an offset): nodes (through the patch's own cp_numbers), owner, neighbour, in the order the
    # implementation returns them
    from splipy import Volume
    face_cases = []
    for it in range(max(6, reps // 4)):
        sh = (rng.randint(1, 4), rng.randint(1, 3), rng.randint(1, 3))
        sh = tuple(rng.sample(sh, 3))
        second = it % 3 == 2
        args = dict(cell_shape=list(sh), second_patch=second)
        try:
            v = Volume()
            v.refine(sh[0] - 1, sh[1] - 1, sh[2] - 1)
            patches = [v]
            if second:
                w0 = Volume() + (5, 0, 0)
                w0.refine(rng.randint(0, 2), rng.randint(0, 1), 0)
                patches = [w0, v]
            m = SplineModel(3, 3)
            m.add(patches)
            m.generate_cp_numbers()
            m.generate_cell_numbers()
            node = [n_ for n_ in m.catalogue.top_nodes() if n_.obj.shape == v.shape and np.allclose(n_.obj.controlpoints, v.controlpoints)][0]
            start = int(np.asarray(node.cell_numbers).min())
            fs = np.hstack(node.faces())
            cpn = np.asarray(node.cp_numbers)
            shapes = [tuple(len(k) - 1 for k in n_.obj.knots()) for n_ in m.catalogue.top_nodes()]
            cellnums = [np.asarray(n_.cell_numbers).reshape(-1).tolist() for n_ in m.catalogue.top_nodes()]
            face_cases.append((args, start, sh, fs, cpn, shapes, cellnums, m.ncells))
            count('faces vs model')
        except Exception as e:  # noqa
            fail('faces', args, 'raised %s' % type(e).__name__)
    # two structured patches glued along a face, the second one re-oriented (Model/Faces2.v): the complete (owner, neighbour)
    # list of faces() in order, and the node lists of the owner's faces through its own cp_numbers
    from splipy.splinemodel import Orientation as _Ori
    glue_cases = []
    for it in range(max(6, reps // 4)):
        shA = tuple(rng.sample([rng.randint(1, 3), rng.randint(1, 3), rng.randint(2, 4)], 3))
        dA, sideA = rng.randrange(3), rng.random() < 0.5
        args = dict(shape=list(shA), face=[dA, sideA])
        try:
            def mk_(shape):
                v_ = Volume()
                for d_ in range(3):
                    if shape[d_] > 1:
                        v_.refine(shape[d_] - 1, direction=d_)
                return v_
            A_ = mk_(shA)
            shBg = list(shA)
            shBg[dA] = rng.randint(1, 2)
            off_ = [0.0, 0.0, 0.0]
            off_[dA] = 1.0 if sideA else -1.0
            B_ = mk_(shBg)
            B_ += off_
            ops_ = []
            for _ in range(rng.randint(0, 2)):
                a_, b_ = rng.sample(range(3), 2)
                B_.swap(a_, b_)
                ops_.append(('swap', a_, b_))
            for d_ in range(3):
                if rng.random() < 0.5:
                    B_.reverse(d_)
                    ops_.append(('reverse', d_))
            args['reorientation'] = ops_
            m = SplineModel(3, 3, force_right_hand=False)
            m.add([A_, B_])
            m.generate_cp_numbers()
            m.generate_cell_numbers()
            nA, nB = m.catalogue.top_nodes()
            bd = nA.lower_nodes[2][2 * dA + (1 if sideA else 0)]
            if bd.owner is not nA or bd.nhigher != 2:
                fail('faces', args, 'the glued face is not an interface owned by the first patch')
                continue
            nb_sec = section_from_index(3, 2, nB.lower_nodes[2].index(bd))
            dB = [i_ for i_, s_ in enumerate(nb_sec) if s_ is not None][0]
            sideB = nb_sec[dB] == -1
            ori = _Ori.compute(bd.obj, nB.obj.section(*nb_sec))
            fs = m.faces()
            shB = tuple(int(x_) for x_ in np.asarray(nB.cell_numbers).shape)
            startA, startB = int(np.asarray(nA.cell_numbers).flat[0]), int(np.asarray(nB.cell_numbers).flat[0])
            nfA = sum(len(x_) for x_ in nA.faces())
            glue_cases.append((args, (shA, startA, dA, sideA, shB, startB, dB, sideB, tuple(ori.perm) == (1, 0), bool(ori.flip[0]), bool(ori.flip[1])),
                               fs, np.asarray(nA.cp_numbers), nfA))
            count('two-patch faces vs model')
        except Exception as e:  # noqa
            fail('faces', args, 'two glued patches: raised %s' % type(e).__name__)
    corr_bad = C.Corr()
    glines = ['model_faces %d %d %d %d %d %d %d %d %d %d %d %d %d %d %d' % (g_[0] + (g_[1], g_[2], int(g_[3])) + g_[4] + (g_[5], g_[6], int(g_[7]), int(g_[8]), int(g_[9]), int(g_[10])))
              for (_, g_, _, _, _) in glue_cases]
    gouts = C.run_model(glines) if glines else []
    for tk, (args, g_, fs, cpnA, nfA) in zip(gouts, glue_cases):
        conf = tk.int()
        mf = tk.list(lambda: ([(tk.int(), tk.int(), tk.int()) for _ in range(4)], tk.int(), tk.int()))
        if not conf:
            corr_bad += {'what': 'L1: the model finds the two faces non-conforming, the implementation glued them', 'op': 'faces', 'args': args}
        elif len(mf) != len(fs):
            corr_bad += {'what': 'L1: two glued patches: %d faces, model %d' % (len(fs), len(mf)), 'op': 'faces', 'args': args}
        else:
            for fi, (nodes_, ow_, nb_) in enumerate(mf):
                if int(fs['owner'][fi]) != ow_ or int(fs['neighbor'][fi]) != nb_:
                    corr_bad += {'what': 'L1: two glued patches: face %d has owner %d neighbour %d, model owner %d neighbour %d'
                                         % (fi, int(fs['owner'][fi]), int(fs['neighbor'][fi]), ow_, nb_), 'op': 'faces', 'args': args}
                    break
                if fi < nfA and [int(cpnA[ix]) for ix in nodes_] != [int(x_) for x_ in fs['nodes'][fi]]:
                    corr_bad += {'what': 'L1: two glued patches: nodes of face %d differ from the model' % fi, 'op': 'faces', 'args': args}
                    break
    flines = []
    for (args, start, sh, fs, cpn, shapes, cellnums, nc) in face_cases:
        flines.append('patch_faces %d %d %d %d' % ((start,) + sh))
        flines.append('cell_numbers %d %s' % (len(shapes), ' '.join('%d %d %d' % s_ for s_ in shapes)))
    fouts = C.run_model(flines) if flines else []
    for ci, (args, start, sh, fs, cpn, shapes, cellnums, nc) in enumerate(face_cases):
        tk = fouts[2 * ci]
        mf = tk.list(lambda: ([(tk.int(), tk.int(), tk.int()) for _ in range(4)], tk.int(), tk.int()))
        if len(mf) != len(fs):
            corr_bad += {'what': 'L1: faces(): %d faces, model %d' % (len(fs), len(mf)), 'op': 'faces', 'args': args}
            continue
        for fi, (nodes_, ow_, nb_) in enumerate(mf):
            want = [int(cpn[ix]) for ix in nodes_]
            got = [int(x) for x in fs['nodes'][fi]]
            if want != got or int(fs['owner'][fi]) != ow_ or int(fs['neighbor'][fi]) != nb_:
                corr_bad += {'what': 'L1: faces(): face %d is nodes %s owner %d neighbour %d, model: nodes %s owner %d neighbour %d'
                                     % (fi, got, int(fs['owner'][fi]), int(fs['neighbor'][fi]), want, ow_, nb_), 'op': 'faces', 'args': args}
                break
        tk = fouts[2 * ci + 1]
        n_ = tk.int()
        mnums = tk.list(lambda: tk.list(tk.int))
        if n_ != nc or mnums != cellnums:
            corr_bad += {'what': 'L1: cell numbers differ from the model (ncells %d vs %d)' % (nc, n_), 'op': 'cell numbering', 'args': args}
    # ---------------------------------------------------------------- L1: numbering vs the extracted abstract model
    lines = ['number_model %d %s' % (len(pl), ' '.join('%d %s' % (len(k), ' '.join(map(str, k))) for k, _ in pl)) for _, pl, _ in l1]
    outs = C.run_model(lines) if lines else []
    nl1 = 0
    for tk, (a_, pl, ncps) in zip(outs, l1):
        nl1 += 1
        n = tk.int()
        got = tk.list(lambda: tk.list(tk.int))
        if (n != ncps or got != [nums for _, nums in pl]) and corr_bad.open():
            corr_bad += {'what': 'L1: global numbers differ from the first-come numbering of the model (ncps %d vs %d)' % (ncps, n), 'op': 'numbering', 'args': a_}
    dist['op']['L1 comparisons'] = nl1
    rc = V.finish(l0, corr_bad)
    C.write_evidence(PID, tier, seed, l0, {
        'evaluations': evals, 'distinct_nontrivial': len(nontriv),
        'rule': 'random conforming complexes (blocks, L/T/O shapes; surfaces of order 2-4 and volumes of order 2-3, refined 0-2 times; random orientation per patch, random insertion order): '
                'global control point numbers vs geometric identity, range 0..ncps-1, cps(), cell numbers; IFEM connections vs the interfaces of the complex with decoded orientation flags; '
                'trilinear right-handed volume models: every face once, owner < neighbour, boundary names, six faces per cell, normals from owner to neighbour; OpenFOAM file ordering; '
                'non-trivial = distinct complexes',
        'traces_validated_against_impl': evals,
        'input_distribution': {k: {str(a): b for a, b in v.items()} for k, v in dist.items()},
        'samples': samples or [{'ops': sorted(dist['op'])}],
    }, t0_, V.nviol, known=V.known)
    return rc


if __name__ == '__main__':
    sys.exit(C.guarded_main(PID, run))
