"""C07 — splitting yields exact restrictions tiling the object; appending re-joins them."""
import os
import random
import sys
import time
from fractions import Fraction as Fr

sys.path.insert(0, os.path.dirname(os.path.dirname(os.path.abspath(__file__))))
import common as C
import objs as O
import build_pyx

PID = 'C07'


def run(tier, seed, replay=None):
    t0 = time.time()
    V = C.Verdict(PID, tier, seed)
    O.FAR_PROB = 0.08     # some objects live far from the origin on compressed knot vectors
    l0 = C.l0_check(PID, thorough=(tier == 'thorough'))
    build_pyx.load_splipy()
    import numpy as np
    from splipy import state
    from splipy.utils import refinement
    rng = random.Random(seed)
    tol = C.fr(state.knot_tolerance)
    nobj = 450 if tier == 'quick' else 3500
    cases = []
    dist = {'pardim': {}, 'periodic_dir': {}, 'n_points': {}, 'point_kind': {}, 'errors': {}}
    if replay:
        import json
        rc = json.load(open(replay))
        rc = rc.get('case', rc)
        todo = [(O.spec_from_json(rc['obj']), rc)]
    else:
        todo = [(O.gen_obj(rng, kinds=['open', 'open', 'nonopen', 'periodic', 'periodic']), None) for _ in range(nobj)]
    for spec, forced in todo:
        pd = len(spec['bases'])
        o = O.make_impl(spec)
        pre = O.snapshot(o)
        if forced:
            d, pts = forced['direction'], [Fr(x) for x in forced['points']]
        else:
            d = rng.randrange(pd)
            b = spec['bases'][d]
            s_, e_ = O.domain(b)
            uniq = sorted(set(x for x in b['knots'] if s_ < x < e_))
            cand = set()
            for _ in range(rng.randint(1, 3)):
                kind = rng.choice(['knot', 'between', 'between', 'end', 'near'])
                if kind == 'knot' and uniq:
                    cand.add(rng.choice(uniq))
                elif kind == 'near' and uniq and b['periodic'] < 0:
                    # what 0.1 + 0.2 is to the knot 0.3: within the knot tolerance of an existing knot, not equal to it
                    cand.add(rng.choice(uniq) + rng.choice([-1, 1]) * Fr(1, 2 ** rng.choice([40, 36, 34])))
                elif kind == 'end' and b['periodic'] < 0:
                    cand.add(rng.choice([s_, e_]))
                else:
                    cand.add(s_ + (e_ - s_) * Fr(rng.randint(1, 63), 64))
                dist['point_kind'][kind] = dist['point_kind'].get(kind, 0) + 1
            pts = []
            for x_ in sorted(cand):
                # an increasing set of parameters: values the tolerance cannot tell apart are one value
                if not pts or x_ - pts[-1] > Fr(1, 2 ** 20):
                    pts.append(x_)
        b = spec['bases'][d]
        dist['pardim'][pd] = dist['pardim'].get(pd, 0) + 1
        dist['periodic_dir'][b['periodic'] >= 0] = dist['periodic_dir'].get(b['periodic'] >= 0, 0) + 1
        dist['n_points'][len(pts)] = dist['n_points'].get(len(pts), 0) + 1
        case = dict(op='split', direction=d, points=[str(x) for x in pts], obj=O.spec_json(pre))
        err = None
        pieces = None
        try:
            arg = float(pts[0]) if len(pts) == 1 and rng.random() < 0.5 else [float(x) for x in pts]
            res = o.split(arg, d)
            plist = res if isinstance(res, (list, tuple)) else [res]
            if any(not O.finite(p_) for p_ in plist):
                V.failure(dict(case, what='L2: split produced non-finite control points'))
                continue
            pieces = [O.snapshot(p_) for p_ in plist]
            single = not isinstance(res, (list, tuple))
            # append round trip (curves, non-periodic pieces)
            rejoin = None
            # Curve.append glues C0 ("assumes that the end of this curve perfectly matches the start of the input curve"):
            # a curve that jumps at a split point (knot of multiplicity >= order there) cannot be re-joined by it, and the
            # property does not ask for that
            b0_ = spec['bases'][0]
            jump_at_split = pd == 1 and any(sum(1 for y_ in b0_['knots'] if abs(y_ - x) < Fr(1, 10 ** 10)) >= b0_['order'] for x in pts)
            if pd == 1 and len(plist) > 1 and not jump_at_split:
                try:
                    cur = plist[0].clone()
                    for nxt in plist[1:]:
                        cur.append(nxt)
                    rejoin = O.snapshot(cur)
                except Exception as e:  # noqa
                    rejoin = 'ERR ' + type(e).__name__
        except Exception as e:  # noqa
            err = type(e).__name__
            dist['errors'][err] = dist['errors'].get(err, 0) + 1
            single = False
            rejoin = None
        after = O.snapshot(o)
        if O.snaps_differ(after, pre, rel=0):
            V.failure(dict(case, what='split modified its operand'))
        cases.append(dict(case=case, pre=pre, pieces=pieces, err=err, d=d, pts=pts, single=single, rejoin=rejoin))
    lines, idx = [], []
    for c in cases:
        ent = {'l1': len(lines)}
        lines.append('obj_split %s %s %d %s' % (C.qs(tol), O.obj_tokens(c['pre']), c['d'], C.qlist(c['pts'])))
        if c['pieces'] is not None:
            ent['ev'] = []
            pre = c['pre']
            bd = pre['bases'][c['d']]
            s_, e_ = O.domain(bd)
            T = e_ - s_
            for pi, pc in enumerate(c['pieces']):
                ps, pe = O.domain(pc['bases'][c['d']])
                tuples_piece, tuples_orig = [], []
                for _ in range(4):
                    tp = []
                    for dd, bb in enumerate(pc['bases']):
                        a_, b_ = O.domain(bb)
                        tp.append(a_ + (b_ - a_) * Fr(rng.randint(0, 64), 64))
                    to = list(tp)
                    if bd['periodic'] >= 0:
                        x = tp[c['d']]
                        to[c['d']] = (x - s_) - T * ((x - s_) // T) + s_
                        if tp[c['d']] == pe:      # right end of the opened period: the original seen from the left
                            continue
                    elif tp[c['d']] == pe and pi < len(c['pieces']) - 1:
                        continue                  # right end of an inner piece is the left limit of the original
                    if all(C.fr(float(v)) == v for v in tp + to):
                        tuples_piece.append(tuple(tp))
                        tuples_orig.append(tuple(to))
                if tuples_piece:
                    ent['ev'].append((pi, tuples_piece, len(lines), len(lines) + 1))
                    lines.append(O.eval_cmd(tol, pc, tuples_piece))
                    lines.append(O.eval_cmd(tol, pre, tuples_orig))
            if isinstance(c['rejoin'], dict):
                pr = O.probe_tuples(rng, pre, tol, n_random=3, with_knots=False, with_outside_periodic=False)
                pr = [tp for tp in pr if O.domain(c['rejoin']['bases'][0])[0] <= tp[0] < O.domain(c['rejoin']['bases'][0])[1]]
                if pr:
                    ent['rj'] = (pr, len(lines), len(lines) + 1)
                    lines.append(O.eval_cmd(tol, c['rejoin'], pr))
                    lines.append(O.eval_cmd(tol, pre, pr))
        idx.append(ent)
    outs = C.run_model(lines)
    evals = 0
    nontriv = set()
    corr_bad = C.Corr()
    samples = []
    for c, ent in zip(cases, idx):
        evals += 1
        case, pre = c['case'], c['pre']
        nontriv.add(C.case_hash(case))
        tk = outs[ent['l1']]
        if tk.peek() == 'Err':
            tk.word()
            me = tk.word()
            if c['err'] != me and corr_bad.open():
                corr_bad += dict(case, what='L1: model raises %s, implementation %s' % (me, c['err'] or 'succeeds'))
        else:
            tk.word()
            mp = tk.list(lambda: O.read_obj(tk))
            if c['err'] is not None:
                if corr_bad.open():
                    corr_bad += dict(case, what='L1: implementation raises %s, model succeeds' % c['err'])
            elif len(mp) != len(c['pieces']):
                if corr_bad.open():
                    corr_bad += dict(case, what='L1: %d pieces, model %d' % (len(c['pieces']), len(mp)))
            else:
                for i, (a, b) in enumerate(zip(c['pieces'], mp)):
                    dfr = O.snaps_differ(a, b)
                    if dfr and corr_bad.open():
                        corr_bad += dict(case, what='L1: piece %d differs from model: %s' % (i, dfr))
        # ---- L2
        bd = pre['bases'][c['d']]
        s_, e_ = O.domain(bd)
        if c['err'] is not None:
            V.failure(dict(case, what='L2: split raised %s' % c['err']))
            continue
        interior = [x for x in c['pts'] if s_ < x < e_] if bd['periodic'] < 0 else list(c['pts'])
        if bd['periodic'] < 0:
            bounds = [s_] + interior + [e_]
            want = list(zip(bounds[:-1], bounds[1:]))
        else:
            x1 = c['pts'][0]
            T = e_ - s_
            rest = [x for x in c['pts'][1:]]
            bounds = [x1] + rest + [x1 + T]
            want = list(zip(bounds[:-1], bounds[1:]))
            if len(c['pts']) == 1 and not c['single']:
                V.failure(dict(case, what='L2: a single split point of a periodic direction did not give a single open object'))
        got = [O.domain(pc['bases'][c['d']]) for pc in c['pieces']]
        if len(got) != len(want) or any(abs(float(a[0] - b[0])) > 1e-9 or abs(float(a[1] - b[1])) > 1e-9 for a, b in zip(got, want)):
            V.failure(dict(case, what='L2: piece domains %s do not tile the domain as %s' % ([[str(x) for x in g] for g in got], [[str(x) for x in w] for w in want])))
            continue
        if any(pc['bases'][c['d']]['periodic'] >= 0 for pc in c['pieces']):
            V.failure(dict(case, what='L2: a piece is still periodic in the split direction'))
        bad = False
        for (pi, tuples_piece, l_a, l_b) in ent['ev']:
            va = O.parse_eval(outs[l_a])
            vb = O.parse_eval(outs[l_b])
            df = O.maps_differ(va, vb)
            if df:
                V.failure(dict(case, what='L2: piece %d is not the restriction of the original: %s' % (pi, df[1]), param=[str(x) for x in tuples_piece[df[0]]]))
                bad = True
                break
        if bad:
            continue
        if isinstance(c['rejoin'], str):
            V.failure(dict(case, what='L2: appending the pieces raised ' + c['rejoin']))
        elif 'rj' in ent:
            pr, l_a, l_b = ent['rj']
            df = O.maps_differ(O.parse_eval(outs[l_a]), O.parse_eval(outs[l_b]))
            if df:
                V.failure(dict(case, what='L2: split then append does not reproduce the curve: ' + df[1], param=[str(x) for x in pr[df[0]]]))
        if len(samples) < 3 and bd['periodic'] >= 0 and len(c['pts']) > 1:
            samples.append(case)
    # subdivide along knot lines: pieces tile the domain and reproduce the map (implementation side)
    nsub = 0
    for spec, forced in todo[: (40 if tier == 'quick' else 400)]:
        if forced or any(b['periodic'] >= 0 for b in spec['bases']):
            continue
        o = O.make_impl(spec)
        n = rng.choice([1, 2])
        if rng.random() < 0.5:
            # one count per direction, zero (no cut in that direction) included; a single 0 leaves the object whole
            n = tuple(rng.choice([0, 0, 1, 2]) for _ in spec['bases']) if len(spec['bases']) > 1 else rng.choice([0, 1, 2, [0], [2]])
        try:
            parts = refinement.subdivide([o.clone()], n)
        except Exception as e:  # noqa
            V.failure({'what': 'subdivide raised %s' % type(e).__name__, 'obj': O.spec_json(spec), 'op': 'subdivide', 'n': n})
            continue
        nsub += 1
        tp = []
        for b in spec['bases']:
            s_, e_ = O.domain(b)
            tp.append(float(s_ + (e_ - s_) * Fr(rng.randint(1, 62), 64) + (e_ - s_) * Fr(1, 256)))
        ref = np.asarray(o.evaluate(*tp))
        hits = 0
        for prt in parts:
            if all(prt.start(dd) <= tp[dd] < prt.end(dd) for dd in range(len(tp))):
                hits += 1
                val = np.asarray(prt.evaluate(*tp))
                if val.shape != ref.shape or not np.allclose(val, ref, rtol=1e-9, atol=1e-9 * max(1, np.abs(ref).max())):
                    V.failure({'what': 'a subdivide piece does not reproduce the original map', 'obj': O.spec_json(spec), 'op': 'subdivide', 'n': n, 'params': tp})
        if hits != 1:
            V.failure({'what': 'subdivide pieces do not tile the domain (parameter covered by %d pieces)' % hits, 'obj': O.spec_json(spec), 'op': 'subdivide', 'n': n, 'params': tp})
    # ---------------------------------------------------------------- split under a non-default knot tolerance
    # "within the knot tolerance of a knot" means the tolerance in force when split() is called
    from splipy import state as st_
    for it in range(20 if tier == 'quick' else 300):
        spec = O.gen_obj(rng, pardim=rng.choice([1, 1, 2]), kinds=['open'], nint_max=3, pmax=4)
        d = rng.randrange(len(spec['bases']))
        b = spec['bases'][d]
        s_, e_ = O.domain(b)
        inner = sorted(set(x for x in b['knots'] if s_ < x < e_ and b['knots'].count(x) < b['order']))
        if not inner:
            continue
        o = O.make_impl(spec)
        k_ = float(rng.choice(inner))
        tol2 = rng.choice([1e-6, 1e-4])
        x = k_ + rng.choice([-1, 1]) * tol2 * rng.choice([0.01, 0.3])
        case = dict(op='split under knot_tolerance=%g' % tol2, direction=d, obj=O.spec_json(spec), points=[repr(x)], near_knot=k_)
        try:
            with st_.state(knot_tolerance=tol2):
                pcs = o.split(x, d)
                doms = [(p_.start(d), p_.end(d)) for p_ in pcs]
            nontriv.add(C.case_hash(case))
            if len(pcs) != 2 or abs(doms[0][0] - float(s_)) > 1e-12 or abs(doms[1][1] - float(e_)) > 1e-12 or abs(doms[0][1] - doms[1][0]) > 1e-12 or abs(doms[0][1] - k_) > 2 * tol2:
                V.failure(dict(case, what='L2: the pieces of a split next to a knot under a wider knot tolerance have domains %s' % (doms,)))
                continue
            par = [o.start(e2) + (o.end(e2) - o.start(e2)) * 0.41 for e2 in range(o.pardim)]
            for pc, (lo, hi) in zip(pcs, doms):
                for f_ in (0.1, 0.5, 0.9):
                    par[d] = lo + (hi - lo) * f_
                    if not np.allclose(np.asarray(pc.evaluate(*par)), np.asarray(o.evaluate(*par)), rtol=1e-8, atol=1e-8):
                        V.failure(dict(case, what='L2: a piece of a split next to a knot under a wider knot tolerance differs from the original', at=list(par)))
                        break
        except Exception as e:  # noqa
            V.failure(dict(case, what='L2: split under knot_tolerance=%g raised %s' % (tol2, type(e).__name__)))
    # ---------------------------------------------------------------- decimal (non-dyadic) parameters, implementation only
    # every other block uses dyadic numbers so that the exact model sees what the doubles are; this one uses decimal
    # domains and split points (not representable exactly), where only the statement itself can be asked: the
    # pieces tile the period / domain and agree with the original to rounding
    ndec = 0
    if not replay:
        import gen_basis as G_
        for it in range(150 if tier == 'quick' else 1500):
            targeted = it % 3 == 2
            if targeted:
                # a closed curve of maximal continuity with many functions, split near its first and near its last knot span
                p_ = rng.choice([3, 4, 5])
                nb_ = rng.randint(2 * p_ - 1, 2 * p_ + 3)
                brk = [Fr(i_) for i_ in range(nb_ + 1)]
                kn_ = G_.periodic_knots(p_, brk, [1] * (nb_ - 1), p_ - 2)
                bs_ = dict(order=p_, knots=kn_, periodic=p_ - 2, kind='periodic')
                nf_ = O.nfun(bs_)
                sp = dict(bases=[bs_], cps=[[Fr(rng.randint(-32, 32), 4), Fr(rng.randint(-32, 32), 4)] for _ in range(nf_)], dim=2, rational=False, intcps=False, ctor='raw')
            else:
                sp = O.gen_obj(rng, kinds=['periodic', 'periodic', 'open'], big_periodic=True, pardim=rng.choice([1, 1, 2]))
            if any(b['periodic'] >= 0 and O.nfun(b) < b['order'] + b['periodic'] for b in sp['bases']):
                continue
            o = O.make_impl(sp)
            dd = rng.randrange(o.pardim)
            a_new = rng.choice([0.2, -1.3, 0.7, 3.1, -1.0])
            width = rng.choice([2.0, 6.283185307179586, 0.9, 5.3])
            try:
                o.reparam((a_new, a_new + width), direction=dd)
            except Exception:  # noqa
                continue
            per = o.periodic(dd)
            npts = rng.choice([1, 2, 3])
            fr_ = sorted(rng.sample([0.07, 0.13, 0.31, 0.35, 0.47, 0.59, 0.7, 0.83, 0.91], npts))
            if targeted:
                nsp_ = len(sp['bases'][0]['knots']) - 2 * sp['bases'][0]['order'] + 1   # knot spans in one period
                fr_ = [rng.uniform(0.05, 0.95) / nsp_] + ([rng.uniform(0.2, 0.8)] if rng.random() < 0.5 else []) + [1 - rng.uniform(0.05, 0.95) / nsp_]
                npts = len(fr_)
            # what a user would type: a few decimals (0.4, -0.3, 1.389, ...)
            pts = [round(o.start(dd) + f_ * width, 3) for f_ in fr_]
            case = dict(op='split_decimal', direction=dd, obj=O.spec_json(O.snapshot(o)), points=pts)
            try:
                res = o.clone().split(pts if (npts > 1 or rng.random() < 0.5) else pts[0], dd)
            except Exception as e:  # noqa
                V.failure(dict(case, what='L2: split at decimal parameters raised %s' % type(e).__name__))
                continue
            ndec += 1
            nontriv.add(C.case_hash(case))
            plist = res if isinstance(res, (list, tuple)) else [res]
            if per:
                bounds = pts + [pts[0] + width]
            else:
                bounds = [o.start(dd)] + pts + [o.end(dd)]
            if len(plist) != len(bounds) - 1:
                V.failure(dict(case, what='L2: %d pieces for %d decimal split points (periodic: %s)' % (len(plist), npts, per)))
                continue
            for pc, lo, hi in zip(plist, bounds[:-1], bounds[1:]):
                if pc.periodic(dd) or abs(pc.start(dd) - lo) > 1e-9 or abs(pc.end(dd) - hi) > 1e-9:
                    V.failure(dict(case, what='L2: a piece has domain [%r, %r] (periodic: %s), expected [%r, %r]' % (pc.start(dd), pc.end(dd), pc.periodic(dd), lo, hi)))
                    break
                par = [o.start(e_) + (o.end(e_) - o.start(e_)) * 0.37 for e_ in range(o.pardim)]
                bad = None
                # where the original jumps (a knot of full multiplicity at the split value) the piece ends with the left
                # limit and the original evaluates the right limit: not a difference of the maps (DESIGN.md 16.2)
                kn_o = np.asarray(o.knots(dd, with_multiplicities=True))
                jump_hi = int(np.sum(np.abs(kn_o - hi) < 1e-9)) >= o.order(dd) and hi < o.end(dd) - 1e-9
                for f_ in (0.0, 0.21, 0.5, 0.77, 1.0):
                    if f_ == 1.0 and jump_hi:
                        continue
                    par[dd] = min(max(lo + (hi - lo) * f_, pc.start(dd)), pc.end(dd))
                    vp = np.asarray(pc.evaluate(*par)).reshape(-1)
                    vo = np.asarray(o.evaluate(*par)).reshape(-1)
                    if vp.shape != vo.shape or not np.allclose(vp, vo, rtol=1e-8, atol=1e-8 * max(1.0, np.abs(vo).max())):
                        bad = (list(par), vp.tolist(), vo.tolist())
                        break
                if bad:
                    V.failure(dict(case, what='L2: a piece of a split at decimal parameters differs from the original', at=bad[0], piece=bad[1], original=bad[2]))
                    break
    # ---------------------------------------------------------------- Curve.append of two independent curves
    # (different orders / rationality / knot vectors; the second is moved and its weights rescaled so that its first
    # homogeneous control point is the last one of the first curve, which is what append assumes)
    napp = 0
    if not replay:
        app_cases, lines = [], []
        for _ in range(40 if tier == 'quick' else 600):
            dim = rng.choice([2, 3])
            sa = O.gen_obj(rng, pardim=1, kinds=['open'], dim=dim, pmax=4, nint_max=3)
            sb = O.gen_obj(rng, pardim=1, kinds=['open'], dim=dim, pmax=4, nint_max=3)
            if sa['bases'][0]['order'] < 2 or sb['bases'][0]['order'] < 2:
                continue
            # raise_order inside append needs continuous operands (C05 finding on jump knots)
            if any(max([b['knots'].count(k) for k in b['knots'][b['order']:-b['order']]] or [0]) >= b['order'] for b in (sa['bases'][0], sb['bases'][0])):
                continue
            la, fb = sa['cps'][-1], sb['cps'][0]
            wa = la[-1] if sa['rational'] else Fr(1)
            wb = fb[-1] if sb['rational'] else Fr(1)
            Pa = [x / wa for x in la[:dim]]
            Pb = [x / wb for x in fb[:dim]]
            newc = []
            for pt in sb['cps']:
                w = pt[-1] if sb['rational'] else Fr(1)
                xyz = [pt[i] / w + (Pa[i] - Pb[i]) for i in range(dim)]
                if sb['rational']:
                    w2 = w * wa / wb
                    newc.append([x * w2 for x in xyz] + [w2])
                else:
                    newc.append(xyz)
            sb = dict(sb, cps=newc, intcps=False)
            if not sb['rational'] and sa['rational'] and wa != 1:
                continue      # a polynomial second curve gets weight 1 at the junction: the first must end with weight 1
            a, b = O.make_impl(sa), O.make_impl(sb)
            pa, pb = O.snapshot(a), O.snapshot(b)
            case = dict(op='append', obj=O.spec_json(pa), other=O.spec_json(pb))
            try:
                ret = a.append(b)
                post = O.snapshot(a)
                if ret is not a:
                    V.failure(dict(case, what='append did not return the curve itself'))
                if O.snaps_differ(O.snapshot(b), pb, rel=0):
                    V.failure(dict(case, what='append modified the curve passed to it'))
            except Exception as e:  # noqa
                V.failure(dict(case, what='L2: append raised %s' % type(e).__name__))
                continue
            napp += 1
            nontriv.add(C.case_hash(case))
            s1, e1 = O.domain(pa['bases'][0])
            s2, e2 = O.domain(pb['bases'][0])
            ts_a = [s1 + (e1 - s1) * Fr(rng.randint(0, 32), 32) for _ in range(5)] + [s1, e1]
            ts_b = [s2 + (e2 - s2) * Fr(rng.randint(0, 32), 32) for _ in range(5)] + [s2, e2]
            ent = dict(case=case, post=post, l1=len(lines), dom=(s1, e1 + (e2 - s2)))
            lines.append('obj_append %s %s %s' % (C.qs(tol), O.obj_tokens(pa), O.obj_tokens(pb)))
            ent['ev'] = (len(lines), len(lines) + 1, len(lines) + 2, len(lines) + 3)
            lines.append(O.eval_cmd(tol, pa, [(t,) for t in ts_a]))
            lines.append(O.eval_cmd(tol, post, [(C.fr(float(t)),) for t in ts_a]))
            lines.append(O.eval_cmd(tol, pb, [(t,) for t in ts_b]))
            lines.append(O.eval_cmd(tol, post, [(C.fr(float(t - s2 + e1)),) for t in ts_b]))
            app_cases.append(ent)
        aouts = C.run_model(lines)
        for ent in app_cases:
            case = ent['case']
            tk = aouts[ent['l1']]
            if tk.word() == 'Err':
                if corr_bad.open():
                    corr_bad += dict(case, what='L1: model append raises %s, implementation succeeds' % tk.word())
            else:
                dfr = O.snaps_differ(ent['post'], O.read_obj(tk), rel=1e-7)
                if dfr:
                    V.failure(dict(case, what='L1: append result differs from the transcribed model: ' + dfr, l1=True))
            pb_ = ent['post']['bases'][0]
            dom = O.domain(pb_)
            if abs(float(dom[0] - ent['dom'][0])) > 1e-9 or abs(float(dom[1] - ent['dom'][1])) > 1e-9 * max(1.0, abs(float(dom[1]))):
                V.failure(dict(case, what='L2: domain after append is %s, expected %s' % ([float(x) for x in dom], [float(x) for x in ent['dom']])))
            i0, i1, i2, i3 = ent['ev']

            def pad(vals, n):
                return [(e_, (list(v) + [Fr(0)] * (n - len(v))) if v is not None else None) for e_, v in vals]
            va, vpa = O.parse_eval(aouts[i0]), O.parse_eval(aouts[i1])
            vb, vpb = O.parse_eval(aouts[i2]), O.parse_eval(aouts[i3])
            nd = max([len(v) for _, v in vpa if v is not None] or [0])
            df = O.maps_differ(pad(va, nd), vpa, rel=1e-7)
            if df:
                V.failure(dict(case, what='L2: the appended curve differs from the first curve on its interval: ' + df[1]))
            df = O.maps_differ(pad(vb, nd), vpb, rel=1e-7)
            if df:
                V.failure(dict(case, what='L2: the appended curve differs from the second curve (shifted) on its interval: ' + df[1]))
    rc = V.finish(l0, corr_bad)
    C.write_evidence(PID, tier, seed, l0, {
        'evaluations': evals + nsub + napp + ndec, 'distinct_nontrivial': len(nontriv),
        'rule': 'random objects (pardim 1-3, open/non-open/periodic directions); split at 1-3 increasing points (knots of any multiplicity, between knots, '
                'domain ends) given as scalar or list; pieces vs model, tiling, restriction at random parameters, curve split-then-append, subdivide; '
                'non-trivial = distinct (object, direction, points)',
        'traces_validated_against_impl': evals, 'subdivide_probes': nsub,
        'input_distribution': {k: {str(a): b for a, b in v.items()} for k, v in dist.items()},
        'samples': samples or [cases[0]['case']],
    }, t0, V.nviol, known=V.known)
    return rc


if __name__ == '__main__':
    sys.exit(C.guarded_main(PID, run))
