"""C13 — primitive factories produce the exact shapes they name, placed as requested."""
import os
import random
import sys
import time
from fractions import Fraction as Fr
from math import atan2, pi, sqrt

sys.path.insert(0, os.path.dirname(os.path.dirname(os.path.abspath(__file__))))
import common as C
import objs as O
import build_pyx

PID = 'C13'
AXES = [((0, 0, 1), 1), ((0, 0, -1), 1), ((1, 0, 0), 1), ((0, 1, 0), 1), ((0, -1, 0), 1), ((1, 2, 2), 3), ((2, 3, 6), 7),
        ((-1, 4, 8), 9), ((0, 3, 4), 5), ((3, 0, -4), 5), ((2, -2, 1), 3), ((-2, -3, 6), 7), ((4, 4, 7), 9)]


def run(tier, seed, replay=None):
    t0 = time.time()
    V = C.Verdict(PID, tier, seed)
    # the factory nets are compared with absolute tolerances at ordinary magnitudes: profiles of size 1e7 only measure rounding
    O.SCALE_PROB = 0.0
    O.OFFSET_PROB = 0.0
    l0 = C.l0_check(PID, thorough=(tier == 'thorough'))
    build_pyx.load_splipy()
    import numpy as np
    import splipy.curve_factory as cf
    import splipy.surface_factory as sf
    import splipy.volume_factory as vf
    rng = random.Random(seed)
    reps = 80 if tier == 'quick' else 600
    evals = 0
    nontriv = set()
    dist = {'factory': {}}
    samples = []
    TOL = 1e-8

    def unit(v):
        v = np.asarray(v, dtype=float)
        return v / np.linalg.norm(v)

    def frame():
        """random placement: centre, normal (scaled Pythagorean axis), x-axis orthogonal to it"""
        ax, nrm = rng.choice(AXES)
        lam = rng.choice([1.0, 1.0, 2.0, 0.5, 3.0])
        n = np.array(ax, dtype=float) * lam
        nh = unit(n)
        # an exact-ish orthogonal direction: cross with a coordinate axis that is not parallel
        e = np.eye(3)[int(np.argmin(np.abs(nh)))]
        x = np.cross(nh, e)
        if rng.random() < 0.5:
            x = np.cross(nh, x)
        x = unit(x) * rng.choice([1.0, 2.0, 0.25])
        c = np.array([rng.randint(-8, 8) / 2.0 for _ in range(3)])
        return c, n, nh, x, unit(x)

    def sample_params(o, k=7):
        out = []
        for _ in range(k):
            out.append([s + (e - s) * rng.random() for s, e in zip(o.start(), o.end())])
        out.append(list(o.start()))
        out.append([s + (e - s) * 0.5 for s, e in zip(o.start(), o.end())])
        return out

    def pts(o, params):
        return [np.asarray(o.evaluate(*p), dtype=float) for p in params]

    def fail(name, args, what):
        V.failure({'what': '%s: %s' % (name, what), 'op': name, 'args': args})

    def pad3(p):
        p = np.asarray(p, dtype=float)
        return np.concatenate([p, np.zeros(3 - len(p))]) if len(p) < 3 else p

    def count(name):
        nonlocal evals
        evals += 1
        dist['factory'][name] = dist['factory'].get(name, 0) + 1

    for it in range(reps):
        c, n, nh, x, xh = frame()
        r = rng.choice([1.0, 2.0, 0.5, 3.25])
        args = dict(r=r, center=c.tolist(), normal=n.tolist(), xaxis=x.tolist())
        nontriv.add(C.case_hash(args))
        # ------------------------------------------------ circle (both types), ellipse
        for typ in ('p2C0', 'p4C1'):
            name = 'circle ' + typ
            try:
                crv = cf.circle(r, c, n, type=typ, xaxis=x)
                count(name)
                P = pts(crv, sample_params(crv))
                for p in P:
                    d = pad3(p) - c
                    if abs(np.linalg.norm(d) - r) > TOL * max(1, r) or abs(np.dot(d, nh)) > TOL * max(1, r):
                        fail(name, args, 'point %s not on the circle' % p.tolist())
                        break
                p0 = pad3(crv.evaluate(crv.start(0))) - c
                if np.linalg.norm(p0 - r * xh) > TOL * max(1, r):
                    fail(name, args, 'parameter zero is at %s, expected centre + r*xaxis' % (p0 + c).tolist())
                h = 1e-3
                p1 = pad3(crv.evaluate(crv.start(0) + h)) - c
                if np.dot(np.cross(p0, p1), nh) <= 0:
                    fail(name, args, 'orientation is not counter-clockwise about the normal')
                if abs((crv.end(0) - crv.start(0)) - 2 * pi) > 1e-12:
                    fail(name, args, 'parameter range is not 2*pi')
            except Exception as e:  # noqa
                fail(name, args, 'raised %s' % type(e).__name__)
        r2 = rng.choice([0.5, 1.5, 2.0])
        # the x-axis need not be orthogonal to the normal (the default (1,0,0) under a tilted normal is not): its
        # projection onto the plane is the direction of parameter zero and of the first semi-axis
        if rng.random() < 0.5:
            xalt = rng.choice([None, None, (1.0, 0.0, 0.0), (2.0, 0.0, 0.0), tuple(float(rng.randint(-3, 3)) for _ in range(3))])
            xv = np.array((1.0, 0.0, 0.0) if xalt is None else xalt)
            xp_ = xv - np.dot(xv, nh) * nh
            if np.linalg.norm(xp_) > 0.3:
                xh_alt = unit(xp_)
                kw_ = {} if xalt is None else {'xaxis': xalt}
                args_alt = dict(args, xaxis=('default' if xalt is None else list(xalt)), r2=r2)
                try:
                    for nm_, obj_ in (('ellipse', cf.ellipse(r, r2, c, n, **kw_)), ('circle', cf.circle(r, c, n, **kw_))):
                        count(nm_ + ' oblique xaxis')
                        ra_, rb_ = (r, r2) if nm_ == 'ellipse' else (r, r)
                        yh_ = np.cross(nh, xh_alt)
                        for p in pts(obj_, sample_params(obj_)):
                            d = pad3(p) - c
                            u, v, w_ = np.dot(d, xh_alt), np.dot(d, yh_), np.dot(d, nh)
                            if abs((u / ra_) ** 2 + (v / rb_) ** 2 - 1) > TOL * 10 or abs(w_) > TOL * 10:
                                fail(nm_, args_alt, 'point %s is not on the %s whose first semi-axis is the projection of the x-axis onto the plane' % (p.tolist(), nm_))
                                break
                        p0 = pad3(obj_.evaluate(obj_.start(0))) - c
                        if np.linalg.norm(p0 - ra_ * xh_alt) > TOL * max(1, ra_):
                            fail(nm_, args_alt, 'parameter zero is at %s, expected centre + r*(projected x-axis)' % (p0 + c).tolist())
                except Exception as e:  # noqa
                    fail('ellipse', args_alt, 'raised %s' % type(e).__name__)
        try:
            el = cf.ellipse(r, r2, c, n, xaxis=x)
            count('ellipse')
            yh = np.cross(nh, xh)
            for p in pts(el, sample_params(el)):
                d = pad3(p) - c
                u, v, w_ = np.dot(d, xh), np.dot(d, yh), np.dot(d, nh)
                if abs((u / r) ** 2 + (v / r2) ** 2 - 1) > TOL * 10 or abs(w_) > TOL * 10:
                    fail('ellipse', dict(args, r2=r2), 'point %s not on the ellipse' % p.tolist())
                    break
        except Exception as e:  # noqa
            fail('ellipse', dict(args, r2=r2), 'raised %s' % type(e).__name__)
        # ------------------------------------------------ circle segment by angle
        theta = rng.choice([pi / 3, pi / 2, 2 * pi / 3, pi, 4 * pi / 3, 1.0, 0.1, 5.5, -pi / 2, -2 * pi / 3, -2.5, -6.0, 2 * pi, -2 * pi])
        try:
            seg = cf.circle_segment(theta, r, c, n, x)
            count('circle_segment')
            yh = np.cross(nh, xh)
            ok = True
            # the end points are at the angles of the parameter ends; every point is on the circle in the plane
            for t in [seg.start(0), seg.end(0)]:
                d = pad3(seg.evaluate(t)) - c
                want = r * (np.cos(t) * xh + np.sin(t) * yh)
                if np.linalg.norm(d - want) > TOL * max(1, r):
                    fail('circle_segment', dict(args, theta=theta), 'end point at parameter %r is %s, expected %s' % (t, (d + c).tolist(), (want + c).tolist()))
                    ok = False
                    break
            prev = None
            for t in np.linspace(seg.start(0), seg.end(0), 25):
                d = pad3(seg.evaluate(t)) - c
                if abs(np.linalg.norm(d) - r) > TOL * max(1, r) or abs(np.dot(d, nh)) > TOL * max(1, r):
                    fail('circle_segment', dict(args, theta=theta), 'point at parameter %r not on the circle' % t)
                    ok = False
                    break
                if prev is not None and np.dot(np.cross(prev, d), nh) <= 0:
                    fail('circle_segment', dict(args, theta=theta), 'not counter-clockwise for increasing parameter at %r' % t)
                    ok = False
                    break
                prev = d
            lo, hi = (theta, 0.0) if theta < 0 else (0.0, theta)
            if ok and abs(theta) < 2 * pi and (abs(seg.start(0) - lo) > 1e-12 or abs(seg.end(0) - hi) > 1e-12):
                fail('circle_segment', dict(args, theta=theta), 'parameter range [%r,%r], expected [%r,%r]' % (seg.start(0), seg.end(0), lo, hi))
        except Exception as e:  # noqa
            fail('circle_segment', dict(args, theta=theta), 'raised %s' % type(e).__name__)
        # ------------------------------------------------ circle segment through three points
        a0, a1, a2 = sorted(rng.sample([i * 2 * pi / 48 for i in range(48)], 3))
        if rng.random() < 0.5:
            a0, a1, a2 = a2, a1, a0           # clockwise traversal
        if rng.random() < 0.5:                # start anywhere on the circle
            sh = rng.random() * 2 * pi
            a0, a1, a2 = a0 + sh, a1 + sh, a2 + sh
        yh = np.cross(nh, xh)
        dim3 = rng.random() < 0.6
        if dim3:
            X = [c + r * (np.cos(a) * xh + np.sin(a) * yh) for a in (a0, a1, a2)]
        else:
            X = [c[:2] + r * np.array([np.cos(a), np.sin(a)]) for a in (a0, a1, a2)]
        targs = dict(x0=X[0].tolist(), x1=X[1].tolist(), x2=X[2].tolist())
        try:
            seg = cf.circle_segment_from_three_points(*X)
            count('circle_segment_from_three_points')
            ps = np.asarray(seg.evaluate(seg.start(0)))
            pe = np.asarray(seg.evaluate(seg.end(0)))
            sc = max(1.0, r, np.abs(X[0]).max())
            if np.linalg.norm(ps - X[0]) > 1e-7 * sc:
                fail('circle_segment_from_three_points', targs, 'does not start at the first point (starts at %s)' % ps.tolist())
            elif np.linalg.norm(pe - X[2]) > 1e-7 * sc:
                fail('circle_segment_from_three_points', targs, 'does not end at the third point (ends at %s)' % pe.tolist())
            else:
                ts = np.linspace(seg.start(0), seg.end(0), 400)
                Pm = np.asarray(seg.evaluate(ts))
                if np.min(np.linalg.norm(Pm - X[1], axis=1)) > 1e-2 * sc * (abs(seg.end(0) - seg.start(0)) + 1) / 100 + 2 * pi * r / 400:
                    fail('circle_segment_from_three_points', targs, 'does not pass through the second point')
                cc = c if dim3 else c[:2]
                if np.max(np.abs(np.linalg.norm(Pm - cc, axis=1) - r)) > 1e-7 * sc:
                    fail('circle_segment_from_three_points', targs, 'is not on the circle through the three points')
        except Exception as e:  # noqa
            fail('circle_segment_from_three_points', targs, 'raised %s' % type(e).__name__)
        # ------------------------------------------------ three points given in different dimensions: a 2-D point is a point
        # of the plane z = 0; the arc is the 3-D arc through the three points (independent circumcircle)
        try:
            P = [np.array([rng.randint(-6, 6) / 2.0, rng.randint(-6, 6) / 2.0, rng.choice([0.0, rng.randint(-6, 6) / 2.0])]) for _ in range(3)]
            flat = [i_ for i_ in range(3) if P[i_][2] == 0.0]
            A_, B_, C_ = P
            nrm_ = np.cross(B_ - A_, C_ - A_)
            if flat and len(flat) < 3 and np.linalg.norm(nrm_) > 0.5 and min(np.linalg.norm(A_ - B_), np.linalg.norm(B_ - C_), np.linalg.norm(A_ - C_)) > 0.4:
                given = [(p_[:2] if (i_ in flat and rng.random() < 0.8) else p_) for i_, p_ in enumerate(P)]
                if any(len(g_) == 2 for g_ in given):
                    margs = dict(x0=given[0].tolist(), x1=given[1].tolist(), x2=given[2].tolist())
                    # circumcentre
                    a_, b_ = A_ - C_, B_ - C_
                    cc_ = C_ + np.cross(np.dot(a_, a_) * b_ - np.dot(b_, b_) * a_, np.cross(a_, b_)) / (2 * np.dot(np.cross(a_, b_), np.cross(a_, b_)))
                    R_ = np.linalg.norm(A_ - cc_)
                    seg = cf.circle_segment_from_three_points(*given)
                    count('circle_segment_from_three_points (mixed dimensions)')
                    ts = np.linspace(seg.start(0), seg.end(0), 600)
                    Pm = np.asarray(seg.evaluate(ts), dtype=float)
                    if Pm.shape[1] != 3:
                        fail('circle_segment_from_three_points', margs, 'points of dimensions 2 and 3 give a curve of dimension %d' % Pm.shape[1])
                    elif np.linalg.norm(Pm[0] - A_) > 1e-7 * max(1, R_) or np.linalg.norm(Pm[-1] - C_) > 1e-7 * max(1, R_):
                        fail('circle_segment_from_three_points', margs, 'does not run from the first to the third point (mixed dimensions)')
                    elif np.min(np.linalg.norm(Pm - B_, axis=1)) > 2 * pi * R_ / 300:
                        fail('circle_segment_from_three_points', margs, 'does not pass through the second point (mixed dimensions)')
                    elif np.max(np.abs(np.linalg.norm(Pm - cc_, axis=1) - R_)) > 1e-7 * max(1, R_) or np.max(np.abs((Pm - cc_) @ (nrm_ / np.linalg.norm(nrm_)))) > 1e-7 * max(1, R_):
                        fail('circle_segment_from_three_points', margs, 'is not on the circle through the three points (mixed dimensions)')
        except Exception as e:  # noqa
            fail('circle_segment_from_three_points', dict(points=[p_.tolist() for p_ in P]), 'raised %s (mixed dimensions)' % type(e).__name__)
        # ------------------------------------------------ n-gon
        ng = rng.randint(3, 9)
        try:
            g = cf.n_gon(ng, r, c, n)
            count('n_gon')
            for i in range(ng):
                d = pad3(g.evaluate(float(i))) - c
                if abs(np.linalg.norm(d) - r) > TOL * max(1, r) or abs(np.dot(d, nh)) > TOL * max(1, r):
                    fail('n_gon', dict(args, n=ng), 'vertex %d not on the circle in the plane' % i)
                    break
        except Exception as e:  # noqa
            fail('n_gon', dict(args, n=ng), 'raised %s' % type(e).__name__)
        # ------------------------------------------------ line, polygon, square, cube
        a_, b_ = np.array([rng.randint(-6, 6) / 2.0 for _ in range(3)]), np.array([rng.randint(-6, 6) / 2.0 for _ in range(3)])
        ln = cf.line(a_, b_)
        count('line')
        t = rng.random()
        if np.linalg.norm(np.asarray(ln.evaluate(t)) - ((1 - t) * a_ + t * b_)) > TOL * 10:
            fail('line', dict(a=a_.tolist(), b=b_.tolist()), 'is not the segment from a to b')
        lr = cf.line(a_, b_, relative=True)
        if np.linalg.norm(np.asarray(lr.evaluate(1.0)) - (a_ + b_)) > TOL * 10:
            fail('line', dict(a=a_.tolist(), b=b_.tolist(), relative=True), 'relative end point wrong')
        vs = [[rng.randint(-6, 6) / 2.0, rng.randint(-6, 6) / 2.0] for _ in range(rng.randint(3, 6))]
        vs = [v for i, v in enumerate(vs) if i == 0 or v != vs[i - 1]]
        if len(vs) >= 2:
            pg = cf.polygon(vs)
            count('polygon')
            ks = pg.knots(0)
            if len(ks) != len(vs) or any(np.linalg.norm(np.asarray(pg.evaluate(k)) - np.array(v)) > TOL * 10 for k, v in zip(ks, vs)):
                fail('polygon', dict(points=vs), 'does not pass through its vertices at the knots')
        sz = rng.choice([1.0, 2.0, (2.0, 3.0)])
        ll = (rng.randint(-4, 4) / 2.0, rng.randint(-4, 4) / 2.0)
        sq = sf.square(sz, ll)
        count('square')
        u, v = rng.random(), rng.random()
        szs = sz if isinstance(sz, tuple) else (sz, sz)
        if np.linalg.norm(np.asarray(sq.evaluate(u, v)) - np.array([ll[0] + szs[0] * u, ll[1] + szs[1] * v])) > TOL * 10:
            fail('square', dict(size=sz, lower_left=ll), 'is not the stated rectangle')
        sz3 = rng.choice([1.0, 2.0, (1.0, 2.0, 3.0)])
        ll3 = tuple(rng.randint(-4, 4) / 2.0 for _ in range(3))
        cb = vf.cube(sz3, ll3)
        count('cube')
        uvw = [rng.random() for _ in range(3)]
        s3 = sz3 if isinstance(sz3, tuple) else (sz3,) * 3
        if np.linalg.norm(np.asarray(cb.evaluate(*uvw)) - np.array([ll3[i] + s3[i] * uvw[i] for i in range(3)])) > TOL * 10:
            fail('cube', dict(size=sz3, lower_left=ll3), 'is not the stated box')
        # ------------------------------------------------ disc, cylinder, sphere, torus (surfaces)
        for typ in ('radial', 'square'):
            name = 'disc ' + typ
            try:
                ds = sf.disc(r, c, n, type=typ, xaxis=x)
                count(name)
                for p in pts(ds, sample_params(ds)):
                    d = pad3(p) - c
                    if np.linalg.norm(d) > r * (1 + TOL) + TOL or abs(np.dot(d, nh)) > TOL * max(1, r):
                        fail(name, args, 'point %s outside the disc / off the plane' % p.tolist())
                        break
                # the boundary is the circle
                edge = ds.section(u=-1) if typ == 'radial' else ds.section(v=0)
                for p in pts(edge, sample_params(edge, 4)):
                    if abs(np.linalg.norm(pad3(p) - c) - r) > TOL * max(1, r):
                        fail(name, args, 'boundary point %s not on the circle' % p.tolist())
                        break
            except Exception as e:  # noqa
                fail(name, args, 'raised %s' % type(e).__name__)
        h = rng.choice([1.0, 2.5, 0.5])
        for fac, name in ((sf.cylinder, 'cylinder surface'), (vf.cylinder, 'cylinder volume')):
            try:
                cy = fac(r, h, c, n, xaxis=x)
                count(name)
                for p in pts(cy, sample_params(cy)):
                    d = pad3(p) - c
                    hh = np.dot(d, nh)
                    rad = np.linalg.norm(d - hh * nh)
                    if hh < -TOL or hh > h + TOL * max(1, h):
                        fail(name, dict(args, h=h), 'point at height %r outside [0, h=%r] (axis of length %r)' % (hh, h, float(np.linalg.norm(n))))
                        break
                    if (name.endswith('surface') and abs(rad - r) > TOL * max(1, r)) or rad > r * (1 + TOL) + TOL:
                        fail(name, dict(args, h=h), 'point at radius %r (r=%r)' % (rad, r))
                        break
                top = [cy.end(d_) for d_ in range(cy.pardim)]
                ptop = pad3(cy.evaluate(*top)) - c
                if abs(np.dot(ptop, nh) - h) > TOL * max(1, h):
                    fail(name, dict(args, h=h), 'top is at height %r, requested h=%r' % (float(np.dot(ptop, nh)), h))
            except Exception as e:  # noqa
                fail(name, dict(args, h=h), 'raised %s' % type(e).__name__)
        try:
            sp = sf.sphere(r, c, n, x)
            count('sphere surface')
            for p in pts(sp, sample_params(sp)):
                if abs(np.linalg.norm(pad3(p) - c) - r) > TOL * max(1, r):
                    fail('sphere surface', args, 'point %s not on the sphere' % p.tolist())
                    break
        except Exception as e:  # noqa
            fail('sphere surface', args, 'raised %s' % type(e).__name__)
        for typ in ('radial', 'square'):
            name = 'sphere volume ' + typ
            try:
                sv = vf.sphere(r, c, type=typ)
                count(name)
                for p in pts(sv, sample_params(sv)):
                    if np.linalg.norm(pad3(p) - c) > r * (1 + 1e-7) + TOL:
                        fail(name, dict(r=r, center=c.tolist()), 'point %s outside the ball' % p.tolist())
                        break
                for f in sv.faces():
                    if f is None:
                        continue
                    pp = pts(f, sample_params(f, 3))
                    rr = [np.linalg.norm(pad3(p) - c) for p in pp]
                    if typ == 'square' and any(abs(x_ - r) > 1e-7 * max(1, r) for x_ in rr):
                        fail(name, dict(r=r, center=c.tolist()), 'boundary face point at distance %r from the centre' % max(rr, key=lambda z: abs(z - r)))
                        break
            except Exception as e:  # noqa
                fail(name, dict(r=r, center=c.tolist()), 'raised %s' % type(e).__name__)
        R = r + rng.choice([1.0, 2.0])
        for fac, name in ((sf.torus, 'torus surface'), (vf.torus, 'torus volume')):
            try:
                to = fac(r, R, c, n, x)
                count(name)
                for p in pts(to, sample_params(to)):
                    d = pad3(p) - c
                    z = np.dot(d, nh)
                    rho = np.linalg.norm(d - z * nh)
                    val = sqrt((rho - R) ** 2 + z ** 2)
                    if (name.endswith('surface') and abs(val - r) > TOL * max(1, R)) or val > r * (1 + TOL) + TOL:
                        fail(name, dict(args, R=R), 'point at tube distance %r (minor radius %r)' % (val, r))
                        break
            except Exception as e:  # noqa
                fail(name, dict(args, R=R), 'raised %s' % type(e).__name__)
        # ------------------------------------------------ revolve / extrude of a profile
        prof = cf.cubic_curve(np.array([[1.0, 0, 0], [1.5, 0, 0.5], [1.2, 0, 1.0], [2.0, 0, 1.5]]))
        ang = rng.choice([pi / 2, pi, 2 * pi, 1.0])
        try:
            rv = sf.revolve(prof, ang, n)
            count('revolve')
            for _ in range(4):
                u = prof.start(0) + (prof.end(0) - prof.start(0)) * rng.random()
                v = rv.start(1) + (rv.end(1) - rv.start(1)) * rng.random()
                q = np.asarray(rv.evaluate(u, v))
                p0 = np.asarray(prof.evaluate(u))
                # same distance from the axis and same height along it; rotated by the angle v
                for vec in (q, p0):
                    pass
                hq, hp = np.dot(q, nh), np.dot(p0, nh)
                rq, rp = np.linalg.norm(q - hq * nh), np.linalg.norm(p0 - hp * nh)
                if abs(hq - hp) > TOL * 10 or abs(rq - rp) > TOL * 10:
                    fail('revolve', dict(axis=n.tolist(), theta=ang), 'section point is not the rotated profile point')
                    break
            # the last section is the profile rotated by exactly theta
            u = prof.start(0) + (prof.end(0) - prof.start(0)) * rng.random()
            q = np.asarray(rv.evaluate(u, rv.end(1)))
            p0 = np.asarray(prof.evaluate(u))
            hp = np.dot(p0, nh)
            a_p = p0 - hp * nh
            want = hp * nh + a_p * np.cos(ang) + np.cross(nh, a_p) * np.sin(ang)
            if np.linalg.norm(q - want) > 1e-7 * 10:
                fail('revolve', dict(axis=n.tolist(), theta=ang), 'the last section is not the profile rotated by theta')
        except Exception as e:  # noqa
            fail('revolve', dict(axis=n.tolist(), theta=ang), 'raised %s' % type(e).__name__)
        # the solid of revolution of a surface profile (volume_factory.revolve), same statement
        try:
            prof2 = sf.edge_curves(prof, prof.clone().translate([0.5, 0.0, 0.25]))
            rv3 = vf.revolve(prof2, ang, n)
            count('revolve volume')
            for k_ in range(5):
                u = prof2.start(0) + (prof2.end(0) - prof2.start(0)) * rng.random()
                v = prof2.start(1) + (prof2.end(1) - prof2.start(1)) * rng.random()
                w = rv3.end(2) if k_ == 0 else rv3.start(2) + (rv3.end(2) - rv3.start(2)) * rng.random()
                q = np.asarray(rv3.evaluate(u, v, w)).reshape(-1)
                p0 = np.asarray(prof2.evaluate(u, v)).reshape(-1)
                hq, hp = np.dot(q, nh), np.dot(p0, nh)
                rq, rp = np.linalg.norm(q - hq * nh), np.linalg.norm(p0 - hp * nh)
                if abs(hq - hp) > TOL * 10 or abs(rq - rp) > TOL * 10:
                    fail('revolve volume', dict(axis=n.tolist(), theta=ang), 'a point of the revolved solid is not a rotated profile point (height %r vs %r, radius %r vs %r)' % (hq, hp, rq, rp))
                    break
                if k_ == 0:
                    a_p = p0 - hp * nh
                    want = hp * nh + a_p * np.cos(ang) + np.cross(nh, a_p) * np.sin(ang)
                    if np.linalg.norm(q - want) > 1e-6:
                        fail('revolve volume', dict(axis=n.tolist(), theta=ang), 'the last section is not the profile rotated by theta about the axis')
                        break
        except Exception as e:  # noqa
            fail('revolve volume', dict(axis=n.tolist(), theta=ang), 'raised %s' % type(e).__name__)
        amount = np.array([rng.randint(-4, 4) / 2.0 for _ in range(3)])
        if np.linalg.norm(amount) > 0:
            ex = sf.extrude(prof, amount)
            count('extrude')
            u, v = prof.start(0) + (prof.end(0) - prof.start(0)) * rng.random(), rng.random()
            if np.linalg.norm(np.asarray(ex.evaluate(u, v)) - (np.asarray(prof.evaluate(u)) + v * amount)) > TOL * 10:
                fail('extrude', dict(amount=amount.tolist()), 'section is not the translated profile')
    # ---------------------------------------------------------------- L1: the nets the theorems are about
    # (regenerated kernels and Model/Factory.v, run in Q on the exact values of libm's cos/sin/sqrt)
    import math
    corr_bad = C.Corr()
    lines, meta = [], []

    def qrows(rows):
        return '%d %s' % (len(rows), ' '.join(C.qlist([C.fr(float(x)) for x in r]) for r in rows))
    s2 = C.fr(math.sqrt(2))
    for which, typ in ((2, 'p2C0'), (4, 'p4C1')):
        crv = cf.circle(1, type=typ)
        lines.append('circle_net %d %s' % (which, C.qs(s2)))
        meta.append(('circle ' + typ, np.asarray(crv.controlpoints, dtype=float), {}))
    # the 3 x 3 net of disc(type='square'), regenerated (Gen/DiscSquare.v); first index fastest in the file order of the list
    for r_ in (1.0, 2.5, 0.375):
        dsq = sf.disc(r_, type='square')
        lines.append('disc_square_net %s %s' % (C.qs(C.fr(r_)), C.qs(C.fr(1 / math.sqrt(2)))))
        meta.append(('disc square', np.asarray(dsq.controlpoints, dtype=float).transpose(1, 0, 2).reshape(-1, 3), dict(r=r_)))
    nl1 = 40 if tier == 'quick' else 400
    for _ in range(nl1):
        theta = rng.choice([rng.uniform(-2 * math.pi, 2 * math.pi), rng.choice([-2, -1, 1]) * math.pi, math.pi / 2, 2 * math.pi / 3, 4 * math.pi / 3, -2 * math.pi])
        r = rng.choice([1.0, 2.0, 0.75])
        seg = cf.circle_segment(theta, r)
        ks = int(math.ceil(abs(theta) / (2 * math.pi / 3)))
        dt = float(theta) / ks / 2
        tab, t = [], 0
        for i in range((ks - 1) * 2 + 3):
            tab.append((math.cos(t), math.sin(t)))
            t += dt
        lines.append('cs_loop_tab %s %s %d %s' % (C.qs(C.fr(r)), C.qs(C.fr(math.cos(dt))), len(tab), ' '.join('%s %s' % (C.qs(C.fr(a)), C.qs(C.fr(b))) for a, b in tab)))
        want = np.asarray(seg.controlpoints, dtype=float)
        if theta < 0:
            want = want[::-1]
        meta.append(('circle_segment', want, dict(theta=theta, r=r)))
        # revolve about z and extrude of a random profile
        prof = O.make_impl(O.gen_obj(rng, pardim=1, kinds=['open'], nint_max=2, pmax=3, dim=3))
        if abs(theta) < 2 * math.pi:
            rv = sf.revolve(prof, theta)
            pc = prof.clone().force_rational()
            sg = cf.circle_segment(theta)
            lines.append('revolve_cps %s %s' % (qrows(np.asarray(pc.controlpoints)), qrows(np.asarray(sg.controlpoints))))
            # implementation stores (u, v, comp); the flat net is sweep-major
            meta.append(('revolve', np.asarray(rv.controlpoints, dtype=float).transpose(1, 0, 2).reshape(-1, 4), dict(theta=theta, profile=O.spec_json(O.snapshot(prof)))))
        amount = [rng.randint(-4, 4) / 2.0 for _ in range(3)]
        ex = sf.extrude(prof, amount)
        nc = prof.dimension + prof.rational
        lines.append('extrude_cps 3 %d %s %s' % (1 if prof.rational else 0, C.qlist([C.fr(a) for a in amount]), qrows(np.asarray(prof.controlpoints))))
        meta.append(('extrude', np.asarray(ex.controlpoints, dtype=float).transpose(1, 0, 2).reshape(-1, nc), dict(amount=amount, profile=O.spec_json(O.snapshot(prof)))))
    outs = C.run_model(lines)
    for tk, (name, want, args) in zip(outs, meta):
        count('L1 ' + name)
        n = tk.int()
        got = [[float(x) for x in tk.qlist()] for _ in range(n)]
        ok = len(got) == len(want) and all(len(g) == len(w) and all(abs(a - b) <= 1e-12 * max(1, abs(b)) for a, b in zip(g, w)) for g, w in zip(got, want))
        if not ok and corr_bad.open():
            corr_bad += {'what': 'L1: control net of %s differs from the model (Gen kernel / Model/Factory.v)' % name, 'op': name, 'args': args,
                        'model': got, 'implementation': np.asarray(want).tolist()}
    rc = V.finish(l0, corr_bad)
    C.write_evidence(PID, tier, seed, l0, {
        'evaluations': evals, 'distinct_nontrivial': len(nontriv),
        'rule': 'every primitive factory with random placement (centres, scaled Pythagorean normals/axes incl. +-coordinate axes, x-axes orthogonal to the normal), radii, '
                'angles incl. negative and boundary values, three-point arcs in both orientations (2-D and 3-D): implicit equations of the named shape at random parameters, '
                'start point, orientation, parameter ranges; non-trivial = distinct placements',
        'traces_validated_against_impl': evals,
        'input_distribution': {k: {str(a): b for a, b in v.items()} for k, v in dist.items()},
        'samples': samples or [{'factories': sorted(dist['factory'])}],
    }, t0, V.nviol, known=V.known)
    return rc


if __name__ == '__main__':
    sys.exit(C.guarded_main(PID, run))
