"""C11 — non-in-place operations neither modify nor alias their operands (effects monitor)."""
import os
import random
import sys
import time
from fractions import Fraction as Fr

sys.path.insert(0, os.path.dirname(os.path.dirname(os.path.abspath(__file__))))
import common as C
import objs as O
import build_pyx

PID = 'C11'


def deep(o):
    """bit-for-bit state of an object"""
    import numpy as np
    return (tuple((int(b.order), int(b.periodic), np.asarray(b.knots).tobytes(), np.asarray(b.knots).dtype.str) for b in o.bases),
            np.asarray(o.controlpoints).tobytes(), tuple(np.asarray(o.controlpoints).shape), int(o.dimension), bool(o.rational))


def arrays_of(x):
    """all numpy buffers / basis records reachable from a result (objects, lists/tuples of objects, arrays)"""
    import numpy as np
    from splipy import SplineObject, BSplineBasis
    out_arr, out_bas = [], []

    def walk(v, depth=0):
        if depth > 4 or v is None:
            return
        if isinstance(v, SplineObject):
            out_arr.append(v.controlpoints)
            for b in v.bases:
                out_bas.append(b)
                out_arr.append(b.knots)
        elif isinstance(v, BSplineBasis):
            out_bas.append(v)
            out_arr.append(v.knots)
        elif isinstance(v, np.ndarray):
            out_arr.append(v)
        elif isinstance(v, (list, tuple)):
            for y in v:
                walk(y, depth + 1)
    walk(x)
    return out_arr, out_bas


def _model_lookup(SplineModel, o):
    m = SplineModel(o.pardim, o.dimension)
    m.add(o.clone())
    return m[o]


def _model_add_twice(SplineModel, o):
    m = SplineModel(o.pardim, o.dimension)
    m.add(o.clone())
    try:
        m.add(o, raise_on_twins=False)
    except TypeError:
        m.add(o)
    return m


def run(tier, seed, replay=None):
    t0 = time.time()
    V = C.Verdict(PID, tier, seed)
    l0 = C.l0_check(PID, thorough=(tier == 'thorough'))
    build_pyx.load_splipy()
    import numpy as np
    import splipy
    from splipy import SplineObject, Curve, Surface, Volume, BSplineBasis
    import splipy.curve_factory as cf
    import splipy.surface_factory as sf
    import splipy.volume_factory as vf
    from splipy.splinemodel import SplineModel, Orientation
    from splipy.io import G2, STL, SVG
    rng = random.Random(seed)
    tmpd = os.path.join(C.BUILD, 'tmp')
    os.makedirs(tmpd, exist_ok=True)

    def tmpf(ext):
        return os.path.join(tmpd, 'c11_%d_%d.%s' % (os.getpid(), rng.randrange(10 ** 9), ext))

    def g2w(objs):
        fn = tmpf('g2')
        with G2(fn) as f:
            f.write(list(objs))
        os.remove(fn)

    def stlw(s, binary=True):
        fn = tmpf('stl')
        with STL(fn, binary=binary) as f:
            f.write(s, n=3) if s.pardim == 2 else f.write(s)
        os.remove(fn)

    def svgw(c):
        fn = tmpf('svg')
        with SVG(fn) as f:
            f.write(c)
        os.remove(fn)

    def mid(o):
        return [0.5 * (a + b) for a, b in zip(o.start(), o.end())]
    # ---- catalogue of non-in-place operations: name, applicable(o) , call(o, other) -> result
    NONIN = [
        ('clone', lambda o: True, lambda o, q: o.clone()),
        ('o + x', lambda o: True, lambda o, q: o + [1.0] * o.dimension),
        ('x + o', lambda o: True, lambda o, q: [1.0] * o.dimension + o),
        ('o - x', lambda o: True, lambda o, q: o - [0.5] * o.dimension),
        ('o * s', lambda o: True, lambda o, q: o * 2.0),
        ('s * o', lambda o: True, lambda o, q: 3.0 * o),
        ('o / s', lambda o: True, lambda o, q: o / 2.0),
        ('evaluate', lambda o: True, lambda o, q: o.evaluate(*mid(o))),
        ('evaluate grid', lambda o: True, lambda o, q: o.evaluate(*[[a, b] for a, b in zip(o.start(), mid(o))])),
        ('derivative', lambda o: True, lambda o, q: o.derivative(*mid(o), d=tuple([1] + [0] * (o.pardim - 1))) if o.pardim > 1 else o.derivative(mid(o)[0], d=1)),
        ('tangent', lambda o: True, lambda o, q: o.tangent(*mid(o))),
        ('section', lambda o: o.pardim >= 2, lambda o, q: o.section(*([0] + [None] * (o.pardim - 1)))),
        ('section point', lambda o: True, lambda o, q: o.section(*([0] * o.pardim))),
        ('edges', lambda o: o.pardim == 2, lambda o, q: o.edges()),
        ('faces', lambda o: o.pardim == 3, lambda o, q: o.faces()),
        ('corners', lambda o: True, lambda o, q: o.corners()),
        ('split', lambda o: True, lambda o, q: o.split(mid(o)[0], 0)),
        # split points on the domain boundary are skipped: the pieces are still new objects
        ('split at end', lambda o: o.bases[0].periodic < 0 and o.bases[0].knots[-1] == o.bases[0].end(), lambda o, q: o.split(o.end(0), 0)),
        ('split at start', lambda o: o.bases[0].periodic < 0, lambda o, q: o.split(o.start(0), 0)),
        ('split at both ends', lambda o: o.bases[0].periodic < 0 and o.bases[0].knots[-1] == o.bases[0].end(), lambda o, q: o.split([o.start(0), o.end(0)], 0)),
        ('split empty list', lambda o: o.bases[0].periodic < 0, lambda o, q: o.split([], 0)),
        ('split list', lambda o: True, lambda o, q: o.split([o.start(0) + (o.end(0) - o.start(0)) * f for f in (0.25, 0.75)], 0)),
        ('lower_order', lambda o: all(b.order >= 3 and b.periodic < 0 for b in o.bases), lambda o, q: o.lower_order(1)),
        ('lower_order 0', lambda o: all(b.periodic < 0 for b in o.bases), lambda o, q: o.lower_order(0)),
        ('rebuild', lambda o: o.pardim in (1, 2) and not o.rational and all(b.periodic < 0 for b in o.bases),
         lambda o, q: o.rebuild(3, 5) if o.pardim == 1 else o.rebuild((3, 3), (5, 5))),
        ('make_periodic', lambda o: o.bases[0].periodic < 0 and o.bases[0].order >= 3 and o.bases[0].num_functions() >= 2 * o.bases[0].order and o.bases[0].knots[0] == o.bases[0].start(),
         lambda o, q: o.make_periodic(0, 0)),
        ('derivative spline', lambda o: not o.rational and all(b.order >= 3 for b in o.bases), lambda o, q: o.get_derivative_spline(0)),
        ('derivative splines (all)', lambda o: not o.rational and all(b.order >= 3 for b in o.bases), lambda o, q: o.get_derivative_spline()),
        ('length', lambda o: o.pardim == 1, lambda o, q: o.length()),
        ('area', lambda o: o.pardim == 2 and o.dimension in (2, 3), lambda o, q: o.area()),
        ('volume', lambda o: o.pardim == 3 and o.dimension == 3, lambda o, q: o.volume()),
        ('center', lambda o: all(b.periodic < 0 or b.num_functions() >= b.order for b in o.bases), lambda o, q: o.center()),
        ('bounding_box', lambda o: True, lambda o, q: o.bounding_box()),
        ('curvature', lambda o: o.pardim == 1 and o.dimension in (2, 3) and o.bases[0].order >= 3, lambda o, q: o.curvature(mid(o)[0])),
        ('const_par_curve', lambda o: o.pardim == 2, lambda o, q: o.const_par_curve(mid(o)[0], 0)),
        ('normal', lambda o: o.pardim == 2 and o.dimension == 3, lambda o, q: o.normal(*mid(o))),
        ('G2 write', lambda o: True, lambda o, q: g2w([o])),
        ('STL write', lambda o: o.pardim in (2, 3) and o.dimension == 3, lambda o, q: stlw(o)),
        # planar surfaces are written with a zero third coordinate: the padding belongs to the file, not to the operand
        ('STL write planar', lambda o: o.pardim == 2 and o.dimension == 2, lambda o, q: stlw(o)),
        ('STL write ascii', lambda o: o.pardim == 2 and o.dimension in (2, 3), lambda o, q: stlw(o, False)),
        ('SVG write', lambda o: o.pardim == 1 and o.dimension == 2 and not o.rational and o.bases[0].order <= 4, lambda o, q: svgw(o)),
        ('sf.extrude', lambda o: o.pardim == 1, lambda o, q: sf.extrude(o, [0.0, 0.5, 1.0])),
        ('sf.revolve', lambda o: o.pardim == 1 and o.dimension in (2, 3), lambda o, q: sf.revolve(o, 1.0)),
        ('sf.thicken', lambda o: o.pardim == 1 and o.dimension == 2 and not o.rational, lambda o, q: sf.thicken(o, 0.1)),
        ('sf.edge_curves(2)', lambda o: o.pardim == 1 and q is not None, lambda o, q: sf.edge_curves(o, q)),
        ('sf.loft', lambda o: o.pardim == 1 and q is not None, lambda o, q: sf.loft(o, q)),
        ('vf.extrude', lambda o: o.pardim == 2, lambda o, q: vf.extrude(o, [0.0, 0.5, 1.0])),
        ('vf.revolve', lambda o: o.pardim == 2 and o.dimension in (2, 3), lambda o, q: vf.revolve(o, 1.0)),
        ('vf.edge_surfaces(2)', lambda o: o.pardim == 2 and q is not None, lambda o, q: vf.edge_surfaces(o, q)),
        ('vf.loft', lambda o: o.pardim == 2 and q is not None, lambda o, q: vf.loft(o, q)),
        ('SplineModel.add', lambda o: all(b.periodic < 0 for b in o.bases), lambda o, q: SplineModel(o.pardim, o.dimension).add(o)),
        # model routines that take an existing object and compare it with stored ones (Orientation.compute on both)
        ('SplineModel lookup', lambda o: all(b.periodic < 0 for b in o.bases), lambda o, q: _model_lookup(SplineModel, o)),
        ('SplineModel.add twice', lambda o: all(b.periodic < 0 for b in o.bases), lambda o, q: _model_add_twice(SplineModel, o)),
        ('Orientation.compute', lambda o: True, lambda o, q: Orientation.compute(o, o.clone())),
        ('Orientation.compute (2nd arg)', lambda o: True, lambda o, q: Orientation.compute(o.clone(), o)),
        ('make_splines_compatible on clones', lambda o: q is not None, lambda o, q: (lambda a, b: (SplineObject.make_splines_compatible(a, b), (a, b))[1])(o.clone(), q.clone())),
    ]
    TWO_OPERAND = {'sf.edge_curves(2)', 'sf.loft', 'vf.edge_surfaces(2)', 'vf.loft', 'make_splines_compatible on clones'}
    INPLACE = [
        ('insert_knot', lambda o: True, lambda o: o.insert_knot(mid(o)[0], 0)),
        ('refine', lambda o: len(o) < 300, lambda o: o.refine(1)),
        ('raise_order', lambda o: all(b.periodic < 0 for b in o.bases) and max(o.order()) < 5, lambda o: o.raise_order(1)),
        ('reverse', lambda o: True, lambda o: o.reverse(0)),
        ('swap', lambda o: True, lambda o: o.swap()),
        ('reparam', lambda o: True, lambda o: o.reparam()),
        ('translate', lambda o: True, lambda o: o.translate([1.0] * o.dimension)),
        ('scale', lambda o: True, lambda o: o.scale(2.0)),
        ('rotate', lambda o: o.dimension in (2, 3), lambda o: o.rotate(0.3)),
        ('mirror', lambda o: o.dimension == 3, lambda o: o.mirror((1, 2, 2))),
        ('project', lambda o: True, lambda o: o.project('xy')),
        ('set_dimension', lambda o: True, lambda o: o.set_dimension(3)),
        ('force_rational', lambda o: True, lambda o: o.force_rational()),
        ('set_order', lambda o: all(b.periodic < 0 for b in o.bases) and max(o.order()) < 4, lambda o: o.set_order(*[p + 1 for p in o.order()])),
        ('+=', lambda o: True, lambda o: o.__iadd__([1.0] * o.dimension)),
        ('*=', lambda o: True, lambda o: o.__imul__(2.0)),
        ('lower_periodic', lambda o: o.bases[0].periodic >= 0, lambda o: o.lower_periodic(-1, 0)),
    ]
    # in-place operations that take ANOTHER object as an argument: only the receiver may change
    def _variant(q, k):
        """the argument in another embedding: k = 0 as is, 1 other dimension, 2 other rationality, 3 both"""
        q = q.clone()
        if k in (1, 3):
            q.set_dimension(5 - q.dimension)
        if k in (2, 3):
            if q.rational:
                q = type(q)(*q.bases, np.array(q.controlpoints[..., :-1]), False, raw=True)
            else:
                q.force_rational()
        return q
    INPLACE2 = [
        ('append', lambda o, q: o.pardim == 1 and o.bases[0].periodic < 0 and q.bases[0].periodic < 0, lambda o, q: o.append(q)),
    ]
    nobj = 150 if tier == 'quick' else 700
    evals = 0
    nontriv = set()
    dist = {'op': {}, 'operand': {}, 'errors': {}}
    samples = []
    for it in range(nobj):
        pdm = rng.choice([1, 1, 2, 2, 3])
        spec = O.gen_obj(rng, pardim=pdm, kinds=['open', 'open', 'open', 'periodic'], dim=rng.choice([2, 2, 3, 3]), nint_max=2)
        if any(b['periodic'] >= 0 and O.nfun(b) < b['order'] + b['periodic'] for b in spec['bases']):
            continue
        spec2 = O.gen_obj(rng, pardim=pdm, kinds=['open'], dim=spec['dim'], nint_max=2)
        key = 'pardim%d dim%d %s %s' % (pdm, spec['dim'], 'rational' if spec['rational'] else 'poly', 'periodic' if any(b['periodic'] >= 0 for b in spec['bases']) else 'open')
        dist['operand'][key] = dist['operand'].get(key, 0) + 1
        for (name, ok, call) in NONIN:
            o = O.make_impl(spec)
            q = O.make_impl(spec2)
            if name in TWO_OPERAND and (it + len(name)) % 2 == 1:
                # the second operand in another embedding (other dimension and/or rationality than the first)
                q = _variant(q, 1 + (it % 3))
            try:
                appl = ok(o)
            except Exception:
                appl = False
            if not appl:
                continue
            before_o, before_q = deep(o), deep(q)
            opnd_arr, opnd_bas = arrays_of([o, q])
            case = {'op': name, 'obj': O.spec_json(spec), 'other': O.spec_json(spec2)}
            try:
                res = call(o, q)
            except Exception as e:  # noqa
                nm = type(e).__name__
                dist['errors'][name + ':' + nm] = dist['errors'].get(name + ':' + nm, 0) + 1
                if deep(o) != before_o or deep(q) != before_q:
                    V.failure(dict(case, what='%s raised %s and left an operand modified' % (name, nm)))
                continue
            evals += 1
            dist['op'][name] = dist['op'].get(name, 0) + 1
            nontriv.add(C.case_hash([name, key]))
            if deep(o) != before_o:
                V.failure(dict(case, what='%s modified its operand' % name))
                continue
            if deep(q) != before_q:
                V.failure(dict(case, what='%s modified its second operand' % name))
                continue
            res_arr, res_bas = arrays_of(res)
            shared = False
            for ra in res_arr:
                for oa in opnd_arr:
                    if ra is oa or (ra.size and oa.size and np.shares_memory(ra, oa)):
                        shared = True
            for rb in res_bas:
                for ob in opnd_bas:
                    if rb is ob:
                        shared = True
            if shared:
                V.failure(dict(case, what='result of %s shares mutable state with an operand' % name))
                continue
            # mutation probes: change the result, operands must not move; change the operand, result must not move
            res_before = [a.tobytes() for a in res_arr]
            for ra in res_arr:
                if ra.size and ra.flags.writeable and ra.dtype.kind == 'f':
                    ra.flat[0] += 1.0
            if deep(o) != before_o or deep(q) != before_q:
                V.failure(dict(case, what='mutating the result of %s changed an operand' % name))
                continue
            res_now = [a.tobytes() for a in res_arr]
            o.controlpoints.flat[0] += 1.0
            o.bases[0].knots[0] -= 0.0
            if [a.tobytes() for a in res_arr] != res_now:
                V.failure(dict(case, what='mutating an operand of %s changed the result' % name))
            if len(samples) < 3 and name.startswith('vf.'):
                samples.append({'op': name, 'operand': key})
        for (name, ok2, call2) in INPLACE2:
            for k_ in range(4):
                o = O.make_impl(spec)
                q = _variant(O.make_impl(spec2), k_)
                try:
                    if not ok2(o, q):
                        continue
                except Exception:
                    continue
                before_q = deep(q)
                case = {'op': name, 'obj': O.spec_json(spec), 'other': O.spec_json(O.snapshot(q)), 'argument_variant': k_}
                try:
                    ret = call2(o, q)
                except Exception as e:  # noqa
                    nm = type(e).__name__
                    dist['errors'][name + ':' + nm] = dist['errors'].get(name + ':' + nm, 0) + 1
                    if deep(q) != before_q:
                        V.failure(dict(case, what='%s raised %s and left its argument modified' % (name, nm)))
                    continue
                evals += 1
                dist['op'][name] = dist['op'].get(name, 0) + 1
                nontriv.add(C.case_hash([name, key, k_]))
                if ret is not o:
                    V.failure(dict(case, what='in-place operation %s did not return its receiver' % name))
                if deep(q) != before_q:
                    V.failure(dict(case, what='in-place operation %s modified its argument (dimension %d, rational %s afterwards)' % (name, q.dimension, q.rational)))
                    continue
                ra, rb = arrays_of(o)
                qa, qb = arrays_of(q)
                if any(x is y or (x.size and y.size and np.shares_memory(x, y)) for x in ra for y in qa) or any(x is y for x in rb for y in qb):
                    V.failure(dict(case, what='after %s the receiver shares mutable state with the argument' % name))
        for (name, ok, call) in INPLACE:
            o = O.make_impl(spec)
            bystander = O.make_impl(spec)
            try:
                if not ok(o):
                    continue
            except Exception:
                continue
            before_b = deep(bystander)
            case = {'op': name, 'obj': O.spec_json(spec)}
            try:
                ret = call(o)
            except Exception as e:  # noqa
                nm = type(e).__name__
                dist['errors'][name + ':' + nm] = dist['errors'].get(name + ':' + nm, 0) + 1
                continue
            evals += 1
            dist['op'][name] = dist['op'].get(name, 0) + 1
            if ret is not o:
                V.failure(dict(case, what='in-place operation %s did not return its receiver' % name))
            if deep(bystander) != before_b:
                V.failure(dict(case, what='in-place operation %s modified another object' % name))
    rc = V.finish(l0, None)
    C.write_evidence(PID, tier, seed, l0, {
        'evaluations': evals, 'distinct_nontrivial': len(nontriv),
        'rule': 'effects monitor: %d non-in-place operations (clone, infix arithmetic, evaluation/derivative queries, sections, split, lower_order, rebuild, '
                'make_periodic, derivative splines, measures, G2/STL/SVG writing, factories taking objects, SplineModel.add) x random operands (pardim 1-3, physical '
                'dimension 2-3, rational or not, periodic or not): bit-for-bit snapshots of operands, shares_memory/identity between result and operands, mutation probes both '
                'ways; %d in-place operations return their receiver and touch nothing else; non-trivial = distinct (operation, operand class)' % (len(NONIN), len(INPLACE)),
        'traces_validated_against_impl': evals,
        'input_distribution': {k: {str(a): b for a, b in v.items()} for k, v in dist.items()},
        'samples': samples or [{'note': 'none'}],
    }, t0, V.nviol, known=V.known)
    return rc


if __name__ == '__main__':
    sys.exit(C.guarded_main(PID, run))
