"""C10 — every reachable object is structurally well formed."""
import os
import random
import sys
import time
from fractions import Fraction as Fr

sys.path.insert(0, os.path.dirname(os.path.dirname(os.path.abspath(__file__))))
import common as C
import objs as O
import gen_basis as G
import build_pyx

PID = 'C10'


def structural(o, np, tolf):
    """the statement's predicate evaluated on the implementation object; returns a list of complaints"""
    bad = []
    pd = len(o.bases)
    cps = o.controlpoints
    if cps.ndim != pd + 1:
        bad.append('control points have %d axes for %d directions' % (cps.ndim, pd))
        return bad
    if o.pardim != pd:
        bad.append('pardim %r != number of bases %d' % (o.pardim, pd))
    shape = tuple(b.num_functions() for b in o.bases)
    if tuple(cps.shape) != shape + (o.dimension + int(bool(o.rational)),):
        bad.append('control point shape %r, expected %r' % (tuple(cps.shape), shape + (o.dimension + int(bool(o.rational)),)))
        return bad
    if tuple(o.shape) != shape or len(o) != int(np.prod(shape)) or tuple(o.order()) != tuple(b.order for b in o.bases):
        bad.append('len/shape/order accessors inconsistent')
    for d, b in enumerate(o.bases):
        k = np.asarray(b.knots, dtype=float)
        p = b.order
        if p < 1 or len(k) < 2 * p:
            bad.append('direction %d: order %d with %d knots' % (d, p, len(k)))
            continue
        if np.any(np.diff(k) < -tolf):
            bad.append('direction %d: knot vector decreases' % d)
        if not (b.start() < b.end()):
            bad.append('direction %d: start %r >= end %r' % (d, b.start(), b.end()))
        if b.periodic >= 0:
            kk = b.periodic
            for i in range(p + kk - 1):
                if abs((k[i + 1] - k[i]) - (k[-p - kk + i] - k[-p - kk - 1 + i])) > 1e-9 * max(1.0, abs(k[-1] - k[0])):
                    bad.append('direction %d: periodic end knots do not repeat the interior spacing' % d)
                    break
        if list(o.knots(d, with_multiplicities=True)) != list(k) or o.start(d) != b.start() or o.end(d) != b.end():
            bad.append('direction %d: knots/start/end accessors inconsistent' % d)
    if o.rational and np.any(cps[..., -1] <= 0):
        bad.append('non-positive weight')
    # flat (first-index-fastest) indexing against multi-indexing
    n = len(o)
    if n > 0:
        for flat in {0, n - 1, n // 2}:
            idx = np.unravel_index(flat, shape, order='F')
            if not np.array_equal(o[flat], cps[idx]):
                bad.append('flat index %d disagrees with multi-index %r' % (flat, idx))
    return bad


def run(tier, seed, replay=None):
    t0 = time.time()
    V = C.Verdict(PID, tier, seed)
    O.FAR_PROB = 0.08     # some objects live far from the origin on compressed knot vectors
    l0 = C.l0_check(PID, thorough=(tier == 'thorough'))
    build_pyx.load_splipy()
    import numpy as np
    import splipy
    from splipy import state, BSplineBasis, Curve, Surface, Volume
    from math import atan2
    rng = random.Random(seed)
    tolf = state.knot_tolerance
    tol = C.fr(tolf)
    nobj = 200 if tier == 'quick' else 1200
    hist_len = 8 if tier == 'quick' else 12
    dist = {'op': {}, 'pardim': {}, 'errors': {}, 'ctor': {}}
    checks = []   # (case, snapshot) to run through the model predicate
    evals = 0
    nontriv = set()
    OPS = ['insert_knot', 'refine', 'raise_order', 'reverse', 'swap', 'reparam', 'split_piece', 'lower_periodic', 'make_periodic',
           'translate', 'scale', 'rotate', 'mirror', 'project', 'set_dimension', 'force_rational', 'section', 'clone', 'infix', 'lower_order',
           'derivative_spline', 'make_identical', 'append']
    for it in range(nobj):
        spec = O.gen_obj(rng, kinds=['open', 'open', 'open', 'periodic'], nint_max=2)
        force_close = None
        if it % 6 == 5:
            # closing a surface / volume in a direction other than the first: needs enough functions in that direction
            spec = O.gen_obj(rng, kinds=['open'], pardim=rng.choice([2, 3]), nint_max=6, pmax=4)
            okd = [i for i, bb in enumerate(spec['bases']) if bb['order'] >= 3 and O.nfun(bb) >= 2 * bb['order']]
            if okd:
                force_close = rng.choice([i for i in okd if i >= 1] or okd)
        # keep to the regime in which the library's periodic algorithms are defined (see C04/C07/C08 findings)
        if any(b['periodic'] >= 0 and O.nfun(b) < b['order'] + b['periodic'] for b in spec['bases']):
            continue
        o = O.make_impl(spec)
        dist['pardim'][len(spec['bases'])] = dist['pardim'].get(len(spec['bases']), 0) + 1
        hist = []
        siblings = []      # other results of earlier steps (remaining split pieces, the object a section/clone/... was taken
                           # from): operations on the followed object must leave them structurally intact
        for stepno in range(hist_len):
            pd = o.pardim
            op = rng.choice(OPS)
            d = rng.randrange(pd)
            if stepno == 0 and force_close is not None:
                op, d = 'make_periodic', force_close
            b = o.bases[d]
            args = None
            try:
                if op == 'insert_knot':
                    x = b.start() + (b.end() - b.start()) * rng.randint(1, 63) / 64.0
                    if b.periodic >= 0 and rng.random() < 0.3:
                        # a knot outside the base period of a periodic direction is the knot wrapped into it
                        x += rng.choice([-2, -1, 1, 2]) * (b.end() - b.start())
                    args = [x, d]
                    o.insert_knot(x, d)
                elif op == 'refine':
                    if len(o) > 400:
                        continue
                    o.refine(1, direction=d)
                elif op == 'raise_order':
                    if max(o.order()) >= 5 or any(bb.continuity(kk) < 0 for bb in o.bases for kk in bb.knot_spans()[1:-1]):
                        continue
                    o.raise_order(*([0] * d + [1] + [0] * (pd - d - 1))) if pd > 1 else o.raise_order(1)
                elif op == 'reverse':
                    o.reverse(d)
                elif op == 'swap':
                    if pd < 2:
                        continue
                    d2 = rng.choice([x for x in range(pd) if x != d])
                    args = [d, d2]
                    o.swap(d, d2)
                elif op == 'reparam':
                    a_ = rng.randint(-8, 8) / 2.0
                    # now and then an empty or reversed interval: the call must raise (a history ends there) -- if it completes,
                    # the object is checked like any other (start < end)
                    w_ = rng.choice([0.0, 0.0, -1.5]) if rng.random() < 0.1 else rng.randint(1, 12) / 2.0
                    args = [a_, a_ + w_, d]
                    o.reparam((args[0], args[1]), direction=d)
                elif op == 'split_piece':
                    x = b.start() + (b.end() - b.start()) * rng.randint(1, 63) / 64.0
                    args = [x, d]
                    res = o.split(x, d)
                    if isinstance(res, list):
                        pick = rng.randrange(len(res))
                        siblings = (siblings + [r_ for i_, r_ in enumerate(res) if i_ != pick])[-4:]
                        o = res[pick]
                    else:
                        o = res
                elif op == 'lower_periodic':
                    if b.periodic < 0:
                        continue
                    args = [rng.randint(-1, b.periodic), d]
                    o.lower_periodic(args[0], d)
                elif op == 'make_periodic':
                    if b.periodic >= 0 or b.order < 3 or b.num_functions() < 2 * b.order or b.knots[0] != b.start():
                        continue
                    args = [rng.randint(0, b.order - 2), d]
                    siblings = (siblings + [o])[-4:]
                    o = o.make_periodic(args[0], d)
                elif op == 'translate':
                    o.translate([rng.randint(-5, 5) / 2.0 for _ in range(o.dimension)])
                elif op == 'scale':
                    o.scale(rng.choice([2.0, 0.5, -1.0, 3.0]))
                elif op == 'rotate':
                    if o.dimension not in (2, 3):
                        continue
                    o.rotate(rng.random() * 6 - 3, rng.choice([(0, 0, 1), (1, 2, 2), (0, 1, 0)]) if o.dimension == 3 else (0, 0, 1))
                elif op == 'mirror':
                    if o.dimension != 3:
                        continue
                    o.mirror(rng.choice([(1, 0, 0), (1, 1, 0), (1, 2, 2)]))
                elif op == 'project':
                    o.project(rng.choice(['xy', 'xz', 'x', 'yz']))
                elif op == 'set_dimension':
                    o.set_dimension(rng.choice([1, 2, 3, 3]))     # also several components at once (3 -> 1)
                elif op == 'force_rational':
                    o.force_rational()
                elif op == 'section':
                    if pd < 2:
                        continue
                    sel = [None] * pd
                    sel[d] = rng.choice([0, -1])
                    siblings = (siblings + [o])[-4:]
                    o = o.section(*sel)
                elif op == 'clone':
                    siblings = (siblings + [o])[-4:]
                    o = o.clone()
                elif op == 'infix':
                    o = (o + [1.0] * o.dimension) * 2.0
                elif op == 'lower_order':
                    if any(bb.periodic >= 0 or bb.order < 3 for bb in o.bases):
                        continue
                    o = o.lower_order(*([0] * d + [1] + [0] * (pd - d - 1)))
                elif op == 'derivative_spline':
                    if o.rational or b.order < 3:
                        continue
                    o = o.get_derivative_spline(d)
                elif op == 'append':
                    if pd != 1:
                        continue
                    # the argument may be any curve: open or closed (periodic), of another dimension or rationality; the
                    # call either raises or leaves a well-formed receiver
                    other = O.make_impl(O.gen_obj(rng, pardim=1, kinds=rng.choice([['open'], ['periodic']]), nint_max=3, big_periodic=True))
                    args = ['periodic argument' if other.periodic(0) else 'open argument']
                    low = o if o.order(0) < other.order(0) else other
                    if o.order(0) != other.order(0) and not other.periodic(0) and \
                            (max(o.order(0), other.order(0)) > 5 or any(low.bases[0].continuity(kk) < 0 for kk in low.bases[0].knot_spans()[1:-1])):
                        continue      # append elevates the lower order first: objects with jump knots are recorded under C05
                    siblings = (siblings + [other])[-4:]
                    o.append(other)
                elif op == 'make_identical':
                    other = O.make_impl(O.gen_obj(rng, pardim=pd, kinds=['open'], nint_max=2))
                    if max(max(o.order()), max(other.order())) > 4 or any(bb.continuity(kk) < 0 for bb in o.bases for kk in bb.knot_spans()[1:-1]):
                        continue      # order elevation of objects with jump knots: recorded under C05
                    splipy.SplineObject.make_splines_identical(o, other)
            except Exception as e:  # noqa
                nm = type(e).__name__
                dist['errors'][op + ':' + nm] = dist['errors'].get(op + ':' + nm, 0) + 1
                break      # the property speaks about operations that complete without raising
            hist.append([op, args])
            dist['op'][op] = dist['op'].get(op, 0) + 1
            evals += 1
            case = {'start': O.spec_json(spec), 'history': hist[:]}
            nontriv.add(C.case_hash(case))
            if not O.finite(o):
                V.failure(dict(case, what='non-finite numbers in the object after %s' % op))
                break
            complaints = structural(o, np, tolf)
            for si_, sib in enumerate(siblings):
                complaints += ['an object produced earlier in the history (sibling %d) is no longer well formed: %s' % (si_, c_)
                               for c_ in structural(sib, np, tolf)]
            for cpl in complaints:
                V.failure(dict(case, what='after %s: %s' % (op, cpl)))
            if complaints:
                break
            # clone, reconstruct from own parts, evaluate on the whole domain
            try:
                cl = o.clone()
                cls = {1: Curve, 2: Surface, 3: Volume}.get(o.pardim)
                if cls is not None:
                    re_ = cls(*o.bases, o.controlpoints, o.rational, raw=True)
                    if not np.array_equal(re_.controlpoints, o.controlpoints) or any(not np.array_equal(a.knots, bb.knots) for a, bb in zip(re_.bases, o.bases)):
                        V.failure(dict(case, what='after %s: re-construction from own bases and control points differs' % op))
                if not np.array_equal(cl.controlpoints, o.controlpoints):
                    V.failure(dict(case, what='after %s: clone differs' % op))
                corners = [[bb.start(), bb.end(), 0.5 * (bb.start() + bb.end())] for bb in o.bases]
                val = o.evaluate(*corners)
                if not np.all(np.isfinite(val)):
                    V.failure(dict(case, what='after %s: evaluation on the domain is not finite' % op))
            except Exception as e:  # noqa
                V.failure(dict(case, what='after %s: clone / re-construct / evaluate on the domain raised %s' % (op, type(e).__name__)))
                break
            checks.append((case, O.snapshot(o)))
    # model predicate on the snapshots (L1: both readings of "well formed" agree)
    outs = C.run_model(['wf_obj %s %s' % (C.qs(tol), O.obj_tokens(s)) for _, s in checks])
    corr_bad = C.Corr()
    for tk, (case, s) in zip(outs, checks):
        if not tk.int() and corr_bad.open():
            corr_bad += dict(case, what='L1: the model predicate wf_obj rejects an object the implementation-side predicate accepts', obj=O.spec_json(s))
    # ------------------------------------------------------------------ constructor: malformed stream
    lines, cmeta = [], []
    nctor = 150 if tier == 'quick' else 3000
    for _ in range(nctor):
        b = G.gen_basis(rng, pmax=5, nint_max=4)
        k = list(b['knots'])
        p = b['order']
        per = b['periodic']
        kind = rng.choice(['ok', 'ok', 'order0', 'order_neg', 'too_few', 'decreasing', 'decreasing_tiny', 'periodic_mismatch', 'periodic_tiny', 'periodic_last'])
        if kind == 'order0':
            p = 0
        elif kind == 'order_neg':
            p = -rng.randint(1, 3)
        elif kind == 'too_few':
            k = k[: 2 * p - 1]
        elif kind == 'decreasing' and len(k) > 2:
            i = rng.randrange(len(k) - 1)
            k[i + 1] = k[i] - Fr(1, 8)
        elif kind == 'decreasing_tiny' and len(k) > 2:
            i = rng.randrange(len(k) - 1)
            k[i + 1] = k[i] - C.fr(tolf) * rng.choice([Fr(1, 2), Fr(4)])
        elif kind == 'periodic_mismatch' and per >= 0:
            k[0] = k[0] - Fr(1, 4)
        elif kind == 'periodic_tiny' and per >= 0:
            k[0] = k[0] - C.fr(tolf) * rng.choice([Fr(1, 2), Fr(4)])
        elif kind == 'periodic_last' and per >= 0:
            k[-1] = k[-1] + Fr(1, 2)
        kf = [float(x) for x in k]
        ke = [C.fr(x) for x in kf]
        err = None
        try:
            BSplineBasis(p, kf, per)
        except Exception as e:  # noqa
            err = type(e).__name__
        dist['ctor'][kind + ':' + str(err)] = dist['ctor'].get(kind + ':' + str(err), 0) + 1
        lines.append('basis_ctor %s %d %s %d' % (C.qs(tol), p, C.qlist(ke), per + 1))
        cmeta.append((kind, p, ke, per, err))
    outs = C.run_model(lines)
    for tk, (kind, p, ke, per, err) in zip(outs, cmeta):
        evals += 1
        nontriv.add(C.case_hash([p, [str(x) for x in ke], per]))
        merr = None
        if tk.word() == 'Err':
            merr = tk.word()
        case = {'what': '', 'ctor': dict(order=p, knots=[str(x) for x in ke], periodic=per), 'kind': kind}
        if merr != err and corr_bad.open():
            corr_bad += dict(case, what='L1: constructor raises %s, model %s' % (err, merr))
        # L2: the statement's converse
        n = len(ke)
        decreasing = any(ke[i + 1] - ke[i] < -tol for i in range(n - 1))
        must_reject = p < 1 or n < 2 * p or decreasing
        if must_reject and err != 'ValueError':
            V.failure(dict(case, what='L2: constructor accepted (or raised %s for) a malformed knot vector (%s)' % (err, kind)))
        if kind == 'ok' and err is not None:
            V.failure(dict(case, what='L2: constructor rejected a well-formed knot vector with %s' % err))
        if kind == 'periodic_mismatch' and per >= 0 and p >= 1 and n >= 2 * p and err != 'ValueError' and (p + per - 1) > 0:
            V.failure(dict(case, what='L2: constructor accepted a periodic knot vector whose ends do not match'))
    rc = V.finish(l0, corr_bad)
    C.write_evidence(PID, tier, seed, l0, {
        'evaluations': evals, 'distinct_nontrivial': len(nontriv),
        'rule': 'histories of up to %d public operations (%s) from random open/periodic start objects; after every step the structural predicate, accessor consistency, '
                'flat indexing, clone, re-construction and evaluation on the whole domain; malformed constructor stream (each rejection rule and tolerance-level neighbours); '
                'non-trivial = distinct (start object, history prefix) / constructor input' % (hist_len, ', '.join(OPS)),
        'traces_validated_against_impl': evals,
        'input_distribution': {k: {str(a): b for a, b in v.items()} for k, v in dist.items()},
        'samples': [checks[len(checks) // 2][0]] if checks else [{'note': 'none'}],
    }, t0, V.nviol, known=V.known)
    return rc


if __name__ == '__main__':
    sys.exit(C.guarded_main(PID, run))
