"""C14 — interpolating and fitting factories reproduce their data."""
import math
import os
import random
import sys
import time
from fractions import Fraction as Fr

sys.path.insert(0, os.path.dirname(os.path.dirname(os.path.abspath(__file__))))
import common as C
import objs as O
import gen_basis as G
import build_pyx

PID = 'C14'


def run(tier, seed, replay=None):
    t0_ = time.time()
    V = C.Verdict(PID, tier, seed)
    l0 = C.l0_check(PID, thorough=(tier == 'thorough'))
    build_pyx.load_splipy()
    import numpy as np
    from splipy import BSplineBasis, Curve, Surface, Volume, state
    from splipy import curve_factory as cf, surface_factory as sf, volume_factory as vf
    from splipy.curve_factory import Boundary
    rng = random.Random(seed)
    nrng = np.random.RandomState(seed % (2 ** 31))
    tol = C.fr(state.knot_tolerance)
    reps = 40 if tier == 'quick' else 400
    dist = {'spelling': {}, 'op': {}, 'boundary': {}, 'basis_kind': {}, 'dim': {}, 'errors': {}}
    evals = 0
    nontriv = set()
    samples = []
    l1 = []          # (line, kind, payload)

    def count(op, **kw):
        nonlocal evals
        evals += 1
        dist['op'][op] = dist['op'].get(op, 0) + 1
        for k, v in kw.items():
            dist[k][str(v)] = dist[k].get(str(v), 0) + 1

    def fail(op, args, what):
        V.failure({'what': '%s: %s' % (op, what), 'op': op, 'args': args})

    def close(a, b, scale=1.0, rel=1e-8):
        a, b = np.asarray(a, dtype=float), np.asarray(b, dtype=float)
        return a.shape == b.shape and np.all(np.isfinite(a)) and np.max(np.abs(a - b), initial=0) <= rel * max(1.0, scale, np.max(np.abs(b), initial=0))

    def mk_basis(kind=None, pmax=4, nint_max=3):
        while True:
            b = G.gen_basis(rng, kind=kind or rng.choice(['open', 'open', 'nonopen', 'periodic']), pmax=pmax, nint_max=nint_max)
            if b['order'] >= 2 and O.nfun(b) >= 2:
                return b

    def impl_basis(b):
        return BSplineBasis(b['order'], [float(x) for x in b['knots']], b['periodic'])

    def bjson(b):
        return {'order': b['order'], 'knots': [str(x) for x in b['knots']], 'periodic': b['periodic']}

    def params_for(b, ib, user):
        """interpolation parameters: Greville points, or (user) Greville points nudged inside the domain by a dyadic"""
        g = [float(x) for x in ib.greville()]
        if not user:
            return None, g
        s, e = ib.start(), ib.end()
        out = []
        for x in g:
            y = x + (e - s) * rng.choice([-1, 1, 0]) / 64.0
            out.append(min(max(y, s), e) if b['periodic'] < 0 else y)
        if len(set(out)) != len(out):
            return None, g
        return out, out

    # ---------------------------------------------------------------- curves: interpolate, projection, lsq
    for it in range(reps):
        b = mk_basis()
        ib = impl_basis(b)
        n = ib.num_functions()
        dim = rng.choice([1, 2, 3])
        user = rng.random() < 0.5
        tpass, t = params_for(b, ib, user)
        N = np.asarray(ib.evaluate(t))
        if np.linalg.cond(N) > 1e6:
            continue
        x = np.array([[rng.randint(-8, 8) / 2.0 for _ in range(dim)] for _ in range(n)])
        args = dict(basis=bjson(b), t=tpass, x=x.tolist())
        nontriv.add(C.case_hash(args))
        kind = 'periodic' if b['periodic'] >= 0 else 'nonperiodic'
        try:
            crv = cf.interpolate(x, ib, tpass)
            count('curve interpolate', basis_kind=kind, dim=dim)
            got = np.asarray(crv.evaluate(t)).reshape(n, dim)
            if not close(got, x, np.abs(x).max()):
                fail('curve interpolate', args, 'result(t_i) differs from x_i by %g' % np.abs(got - x).max())
            if len(samples) < 2:
                samples.append(dict(op='curve interpolate', **args))
        except Exception as e:  # noqa
            fail('curve interpolate', args, 'raised %s' % type(e).__name__)
            continue
        # projection: data sampled from a spline of the space returns that spline
        c0 = np.array([[rng.randint(-8, 8) / 2.0 for _ in range(dim)] for _ in range(n)])
        src = Curve(ib, c0)
        xs = np.asarray(src.evaluate(t)).reshape(n, dim)
        back = cf.interpolate(xs, ib, tpass)
        count('curve interpolate projection', basis_kind=kind)
        if not close(back.controlpoints, c0, np.abs(c0).max(), rel=1e-7):
            fail('curve interpolate projection', dict(basis=bjson(b), t=tpass, cps=c0.tolist()), 'interpolating samples of a spline of the space does not return it')
        # least squares with more samples than functions
        if b['periodic'] < 0:
            m = n + rng.randint(0, 2 * n)
            tl = sorted(set(list(t) + [ib.start() + (ib.end() - ib.start()) * rng.randint(0, 64) / 64.0 for _ in range(m - n)]))
            xl = np.asarray(src.evaluate(tl)).reshape(len(tl), dim)
            try:
                fit = cf.least_square_fit(xl, ib, tl)
                count('curve least_square_fit', basis_kind=kind)
                if not close(fit.controlpoints, c0, np.abs(c0).max(), rel=1e-6):
                    fail('curve least_square_fit', dict(basis=bjson(b), t=tl, cps=c0.tolist()), 'fitting samples of a spline of the space does not return it')
                # general data: residual orthogonal to the space
                xn = xl + np.array([[rng.randint(-4, 4) / 8.0 for _ in range(dim)] for _ in tl])
                fit2 = cf.least_square_fit(xn, ib, tl)
                Nl = np.asarray(ib.evaluate(tl))
                res = Nl.T @ (Nl @ np.asarray(fit2.controlpoints) - xn)
                if np.abs(res).max() > 1e-8 * max(1, np.abs(xn).max()) * len(tl):
                    fail('curve least_square_fit', dict(basis=bjson(b), t=tl, x=xn.tolist()), 'residual is not orthogonal to the spline space (normal equations violated by %g)' % np.abs(res).max())
                l1.append(('lsq', dict(basis=b, t=tl, x=xn, got=np.asarray(fit2.controlpoints))))
            except Exception as e:  # noqa
                fail('curve least_square_fit', dict(basis=bjson(b), t=tl), 'raised %s' % type(e).__name__)
        l1.append(('interp', dict(basis=b, t=t, x=x, got=np.asarray(crv.controlpoints))))

    # ---------------------------------------------------------------- cubic_curve, all boundary types
    BT = [('FREE', Boundary.FREE), ('NATURAL', Boundary.NATURAL), ('HERMITE', Boundary.HERMITE), ('PERIODIC', Boundary.PERIODIC),
          ('TANGENT', Boundary.TANGENT), ('TANGENTNATURAL', Boundary.TANGENTNATURAL)]
    for it in range(reps):
        name, bt = BT[it % 6]
        dim = rng.choice([1, 2, 3]) if name != 'PERIODIC' else rng.choice([2, 3])
        npts = rng.randint(4 if name in ('FREE',) else 3, 8)
        while True:
            x = np.array([[rng.randint(-12, 12) / 2.0 for _ in range(dim)] for _ in range(npts)])
            if all(np.linalg.norm(x[i + 1] - x[i]) > 0.4 for i in range(npts - 1)) and np.linalg.norm(x[0] - x[-1]) > 0.4:
                break
        # survey-like coordinates: the data far from the origin compared with the spacing of the points (first and last point
        # agree to 6 digits without being the same point)
        far_data = rng.random() < (0.7 if name == 'PERIODIC' else 0.15)
        if far_data:
            x = x + np.array([524288.0, 6815744.0, -3145728.0][:dim])
        closed_input = name == 'PERIODIC' and rng.random() < 0.5
        if closed_input:
            x = np.vstack([x, x[:1]])
        user_t = rng.random() < 0.5
        tpass = None
        if user_t:
            tt = [rng.randint(-8, 8) / 4.0]
            for _ in range(len(x) - 1):
                tt.append(tt[-1] + rng.choice([0.25, 0.5, 1.0, 1.5, 2.0]))
            tpass = tt
        tang = None
        if name == 'TANGENT':
            tang = np.array([[rng.randint(-6, 6) / 2.0 for _ in range(dim)] for _ in range(2)])
        elif name == 'TANGENTNATURAL':
            tang = np.array([[rng.randint(-6, 6) / 2.0 for _ in range(dim)]])
        elif name == 'HERMITE':
            tang = np.array([[rng.randint(-6, 6) / 2.0 for _ in range(dim)] for _ in range(len(x))])
        args = dict(boundary=name, x=x.tolist(), t=tpass, tangents=None if tang is None else tang.tolist(), far_data=far_data)
        nontriv.add(C.case_hash(args))
        try:
            crv = cf.cubic_curve(x.copy(), bt, t=None if tpass is None else list(tpass), tangents=tang)
        except Exception as e:  # noqa
            fail('cubic_curve', args, 'raised %s' % type(e).__name__)
            continue
        count('cubic_curve', boundary=name, dim=dim)
        # the parameters the factory documents: user supplied, else cumulative chord length
        xe = x if not (name == 'PERIODIC' and not closed_input) else np.vstack([x, x[:1]])
        if tpass is None:
            tt = [0.0]
            for a, b_ in zip(xe[:-1], xe[1:]):
                tt.append(tt[-1] + float(np.linalg.norm(b_ - a)))
        else:
            tt = list(tpass)
            if name == 'PERIODIC' and not closed_input:
                tt = tt + [tt[-1] + float(np.linalg.norm(xe[0] - xe[-2]))]
        sc = np.abs(xe).max() + (0 if tang is None else np.abs(tang).max())
        if name == 'PERIODIC':
            if crv.periodic(0) is False or crv.bases[0].periodic != 2:
                fail('cubic_curve', args, 'PERIODIC result is not a C2-periodic curve')
            te, xv = tt[:-1], xe[:-1]
        else:
            te, xv = tt, xe
        if abs(crv.start(0) - tt[0]) > 1e-12 or abs(crv.end(0) - tt[-1]) > 1e-9 * max(1, abs(tt[-1])):
            fail('cubic_curve', args, 'parameter range is [%r, %r], expected [%r, %r]' % (crv.start(0), crv.end(0), tt[0], tt[-1]))
            continue
        got = np.asarray(crv.evaluate(te)).reshape(len(te), dim)
        if far_data:
            sc = max(1.0, float(np.abs(xe - xe[0]).max())) + 1e-3 * sc      # judged against the extent of the data, not its distance from the origin
        if not close(got, xv, sc, rel=1e-7):
            fail('cubic_curve', args, 'result(t_i) differs from x_i by %g' % np.abs(got - xv).max())
            continue
        d1 = lambda t_, above=True: np.asarray(crv.derivative(t_, 1, above=above)).reshape(-1)  # noqa
        d2 = lambda t_, above=True: np.asarray(crv.derivative(t_, 2, above=above)).reshape(-1)  # noqa
        dsc = sc / max(1e-9, min(b_ - a for a, b_ in zip(tt[:-1], tt[1:]))) ** 2
        if name == 'TANGENT':
            if not close(d1(tt[0]), tang[0], sc, 1e-7) or not close(d1(tt[-1], above=False), tang[1], sc, 1e-7):
                fail('cubic_curve', args, 'end tangents differ from the prescribed ones')
        elif name == 'TANGENTNATURAL':
            if not close(d1(tt[0]), tang[0], sc, 1e-7) or not close(d2(tt[-1], above=False), 0 * tang[0], dsc, 1e-7):
                fail('cubic_curve', args, 'start tangent / vanishing end second derivative not met')
        elif name == 'NATURAL':
            if not close(d2(tt[0]), np.zeros(dim), dsc, 1e-7) or not close(d2(tt[-1], above=False), np.zeros(dim), dsc, 1e-7):
                fail('cubic_curve', args, 'second derivatives at the ends do not vanish')
        elif name == 'HERMITE':
            gd = np.array([d1(t_, above=(i < len(tt) - 1)) for i, t_ in enumerate(tt)])
            if not close(gd, tang, sc, 1e-7):
                fail('cubic_curve', args, 'derivatives at the interpolation points differ from the prescribed ones')
        elif name == 'PERIODIC':
            for dd in (1, 2):
                a = np.asarray(crv.derivative(tt[0], dd)).reshape(-1)
                b_ = np.asarray(crv.derivative(tt[-1] - 1e-9 * (tt[-1] - tt[0]), dd)).reshape(-1)
                if not close(a, b_, dsc, 1e-5):
                    fail('cubic_curve', args, 'derivative %d does not match across the seam' % dd)
                    break
        elif name == 'FREE':
            kn = list(crv.knots(0))
            if len(kn) != len(tt) - 2:
                fail('cubic_curve', args, 'FREE: expected the second and second-to-last parameter to be removed from the knots, knots = %s' % kn)
        if name != 'PERIODIC' and tpass is not None and not far_data:
            l1.append(('cubic', dict(boundary=name, bt=it % 6, t=tt, x=x, tang=tang, got=np.asarray(crv.controlpoints), knots=list(crv.knots(0, True)))))

    # closed C2 cubic through closed data (first point repeated at the end, parameters given): Model/InterpMore.v cubic_periodic
    for it in range(max(4, reps // 5)):
        npt = rng.randint(5, 8)
        dimp = rng.choice([2, 3])
        xs_ = nrng.randint(-8, 9, size=(npt, dimp)) / 2.0
        xs_ = np.vstack([xs_, xs_[:1]])
        tt_, acc_ = [], 0.0
        for _ in range(npt + 1):
            tt_.append(acc_)
            acc_ += rng.choice([0.5, 1.0, 1.5, 2.0])
        try:
            crv = cf.cubic_curve(xs_.copy(), cf.Boundary.PERIODIC, t=list(tt_))
            count('cubic_curve', boundary='PERIODIC closed data')
            l1.append(('cubicper', dict(t=tt_, x=xs_, got=O.snapshot(crv))))
        except Exception as e:  # noqa
            fail('cubic_curve', dict(boundary='PERIODIC', t=tt_, x=xs_.tolist()), 'closed data: raised %s' % type(e).__name__)

    # ---------------------------------------------------------------- surfaces / volumes: interpolate, lsq
    for it in range(reps):
        pd = rng.choice([2, 2, 3])
        bs = [mk_basis(kind=rng.choice(['open', 'open', 'nonopen']), pmax=3 if pd == 3 else 4, nint_max=2) for _ in range(pd)]
        same_basis = it % 4 == 3
        if same_basis:
            # the SAME basis in several directions (one object passed twice, or equal copies) with different parameter lists
            # per direction: each direction must still be collocated at its own parameters
            bs = [bs[0]] * pd if rng.random() < 0.7 else [bs[0], bs[0]] + bs[2:]
        ibs = [impl_basis(b) for b in bs]
        if same_basis and rng.random() < 0.5:
            ibs = [ibs[0]] * len([b for b in bs if b is bs[0]]) + ibs[len([b for b in bs if b is bs[0]]):]
        shape = [ib.num_functions() for ib in ibs]
        dim = rng.choice([1, 2, 3])
        user = rng.random() < 0.5 or same_basis
        us, upass = [], []
        for b, ib in zip(bs, ibs):
            tp, t = params_for(b, ib, user)
            us.append(t)
            upass.append(tp)
        if any(np.linalg.cond(np.asarray(ib.evaluate(t))) > 1e6 for ib, t in zip(ibs, us)):
            continue
        upass_arg = None if any(u is None for u in upass) else upass
        x = nrng.randint(-8, 9, size=shape + [dim]) / 2.0
        flat = rng.random() < 0.5
        fac = sf if pd == 2 else vf
        args = dict(bases=[bjson(b) for b in bs], u=upass_arg, x=x.tolist(), flat=flat)
        nontriv.add(C.case_hash(args))
        op = '%s interpolate' % ('surface' if pd == 2 else 'volume')
        try:
            obj = fac.interpolate(x.reshape(-1, dim) if flat else x.copy(), ibs, upass_arg)
            count(op, dim=dim)
            got = np.asarray(obj.evaluate(*us)).reshape(shape + [dim])
            if not close(got, x, np.abs(x).max(), 1e-7):
                fail(op, args, 'result(u_i, v_j, ..) differs from x_ij.. by %g' % np.abs(got - x).max())
            # projection
            cls = Surface if pd == 2 else Volume
            c0 = nrng.randint(-8, 9, size=shape + [dim]) / 2.0
            src = cls(*ibs, c0.transpose(*range(pd - 1, -1, -1), pd).reshape(-1, dim))
            xs = np.asarray(src.evaluate(*us)).reshape(shape + [dim])
            back = fac.interpolate(xs, ibs, upass_arg)
            count(op + ' projection')
            if not close(np.asarray(back.controlpoints), np.asarray(src.controlpoints), np.abs(c0).max(), 1e-6):
                fail(op + ' projection', args, 'interpolating samples of a spline of the space does not return it')
            # least squares on a finer grid
            ul = [sorted(set(list(t) + [ib.start() + (ib.end() - ib.start()) * rng.randint(0, 32) / 32.0 for _ in range(rng.randint(0, 3))])) for t, ib in zip(us, ibs)]
            xl = np.asarray(src.evaluate(*ul)).reshape([len(t) for t in ul] + [dim])
            fit = fac.least_square_fit(xl.reshape(-1, dim) if flat else xl, ibs, ul)
            count(op.replace('interpolate', 'least_square_fit'))
            if not close(np.asarray(fit.controlpoints), np.asarray(src.controlpoints), np.abs(c0).max(), 1e-6):
                fail(op.replace('interpolate', 'least_square_fit'), dict(args, u=ul), 'fitting samples of a spline of the space does not return it')
            if pd == 2:
                l1.append(('interp2', dict(bases=bs, u=us, x=x, got=np.asarray(obj.controlpoints))))
                l1.append(('lsq2', dict(bases=bs, u=ul, x=xl, got=np.asarray(fit.controlpoints))))
            else:
                l1.append(('interp3', dict(bases=bs, u=us, x=x, got=np.asarray(obj.controlpoints))))
                l1.append(('lsq3', dict(bases=bs, u=ul, x=xl, got=np.asarray(fit.controlpoints))))
        except Exception as e:  # noqa
            fail(op, args, 'raised %s' % type(e).__name__)

    # ---------------------------------------------------------------- loft
    for it in range(reps):
        nsec = rng.choice([2, 3, 4, 5, 6])
        pd = rng.choice([1, 1, 2])
        compatible = rng.random() < 0.5
        secs = []
        def section_spec():
            # sections are continuous: no interior knot of full multiplicity (Greville collocation would be singular)
            while True:
                sp = O.gen_obj(rng, pardim=pd, kinds=['open'], nint_max=2, pmax=3, dim=3, rational=False)
                if all(max([sp_b['knots'].count(k) for k in sp_b['knots'][sp_b['order']:-sp_b['order']]] or [0]) < sp_b['order'] for sp_b in sp['bases']):
                    return sp
        base = section_spec()
        for i in range(nsec):
            if compatible:
                s = dict(base)
                s['cps'] = [[Fr(rng.randint(-8, 8), 2) for _ in range(3)] for _ in base['cps']]
            else:
                s = section_spec()
            o = O.make_impl(s)
            o.translate([0, 0, 3.0 * i + rng.random()])     # distinct centres, increasing
            secs.append(o)
        args = dict(sections=[O.spec_json(O.snapshot(s)) for s in secs])
        nontriv.add(C.case_hash(args))
        op = 'loft %s' % ('curves' if pd == 1 else 'surfaces')
        try:
            res = (sf if pd == 1 else vf).loft([s.clone() for s in secs])
        except Exception as e:  # noqa
            fail(op, args, 'raised %s' % type(e).__name__)
            continue
        count(op)
        # the lofting parameters: 2 sections -> [0,1] ends; 3 -> Greville points of a quadratic basis; >=4 -> cumulative centre distances
        if nsec == 2:
            vpar = [res.start(pd), res.end(pd)]
        elif nsec == 3:
            vpar = list(BSplineBasis(3).greville())
        else:
            cen = [np.asarray(s.clone().set_dimension(3).center()) for s in secs]
            vpar = [0.0]
            for a, b_ in zip(cen[:-1], cen[1:]):
                vpar.append(vpar[-1] + float(np.linalg.norm(b_ - a)))
        if compatible and nsec >= 3:
            # the implementation first makes the sections identical (which also moves every direction to [0,1]); the model takes identical sections
            l1.append(('loft', dict(pd=pd, secs=[O.snapshot(s_.clone().reparam()) for s_ in secs], dist=[float(v_) for v_ in vpar], got=O.snapshot(res))))
        bad = False
        for s, v in zip(secs, vpar):
            for _ in range(3):
                fr_ = [rng.randint(0, 16) / 16.0 for _ in range(pd)]
                ps = [s.start(d) + (s.end(d) - s.start(d)) * f for d, f in enumerate(fr_)]
                pr = [res.start(d) + (res.end(d) - res.start(d)) * f for d, f in enumerate(fr_)]
                a = np.asarray(s.evaluate(*ps)).reshape(-1)
                b_ = np.asarray(res.evaluate(*(pr + [v]))).reshape(-1)
                if not close(b_, a, 30.0, 1e-6):
                    fail(op, args, 'section %d is not interpolated (off by %g at lofting parameter %r)' % (secs.index(s), np.abs(a - b_).max(), v))
                    bad = True
                    break
            if bad:
                break

    # ---------------------------------------------------------------- bezier, rebuild, manipulate, fit
    for it in range(reps):
        quad = rng.random() < 0.5
        p = 3 if quad else 4
        nint = rng.randint(1, 4)
        dim = rng.choice([2, 3])
        pts = [[rng.randint(-8, 8) / 2.0 for _ in range(dim)] for _ in range(nint * (p - 1) + 1)]
        rel = rng.random() < 0.4
        args = dict(pts=pts, quadratic=quad, relative=rel)
        try:
            keep = [list(q) for q in pts]
            crv = cf.bezier(pts, quadratic=quad, relative=rel)
            count('bezier')
            ab = np.cumsum(np.asarray(keep), axis=0) if rel else np.asarray(keep)
            got = np.asarray(crv.evaluate([float(i) for i in range(nint + 1)])).reshape(nint + 1, dim)
            if not close(got, ab[::p - 1], np.abs(ab).max()):
                fail('bezier', args, 'the curve does not pass through every %d-th point at integer parameters' % (p - 1))
            if pts != keep:
                fail('bezier', args, 'the input list was modified')
        except Exception as e:  # noqa
            fail('bezier', args, 'raised %s' % type(e).__name__)
        # rebuild
        s = O.gen_obj(rng, pardim=1, kinds=['open', 'nonopen'], nint_max=3, pmax=4, dim=dim, rational=rng.random() < 0.3)
        o = O.make_impl(s)
        p2, n2 = rng.randint(2, 4), rng.randint(4, 8)
        args = dict(obj=O.spec_json(s), p=p2, n=n2)
        try:
            rb = o.rebuild(p2, n2)
            count('rebuild')
            tg = list(rb.bases[0].greville())
            if abs(rb.start(0) - o.start(0)) > 1e-12 or abs(rb.end(0) - o.end(0)) > 1e-12 or rb.order(0) != p2 or len(rb) != n2:
                fail('rebuild', args, 'wrong domain/order/size')
            elif not close(np.asarray(rb.evaluate(tg)), np.asarray(o.evaluate(tg)), 30.0, 1e-7):
                fail('rebuild', args, 'the rebuilt curve does not interpolate the original at its Greville points')
        except Exception as e:  # noqa
            fail('rebuild', args, 'raised %s' % type(e).__name__)
        # manipulate
        while True:
            s = O.gen_obj(rng, pardim=1, kinds=['open'], nint_max=3, pmax=4, dim=dim, rational=False)
            sb = s['bases'][0]
            if max([sb['knots'].count(k) for k in sb['knots'][sb['order']:-sb['order']]] or [0]) < sb['order']:
                break
        o = O.make_impl(s)
        tg = np.asarray(o.bases[0].greville())
        which = rng.choice(['x', 'xt', 'xv', 'xa', 'xv', 'xa'])
        normalized = which in ('xv', 'xa') and rng.random() < 0.5
        args = dict(obj=O.spec_json(s), f=which, normalized=normalized)
        try:
            def avg(d):
                out = []
                for t_ in tg:
                    a = np.asarray(o.derivative(t_, d)).reshape(-1)
                    if o.bases[0].continuity(t_) < d and o.start(0) < t_ < o.end(0):
                        a = (a + np.asarray(o.derivative(t_, d, above=False)).reshape(-1)) / 2.0
                    if normalized:
                        # "normalized to have length 1": the (averaged) vector handed to f is a unit vector
                        a = a / np.linalg.norm(a)
                    out.append(a)
                return np.array(out)
            if normalized and not np.all(np.isfinite(avg(1 if which == 'xv' else 2))):
                continue      # a vanishing velocity / acceleration at a Greville point has no direction
            X = np.asarray(o.evaluate(tg)).reshape(len(tg), dim)
            if which == 'x':
                f1 = lambda x: 2 * x + 1  # noqa
                want = 2 * X + 1
            elif which == 'xt':
                f1 = lambda x, t: x * 0.5 + t  # noqa
                want = X * 0.5 + tg[:, None]
            elif which == 'xv':
                f1 = lambda x, v: x + 0.25 * v  # noqa
                want = X + 0.25 * avg(1)
            else:
                f1 = lambda x, a: x - 0.125 * a  # noqa
                want = X - 0.125 * avg(2)
            m1 = cf.manipulate(o.clone(), f1, normalized=normalized)
            count('manipulate')
            got = np.asarray(m1.evaluate(tg)).reshape(len(tg), dim)
            if not close(got, want, 50.0, 1e-7):
                fail('manipulate', args, 'the result does not interpolate f at the Greville points (off by %g)' % np.abs(got - want).max())
            if which in ('x', 'xv', 'xa'):
                if which == 'xt':
                    pass
                m2 = cf.manipulate(o.clone(), f1, normalized=normalized, vectorized=True)
                got2 = np.asarray(m2.evaluate(tg)).reshape(len(tg), dim)
                if not close(got2, want, 50.0, 1e-7):
                    fail('manipulate', dict(args, vectorized=True), 'the vectorized result does not interpolate f at the Greville points (off by %g)' % np.abs(got2 - want).max())
        except Exception as e:  # noqa
            fail('manipulate', args, 'raised %s' % type(e).__name__)
    # fit: meets its stated tolerance (checked with an independent, finer quadrature)
    for it in range(max(3, reps // 6)):
        kind = it % 3
        rtol = rng.choice([1e-2, 1e-3, 1e-4])
        if kind == 0:
            a, b_ = 0.0, rng.choice([1.0, 2.0, math.pi])
            f = lambda t: np.array([np.cos(t), np.sin(t)]).T  # noqa
            desc = 'unit circle arc'
        elif kind == 1:
            a, b_ = 0.0, 2.0
            f = lambda t: np.array([t, np.exp(t)]).T  # noqa
            desc = 'exp graph'
        else:
            a, b_ = -1.0, 1.0
            f = lambda t: np.array([t, t ** 3 - t, 2 * t ** 2]).T  # noqa
            desc = 'cubic polynomial'
        args = dict(target=desc, t0=a, t1=b_, rtol=rtol)
        try:
            crv = cf.fit(f, a, b_, rtol=rtol)
            count('fit')
            kn = crv.knots(0)
            gx, gw = np.polynomial.legendre.leggauss(8)
            e2 = 0.0
            for k0, k1 in zip(kn[:-1], kn[1:]):
                tg = (gx + 1) / 2 * (k1 - k0) + k0
                e2 += float(np.dot(np.sum((np.asarray(crv.evaluate(tg)) - f(tg)) ** 2, axis=1), gw / 2 * (k1 - k0)))
            if math.sqrt(e2) / crv.length() > rtol * 1.05:
                fail('fit', args, 'relative L2 error %g exceeds rtol' % (math.sqrt(e2) / crv.length()))
            if kind == 2 and len(kn) != 2:
                fail('fit', args, 'a cubic polynomial was not reproduced on a single knot span')
        except Exception as e:  # noqa
            fail('fit', args, 'raised %s' % type(e).__name__)
    # fit_points: the target is the polygon through the points (chord-length or given parameters); every tolerance the
    # caller can state is checked, tighter and looser than the defaults, positionally and by keyword, with an
    # independent quadrature whose break points are the union of the curve's knots and the polygon's corners
    def l2_and_max(crv, lin):
        brk = sorted(set([float(x) for x in crv.knots(0)]) | set([float(x) for x in lin.knots(0)]))
        gx, gw = np.polynomial.legendre.leggauss(10)
        e2, mx = 0.0, 0.0
        for k0, k1 in zip(brk[:-1], brk[1:]):
            if k1 - k0 < 1e-14:
                continue
            tg = (gx + 1) / 2 * (k1 - k0) + k0
            d2 = np.sum((np.asarray(crv.evaluate(tg)) - np.asarray(lin.evaluate(tg))) ** 2, axis=1)
            e2 += float(np.dot(d2, gw / 2 * (k1 - k0)))
            ts = np.linspace(k0, k1, 9)
            mx = max(mx, float(np.sqrt(np.max(np.sum((np.asarray(crv.evaluate(ts)) - np.asarray(lin.evaluate(ts))) ** 2, axis=1)))))
        return math.sqrt(e2), mx

    for it in range(max(15, reps // 3)):
        npt = rng.randint(3, 7)
        dimp = rng.choice([2, 2, 3])
        pts, cur = [], [0.0] * dimp
        for _ in range(npt):
            cur = [c + rng.choice([-2, -1, 1, 2, 3]) * (1.0 if j else abs(rng.choice([1, 2]))) for j, c in enumerate(cur)]
            pts.append(list(cur))
        given_t = rng.random() < 0.5
        tpar = None
        if given_t:
            tpar, acc = [], 0.0
            for _ in range(npt):
                tpar.append(acc)
                acc += rng.choice([0.5, 1.0, 1.5, 2.0])
        mode = 3 if it % 5 == 4 else 0
        rtol = [1e-5, 3e-6, 1e-2, 1e-3][it % 4] if mode != 3 else 1e-9
        atol = 0.0 if mode != 3 else rng.choice([0.05, 0.01])
        spelling = 'kw' if mode == 3 else ['kw', 'pos', 'kw-noatol'][it % 3]
        args = dict(pts=pts, t=tpar, rtol=rtol, atol=atol, spelling=spelling)
        try:
            tt = tpar if given_t else []
            if spelling == 'pos':
                fp = cf.fit_points(pts, tt, rtol, atol)
            elif spelling == 'kw-noatol':
                fp = cf.fit_points(pts, t=tt, rtol=rtol) if given_t else cf.fit_points(pts, rtol=rtol)
            else:
                fp = cf.fit_points(pts, t=tt, rtol=rtol, atol=atol)
            count('fit_points', spelling=spelling)
            lin = cf.polygon(pts, t=tpar) if given_t else cf.polygon(pts)
            el2, emax = l2_and_max(fp, lin)
            rel = el2 / fp.length()
            if abs(fp.start(0) - lin.start(0)) > 1e-12 or abs(fp.end(0) - lin.end(0)) > 1e-12:
                fail('fit_points', args, 'the fitted curve is not parametrised over the polygon domain')
            elif mode != 3 and rel > rtol * 1.25:
                fail('fit_points', args, 'relative L2 error %g exceeds the requested rtol %g' % (rel, rtol))
            # the library measures the maximal distance at its quadrature points, which never sit on the corners of the
            # polygon where the true distance peaks: a factor 2 covers that sampling effect (observed: up to 1.3)
            elif mode == 3 and rel > rtol * 1.25 and emax > atol * 2.0:
                fail('fit_points', args, 'neither stated tolerance is met: relative L2 error %g (rtol %g), max error %g (atol %g)' % (rel, rtol, emax, atol))
        except Exception as e:  # noqa
            fail('fit_points', args, 'raised %s' % type(e).__name__)

    # ---------------------------------------------------------------- L1: control points vs the extracted model
    corr_bad = C.Corr()
    lines, meta = [], []

    def btok(b):
        return '%d %d %s' % (b['order'], b['periodic'] + 1, C.qlist(b['knots']))

    def mtok(M):
        M = np.asarray(M, dtype=float)
        return '%d %s' % (len(M), ' '.join(C.qlist([C.fr(float(v)) for v in r]) for r in M))
    for kind, d in l1[: (150 if tier == 'quick' else 100000)]:
        if kind == 'interp':
            lines.append('curve_interpolate %s %s %s %s' % (C.qs(tol), btok(d['basis']), C.qlist([C.fr(float(v)) for v in d['t']]), mtok(d['x'])))
        elif kind == 'lsq':
            lines.append('curve_lsq %s %s %s %s' % (C.qs(tol), btok(d['basis']), C.qlist([C.fr(float(v)) for v in d['t']]), mtok(d['x'])))
        elif kind == 'cubic':
            tg = d['tang'] if d['tang'] is not None else np.zeros((0, d['x'].shape[1]))
            lines.append('cubic_curve %s %d %s %s %s' % (C.qs(tol), d['bt'], C.qlist([C.fr(float(v)) for v in d['t']]), mtok(d['x']), mtok(tg)))
        elif kind == 'loft':
            lines.append('loft %s %d %d %s %s' % (C.qs(tol), int(d['pd'] == 2), len(d['secs']), ' '.join(O.obj_tokens(s_) for s_ in d['secs']), C.qlist([C.fr(v_) for v_ in d['dist']])))
        elif kind == 'cubicper':
            lines.append('cubic_periodic %s %s %s' % (C.qs(tol), C.qlist([C.fr(float(v)) for v in d['t']]), mtok(d['x'])))
        elif kind in ('interp3', 'lsq3'):
            lines.append('%s %s %s %s %s %s %s %s %s' % ('volume_interpolate' if kind == 'interp3' else 'volume_lsq', C.qs(tol), btok(d['bases'][0]), btok(d['bases'][1]), btok(d['bases'][2]),
                                                        C.qlist([C.fr(float(v)) for v in d['u'][0]]), C.qlist([C.fr(float(v)) for v in d['u'][1]]), C.qlist([C.fr(float(v)) for v in d['u'][2]]),
                                                        mtok(np.asarray(d['x']).reshape(-1, np.asarray(d['x']).shape[-1]))))
        elif kind == 'lsq2':
            lines.append('surface_lsq %s %s %s %s %s %s' % (C.qs(tol), btok(d['bases'][0]), btok(d['bases'][1]),
                                                           C.qlist([C.fr(float(v)) for v in d['u'][0]]), C.qlist([C.fr(float(v)) for v in d['u'][1]]),
                                                           mtok(np.asarray(d['x']).reshape(-1, np.asarray(d['x']).shape[-1]))))
        elif kind == 'interp2':
            lines.append('surface_interpolate %s %s %s %s %s %s' % (C.qs(tol), btok(d['bases'][0]), btok(d['bases'][1]),
                                                                   C.qlist([C.fr(float(v)) for v in d['u'][0]]), C.qlist([C.fr(float(v)) for v in d['u'][1]]),
                                                                   mtok(d['x'].reshape(-1, d['x'].shape[-1]))))
        meta.append((kind, d))
    outs = C.run_model(lines) if lines else []
    nl1 = 0
    for tk, (kind, d) in zip(outs, meta):
        nl1 += 1
        st = tk.word()
        if st != 'Ok':
            why = tk.word()
            if corr_bad.open() and why != 'Singular':
                corr_bad += {'what': 'L1: model raises %s for %s, implementation succeeds' % (why, kind), 'op': kind}
            continue
        if kind in ('loft', 'cubicper'):
            mo = O.read_obj(tk)
            dfr = O.snaps_differ(d['got'], mo, rel=1e-7)
            if dfr:
                corr_bad += {'what': 'L1: %s differs from the model: %s' % ('loft' if kind == 'loft' else 'closed cubic_curve(PERIODIC)', dfr), 'op': kind}
            continue
        if kind == 'cubic':
            mk = [float(x) for x in tk.qlist()]
            if (len(mk) != len(d['knots']) or any(abs(a - b) > 1e-12 * max(1, abs(b)) for a, b in zip(mk, d['knots']))) and corr_bad.open():
                corr_bad += {'what': 'L1: cubic_curve(%s) knot vector differs from the model' % d['boundary'], 'op': 'cubic', 'model': mk, 'implementation': d['knots']}
        n = tk.int()
        got = np.array([[float(x) for x in tk.qlist()] for _ in range(n)])
        want = d['got']
        if kind in ('interp3', 'lsq3', 'lsq2'):
            want = np.asarray(d['got']).reshape(-1, np.asarray(d['got']).shape[-1])
        if kind == 'interp2':
            want = want.transpose(1, 0, 2).reshape(-1, want.shape[-1]) if want.ndim == 3 else want
            got = got.reshape(want.shape) if got.size == want.size else got
            # model net is C-order (u slow); implementation array is (u, v, comp)
            want = np.asarray(d['got']).reshape(-1, np.asarray(d['got']).shape[-1])
        want = want.reshape(got.shape) if want.size == got.size else want
        if not close(got, want, np.abs(want).max(initial=0), 1e-6) and corr_bad.open():
            corr_bad += {'what': 'L1: control points of %s differ from the model (max %g)' % (kind, np.abs(got - want).max() if got.shape == want.shape else -1), 'op': kind,
                        'args': {k: (v.tolist() if hasattr(v, 'tolist') else (bjson(v) if isinstance(v, dict) and 'knots' in v else str(v))) for k, v in d.items() if k not in ('bases',)}}
    dist['op']['L1 comparisons'] = nl1
    # ---- kernel-evaluated tie: Curve.rebuild vs Model/Rebuild.v (curve_rebuild on Q, vm_compute)
    import vmtie as T
    rcases = []
    for _ in range(10 if tier == 'quick' else 80):
        p0 = rng.choice([2, 3, 4])
        inner = sorted(rng.sample(range(1, 8), rng.randint(0, 2)))
        a_, b_ = rng.choice([(0.0, 1.0), (1.0, 3.0), (-2.0, 2.0), (5.0, 5.5)])
        kn_ = [a_] * p0 + [a_ + (b_ - a_) * x_ / 8.0 for x_ in inner] + [b_] * p0
        n0_ = len(kn_) - p0
        dim_ = rng.choice([1, 2, 3])
        rat_ = rng.random() < 0.35
        cps_ = [[rng.randint(-16, 16) / 4.0 for _c in range(dim_)] + ([rng.choice([1.0, 0.5, 2.0, 1.25])] if rat_ else []) for _i in range(n0_)]
        crv = Curve(BSplineBasis(p0, kn_), cps_, rat_)
        p1 = rng.choice([2, 3, 4])
        n1_ = p1 + rng.randint(0, 3)
        try:
            got = crv.clone().rebuild(p1, n1_)
        except Exception as e:  # noqa
            dist['errors']['vmtie rebuild ' + type(e).__name__] = dist['errors'].get('vmtie rebuild ' + type(e).__name__, 0) + 1
            continue
        dist['op']['vmtie rebuild'] = dist['op'].get('vmtie rebuild', 0) + 1
        term = T.obj_close('curve_rebuild %s %s %d %d' % (T.q(state.knot_tolerance), T.obj(crv), p1, n1_), got, 1e-7)
        rcases.append(('rebuild(%d, %d) of an order-%d curve with %d control points on [%g, %g], dimension %d, rational %s' % (p1, n1_, p0, n0_, a_, b_, dim_, rat_),
                       term, dict(order=p0, knots=kn_, controlpoints=cps_, rational=rat_, p=p1, n=n1_)))
    tie_r = T.report(V, corr_bad, 'rebuild', 'Model/Rebuild.v curve_rebuild', *T.run_tie('rebuild', ['Model.Rebuild'], rcases))
    dist['op']['vmtie rebuild evaluated'] = tie_r['cases']
    rc = V.finish(l0, corr_bad)
    C.write_evidence(PID, tier, seed, l0, {
        'evaluations': evals, 'distinct_nontrivial': len(nontriv),
        'rule': 'curve interpolate (Greville or user parameters, open/non-open/periodic bases, 1-3 dims) incl. projection and least squares; cubic_curve for all six boundary types with '
                'chord-length or user parameters and random tangents (end conditions via derivative()); surface/volume interpolate and least squares (flat or tensor input); loft of 2-6 '
                'compatible or incompatible curves/surfaces; bezier, rebuild, manipulate (x, t, v, a; vectorized or not), fit/fit_points against an independent quadrature; '
                'non-trivial = distinct inputs',
        'traces_validated_against_impl': evals,
        'input_distribution': {k: {str(a): b for a, b in v.items()} for k, v in dist.items()},
        'samples': samples or [{'ops': sorted(dist['op'])}],
    }, t0_, V.nviol, known=V.known)
    return rc


if __name__ == '__main__':
    sys.exit(C.guarded_main(PID, run))
