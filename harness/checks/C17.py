"""C17 — multipatch model identifies shared entities for any orientation and add order."""
import itertools
import os
import random
import sys
import time
from fractions import Fraction as Fr

sys.path.insert(0, os.path.dirname(os.path.dirname(os.path.abspath(__file__))))
import common as C
import objs as O
import complexes as X
import build_pyx

PID = 'C17'


def run(tier, seed, replay=None):
    t0_ = time.time()
    V = C.Verdict(PID, tier, seed)
    l0 = C.l0_check(PID, thorough=(tier == 'thorough'))
    build_pyx.load_splipy()
    import numpy as np
    from splipy import BSplineBasis, Curve, Surface, Volume, state
    from splipy.splinemodel import SplineModel, Orientation, OrientationError, TwinError
    from splipy.utils import sections
    rng = random.Random(seed)
    reps = 60 if tier == 'quick' else 300
    dist = {'op': {}, 'pardim': {}, 'kind': {}, 'patches': {}, 'rational': {}}
    evals = 0
    nontriv = set()
    samples = []
    l1 = []

    def count(op, **kw):
        nonlocal evals
        evals += 1
        dist['op'][op] = dist['op'].get(op, 0) + 1
        for k, v in kw.items():
            dist[k][str(v)] = dist[k].get(str(v), 0) + 1

    def fail(op, args, what):
        V.failure({'what': '%s: %s' % (op, what), 'op': op, 'args': args})

    def centre(o):
        return np.asarray(o.evaluate(*[(o.start(d) + o.end(d)) / 2 for d in range(o.pardim)]), dtype=float).reshape(-1) if o.pardim else \
            (np.asarray(o.controlpoints, dtype=float).reshape(-1)[:o.dimension])

    def mapcps(o, arr):
        """map_array acts on arrays with one axis per parametric direction: apply it component by component"""
        arr = np.asarray(arr)
        return np.stack([o.map_array(arr[..., c_]) for c_ in range(arr.shape[-1])], axis=-1)

    def describe(cx):
        return dict(pardim=cx['pardim'], dim=cx['dim'], kind=cx['kind'], cells=[list(c) for c in cx['cells']],
                    patches=[O.spec_json(O.snapshot(p)) for p in cx['patches']])

    cat_cases = []
    # ---------------------------------------------------------------- complexes: node counts, neighbours, boundary, lookup
    for it in range(reps):
        pd = rng.choice([1, 2, 2, 3, 3])
        order = rng.choice([2, 2, 3])
        asym_ = rng.random() < 0.4      # knot vectors that are not symmetric under reversal (conforming: the same along each lattice axis)
        rat = rng.choice([False, False, True, 'mixed', 'mixed'])     # 'mixed': rational and polynomial patches in one model
        ring = pd >= 2 and rng.random() < 0.2
        if ring:
            # complexes closing around an axis: a patch adjacent to itself, two patches sharing two interfaces, closed chains
            cx = X.build_ring(rng, pd, order=order, refine=rng.choice([0, 0, 1]), rational=rat, asym=asym_)
        else:
            cx = X.build(rng, pd, order=order, refine=rng.choice([0, 0, 1]), rational=rat, asym=asym_)
        args = describe(cx)
        nontriv.add(C.case_hash(args))
        try:
            model = SplineModel(pd, cx['dim'])
            # twin rejection stays ON for rings that close onto themselves or in three patches; two patches sharing all
            # their corners are twins by the library's own criterion and need raise_on_twins=False
            kw = dict(raise_on_twins=False) if (ring and cx['kind'] == 'ring2') else {}
            if rng.random() < 0.5:
                model.add(cx['patches'], **kw)
            else:
                for p in cx['patches']:
                    model.add(p, **kw)
        except Exception as e:  # noqa
            fail('add', args, 'adding a conforming complex raised %s' % type(e).__name__)
            continue
        count('complex', pardim=pd, kind=cx['kind'], patches=len(cx['patches']), rational=rat)
        if len(samples) < 2 and pd == 3 and len(cx['patches']) > 2:
            samples.append(dict(op='complex', kind=cx['kind'], cells=args['cells'], pardim=pd))
        got = {d: len(model.catalogue.nodes(d)) for d in range(pd + 1)}
        # abstract catalogue (Model/Catalogue.v) on the same patches in the same order: every patch by the vertex
        # identifiers of its 2^pardim corners (direction 0 fastest), vertices identified geometrically
        try:
            vid = {}

            def corner_ids(o_):
                cp_ = np.asarray(o_.controlpoints, dtype=float)[..., :o_.dimension]
                if o_.rational:
                    cp_ = cp_ / np.asarray(o_.controlpoints, dtype=float)[..., -1:]
                ids = []
                for bits in itertools.product([0, -1], repeat=o_.pardim):     # last direction fastest here ...
                    pass
                for j in range(2 ** o_.pardim):
                    idx = tuple(-1 if (j >> k_) & 1 else 0 for k_ in range(o_.pardim))
                    key_ = tuple(int(round(v_ * 1e6)) for v_ in cp_[idx])
                    ids.append(vid.setdefault(key_, len(vid)))
                return ids
            added = [n_.obj for n_ in model.catalogue.nodes(pd)] if False else list(cx['patches'])
            plist_ = [corner_ids(p_) for p_ in added]
            impl_faces = []
            for n_ in model.catalogue.nodes(pd - 1):
                impl_faces.append((sorted(set(corner_ids(n_.obj))), sorted(sorted(set(corner_ids(h_.obj))) for h_ in n_.higher_nodes.get(pd, []))))
            impl_bnd = sorted(sorted(set(corner_ids(n_.obj))) for n_ in model.boundary())
            # the abstract model identifies an entity with its set of corner vertices: exact for complexes in which distinct
            # entities have distinct corner sets (lattice complexes); ring complexes (a patch meeting itself, two patches
            # sharing all four corners) are outside it and stay with the L2 counts above
            if not ring:
                cat_cases.append((args, pd, plist_, [got[d_] for d_ in range(pd + 1)], sorted(impl_faces), impl_bnd, ring))
        except Exception as e:  # noqa
            fail('catalogue', args, 'collecting the node graph raised %s' % type(e).__name__)
        if got != cx['expected']:
            fail('node counts', args, 'node counts %s differ from the cell complex %s' % (got, cx['expected']))
            continue
        # interfaces: higher neighbours are exactly the adjacent patches; boundary() = unshared faces
        shared, bnd = X.interior_faces(cx['cells'], pd, cx.get('period'))
        phi = cx['phi']
        if phi is None:
            # ring complexes: the interfaces are counted (a self-interface is one node below its patch)
            b = list(model.boundary())
            if len(b) != len(bnd):
                fail('boundary', args, 'boundary() lists %d faces, the complex has %d unshared ones' % (len(b), len(bnd)))
            nsh = sum(1 for n in model.catalogue.nodes(pd - 1) if n not in b)
            if nsh != len(shared):
                fail('neighbours', args, '%d interface nodes, the complex has %d interfaces' % (nsh, len(shared)))
            continue

        def key_centre(key):
            return phi([sum(k) / len(k) for k in key])
        cell_of = {}
        for node in model.catalogue.nodes(pd):
            cc = centre(node.obj)
            best = min(cx['cells'], key=lambda c: np.linalg.norm(phi([x + 0.5 for x in c]) - cc))
            cell_of[id(node)] = best
        face_nodes = model.catalogue.nodes(pd - 1)
        bkeys = set()
        ok = True
        for node in face_nodes:
            cc = centre(node.obj)
            key = min(list(shared) + list(bnd), key=lambda k: np.linalg.norm(key_centre(k) - cc))
            hn = node.higher_nodes.get(pd, [])
            adj = sorted(cell_of[id(h)] for h in hn)
            want = sorted(shared.get(key, bnd.get(key)))
            if adj != want:
                fail('neighbours', args, 'interface %s has higher neighbours %s, expected %s' % (key, adj, want))
                ok = False
                break
        if ok:
            b = list(model.boundary())
            if len(b) != len(bnd) or any(n.nhigher != 1 for n in b):
                fail('boundary', args, 'boundary() lists %d faces, the complex has %d unshared ones' % (len(b), len(bnd)))
        # re-oriented copies of stored entities are found and are the same node
        for _ in range(4):
            p = rng.choice(cx['patches'])
            d = rng.randint(0, pd)
            secs = list(sections(pd, d))
            ent = p.section(*rng.choice(secs), unwrap_points=False) if d < pd else p
            perm, flip = rng.choice(X.orientations(d)) if d > 0 else ((), ())
            cp = X.reorient(ent, perm, flip) if d > 0 else ent
            try:
                n1 = model[ent].node
                n2 = model[cp].node
                count('lookup')
                if n1 is not n2:
                    fail('lookup', dict(args, entity_dim=d, perm=list(perm), flip=list(flip)), 'a re-oriented copy of a stored entity is a different node')
            except Exception as e:  # noqa
                fail('lookup', dict(args, entity_dim=d, perm=list(perm), flip=list(flip)), 'looking up a (re-oriented) stored entity raised %s' % type(e).__name__)
        # adding everything again (other orientations) creates nothing new
        try:
            for p in cx['patches']:
                perm, flip = rng.choice(X.orientations(pd))
                model.add(X.reorient(p, perm, flip))
            got2 = {d: len(model.catalogue.nodes(d)) for d in range(pd + 1)}
            count('re-add')
            if got2 != cx['expected']:
                fail('re-add', args, 'adding re-oriented copies of stored patches changed the node counts to %s' % got2)
        except Exception as e:  # noqa
            fail('re-add', args, 'raised %s' % type(e).__name__)
        # tolerance-level perturbation of one patch still conforms
        try:
            atol = state.controlpoint_absolute_tolerance
            m2 = SplineModel(pd, cx['dim'])
            ps = [p.clone() for p in cx['patches']]
            q = ps[rng.randrange(len(ps))]
            q.controlpoints[..., :cx['dim']] += 0.2 * atol * np.sign(np.random.RandomState(it).rand(*q.controlpoints[..., :cx['dim']].shape) - 0.5)
            m2.add(ps)
            got3 = {d: len(m2.catalogue.nodes(d)) for d in range(pd + 1)}
            count('perturbed')
            if got3 != cx['expected']:
                fail('perturbed', args, 'a perturbation of 0.2*atol of one patch changed the node counts to %s' % got3)
        except Exception as e:  # noqa
            fail('perturbed', args, 'raised %s' % type(e).__name__)

    # ---------------------------------------------------------------- Orientation: compute / map_array / sections / composition
    for it in range(reps * 2):
        pd = rng.choice([1, 2, 2, 3, 3])
        spec = O.gen_obj(rng, pardim=pd, kinds=['open'], nint_max=2, pmax=3, rational=rng.random() < 0.3)
        a = O.make_impl(spec)
        ors = X.orientations(pd)
        (p1, f1), (p2, f2) = rng.choice(ors), rng.choice(ors)
        b = X.reorient(a, p1, f1)
        c = X.reorient(b, p2, f2)
        args = dict(obj=O.spec_json(spec), perm1=list(p1), flip1=list(f1), perm2=list(p2), flip2=list(f2))
        nontriv.add(C.case_hash(args))
        try:
            oab = Orientation.compute(a, b)
            obc = Orientation.compute(b, c)
            oac = Orientation.compute(a, c)
            count('orientation', pardim=pd)
            # maps one control net onto the other
            if not np.allclose(mapcps(oab, b.controlpoints), a.controlpoints, atol=1e-10):
                fail('orientation', args, 'map_array of the computed orientation does not map the control net of b onto that of a')
            # composition
            comp = oab * obc
            if not np.allclose(mapcps(comp, c.controlpoints), a.controlpoints, atol=1e-10):
                fail('orientation', args, 'the composed orientation does not map c onto a')
            if (tuple(comp.perm), tuple(comp.flip)) != (tuple(oac.perm), tuple(oac.flip)) and \
                    not np.allclose(mapcps(oac, c.controlpoints), mapcps(comp, c.controlpoints), atol=1e-10):
                fail('orientation', args, 'compute(a,b) * compute(b,c) differs from compute(a,c)')
            # associativity with a third random orientation
            o3 = Orientation(*rng.choice(ors))
            l_ = (oab * obc) * o3
            r_ = oab * (obc * o3)
            if (tuple(l_.perm), tuple(l_.flip)) != (tuple(r_.perm), tuple(r_.flip)):
                fail('orientation', args, 'composition is not associative')
            # sections and sub-orientations
            for d in range(pd):
                for sec in list(sections(pd, d))[:6]:
                    sb = b.section(*sec, unwrap_points=False)
                    sa = a.section(*oab.map_section(sec), unwrap_points=False)
                    try:
                        osub = Orientation.compute(sa, sb)
                    except OrientationError:
                        fail('orientation', dict(args, section=list(sec)), 'map_section does not map a section of b onto the matching section of a')
                        break
                    vs = oab.view_section(sec)
                    if d > 0 and not np.allclose(mapcps(vs, sb.controlpoints), sa.controlpoints, atol=1e-10):
                        fail('orientation', dict(args, section=list(sec)), 'view_section does not map the section of b onto the section of a')
                        break
            l1.append((spec, O.snapshot(b), (tuple(oab.perm), tuple(oab.flip))))
        except Exception as e:  # noqa
            fail('orientation', args, 'raised %s' % type(e).__name__)
        # non-matching objects are reported as such
        other = O.make_impl(O.gen_obj(rng, pardim=pd, kinds=['open'], nint_max=2, pmax=3, rational=spec['rational'], dim=spec['dim']))
        try:
            Orientation.compute(a, other)
            same = a.shape == other.shape and np.allclose(a.controlpoints, other.controlpoints)
            if not same:
                # a match is only legitimate if some orientation really maps the nets
                o_ = Orientation.compute(a, other)
                if not np.allclose(mapcps(o_, other.controlpoints), a.controlpoints, atol=1e-8):
                    fail('orientation', dict(args, other=O.spec_json(O.snapshot(other))), 'non-matching objects were reported as matching')
        except OrientationError:
            count('non-matching')
        except Exception as e:  # noqa
            fail('orientation', args, 'non-matching objects raised %s instead of OrientationError' % type(e).__name__)

    # same control net, different knots: two objects that differ only in where an interior knot sits are different objects,
    # whatever the size of the parametric domain (the knot tolerance applies to the knot vector normalised to [0,1]); the same
    # knots on another domain (any positive affine image) match
    for it in range(reps):
        pd = rng.choice([1, 2, 2, 3])
        spec = O.gen_obj(rng, pardim=pd, kinds=['open'], nint_max=2, pmax=3, rational=rng.random() < 0.3)
        dirs_ = [d_ for d_, b_ in enumerate(spec['bases']) if len(set(b_['knots'])) > 2]
        if not dirs_:
            continue
        a = O.make_impl(spec)
        scale_ = rng.choice([1.0, 2.0 ** -20, 2.0 ** -23, 2.0 ** 20, 3.0])
        for d_ in range(pd):
            a.reparam((a.start(d_) * scale_, a.end(d_) * scale_) if a.start(d_) * scale_ < a.end(d_) * scale_ else (0.0, scale_), direction=d_)
        d_ = rng.choice(dirs_)
        kn_ = a.knots(d_, with_multiplicities=True)
        uq_ = sorted(set(kn_))
        k_ = rng.choice(uq_[1:-1])
        lo_, hi_ = uq_[uq_.index(k_) - 1], uq_[uq_.index(k_) + 1]
        moved_ = k_ + rng.choice([0.3 * (hi_ - k_), -0.3 * (k_ - lo_)])
        bases_ = [bb_.clone() for bb_ in a.bases]
        bases_[d_] = BSplineBasis(a.order(d_), [moved_ if x_ == k_ else x_ for x_ in kn_])
        cls_ = {1: Curve, 2: Surface, 3: Volume}[pd]
        b = cls_(*bases_, a.controlpoints.copy(), a.rational, raw=True)
        same_ = a.clone()
        for e_ in range(pd):
            same_.reparam((7.0, 7.0 + rng.choice([1.0, 2.0 ** -18, 4096.0])), direction=e_)
        args_ = dict(obj=O.spec_json(O.snapshot(a)), direction=d_, knot=float(k_), moved_to=float(moved_), domain_scale=scale_)
        nontriv.add(C.case_hash(args_))
        count('same net, different knots')
        try:
            Orientation.compute(a, b)
            fail('orientation', args_, 'objects with the same control net but different knot vectors were reported as matching')
        except OrientationError:
            pass
        except Exception as e:  # noqa
            fail('orientation', args_, 'raised %s instead of OrientationError' % type(e).__name__)
        try:
            o_ = Orientation.compute(a, same_)
            if tuple(o_.perm) != tuple(range(pd)) or any(o_.flip):
                # (symmetric nets may match under several orientations: accept any that maps the net)
                if not np.allclose(mapcps(o_, same_.controlpoints), a.controlpoints, atol=1e-8):
                    fail('orientation', args_, 'the same object on another parametric domain is matched by an orientation that does not map the nets')
        except OrientationError:
            fail('orientation', args_, 'the same object on another parametric domain (positive affine image of the knots) was reported as non-matching')
        except Exception as e:  # noqa
            fail('orientation', args_, 'raised %s' % type(e).__name__)
    # ---------------------------------------------------------------- twins and handedness
    for it in range(max(4, reps // 4)):
        pd = rng.choice([1, 2, 2, 3])
        # the model may have a higher parametric dimension than the patches (surfaces or curves stored in a volume model)
        mp = rng.choice([pd, min(3, pd + 1), 3])
        mdim = max(mp, 2)
        cx = X.build(rng, pd, dim=max(pd, 2) if pd < 3 else 3, order=3, cells=[tuple([0] * pd)], kind='single')
        p = cx['patches'][0]
        p.set_dimension(mdim)
        twin = p.clone()
        mid = tuple(slice(1, -1) for _ in range(pd))
        twin.controlpoints[mid] += 0.05
        try:
            m = SplineModel(mp, mdim)
            m.add(p, **(dict(raise_on_twins=True) if it % 2 else {}))
            try:
                m.add(twin, **(dict(raise_on_twins=True) if it % 2 else {}))
                fail('twins', dict(describe(cx), model_pardim=mp), 'a twin patch (same boundary, different interior) was accepted although raise_on_twins is on (model pardim %d, patch pardim %d)' % (mp, pd))
            except (TwinError, OrientationError):
                count('twins')
            m2 = SplineModel(mp, mdim)
            m2.add(p, raise_on_twins=False)
            m2.add(twin, raise_on_twins=False)
            if len(m2.catalogue.nodes(pd)) != 2:
                fail('twins', describe(cx), 'with raise_on_twins off the twin patch is not a second node')
        except Exception as e:  # noqa
            fail('twins', describe(cx), 'raised %s' % type(e).__name__)
        # handedness
        pd = max(pd, 2)
        try:
            right = X.build(rng, pd, dim=pd, order=2, cells=[tuple([0] * pd)], kind='single', right_handed=True, phi=lambda q: np.asarray(q, dtype=float))['patches'][0]
            left = right.clone().reverse(0)
            m3 = SplineModel(pd, pd, force_right_hand=True)
            m3.add(right)
            count('handedness')
            try:
                m4 = SplineModel(pd, pd, force_right_hand=True)
                m4.add(left)
                fail('handedness', dict(pardim=pd), 'a left-handed patch was accepted by a model that forces right-handedness')
            except ValueError:
                pass
        except Exception as e:  # noqa
            fail('handedness', dict(pardim=pd), 'raised %s' % type(e).__name__)
    # handedness of every re-orientation (Proofs/HandedProofs.v: a patch that is right-handed with margin stays so under the
    # even re-orientations and fails the test under the odd ones) and the test itself against Model/Handed.v (L1)
    from splipy.utils import is_right_hand
    rh_cases = []
    for it in range(reps):
        pd = rng.choice([2, 3])
        try:
            base = X.build(rng, pd, dim=pd, order=rng.choice([2, 2, 3]), refine=rng.choice([0, 1]), cells=[tuple([0] * pd)], kind='single', right_handed=True)['patches'][0]
            perm, flip = rng.choice(X.orientations(pd))
            parity = (sum(flip) + sum(1 for i in range(pd) for j in range(i) if perm[j] > perm[i])) % 2
            cand = X.reorient(base.clone(), perm, flip)
            args_ = dict(pardim=pd, perm=list(perm), flip=[bool(f_) for f_ in flip], patch=O.spec_json(O.snapshot(cand)))
            if not is_right_hand(base):
                continue            # (a strongly distorted cell: nothing to say)
            count('handedness of %s re-orientations' % ('odd' if parity else 'even'))
            nontriv.add(C.case_hash(args_))
            accepted = True
            try:
                SplineModel(pd, pd, force_right_hand=True).add(cand)
            except ValueError:
                accepted = False
            if accepted != (parity == 0):
                fail('handedness', args_, 'an %s re-orientation of a right-handed patch was %s by a model that forces right-handedness'
                     % ('odd' if parity else 'even', 'accepted' if accepted else 'rejected'))
            htol = rng.choice([1e-3, 1e-3, 0.25, 0.5, 0.9])
            got = bool(is_right_hand(cand, tol=htol))
            rh_cases.append((args_, htol, got, 'right_hand %s %s %s' % (C.qs(state.knot_tolerance), C.qs(htol), O.obj_tokens(O.snapshot(cand)))))
        except Exception as e:  # noqa
            fail('handedness', dict(pardim=pd), 'raised %s' % type(e).__name__)
    # self-connected patches: a ring made of one surface (umin edge == umax edge), and doubly self-connected (torus-like net)
    try:
        n = 6
        ang = [2 * np.pi * i / n for i in range(n)] + [0.0]
        cps = [[r * np.cos(t), r * np.sin(t)] for r in (1.0, 2.0) for t in ang]
        ring = Surface(BSplineBasis(2, [0, 0] + list(range(1, n)) + [n, n]), BSplineBasis(2), cps)
        m = SplineModel(2, 2)
        m.add(ring)
        count('self-connected')
        got = {d: len(m.catalogue.nodes(d)) for d in range(3)}
        if got != {0: 2, 1: 3, 2: 1}:
            fail('self-connected', dict(shape='ring'), 'a ring-shaped single patch gives node counts %s, expected {0: 2, 1: 3, 2: 1}' % got)
        if len(list(m.boundary())) != 2:
            fail('self-connected', dict(shape='ring'), 'boundary() of a ring-shaped patch lists %d edges, expected 2' % len(list(m.boundary())))
        tor = []
        for j in range(n + 1):
            for i in range(n + 1):
                u, v = 2 * np.pi * (i % n) / n, 2 * np.pi * (j % n) / n
                tor.append([(3 + np.cos(v)) * np.cos(u), (3 + np.cos(v)) * np.sin(u), np.sin(v)])
        kn = [0, 0] + list(range(1, n)) + [n, n]
        torus = Surface(BSplineBasis(2, kn), BSplineBasis(2, kn), tor)
        m = SplineModel(2, 3)
        m.add(torus, raise_on_twins=False)   # its two loops are edges with equal end vertices: legitimate twins
        got = {d: len(m.catalogue.nodes(d)) for d in range(3)}
        count('doubly self-connected')
        if got != {0: 1, 1: 2, 2: 1}:
            fail('self-connected', dict(shape='torus'), 'a torus-shaped single patch gives node counts %s, expected {0: 1, 1: 2, 2: 1}' % got)
        if len(list(m.boundary())) != 0:
            fail('self-connected', dict(shape='torus'), 'boundary() of a torus-shaped patch is not empty')
    except Exception as e:  # noqa
        fail('self-connected', {}, 'raised %s' % type(e).__name__)

    # ---------------------------------------------------------------- L1: Orientation.compute vs the extracted model
    corr_bad = C.Corr()
    # ---- L1: is_right_hand vs Model/Handed.v (square-root-free form of the same test)
    if rh_cases:
        for (a_, htol_, got_, _), tk in zip(rh_cases, C.run_model([c_[3] for c_ in rh_cases])):
            count('L1 right_hand')
            if tk.word() != 'Ok':
                corr_bad += {'what': 'L1: is_right_hand: the model raises', 'op': 'handedness', 'args': a_}
                continue
            want_ = bool(tk.int())
            if want_ != got_:
                # the exact and the floating-point value may fall on different sides only when the value is within rounding of the threshold
                from splipy.utils import is_right_hand as irh_
                o_ = O.make_impl(O.spec_from_json(a_['patch']))
                if bool(irh_(o_, tol=htol_ * (1 + 1e-9) + 1e-12)) == bool(irh_(o_, tol=htol_ * (1 - 1e-9) - 1e-12)):
                    corr_bad += {'what': 'L1: is_right_hand(tol=%r) is %s, model %s' % (htol_, got_, want_), 'op': 'handedness', 'args': a_}
    # ---- L1: the node graph vs the abstract catalogue model
    clines = ['catalogue %d %d %s' % (pd_, len(pl_), ' '.join('%d %s' % (len(c_), ' '.join(map(str, c_))) for c_ in pl_)) for (_, pd_, pl_, _, _, _, _) in cat_cases]
    couts = C.run_model(clines) if clines else []
    for tk, (a_, pd_, pl_, counts_, faces_, bnd_, ring_) in zip(couts, cat_cases):
        mcounts = tk.ilist()
        mbnd = sorted(sorted(x_) for x_ in tk.list(tk.ilist))
        mfaces = sorted((sorted(k_), sorted(sorted(h_) for h_ in hs_)) for k_, hs_ in tk.list(lambda: (tk.ilist(), tk.list(tk.ilist))))
        dist['op']['catalogue vs model'] = dist['op'].get('catalogue vs model', 0) + 1
        if mcounts != counts_:
            corr_bad += {'what': 'L1: node counts %s, the catalogue model %s' % (counts_, mcounts), 'op': 'catalogue', 'args': a_}
        elif mbnd != bnd_:
            corr_bad += {'what': 'L1: boundary() is %s, the catalogue model %s (corner vertex sets)' % (bnd_[:6], mbnd[:6]), 'op': 'catalogue', 'args': a_}
        elif mfaces != faces_:
            corr_bad += {'what': 'L1: interfaces and their higher neighbours differ from the catalogue model', 'op': 'catalogue', 'args': a_,
                         'impl': faces_[:8], 'model': mfaces[:8]}
    lines = []
    atol = C.fr(state.controlpoint_absolute_tolerance)
    for spec, sb, ori in l1[: (150 if tier == 'quick' else 100000)]:
        lines.append('orient_compute %s %s %s' % (C.qs(atol), O.obj_tokens(spec), O.obj_tokens(sb)))
    outs = C.run_model(lines) if lines else []
    nl1 = 0
    for tk, (spec, sb, ori) in zip(outs, l1):
        nl1 += 1
        st = tk.word()
        if st != 'Some':
            if corr_bad.open():
                corr_bad += {'what': 'L1: the model finds no orientation, the implementation returns %s' % (ori,), 'op': 'orientation', 'args': dict(a=O.spec_json(spec), b=O.spec_json(sb))}
            continue
        perm = tuple(tk.list(tk.int))
        flip = tuple(bool(x) for x in tk.list(tk.int))
        if (perm, flip) != ori and corr_bad.open():
            corr_bad += {'what': 'L1: Orientation.compute returns %s, the model %s' % (ori, (perm, flip)), 'op': 'orientation', 'args': dict(a=O.spec_json(spec), b=O.spec_json(sb))}
    dist['op']['L1 comparisons'] = nl1
    # ---- kernel-evaluated tie: BSplineBasis.matches vs Model/Matches.v (basis_matches_res on Q, vm_compute)
    import vmtie as T
    mcases = []
    mdist = {}
    nm = 40 if tier == 'quick' else 400
    for _ in range(nm):
        p_ = rng.choice([1, 2, 2, 3, 3, 4])
        nsp = rng.randint(1, 5)
        inner = sorted(rng.sample(range(1, 16), min(nsp - 1, 14)))
        kn = [0] * p_ + [x_ / 16.0 for x_ in inner for _m in range(rng.choice([1, 1, 1, min(2, max(1, p_ - 1))]))] + [1] * p_
        per = -1
        kind = rng.choice(['same', 'affine', 'moved', 'moved-small', 'reversed', 'order', 'length', 'periodic', 'relative'])
        a_, b_ = rng.choice([1.0, 2.0 ** -10, 2.0 ** 12, 3.0]), rng.choice([0.0, -5.0, 1024.0])
        k1 = [a_ * x_ + b_ for x_ in kn]
        k2 = list(kn)
        rev = rng.random() < 0.4
        tol_ = rng.choice([1e-10, 1e-10, 1e-6, 1e-3])
        try:
            if kind == 'affine':
                c_, d_ = rng.choice([0.5, 7.0, 2.0 ** 20]), rng.choice([0.0, 3.0, -100.0])
                k2 = [c_ * x_ + d_ for x_ in kn]
            elif kind in ('moved', 'moved-small', 'relative') and inner:
                j_ = rng.randrange(p_, len(kn) - p_)
                delta = {'moved': 0.3 / 16, 'moved-small': tol_ * rng.choice([0.3, 3.0]), 'relative': 1e-5 * kn[j_] * rng.choice([0.3, 3.0]) + tol_ * 0.1}[kind]
                lo_, hi_ = (kn[j_ - 1], kn[j_ + 1])
                if lo_ < kn[j_] + delta < hi_ or kind != 'moved':
                    k2[j_] = kn[j_] + delta
                    k2 = sorted(k2)
            elif kind == 'reversed':
                k2 = [1 - x_ for x_ in reversed(kn)]
            elif kind == 'order':
                k2 = [0] + kn + [1]
            elif kind == 'length' and p_ < 4:
                k2 = kn[:p_] + [0.5 + 1.0 / 64] + kn[p_:]
            elif kind == 'periodic' and p_ >= 2 and len(kn) - 2 * p_ >= 1:
                per = 0
            b1 = BSplineBasis(p_, k1, per if kind != 'periodic' or rng.random() < 0.5 else -1)
            b2 = BSplineBasis(p_ + (1 if kind == 'order' else 0), k2, per)
        except Exception:  # noqa  (not a valid basis: nothing to compare)
            continue
        with state.state(knot_tolerance=tol_):
            try:
                got_ = 'Ok ' + str(bool(b1.matches(b2, reverse=rev))).lower()
            except ValueError:
                got_ = 'Err ValueError'
            except IndexError:
                got_ = 'Err IndexError'
        # undecidable in floating point: some |a_i - b_i| within 1e-3 (relative) of its threshold
        from fractions import Fraction as _F
        amb = False
        if b1.order == b2.order and b1.periodic == b2.periodic and len(b1.knots) == len(b2.knots):
            f1 = [_F(x_) for x_ in b1.knots]
            f2 = [_F(x_) for x_ in b2.knots]
            dt1, dt2 = f1[-1] - f1[0], f2[-1] - f2[0]
            na = [(f1[-1] - x_) / dt1 for x_ in reversed(f1)] if rev else [(x_ - f1[0]) / dt1 for x_ in f1]
            nb = [(x_ - f2[0]) / dt2 for x_ in f2]
            for x_, y_ in zip(na, nb):
                th = _F(tol_) + _F(1, 100000) * abs(y_)
                if abs(abs(x_ - y_) - th) <= th / 1000 + _F(1, 10 ** 14):
                    amb = True
        if amb:
            continue
        mdist[kind + ':' + got_] = mdist.get(kind + ':' + got_, 0) + 1
        want = {'Ok true': 'Ok true', 'Ok false': 'Ok false', 'Err ValueError': 'Err ValueError', 'Err IndexError': 'Err IndexError'}[got_]
        term = 'match basis_matches_res %s %s %s %s with %s => true | _ => false end' % (
            T.q(tol_), T.basis(b1), T.basis(b2), 'true' if rev else 'false',
            want.replace('Ok true', 'Ok true').replace('Ok false', 'Ok false'))
        mcases.append(('matches(reverse=%s, knot_tolerance=%g) on a %s pair: the implementation answers %s' % (rev, tol_, kind, got_), term,
                       dict(order1=b1.order, knots1=[float(x_) for x_ in b1.knots], periodic1=int(b1.periodic), order2=b2.order,
                            knots2=[float(x_) for x_ in b2.knots], periodic2=int(b2.periodic), reverse=rev, knot_tolerance=tol_, got=got_)))
    tie_m = T.report(V, corr_bad, 'matches', 'Model/Matches.v basis_matches_res', *T.run_tie('matches', ['Model.Matches'], mcases))
    dist['op']['vmtie matches'] = tie_m['cases']
    dist['kind'].update({'vmtie ' + k_: v_ for k_, v_ in mdist.items()})
    rc = V.finish(l0, corr_bad)
    C.write_evidence(PID, tier, seed, l0, {
        'evaluations': evals, 'distinct_nontrivial': len(nontriv),
        'rule': 'conforming complexes on a distorted lattice (blocks, L/T/O shapes, single cells; curves, surfaces, volumes; orders 2-3, refined or not, rational or not), every patch in a random '
                'one of its 2/8/48 orientations, random insertion order, list or one-by-one: node counts per dimension vs the cell complex, higher neighbours of every interface, boundary(), '
                'lookup of re-oriented copies of patches/faces/edges/vertices, re-adding re-oriented copies, 0.2*atol perturbation; Orientation.compute on re-oriented random objects: '
                'map_array, composition, associativity, map_section, view_section, non-matching pairs; twins, handedness, ring- and torus-shaped self-connected patches; '
                'non-trivial = distinct complexes / objects',
        'traces_validated_against_impl': evals,
        'input_distribution': {k: {str(a): b for a, b in v.items()} for k, v in dist.items()},
        'samples': samples or [{'ops': sorted(dist['op'])}],
    }, t0_, V.nviol, known=V.known)
    return rc


if __name__ == '__main__':
    sys.exit(C.guarded_main(PID, run))
