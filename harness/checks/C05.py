"""C05 — order elevation preserves geometry and continuity; lowering undoes it."""
import os
import random
import sys
import time
from fractions import Fraction as Fr

sys.path.insert(0, os.path.dirname(os.path.dirname(os.path.abspath(__file__))))
import common as C
import objs as O
import build_pyx

PID = 'C05'


def mults(b, tol):
    s_, e_ = O.domain(b)
    out = {}
    for x in b['knots']:
        if s_ <= x <= e_:
            key = None
            for y in out:
                if abs(x - y) < tol:
                    key = y
            out[key if key is not None else x] = out.get(key if key is not None else x, 0) + 1
    return out


def run(tier, seed, replay=None):
    t0 = time.time()
    V = C.Verdict(PID, tier, seed)
    l0 = C.l0_check(PID, thorough=(tier == 'thorough'))
    build_pyx.load_splipy()
    import numpy as np
    from splipy import state
    rng = random.Random(seed)
    tol = C.fr(state.knot_tolerance)
    nobj = 200 if tier == 'quick' else 2500
    cases = []
    dist = {'op': {}, 'pardim': {}, 'amount_total': {}, 'periodic_dirs': {}, 'errors': {}}
    if replay:
        import json
        rc = json.load(open(replay))
        rc = rc.get('case', rc)
        todo = [(O.spec_from_json(rc['obj']), rc)]
    else:
        todo = [(O.gen_obj(rng, kinds=['open', 'open', 'open', 'periodic', 'nonopen'], pmax={1: 5, 2: 4, 3: 3}[pd], pardim=pd), None)
                for pd in [rng.choice([1, 1, 2, 2, 3]) for _ in range(nobj)]]
    for spec, forced in todo:
        pd = len(spec['bases'])
        if not forced and rng.random() < 0.25:
            # copies of a repeated knot that differ in the last bits (equal within the knot tolerance)
            O.fuzz_knots(rng, spec)
        o = O.make_impl(spec)
        pre = O.snapshot(o)
        if forced:
            op, amounts = forced['op'], forced['amounts']
        else:
            op = rng.choice(['raise', 'raise', 'raise', 'set_order', 'raise_lower', 'raise_lower', 'raise0',
                             'set_order1', 'raise1', 'raise_dir'])
            amounts = [0] * pd if op == 'raise0' else [rng.choice([0, 1, 1, 2, 3]) for _ in range(pd)]
            if op != 'raise0' and not any(amounts):
                amounts[rng.randrange(pd)] = 1
            # the single-argument spellings: one target order / one amount for every direction, one amount for one direction
            if op == 'set_order1':
                target = max(b['order'] for b in spec['bases']) + rng.choice([0, 1, 2])
                amounts = [target - b['order'] for b in spec['bases']]
                if not any(amounts):
                    amounts = [1] * pd
            elif op == 'raise1':
                amounts = [rng.choice([1, 1, 2])] * pd
            elif op == 'raise_dir':
                dsel = rng.randrange(pd)
                amounts = [rng.choice([1, 2]) if i == dsel else 0 for i in range(pd)]
            if op == 'raise_lower' and rng.random() < 0.6:
                # a clean operand (open, continuous) so that the round trip is inside the range the library supports,
                # with some directions left alone
                while True:
                    spec = O.gen_obj(rng, kinds=['open'], pmax={1: 5, 2: 4, 3: 3}[pd], pardim=pd)
                    if all(max([b['knots'].count(k) for k in b['knots'][b['order']:-b['order']]] or [0]) < b['order'] for b in spec['bases']):
                        break
                if rng.random() < 0.25:
                    O.fuzz_knots(rng, spec)
                o = O.make_impl(spec)
                pre = O.snapshot(o)
                if pd >= 2 and rng.random() < 0.6:
                    amounts[rng.randrange(pd)] = 0
                    if not any(amounts):
                        amounts[rng.randrange(pd)] = 1
        case = dict(op=op, amounts=amounts, obj=O.spec_json(pre))
        dist['op'][op] = dist['op'].get(op, 0) + 1
        dist['pardim'][pd] = dist['pardim'].get(pd, 0) + 1
        dist['amount_total'][sum(amounts)] = dist['amount_total'].get(sum(amounts), 0) + 1
        npd = sum(1 for b in spec['bases'] if b['periodic'] >= 0)
        dist['periodic_dirs'][npd] = dist['periodic_dirs'].get(npd, 0) + 1
        err = None
        lowered = None
        err_low = None
        try:
            if op == 'set_order':
                ret = o.set_order(*[b['order'] + a for b, a in zip(spec['bases'], amounts)])
            elif op == 'set_order1':
                ret = o.set_order(spec['bases'][0]['order'] + amounts[0])
            elif op == 'raise1':
                ret = o.raise_order(amounts[0])
            elif op == 'raise_dir':
                dsel = [i for i, a in enumerate(amounts) if a][0]
                ret = o.raise_order(amounts[dsel], direction=O.spell(rng, dsel))
            elif pd == 1:
                ret = o.raise_order(amounts[0])
            else:
                ret = o.raise_order(*amounts)
            if ret is not o:
                V.failure(dict(case, what='raise_order/set_order did not return the object itself'))
        except Exception as e:  # noqa
            err = type(e).__name__
            dist['errors'][err] = dist['errors'].get(err, 0) + 1
        if err is None and not O.finite(o):
            V.failure(dict(case, what='L2: raise_order produced non-finite control points'))
            continue
        post = O.snapshot(o) if err is None else None
        if err is None and op == 'raise_lower':
            try:
                lo = o.lower_order(*amounts)
                if lo is o:
                    V.failure(dict(case, what='lower_order returned its operand'))
                if not O.finite(lo):
                    V.failure(dict(case, what='L2: lower_order produced non-finite control points'))
                    continue
                lowered = O.snapshot(lo)
            except Exception as e:  # noqa
                err_low = type(e).__name__
                dist['errors'][err_low + ' (lower)'] = dist['errors'].get(err_low + ' (lower)', 0) + 1
        cases.append(dict(case=case, pre=pre, post=post, err=err, op=op, amounts=amounts, lowered=lowered, err_low=err_low))
    lines, idx = [], []
    for c in cases:
        ent = {'l1': len(lines)}
        lines.append('obj_raise_order %s %s %s' % (C.qs(tol), O.obj_tokens(c['pre']), C.ilist(c['amounts'])))
        if c['post'] is not None:
            pr = O.probe_tuples(rng, c['pre'], tol, n_random=2)
            ent['probes'] = pr
            ent['ev_pre'] = len(lines)
            lines.append(O.eval_cmd(tol, c['pre'], pr))
            ent['ev_post'] = len(lines)
            lines.append(O.eval_cmd(tol, c['post'], pr))
            if c['op'] == 'raise_lower':
                ent['l1_low'] = len(lines)
                lines.append('obj_lower_order %s %s %s' % (C.qs(tol), O.obj_tokens(c['post']), C.ilist(c['amounts'])))
                if c['lowered'] is not None:
                    ent['ev_low'] = len(lines)
                    lines.append(O.eval_cmd(tol, c['lowered'], pr))
        idx.append(ent)
    outs = C.run_model(lines)
    evals = 0
    nontriv = set()
    corr_bad = C.Corr()
    samples = []

    def model_obj(tk):
        if tk.peek() == 'Err':
            tk.word()
            return ('Err', tk.word())
        tk.word()
        return ('Ok', O.read_obj(tk))
    for c, ent in zip(cases, idx):
        evals += 1
        case, pre, post = c['case'], c['pre'], c['post']
        nontriv.add(C.case_hash(case))
        mp = model_obj(outs[ent['l1']])
        if mp[0] == 'Err':
            if mp[1] == 'Singular':
                pass    # the exact solve refused (ill-posed collocation): nothing to compare
            elif c['err'] != mp[1] and corr_bad.open():
                corr_bad += dict(case, what='L1: model raises %s, implementation %s' % (mp[1], c['err'] or 'succeeds'))
        elif c['err'] is not None:
            if corr_bad.open():
                corr_bad += dict(case, what='L1: implementation raises %s, model succeeds' % c['err'])
        else:
            dfr = O.snaps_differ(post, mp[1], rel=1e-7)
            if dfr and corr_bad.open():
                corr_bad += dict(case, what='L1: post-state differs from model: ' + dfr)
        # ---- L2
        if c['err'] is not None:
            V.failure(dict(case, what='L2: raise_order raised %s' % c['err']))
            continue
        va = O.parse_eval(outs[ent['ev_pre']])
        vb = O.parse_eval(outs[ent['ev_post']])
        df = O.maps_differ(va, vb, rel=1e-7)
        if df:
            V.failure(dict(case, what='L2: order elevation changed the evaluated map: ' + df[1], param=[str(x) for x in ent['probes'][df[0]]]))
            continue
        for d, (bb, ba, a) in enumerate(zip(pre['bases'], post['bases'], c['amounts'])):
            if ba['order'] != bb['order'] + a:
                V.failure(dict(case, what='L2: order of direction %d is %d, expected %d' % (d, ba['order'], bb['order'] + a)))
            if ba['periodic'] != bb['periodic']:
                V.failure(dict(case, what='L2: periodicity of direction %d changed' % d))
            if O.domain(ba) != O.domain(bb):
                V.failure(dict(case, what='L2: domain of direction %d changed' % d))
            mb, ma = mults(bb, tol), mults(ba, tol)
            if sorted(mb) != sorted(ma) or any(ma[x] != mb[x] + a for x in mb):
                V.failure(dict(case, what='L2: continuity at the knots of direction %d changed (multiplicities %s -> %s, amount %d)' %
                               (d, {str(k): v for k, v in mb.items()}, {str(k): v for k, v in ma.items()}, a)))
        if c['op'] == 'raise_lower':
            if c['err_low'] is not None:
                V.failure(dict(case, what='L2: lower_order after raise_order raised %s' % c['err_low']))
                continue
            ml = model_obj(outs[ent['l1_low']])
            if ml[0] == 'Ok':
                dfr = O.snaps_differ(c['lowered'], ml[1], rel=1e-6)
                if dfr and corr_bad.open():
                    corr_bad += dict(case, what='L1: lower_order result differs from model: ' + dfr)
            low = c['lowered']
            for d, (bb, bl) in enumerate(zip(pre['bases'], low['bases'])):
                if bl['order'] != bb['order'] or len(bl['knots']) != len(bb['knots']) or \
                        any(abs(float(x - y)) > 1e-9 * max(1.0, abs(float(y))) for x, y in zip(bl['knots'], bb['knots'])):
                    V.failure(dict(case, what='L2: lower_order(raise_order) did not restore the knot vector of direction %d' % d,
                                   knots=[str(x) for x in bl['knots']]))
            vl = O.parse_eval(outs[ent['ev_low']])
            df = O.maps_differ(va, vl, rel=1e-6)
            if df:
                V.failure(dict(case, what='L2: lower_order is not a left inverse of raise_order: ' + df[1], param=[str(x) for x in ent['probes'][df[0]]]))
        if len(samples) < 3 and sum(c['amounts']) >= 2 and len(pre['bases']) >= 2:
            samples.append(case)
    rc = V.finish(l0, corr_bad)
    C.write_evidence(PID, tier, seed, l0, {
        'evaluations': evals, 'distinct_nontrivial': len(nontriv),
        'rule': 'random objects (pardim 1-3, open/non-open/periodic, rational 40%); raise_order by 0..3 per direction, set_order, raise_order(0), '
                'raise followed by lower_order; non-trivial = distinct (object, op, amounts)',
        'traces_validated_against_impl': evals,
        'input_distribution': {k: {str(a): b for a, b in v.items()} for k, v in dist.items()},
        'samples': samples or [cases[0]['case']],
    }, t0, V.nviol, known=V.known)
    return rc


if __name__ == '__main__':
    sys.exit(C.guarded_main(PID, run))
