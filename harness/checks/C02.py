"""C02 — object evaluation equals the tensor-product NURBS definition on its domain."""
import itertools
import os
import random
import sys
import time
from fractions import Fraction as Fr

sys.path.insert(0, os.path.dirname(os.path.dirname(os.path.abspath(__file__))))
import common as C
import objs as O
import build_pyx

PID = 'C02'


def err_name(e):
    return type(e).__name__


def statement_rows_cmd(b, t, tol):
    """ref_row command for direction b at (already snapped) t, per the statement's reading
    (values: d=0, evaluation from the right, end from inside, periodic wrap)"""
    p, k, per = b['order'], b['knots'], b['periodic']
    s, e = O.domain(b)
    if per >= 0 and (t < s or t > e):
        T = e - s
        t = (t - s) - T * ((t - s) // T) + s
    side = 1
    if abs(t - e) < tol:
        side = 0
    return 'ref_row %d %s %d %d 0 %s' % (side, C.qlist(k), p, per + 1, C.qs(t))


def snap_py(k, t, tol):
    import bisect
    i = bisect.bisect_left(k, t)
    if i < len(k) and abs(k[i] - t) < tol:
        return k[i]
    if i > 0 and abs(k[i - 1] - t) < tol:
        return k[i - 1]
    return t


def run(tier, seed, replay=None):
    t0 = time.time()
    V = C.Verdict(PID, tier, seed)
    O.FAR_PROB = 0.08     # some objects live far from the origin on compressed knot vectors
    l0 = C.l0_check(PID, thorough=(tier == 'thorough'))
    build_pyx.load_splipy()
    import numpy as np
    from splipy import state, BSplineBasis, Curve, Surface, Volume
    rng = random.Random(seed)
    tolf = state.knot_tolerance
    tol = C.fr(tolf)
    nobj = 500 if tier == 'quick' else 4000
    queries = []   # (spec, list of param tuples (exact), impl results per tuple (np array or err name), form)
    dist = {'pardim': {}, 'form': {}, 'rational': {}, 'periodic_dirs': {}, 'errors': {}}
    if replay:
        import json
        rc = json.load(open(replay))
        rc = rc.get('case', rc)
        specs = [(O.spec_from_json(rc['obj']), [tuple(Fr(x) for x in rc['params'])])]
    else:
        specs = [(O.gen_obj(rng), None) for _ in range(nobj)]
    for spec, forced in specs:
        o = O.make_impl(spec)
        snap = O.snapshot(o)
        pd = len(spec['bases'])
        dist['pardim'][pd] = dist['pardim'].get(pd, 0) + 1
        dist['rational'][spec['rational']] = dist['rational'].get(spec['rational'], 0) + 1
        npd = sum(1 for b in spec['bases'] if b['periodic'] >= 0)
        dist['periodic_dirs'][npd] = dist['periodic_dirs'].get(npd, 0) + 1
        dpts = [O.dir_points(rng, b, tol) for b in spec['bases']]

        def fl(x):
            return float(x)
        forms = []
        if forced:
            forms.append(('scalar', [forced[0]]))
        else:
            # grid of in-domain points (2-3 per direction)
            grid = [[x for x, tag in rng.sample([q for q in d if q[1] not in ('out',)], min(3, len(d) - 2))] for d in dpts]
            forms.append(('grid', grid))
            # scalar queries incl. boundary / outside / wrap
            for _ in range(4):
                forms.append(('scalar', [tuple(rng.choice(d)[0] for d in dpts)]))
            # pointwise
            if pd > 1:
                n = 3
                forms.append(('pointwise', [[rng.choice([q for q in d if q[1] != 'out'])[0] for _ in range(n)] for d in dpts]))
            forms.append(('call', [tuple(rng.choice([q for q in d if q[1] != 'out'])[0] for d in dpts)]))
        for form, data in forms:
            dist['form'][form] = dist['form'].get(form, 0) + 1
            try:
                if form == 'grid':
                    fparams = [[fl(x) for x in g] for g in data]
                    res = o.evaluate(*[list(g) for g in fparams])
                    tuples = list(itertools.product(*fparams))
                    res = np.asarray(res)
                    expected_shape = tuple(len(g) for g in fparams) + (spec['dim'],)
                    if res.shape != expected_shape:
                        V.failure({'what': 'grid result shape', 'shape': list(res.shape), 'expected': list(expected_shape), 'obj': O.spec_json(snap)})
                        continue
                    flat = res.reshape(-1, spec['dim'])
                elif form == 'pointwise':
                    fparams = [[fl(x) for x in g] for g in data]
                    res = np.asarray(o.evaluate(*[list(g) for g in fparams], tensor=False))
                    tuples = list(zip(*fparams))
                    if res.shape != (len(tuples), spec['dim']):
                        V.failure({'what': 'pointwise result shape', 'shape': list(res.shape), 'obj': O.spec_json(snap)})
                        continue
                    flat = res
                    # equals the diagonal of the grid
                    gres = np.asarray(o.evaluate(*[list(g) for g in fparams]))
                    for i in range(len(tuples)):
                        dg = gres[(i,) * pd]
                        if not np.allclose(dg, flat[i], rtol=1e-11, atol=1e-11):
                            V.failure({'what': 'tensor=False differs from the grid diagonal', 'obj': O.spec_json(snap),
                                       'params': [str(C.fr(x)) for x in tuples[i]]})
                else:
                    tp = tuple(fl(x) for x in data[0])
                    res = np.asarray(o(*tp) if form == 'call' else o.evaluate(*tp))
                    tuples = [tp]
                    if res.shape != (spec['dim'],):
                        V.failure({'what': 'scalar call result shape', 'shape': list(res.shape), 'obj': O.spec_json(snap)})
                        continue
                    flat = res.reshape(1, -1)
                    if form == 'call':
                        r2 = np.asarray(o.evaluate(*tp))
                        if r2.shape != res.shape or not np.allclose(r2, res, rtol=1e-11, atol=1e-11):
                            V.failure({'what': '__call__ differs from evaluate', 'obj': O.spec_json(snap), 'params': [str(C.fr(x)) for x in tp]})
                queries.append((snap, [tuple(C.fr(x) for x in tp) for tp in tuples], flat, None, form))
            except Exception as e:  # noqa
                nm = err_name(e)
                dist['errors'][nm] = dist['errors'].get(nm, 0) + 1
                if form in ('scalar', 'call'):
                    queries.append((snap, [tuple(C.fr(fl(x)) for x in data[0])], None, nm, form))
                else:
                    V.failure({'what': 'exception on in-domain %s evaluation: %s' % (form, nm), 'obj': O.spec_json(snap), 'msg': str(e)})
    # ---- calling forms as wholes (Model/EvalForms.v): lists of any length per direction (also empty), parameters inside and
    # outside the domain, unequal lengths with tensor=False -- values in C order or the exception class
    form_cases = []
    for spec, forced in specs[:max(40, len(specs) // 3)]:
        if forced:
            break
        o = O.make_impl(spec)
        snap = O.snapshot(o)
        pd = len(spec['bases'])
        dpts = [O.dir_points(rng, b, tol) for b in spec['bases']]
        for pointwise in ([False, True] if pd > 1 else [False]):
            mode = rng.choice(['in', 'in', 'any', 'empty', 'unequal'])
            lens = [rng.randint(1, 3) for _ in range(pd)]
            if pointwise and mode != 'unequal':
                lens = [lens[0]] * pd
            if mode == 'empty':
                lens[rng.randrange(pd)] = 0
            lists = []
            for d_, ln in zip(dpts, lens):
                pool = [q for q in d_ if q[1] not in ('out', 'fuzz')] if mode != 'any' else [q for q in d_ if q[1] != 'fuzz']
                lists.append([float(rng.choice(pool)[0]) for _ in range(ln)])
            try:
                r_ = o.evaluate(*[list(l_) for l_ in lists], tensor=False) if pointwise else o.evaluate(*[list(l_) for l_ in lists])
                r_ = np.asarray(r_, dtype=float)
                got = ('ok', r_.reshape(-1, spec['dim']) if r_.size else np.zeros((0, spec['dim'])), r_.shape)
            except Exception as e:  # noqa
                got = ('err', err_name(e), None)
            dist['form']['lists:' + ('pointwise' if pointwise else 'grid') + ':' + mode] = dist['form'].get('lists:' + ('pointwise' if pointwise else 'grid') + ':' + mode, 0) + 1
            form_cases.append((snap, pointwise, [[C.fr(x) for x in l_] for l_ in lists], got, mode))
    flines = ['%s %s %s %d %s' % ('eval_pointwise' if pw else 'eval_grid', C.qs(tol), O.obj_tokens(snap), len(ls), ' '.join(C.qlist(l_) for l_ in ls))
              for snap, pw, ls, got, mode in form_cases]
    fouts = C.run_model(flines) if flines else []
    # L1: model
    lines = []
    for snap, tuples, flat, err, form in queries:
        lines.append('obj_eval %s %s %d %s' % (C.qs(tol), O.obj_tokens(snap), len(tuples), ' '.join(C.qlist(tp) for tp in tuples)))
    outs = C.run_model(lines)
    # L2: statement-level expected values through ref_row
    l2lines, l2map = [], []
    for qi, (snap, tuples, flat, err, form) in enumerate(queries):
        for ti, tp in enumerate(tuples):
            outside = False
            cmds = []
            for b, t in zip(snap['bases'], tp):
                ts = snap_py(b['knots'], t, tol)
                s, e = O.domain(b)
                if b['periodic'] < 0 and (ts < s or ts > e):
                    outside = True
                cmds.append(statement_rows_cmd(b, ts, tol))
            if outside:
                l2map.append((qi, ti, None))
            else:
                l2map.append((qi, ti, len(l2lines)))
                l2lines += cmds
    outs2 = C.run_model(l2lines)
    evals = 0
    nontriv = set()
    corr_bad = C.Corr()
    samples = []
    for qi, (snap, tuples, flat, err, form) in enumerate(queries):
        tk = outs[qi]
        n = tk.int()
        for ti in range(n):
            evals += 1
            tag = tk.word()
            key = C.case_hash([O.spec_json(snap), [str(x) for x in tuples[ti]]])
            if len(snap['cps']) > 2:
                nontriv.add(key)
            if tag == 'Err':
                en = tk.word()
                if err != en and corr_bad.open():
                    corr_bad += {'what': 'L1: model raises %s, implementation %s' % (en, err or 'returns'), 'obj': O.spec_json(snap),
                                'params': [str(x) for x in tuples[ti]]}
            else:
                vals = tk.qlist()
                if err is not None:
                    if corr_bad.open():
                        corr_bad += {'what': 'L1: implementation raises %s, model returns' % err, 'obj': O.spec_json(snap), 'params': [str(x) for x in tuples[ti]]}
                else:
                    sc = max([1.0] + [abs(float(v)) for v in vals])
                    if not all(C.close(flat[ti][j], vals[j], sc) for j in range(len(vals))) and corr_bad.open():
                        corr_bad += {'what': 'L1: evaluate differs from model', 'obj': O.spec_json(snap), 'params': [str(x) for x in tuples[ti]],
                                    'impl': [float(x) for x in flat[ti]], 'model': [str(v) for v in vals]}
    for tk, (snap, pw, ls, got, mode) in zip(fouts, form_cases):
        evals += 1
        case = {'obj': O.spec_json(snap), 'lists': [[str(x) for x in l_] for l_ in ls], 'tensor': not pw, 'form': 'lists'}
        if tk.word() == 'Err':
            en = tk.word()
            if got[0] != 'err' or got[1] != en:
                # a mix of an empty list and broadcasting is numpy territory: only the class of outcome is compared
                corr_bad += dict(case, what='L1: model raises %s for these parameter lists, implementation %s' % (en, got[1] if got[0] == 'err' else 'returns values'))
        else:
            pts = tk.list(tk.qlist)
            if got[0] == 'err':
                corr_bad += dict(case, what='L1: implementation raises %s for these parameter lists, model returns %d points' % (got[1], len(pts)))
            elif len(pts) != len(got[1]):
                corr_bad += dict(case, what='L1: %d points returned, model %d' % (len(got[1]), len(pts)))
            else:
                sc = max([1.0] + [abs(float(v)) for p_ in pts for v in p_])
                if not all(C.close(got[1][i_][j_], p_[j_], sc) for i_, p_ in enumerate(pts) for j_ in range(len(p_))):
                    corr_bad += dict(case, what='L1: values of the %s form differ from the model (C order)' % ('pointwise' if pw else 'grid'))
                want_shape = ((len(ls[0]),) if pw else tuple(len(l_) for l_ in ls)) + (snap['dim'],)
                if all(len(l_) > 0 for l_ in ls) and tuple(got[2]) != want_shape:
                    V.failure(dict(case, what='L2: result shape %s, expected %s' % (list(got[2]), list(want_shape))))
    for (qi, ti, li) in l2map:
        snap, tuples, flat, err, form = queries[qi]
        case = {'obj': O.spec_json(snap), 'params': [str(x) for x in tuples[ti]], 'params_hex': [float(x).hex() for x in tuples[ti]], 'form': form}
        if li is None:
            if err != 'ValueError':
                V.failure({'what': 'L2: parameter outside a non-periodic direction did not raise ValueError (got %s)' % (err or 'a value'), 'case': case})
            continue
        if err is not None:
            V.failure({'what': 'L2: in-domain evaluation raised ' + err, 'case': case})
            continue
        pd = len(snap['bases'])
        rows = [outs2[li + d].qlist() for d in range(pd)]
        ncomp = snap['dim'] + (1 if snap['rational'] else 0)
        acc = [Fr(0)] * ncomp
        shape = [len(r) for r in rows]
        for idx in itertools.product(*[range(n) for n in shape]):
            wgt = Fr(1)
            for d in range(pd):
                wgt *= rows[d][idx[d]]
                if wgt == 0:
                    break
            if wgt == 0:
                continue
            flatidx = 0
            for d in range(pd):
                flatidx = flatidx * shape[d] + idx[d]
            pt = snap['cps'][flatidx]
            for c in range(ncomp):
                acc[c] += wgt * pt[c]
        if snap['rational']:
            if acc[-1] == 0:
                continue
            exp = [x / acc[-1] for x in acc[:-1]]
        else:
            exp = acc
        sc = max([1.0] + [abs(float(v)) for v in exp])
        if not all(C.close(flat[ti][j], exp[j], sc) for j in range(len(exp))):
            V.failure({'what': 'L2: evaluate differs from the tensor-product definition', 'case': case,
                       'impl': [float(x) for x in flat[ti]], 'expected': [str(v) for v in exp]})
        elif not snap['rational']:
            # inside the reported bounding box (checked on the model-side exact data; impl bbox below)
            pass
        if len(samples) < 3 and pd >= 2 and snap['rational']:
            samples.append(dict(case, expected=[str(v) for v in exp]))
    # default objects are the identity map; bounding boxes contain evaluated points
    nid = 0
    default_l1 = []
    for i in range(60 if tier == 'quick' else 600):
        pd = rng.choice([1, 2, 3])
        bs = []
        for _ in range(pd):
            while True:
                b = O.G.gen_basis(rng, kind=rng.choice(['open', 'nonopen']), pmax=4, nint_max=3)
                if b['order'] >= 2:
                    break
            bs.append(b)
        ib = [BSplineBasis(b['order'], [float(x) for x in b['knots']], -1) for b in bs]
        rat_ = i % 5 == 4
        obj = {1: Curve, 2: Surface, 3: Volume}[pd](*ib, rational=True) if rat_ else {1: Curve, 2: Surface, 3: Volume}[pd](*ib)
        default_l1.append((rat_, [dict(order=b['order'], knots=[C.fr(float(x)) for x in b['knots']], periodic=-1) for b in bs], O.snapshot(obj), list(obj.bounding_box())))
        for _ in range(3):
            tp = [float(rng.choice([q for q in O.dir_points(rng, b, tol, outside=False)])[0]) for b in bs]
            val = np.asarray(obj.evaluate(*tp))
            exp = list(tp) + ([0.0] if pd == 1 else [])
            nid += 1
            if val.shape != (len(exp),) or not np.allclose(val, exp, rtol=1e-9, atol=1e-9):
                V.failure({'what': 'default object is not the identity map of its domain',
                           'bases': [dict(order=b['order'], knots=[str(x) for x in b['knots']]) for b in bs], 'params': tp, 'impl': val.tolist()})
    nbb = 0
    for spec, _ in specs[: (80 if tier == 'quick' else 800)]:
        if spec['rational']:
            continue
        o = O.make_impl(spec)
        bb = o.bounding_box()
        for _ in range(3):
            tp = []
            for b in spec['bases']:
                s, e = O.domain(b)
                tp.append(float(s + (e - s) * Fr(rng.randint(0, 64), 64)))
            val = np.asarray(o.evaluate(*tp))
            nbb += 1
            for c in range(spec['dim']):
                lo, hi = bb[c]
                if not (lo - 1e-9 * max(1, abs(lo)) <= val[c] <= hi + 1e-9 * max(1, abs(hi))):
                    V.failure({'what': 'evaluated point outside the reported bounding box', 'obj': O.spec_json(spec), 'params': tp,
                               'value': val.tolist(), 'bbox': [list(map(float, x)) for x in bb]})
    # ---- the bounding box after the control points were edited in place (item assignment, slices, += on the array, project):
    # a box queried before the edit says nothing about the object afterwards
    for spec, _ in specs[: (60 if tier == 'quick' else 600)]:
        if spec['rational'] or spec.get('intcps'):
            continue                      # (integer arrays refuse the float edits below)
        o = O.make_impl(spec)
        case_ = {'obj': O.spec_json(spec)}
        try:
            holder = o.clone() if rng.random() < 0.3 else o          # (the box may also have been queried on the object this one was cloned from)
            holder.bounding_box()
            if holder is not o:
                o = holder.clone()
            how = rng.choice(['item', 'slice', 'array', 'flat'])
            big = np.array([1000.0 + 7 * c_ for c_ in range(spec['dim'])])
            if how == 'item':
                o[tuple(rng.randrange(n_) for n_ in o.shape)] = big
            elif how == 'slice':
                o.controlpoints[..., 0] += 500.0
            elif how == 'array':
                o.controlpoints[(0,) * o.pardim] = big
            else:
                o[0] = big
            case_['edit'] = how
            bb = o.bounding_box()
            nbb += 1
            cps_ = np.asarray(o.controlpoints).reshape(-1, spec['dim'])
            want = [(float(cps_[:, c_].min()), float(cps_[:, c_].max())) for c_ in range(spec['dim'])]
            if any(abs(a_[0] - b_[0]) > 1e-9 * max(1, abs(b_[0])) or abs(a_[1] - b_[1]) > 1e-9 * max(1, abs(b_[1])) for a_, b_ in zip(bb, want)):
                V.failure(dict(case_, what='bounding_box() after an in-place edit of the control points is not the box of the control points',
                               bbox=[list(map(float, x_)) for x_ in bb], expected=want))
        except Exception as e:  # noqa
            V.failure(dict(case_, what='bounding_box after an in-place edit raised %s' % type(e).__name__))
    # ---- L1: the default control net and bounding_box() vs Model/DefaultObj.v
    dl = []
    for rat_, bsl, snap_, bb_ in default_l1:
        dl.append('default_obj %d %d %s' % (int(rat_), len(bsl), ' '.join(O.basis_tokens(b_) for b_ in bsl)))
        dl.append('bounding_box %s' % O.obj_tokens(snap_))
    douts = C.run_model(dl) if dl else []
    for j_, (rat_, bsl, snap_, bb_) in enumerate(default_l1):
        mo = O.read_obj(douts[2 * j_])
        dfr = O.snaps_differ(snap_, mo, rel=1e-12)
        if dfr:
            corr_bad += {'what': 'L1: the default object (no control points given) differs from the model: %s' % dfr, 'form': 'default', 'rational': rat_,
                         'bases': [dict(order=b_['order'], knots=[str(x) for x in b_['knots']]) for b_ in bsl]}
        tkb = douts[2 * j_ + 1]
        mbb = tkb.list(lambda: (tkb.q(), tkb.q()))
        if len(mbb) != len(bb_) or any(abs(float(lo) - float(a)) > 1e-12 * max(1, abs(float(a))) or abs(float(hi) - float(b)) > 1e-12 * max(1, abs(float(b))) for (lo, hi), (a, b) in zip(mbb, bb_)):
            corr_bad += {'what': 'L1: bounding_box() differs from the model', 'form': 'bounding_box', 'obj': O.spec_json(snap_)}
    rc = V.finish(l0, corr_bad)
    C.write_evidence(PID, tier, seed, l0, {
        'evaluations': evals + nid + nbb, 'distinct_nontrivial': len(nontriv),
        'rule': 'random objects (pardim 1-3, dim 1-3, rational 40%, open/non-open/periodic directions, asymmetric dyadic nets); '
                'forms: tensor grid, scalars, tensor=False, __call__; parameters: ends, knots, interior, tol-fuzz, outside, periodic shifts; '
                'non-trivial = distinct (object, parameter tuple) with more than two control points',
        'traces_validated_against_impl': evals,
        'identity_probes': nid, 'bbox_probes': nbb,
        'input_distribution': {k: {str(a): b for a, b in v.items()} for k, v in dist.items()},
        'samples': samples or [{'note': 'none'}],
    }, t0, V.nviol, assumptions=['knot_tolerance=%r' % tolf], known=V.known)
    return rc


if __name__ == '__main__':
    sys.exit(C.guarded_main(PID, run))
