"""C08 — periodic objects are genuinely periodic and convert losslessly."""
import os
import random
import sys
import time
from fractions import Fraction as Fr

sys.path.insert(0, os.path.dirname(os.path.dirname(os.path.abspath(__file__))))
import common as C
import objs as O
import build_pyx

PID = 'C08'


def run(tier, seed, replay=None):
    t0 = time.time()
    V = C.Verdict(PID, tier, seed)
    l0 = C.l0_check(PID, thorough=(tier == 'thorough'))
    build_pyx.load_splipy()
    import numpy as np
    from splipy import state
    rng = random.Random(seed)
    tol = C.fr(state.knot_tolerance)
    nobj = 500 if tier == 'quick' else 4000
    cases = []
    dist = {'op': {}, 'pardim': {}, 'order': {}, 'continuity': {}, 'nfun': {}, 'errors': {}}
    if replay:
        import json
        rc = json.load(open(replay))
        rc = rc.get('case', rc)
        todo = [(O.spec_from_json(rc['obj']), rc)]
    else:
        todo = []
        for _ in range(nobj):
            while True:
                sp = O.gen_obj(rng, kinds=['open', 'periodic', 'periodic', 'periodic'])
                if any(b['periodic'] >= 0 for b in sp['bases']):
                    break
            todo.append((sp, None))
    for spec, forced in todo:
        pd = len(spec['bases'])
        if not forced and rng.random() < 0.15:
            # the same periodic knot vector far from the origin and compressed (neighbouring knots closer than 1e-5 of their
            # magnitude, still thousands of tolerances apart): opening, rolling and lowering must keep them apart
            for b_ in spec['bases']:
                if b_['periodic'] >= 0:
                    k0_ = b_['knots'][0]
                    b_['knots'] = [4096 + (x_ - k0_) / 64 for x_ in b_['knots']]
        o = O.make_impl(spec)
        pre = O.snapshot(o)
        pdirs = [d for d, b in enumerate(spec['bases']) if b['periodic'] >= 0]
        if forced:
            op, d, arg = forced['op'], forced['direction'], forced.get('arg')
        else:
            d = rng.choice(pdirs)
            op = rng.choice(['wrap', 'wrap', 'seam', 'seam', 'open_close', 'open_close', 'lower', 'lower'])
            b = spec['bases'][d]
            arg = None
            if op == 'lower':
                arg = rng.randint(-1, b['periodic'])
        b = spec['bases'][d]
        dist['op'][op] = dist['op'].get(op, 0) + 1
        dist['pardim'][pd] = dist['pardim'].get(pd, 0) + 1
        dist['order'][b['order']] = dist['order'].get(b['order'], 0) + 1
        dist['continuity'][b['periodic']] = dist['continuity'].get(b['periodic'], 0) + 1
        dist['nfun'][O.nfun(b)] = dist['nfun'].get(O.nfun(b), 0) + 1
        case = dict(op=op, direction=d, arg=arg, obj=O.spec_json(pre))
        s_, e_ = O.domain(b)
        T = e_ - s_
        ent = dict(case=case, pre=pre, op=op, d=d, arg=arg, err=None)
        try:
            if op == 'wrap':
                # evaluation at t and t + z T (implementation, all directions at interior points)
                base = []
                for bb in spec['bases']:
                    a_, b_ = O.domain(bb)
                    base.append(a_ + (b_ - a_) * Fr(rng.randint(1, 63), 64))
                z = rng.choice([-3, -2, -1, 1, 2, 3])
                sh = list(base)
                sh[d] = base[d] + z * T
                v0 = np.asarray(o.evaluate(*[float(x) for x in base]))
                v1 = np.asarray(o.evaluate(*[float(x) for x in sh]))
                ent['wrap'] = (base, sh, v0, v1)
            elif op == 'seam':
                base = []
                for bb in spec['bases']:
                    a_, b_ = O.domain(bb)
                    base.append(a_ + (b_ - a_) * Fr(rng.randint(1, 63), 64))
                res = []
                for dd in range(0, b['periodic'] + 1):
                    if spec['rational'] and dd > 1:
                        break
                    al = [0] * pd
                    al[d] = dd
                    pa = list(base)
                    pa[d] = s_
                    pb = list(base)
                    pb[d] = e_
                    ab_a = [True] * pd
                    ab_b = [True] * pd
                    ab_b[d] = False
                    fa = [float(x) for x in pa]
                    fb = [float(x) for x in pb]
                    if pd == 1:
                        va = o.derivative(fa[0], d=dd, above=True)
                        vb = o.derivative(fb[0], d=dd, above=False)
                    else:
                        va = o.derivative(*fa, d=tuple(al), above=tuple(ab_a))
                        vb = o.derivative(*fb, d=tuple(al), above=tuple(ab_b))
                    # the same one-sided limits at other images of the seam (seam + m*period, m outside {0, 1})
                    m_b = rng.choice([-2, -1, 0, 2, 3])
                    m_a = rng.choice([-2, -1, 1, 2, 3])
                    fb2 = list(fb)
                    fb2[d] = float(s_ + m_b * T)
                    fa2 = list(fa)
                    fa2[d] = float(s_ + m_a * T)
                    if pd == 1:
                        va2 = o.derivative(fa2[0], d=dd, above=True)
                        vb2 = o.derivative(fb2[0], d=dd, above=False)
                    else:
                        va2 = o.derivative(*fa2, d=tuple(al), above=tuple(ab_a))
                        vb2 = o.derivative(*fb2, d=tuple(al), above=tuple(ab_b))
                    res.append((dd, np.asarray(va), np.asarray(vb), np.asarray(va2), np.asarray(vb2), m_a, m_b))
                ent['seam'] = res
            elif op == 'open_close':
                opened = o.split(float(s_), d)
                ent['opened'] = O.snapshot(opened)
                closed = opened.make_periodic(b['periodic'], d)
                ent['closed'] = O.snapshot(closed)
            else:
                ret = o.lower_periodic(arg, d)
                if ret is not o:
                    V.failure(dict(case, what='lower_periodic did not return the object itself'))
                if not O.finite(o):
                    V.failure(dict(case, what='L2: lower_periodic produced non-finite control points'))
                    continue
                ent['post'] = O.snapshot(o)
        except Exception as e:  # noqa
            ent['err'] = type(e).__name__
            dist['errors'][ent['err']] = dist['errors'].get(ent['err'], 0) + 1
        cases.append(ent)
    lines, idx = [], []
    for c in cases:
        e = {}
        pre = c['pre']
        if c['err'] is None and c['op'] == 'open_close':
            e['l1'] = len(lines)
            lines.append('obj_make_periodic %s %d %d' % (O.obj_tokens(c['opened']), pre['bases'][c['d']]['periodic'], c['d']))
        elif c['op'] == 'lower':
            e['l1'] = len(lines)
            lines.append('obj_lower_periodic %s %d %d' % (O.obj_tokens(pre), c['arg'] + 1, c['d']))
            if c['err'] is None:
                pr = O.probe_tuples(rng, pre, tol, n_random=3, with_outside_periodic=False)
                # the lowered object keeps the domain start; probes of the old domain are valid for both (wrapped)
                e['probes'] = pr
                e['ev_pre'] = len(lines)
                lines.append(O.eval_cmd(tol, pre, pr))
                e['ev_post'] = len(lines)
                lines.append(O.eval_cmd(tol, c['post'], pr))
        idx.append(e)
    outs = C.run_model(lines)
    evals = 0
    nontriv = set()
    corr_bad = C.Corr()
    samples = []
    for c, e in zip(cases, idx):
        evals += 1
        case, pre, op = c['case'], c['pre'], c['op']
        nontriv.add(C.case_hash(case))
        b = pre['bases'][c['d']]
        if c['err'] is not None:
            V.failure(dict(case, what='L2: %s raised %s' % (op, c['err'])))
            continue
        if op == 'wrap':
            base, sh, v0, v1 = c['wrap']
            if not np.allclose(v0, v1, rtol=1e-9, atol=1e-9 * max(1.0, np.abs(v0).max())):
                V.failure(dict(case, what='L2: evaluation at t and t + z*period differ', t=[str(x) for x in base], t_shifted=[str(x) for x in sh],
                               values=[v0.tolist(), v1.tolist()]))
        elif op == 'seam':
            for dd, va, vb, va2, vb2, m_a, m_b in c['seam']:
                sc = max(1.0, np.abs(va).max())
                if not np.allclose(va, vb, rtol=1e-8, atol=1e-8 * sc):
                    V.failure(dict(case, what='L2: derivative of order %d differs across the seam (periodic continuity %d)' % (dd, b['periodic']),
                                   from_above=va.tolist(), from_below=vb.tolist()))
                    break
                if not (np.isfinite(va2).all() and np.allclose(va, va2, rtol=1e-8, atol=1e-8 * sc)):
                    V.failure(dict(case, what='L2: derivative of order %d from above at seam%+d periods differs from the one at the seam' % (dd, m_a),
                                   at_seam=va.tolist(), at_image=va2.tolist()))
                    break
                if not (np.isfinite(vb2).all() and np.allclose(vb, vb2, rtol=1e-8, atol=1e-8 * sc)):
                    V.failure(dict(case, what='L2: derivative of order %d from below at seam%+d periods differs from the one at the domain end' % (dd, m_b),
                                   at_end=vb.tolist(), at_image=vb2.tolist()))
                    break
        elif op == 'open_close':
            tk = outs[e['l1']]
            l1_agrees = False
            if tk.peek() == 'Err':
                tk.word()
                if corr_bad.open():
                    corr_bad += dict(case, what='L1: model make_periodic raises %s, implementation succeeds' % tk.word())
            else:
                tk.word()
                dfr = O.snaps_differ(c['closed'], O.read_obj(tk))
                l1_agrees = not dfr
                if dfr:
                    # the implementation no longer does what the transcription of make_periodic does: never a known finding
                    V.failure(dict(case, what='L1: make_periodic result differs from the transcribed model: ' + dfr, l1=True))
            dfr = O.snaps_differ(c['closed'], pre)
            if dfr:
                V.failure(dict(case, what='L2: opening at the seam and closing again does not give back the object: ' + dfr,
                               impl_matches_transcription=l1_agrees))
        else:
            tk = outs[e['l1']]
            if tk.peek() == 'Err':
                tk.word()
                if corr_bad.open():
                    corr_bad += dict(case, what='L1: model lower_periodic raises %s, implementation succeeds' % tk.word())
            else:
                tk.word()
                dfr = O.snaps_differ(c['post'], O.read_obj(tk))
                if dfr and corr_bad.open():
                    corr_bad += dict(case, what='L1: lower_periodic result differs from model: ' + dfr)
            post = c['post']
            if post['bases'][c['d']]['periodic'] != c['arg']:
                V.failure(dict(case, what='L2: periodicity after lower_periodic is %d, requested %d' % (post['bases'][c['d']]['periodic'], c['arg'])))
            va = O.parse_eval(outs[e['ev_pre']])
            vb = O.parse_eval(outs[e['ev_post']])
            # a lowered non-periodic direction no longer wraps: only in-domain probes are comparable
            df = O.maps_differ(va, vb)
            if df:
                V.failure(dict(case, what='L2: lowering the periodic continuity changed the map: ' + df[1], param=[str(x) for x in e['probes'][df[0]]]))
        if len(samples) < 3 and op == 'open_close':
            samples.append(case)
    # ---- periodic objects refined near the seam, then opened: knots inserted in the FIRST and LAST span of the period move
    # ghost knots (the repair loops of insert_knot); afterwards the ghost knots must still be exact images, and opening the
    # object (lower_periodic to -1, split at an interior parameter) must give one full period of the ORIGINAL map
    import gen_basis as GB_
    rlines, rcases = [], []
    for it in range(40 if tier == 'quick' else 600):
        p_ = rng.choice([2, 3, 3, 4])
        cont_ = rng.choice([0, 0, 0, p_ - 2, rng.randint(0, p_ - 2)])
        nb_ = rng.randint(p_ + cont_ + 1, p_ + cont_ + 4)
        brk_ = [Fr(rng.randint(-3, 3))]
        for _ in range(nb_):
            brk_.append(brk_[-1] + Fr(rng.choice([1, 2, 3, 4]), rng.choice([1, 2, 4])))
        kn_ = GB_.periodic_knots(p_, brk_, [1] * (nb_ - 1), cont_)
        bs_ = dict(order=p_, knots=kn_, periodic=cont_, kind='periodic')
        sp = O.gen_obj(rng, pardim=1, kinds=['periodic'], rational=rng.random() < 0.3)
        sp['bases'] = [bs_]
        ncp_ = O.nfun(bs_)
        ncomp_ = len(sp['cps'][0])
        sp['cps'] = [[Fr(rng.randint(-16, 16), 2) if c_ < sp['dim'] else Fr(rng.choice([1, 2, 3]), 2) for c_ in range(ncomp_)] for _ in range(ncp_)]
        if sp['rational']:
            sp['cps'] = [[x_ * pt_[-1] for x_ in pt_[:-1]] + [pt_[-1]] for pt_ in sp['cps']]
        sp['ctor'] = 'raw'
        sp['intcps'] = False
        o = O.make_impl(sp)
        orig = O.snapshot(o)
        s_, e_ = O.domain(bs_)
        T_ = e_ - s_
        where_ = rng.choice(['last', 'last', 'first', 'both'])
        ins_ = []
        if where_ in ('last', 'both'):
            ins_.append(brk_[-2] + (brk_[-1] - brk_[-2]) * Fr(rng.randint(1, 7), 8))
        if where_ in ('first', 'both'):
            ins_.append(brk_[0] + (brk_[1] - brk_[0]) * Fr(rng.randint(1, 7), 8))
        how_ = rng.choice(['lower', 'split'])
        x0_ = s_ + T_ * Fr(rng.randint(1, 15), 16)
        case = dict(op='refine near the seam, then open', obj=O.spec_json(orig), inserted=[str(x_) for x_ in ins_], how=how_, at=str(x0_))
        try:
            for x_ in ins_:
                o.insert_knot(float(x_), 0)
            kk_ = [C.fr(x_) for x_ in o.bases[0].knots]
            n_ = len(kk_) - p_ - (cont_ + 1)
            bad_ghost = [i_ for i_ in range(p_ + cont_ + 1) if i_ + n_ < len(kk_) and kk_[i_ + n_] - kk_[i_] != T_]
            count_ = len(rcases)
            if bad_ghost:
                V.failure(dict(case, what='L2: after insertion near the seam the ghost knots are no longer the periodic images of the interior knots (index %d)' % bad_ghost[0],
                               knots=[str(x_) for x_ in kk_]))
                continue
            if how_ == 'lower':
                o.lower_periodic(-1, 0)
                lo_ = s_
            else:
                o = o.split(float(x0_), 0)
                lo_ = x0_
            if o.periodic(0) or abs(o.start(0) - float(lo_)) > 1e-9 or abs(o.end(0) - float(lo_ + T_)) > 1e-9:
                V.failure(dict(case, what='L2: the opened object has domain [%r, %r] (periodic: %s), expected one period from %s' % (o.start(0), o.end(0), o.periodic(0), lo_)))
                continue
            fr_ = [Fr(rng.randint(0, 63), 64) for _ in range(6)]
            pts_ = [lo_ + T_ * f_ for f_ in fr_]
            got_ = [np.asarray(o.evaluate(float(t_))).reshape(-1) for t_ in pts_]
            rcases.append((case, got_, len(rlines)))
            rlines.append(O.eval_cmd(tol, orig, [[t_] for t_ in pts_]))
            evals += 1
            nontriv.add(C.case_hash(case))
        except Exception as e:  # noqa
            V.failure(dict(case, what='L2: refining near the seam and opening raised %s' % type(e).__name__))
    if rlines:
        routs = C.run_model(rlines)
        for case, got_, li_ in rcases:
            want_ = O.parse_eval(routs[li_])
            for (err_, val_), g_ in zip(want_, got_):
                if err_ or len(val_) != len(g_) or any(not C.close(a_, b_, max(abs(float(x_)) for x_ in val_)) for a_, b_ in zip(g_, val_)):
                    V.failure(dict(case, what='L2: the object opened after a refinement near the seam is not the original map on its period',
                                   got=[float(x_) for x_ in g_], expected=(None if err_ else [float(x_) for x_ in val_])))
                    break
    rc = V.finish(l0, corr_bad)
    C.write_evidence(PID, tier, seed, l0, {
        'evaluations': evals, 'distinct_nontrivial': len(nontriv),
        'rule': 'random objects with at least one periodic direction (orders 2-6, every continuity, 1-8 functions, pardim 1-3); '
                'wrap by +-1..3 periods, derivatives across the seam up to the periodic continuity, split(seam) then make_periodic, lower_periodic to every level; '
                'non-trivial = distinct (object, operation)',
        'traces_validated_against_impl': evals,
        'input_distribution': {k: {str(a): b for a, b in v.items()} for k, v in dist.items()},
        'samples': samples or [cases[0]['case']],
    }, t0, V.nviol, known=V.known)
    return rc


if __name__ == '__main__':
    sys.exit(C.guarded_main(PID, run))
