"""C08 — periodic objects are genuinely periodic and convert losslessly."""
import os
import random
import sys
import time
from fractions import Fraction as Fr

sys.path.insert(0, os.path.dirname(os.path.dirname(os.path.abspath(__file__))))
import common as C
import objs as O
import build_pyx

PID = 'C08'


def run(tier, seed, replay=None):
    t0 = time.time()
    V = C.Verdict(PID, tier, seed)
    l0 = C.l0_check(PID, thorough=(tier == 'thorough'))
    build_pyx.load_splipy()
    import numpy as np
    from splipy import state
    rng = random.Random(seed)
    tol = C.fr(state.knot_tolerance)
    nobj = 500 if tier == 'quick' else 4000
    cases = []
    dist = {'op': {}, 'pardim': {}, 'order': {}, 'continuity': {}, 'nfun': {}, 'errors': {}}
    if replay:
        import json
        rc = json.load(open(replay))
        rc = rc.get('case', rc)
        todo = [(O.spec_from_json(rc['obj']), rc)]
    else:
        todo = []
        for _ in range(nobj):
            while True:
                sp = O.gen_obj(rng, kinds=['open', 'periodic', 'periodic', 'periodic'])
                if any(b['periodic'] >= 0 for b in sp['bases']):
                    break
            todo.append((sp, None))
    for spec, forced in todo:
        pd = len(spec['bases'])
        if not forced and rng.random() < 0.15:
            # the same periodic knot vector far from the origin and compressed (neighbouring knots closer than 1e-5 of their
            # magnitude, still thousands of tolerances apart): opening, rolling and lowering must keep them apart
            for b_ in spec['bases']:
                if b_['periodic'] >= 0:
                    k0_ = b_['knots'][0]
                    b_['knots'] = [4096 + (x_ - k0_) / 64 for x_ in b_['knots']]
        o = O.make_impl(spec)
        pre = O.snapshot(o)
        pdirs = [d for d, b in enumerate(spec['bases']) if b['periodic'] >= 0]
        if forced:
            op, d, arg = forced['op'], forced['direction'], forced.get('arg')
        else:
            d = rng.choice(pdirs)
            op = rng.choice(['wrap', 'wrap', 'seam', 'seam', 'open_close', 'open_close', 'lower', 'lower'])
            b = spec['bases'][d]
            arg = None
            if op == 'lower':
                arg = rng.randint(-1, b['periodic'])
        b = spec['bases'][d]
        dist['op'][op] = dist['op'].get(op, 0) + 1
        dist['pardim'][pd] = dist['pardim'].get(pd, 0) + 1
        dist['order'][b['order']] = dist['order'].get(b['order'], 0) + 1
        dist['continuity'][b['periodic']] = dist['continuity'].get(b['periodic'], 0) + 1
        dist['nfun'][O.nfun(b)] = dist['nfun'].get(O.nfun(b), 0) + 1
        case = dict(op=op, direction=d, arg=arg, obj=O.spec_json(pre))
        s_, e_ = O.domain(b)
        T = e_ - s_
        ent = dict(case=case, pre=pre, op=op, d=d, arg=arg, err=None)
        try:
            if op == 'wrap':
                # evaluation at t and t + z T (implementation, all directions at interior points)
                base = []
                for bb in spec['bases']:
                    a_, b_ = O.domain(bb)
                    base.append(a_ + (b_ - a_) * Fr(rng.randint(1, 63), 64))
                z = rng.choice([-3, -2, -1, 1, 2, 3])
                sh = list(base)
                sh[d] = base[d] + z * T
                v0 = np.asarray(o.evaluate(*[float(x) for x in base]))
                v1 = np.asarray(o.evaluate(*[float(x) for x in sh]))
                ent['wrap'] = (base, sh, v0, v1)
            elif op == 'seam':
                base = []
                for bb in spec['bases']:
                    a_, b_ = O.domain(bb)
                    base.append(a_ + (b_ - a_) * Fr(rng.randint(1, 63), 64))
                res = []
                for dd in range(0, b['periodic'] + 1):
                    if spec['rational'] and dd > 1:
                        break
                    al = [0] * pd
                    al[d] = dd
                    pa = list(base)
                    pa[d] = s_
                    pb = list(base)
                    pb[d] = e_
                    ab_a = [True] * pd
                    ab_b = [True] * pd
                    ab_b[d] = False
                    fa = [float(x) for x in pa]
                    fb = [float(x) for x in pb]
                    if pd == 1:
                        va = o.derivative(fa[0], d=dd, above=True)
                        vb = o.derivative(fb[0], d=dd, above=False)
                    else:
                        va = o.derivative(*fa, d=tuple(al), above=tuple(ab_a))
                        vb = o.derivative(*fb, d=tuple(al), above=tuple(ab_b))
                    # the same one-sided limits at other images of the seam (seam + m*period, m outside {0, 1})
                    m_b = rng.choice([-2, -1, 0, 2, 3])
                    m_a = rng.choice([-2, -1, 1, 2, 3])
                    fb2 = list(fb)
                    fb2[d] = float(s_ + m_b * T)
                    fa2 = list(fa)
                    fa2[d] = float(s_ + m_a * T)
                    if pd == 1:
                        va2 = o.derivative(fa2[0], d=dd, above=True)
                        vb2 = o.derivative(fb2[0], d=dd, above=False)
                    else:
                        va2 = o.derivative(*fa2, d=tuple(al), above=tuple(ab_a))
                        vb2 = o.derivative(*fb2, d=tuple(al), above=tuple(ab_b))
                    res.append((dd, np.asarray(va), np.asarray(vb), np.asarray(va2), np.asarray(vb2), m_a, m_b))
                ent['seam'] = res
            elif op == 'open_close':
                opened = o.split(float(s_), d)
                ent['opened'] = O.snapshot(opened)
                closed = opened.make_periodic(b['periodic'], d)
                ent['closed'] = O.snapshot(closed)
            else:
                ret = o.lower_periodic(arg, d)
                if ret is not o:
                    V.failure(dict(case, what='lower_periodic did not return the object itself'))
                if not O.finite(o):
                    V.failure(dict(case, what='L2: lower_periodic produced non-finite control points'))
                    continue
                ent['post'] = O.snapshot(o)
        except Exception as e:  # noqa
            ent['err'] = type(e).__name__
            dist['errors'][ent['err']] = dist['errors'].get(ent['err'], 0) + 1
        cases.append(ent)
    lines, idx = [], []
    for c in cases:
        e = {}
        pre = c['pre']
        if c['err'] is None and c['op'] == 'open_close':
            e['l1'] = len(lines)
            lines.append('obj_make_periodic %s %d %d' % (O.obj_tokens(c['opened']), pre['bases'][c['d']]['periodic'], c['d']))
        elif c['op'] == 'lower':
            e['l1'] = len(lines)
            lines.append('obj_lower_periodic %s %d %d' % (O.obj_tokens(pre), c['arg'] + 1, c['d']))
            if c['err'] is None:
                pr = O.probe_tuples(rng, pre, tol, n_random=3, with_outside_periodic=False)
                # the lowered object keeps the domain start; probes of the old domain are valid for both (wrapped)
                e['probes'] = pr
                e['ev_pre'] = len(lines)
                lines.append(O.eval_cmd(tol, pre, pr))
                e['ev_post'] = len(lines)
                lines.append(O.eval_cmd(tol, c['post'], pr))
        idx.append(e)
    outs = C.run_model(lines)
    evals = 0
    nontriv = set()
    corr_bad = C.Corr()
    samples = []
    for c, e in zip(cases, idx):
        evals += 1
        case, pre, op = c['case'], c['pre'], c['op']
        nontriv.add(C.case_hash(case))
        b = pre['bases'][c['d']]
        if c['err'] is not None:
            V.failure(dict(case, what='L2: %s raised %s' % (op, c['err'])))
            continue
        if op == 'wrap':
            base, sh, v0, v1 = c['wrap']
            if not np.allclose(v0, v1, rtol=1e-9, atol=1e-9 * max(1.0, np.abs(v0).max())):
                V.failure(dict(case, what='L2: evaluation at t and t + z*period differ', t=[str(x) for x in base], t_shifted=[str(x) for x in sh],
                               values=[v0.tolist(), v1.tolist()]))
        elif op == 'seam':
            for dd, va, vb, va2, vb2, m_a, m_b in c['seam']:
                sc = max(1.0, np.abs(va).max())
                if not np.allclose(va, vb, rtol=1e-8, atol=1e-8 * sc):
                    V.failure(dict(case, what='L2: derivative of order %d differs across the seam (periodic continuity %d)' % (dd, b['periodic']),
                                   from_above=va.tolist(), from_below=vb.tolist()))
                    break
                if not (np.isfinite(va2).all() and np.allclose(va, va2, rtol=1e-8, atol=1e-8 * sc)):
                    V.failure(dict(case, what='L2: derivative of order %d from above at seam%+d periods differs from the one at the seam' % (dd, m_a),
                                   at_seam=va.tolist(), at_image=va2.tolist()))
                    break
                if not (np.isfinite(vb2).all() and np.allclose(vb, vb2, rtol=1e-8, atol=1e-8 * sc)):
                    V.failure(dict(case, what='L2: derivative of order %d from below at seam%+d periods differs from the one at the domain end' % (dd, m_b),
                                   at_end=vb.tolist(), at_image=vb2.tolist()))
                    break
        elif op == 'open_close':
            tk = outs[e['l1']]
            l1_agrees = False
            if tk.peek() == 'Err':
                tk.word()
                if corr_bad.open():
                    corr_bad += dict(case, what='L1: model make_periodic raises %s, implementation succeeds' % tk.word())
            else:
                tk.word()
                dfr = O.snaps_differ(c['closed'], O.read_obj(tk))
                l1_agrees = not dfr
                if dfr:
                    # the implementation no longer does what the transcription of make_periodic does: never a known finding
                    V.failure(dict(case, what='L1: make_periodic result differs from the transcribed model: ' + dfr, l1=True))
            dfr = O.snaps_differ(c['closed'], pre)
            if dfr:
                V.failure(dict(case, what='L2: opening at the seam and closing again does not give back the object: ' + dfr,
                               impl_matches_transcription=l1_agrees))
        else:
            tk = outs[e['l1']]
            if tk.peek() == 'Err':
                tk.word()
                if corr_bad.open():
                    corr_bad += dict(case, what='L1: model lower_periodic raises %s, implementation succeeds' % tk.word())
            else:
                tk.word()
                dfr = O.snaps_differ(c['post'], O.read_obj(tk))
                if dfr and corr_bad.open():
                    corr_bad += dict(case, what='L1: lower_periodic result differs from model: ' + dfr)
            post = c['post']
            if post['bases'][c['d']]['periodic'] != c['arg']:
                V.failure(dict(case, what='L2: periodicity after lower_periodic is %d, requested %d' % (post['bases'][c['d']]['periodic'], c['arg'])))
            va = O.parse_eval(outs[e['ev_pre']])
            vb = O.parse_eval(outs[e['ev_post']])
            # a lowered non-periodic direction no longer wraps: only in-domain probes are comparable
            df = O.maps_differ(va, vb)
            if df:
                V.failure(dict(case, what='L2: lowering the periodic continuity changed the map: ' + df[1], param=[str(x) for x in e['probes'][df[0]]]))
        if len(samples) < 3 and op == 'open_close':
            samples.append(case)
    rc = V.finish(l0, corr_bad)
    C.write_evidence(PID, tier, seed, l0, {
        'evaluations': evals, 'distinct_nontrivial': len(nontriv),
        'rule': 'random objects with at least one periodic direction (orders 2-6, every continuity, 1-8 functions, pardim 1-3); '
                'wrap by +-1..3 periods, derivatives across the seam up to the periodic continuity, split(seam) then make_periodic, lower_periodic to every level; '
                'non-trivial = distinct (object, operation)',
        'traces_validated_against_impl': evals,
        'input_distribution': {k: {str(a): b for a, b in v.items()} for k, v in dist.items()},
        'samples': samples or [cases[0]['case']],
    }, t0, V.nviol, known=V.known)
    return rc


if __name__ == '__main__':
    sys.exit(C.guarded_main(PID, run))
