"""C20 — tolerances are honoured and global settings never leak."""
import os
import random
import sys
import time
from fractions import Fraction as Fr

sys.path.insert(0, os.path.dirname(os.path.dirname(os.path.abspath(__file__))))
import common as C
import objs as O
import gen_basis as G
import build_pyx

PID = 'C20'
KEYS = ['controlpoint_relative_tolerance', 'controlpoint_absolute_tolerance', 'parametric_relative_tolerance',
        'parametric_absolute_tolerance', 'knot_tolerance', 'unlimited']


class Boom(Exception):
    pass


def gen_prog(rng, depth):
    r = rng.random()
    if depth <= 0 or r < 0.25:
        c = rng.random()
        if c < 0.45:
            return ('A', rng.randrange(6), Fr(rng.randint(1, 99), rng.choice([1, 10, 100, 1000])))
        if c < 0.6:
            return ('R',)
        if c < 0.8:
            return ('C', rng.randrange(6))
        return ('K',)
    if r < 0.6:
        n = rng.randint(0, 3)
        kvs = [(rng.randrange(6), Fr(rng.randint(1, 99), rng.choice([1, 10, 100, 1000]))) for _ in range(n)]
        return ('W', kvs, gen_prog(rng, depth - 1))
    return ('S', gen_prog(rng, depth - 1), gen_prog(rng, depth - 1))


def prog_tokens(p):
    if p[0] == 'A':
        return 'A %d %s' % (p[1], C.qs(C.fr(float(p[2]))))
    if p[0] == 'W':
        return 'W %d %s %s' % (len(p[1]), ' '.join('%d %s' % (k, C.qs(C.fr(float(v)))) for k, v in p[1]), prog_tokens(p[2]))
    if p[0] == 'S':
        return 'S %s %s' % (prog_tokens(p[1]), prog_tokens(p[2]))
    if p[0] == 'C':
        return 'C %d' % p[1]
    return p[0]


def run(tier, seed, replay=None):
    t0 = time.time()
    V = C.Verdict(PID, tier, seed)
    l0 = C.l0_check(PID, thorough=(tier == 'thorough'))
    build_pyx.load_splipy()
    import numpy as np
    import splipy
    from splipy import state, BSplineBasis, Curve, Surface
    from splipy.state import state as state_cm
    import splipy.curve_factory as cf
    import splipy.surface_factory as sf
    from splipy.splinemodel import VertexDict, SplineModel
    rng = random.Random(seed)
    defaults = {k: getattr(state, k) for k in KEYS}
    dist = {'tolerance': {}, 'fuzz_factor': {}, 'prog_depth': {}, 'api_calls': {}}
    evals = 0
    nontriv = set()
    corr_bad = C.Corr()
    samples = []

    # ------------------------------------------------------------------ A: knot tolerance in evaluation / continuity
    tols = [1e-14, 1e-12, 1e-10, 1e-8, 1e-6, 1e-4, 1e-2]
    nb = 25 if tier == 'quick' else 120
    lines, meta = [], []
    for tolf in tols:
        tol = C.fr(tolf)
        with state_cm(knot_tolerance=tolf):
            for _ in range(nb):
                b = G.gen_basis(rng, kind=rng.choice(['open', 'open', 'periodic', 'nonopen']), pmax=5, nint_max=4)
                if b['order'] < 2:
                    continue
                kf = [float(x) for x in b['knots']]
                # a tolerance only means something when it is well above the floating-point resolution of the knots
                # (the library computes t +- tol and periodic wraps in floating point): rescale the knots otherwise
                import math
                if tolf < 256 * math.ulp(max(abs(v) for v in kf)):
                    continue
                try:
                    basis = BSplineBasis(b['order'], kf, b['periodic'])
                except ValueError:
                    continue
                s_, e_ = O.domain(b)
                uniq = sorted(set(x for x in b['knots'] if s_ <= x <= e_))
                pts = []
                for x in uniq:
                    for f in (Fr(1, 4), Fr(1, 2), Fr(3, 4), Fr(3, 2), Fr(4)):
                        for sg in (-1, 1):
                            if rng.random() < 0.35:
                                tf = float(x) + sg * float(f) * tolf
                                if abs(C.fr(tf) - x) in (tol,):
                                    continue
                                # the implementation compares t +- tol in floating point: stay clear of the tolerance boundary
                                # by a few ulp, otherwise rounding (not the tolerance) decides the comparison
                                import math
                                if abs(abs(C.fr(tf) - x) - tol) <= 4 * C.fr(math.ulp(max(abs(float(x)), abs(tf), 1e-300))):
                                    continue
                                pts.append((x, f, sg, tf))
                if not pts:
                    continue
                tfs = [p_[3] for p_ in pts]
                res = {}
                for d in (0, 1):
                    for fr_ in (True, False):
                        res[(d, fr_)] = (basis.evaluate(tfs, d, fr_), basis.evaluate([float(p_[0]) for p_ in pts], d, fr_))
                        lines.append('basis_evaluate %s %d %d %s %d %d %s' % (C.qlist(b['knots']), b['order'], b['periodic'] + 1, C.qs(tol), d, int(fr_), C.qlist([C.fr(t) for t in tfs])))
                        meta.append(('eval', b, pts, d, fr_, res[(d, fr_)], tolf))
                conts = []
                for (x, f, sg, tf) in pts:
                    try:
                        conts.append((basis.continuity(tf), basis.continuity(float(x))))
                    except ValueError:
                        conts.append(('ValueError', None))
                lines.append('basis_continuity %s %s %s' % (C.qs(tol), O.basis_tokens(b), C.qlist([C.fr(t) for t in tfs])))
                meta.append(('cont', b, pts, None, None, conts, tolf))
                dist['tolerance'][tolf] = dist['tolerance'].get(tolf, 0) + len(pts)
                for (_, f, _, _) in pts:
                    dist['fuzz_factor'][str(f)] = dist['fuzz_factor'].get(str(f), 0) + 1
                # object level: fuzz just outside the ends must not raise when within tolerance
                if b['periodic'] < 0 and b.get('kind') == 'open':
                    n = O.nfun(b)
                    c = Curve(basis, np.arange(2 * n, dtype=float).reshape(n, 2), raw=True)
                    for (edge, sg) in ((s_, -1), (e_, 1)):
                        for f in (Fr(1, 2), Fr(4)):
                            tf = float(edge) + sg * float(f) * tolf
                            if C.fr(tf) == edge:
                                continue
                            evals += 1
                            try:
                                v = c.evaluate(tf)
                                ok = (f < 1) and np.allclose(v, c.evaluate(float(edge)), rtol=0, atol=0)
                                if not ok:
                                    V.failure({'what': 'evaluation %s the domain end by %s*tol: %s' % ('beyond', f, 'returned a value instead of raising' if f > 1 else 'differs from the end value'),
                                               'tolerance': tolf, 'basis': dict(order=b['order'], knots=[str(x) for x in b['knots']]), 't_hex': tf.hex()})
                            except ValueError:
                                if f < 1:
                                    V.failure({'what': 'rounding fuzz (%s*tol) outside the domain end raised ValueError' % f, 'tolerance': tolf,
                                               'basis': dict(order=b['order'], knots=[str(x) for x in b['knots']]), 't_hex': tf.hex()})
    outs = C.run_model(lines)
    for tk, m in zip(outs, meta):
        kind, b, pts, d, fr_, res, tolf = m
        case0 = dict(tolerance=tolf, basis=dict(order=b['order'], knots=[str(x) for x in b['knots']], periodic=b['periodic']))
        if kind == 'eval':
            rows = tk.list(tk.qlist)
            Nt, Nk = res
            for i, (x, f, sg, tf) in enumerate(pts):
                evals += 1
                nontriv.add(C.case_hash([case0, tf, d, fr_]))
                sc = max([1.0] + [abs(float(v)) for v in rows[i]])
                if not all(C.close(Nt[i, j], rows[i][j], sc) for j in range(Nt.shape[1])) and corr_bad.open():
                    corr_bad += dict(case0, what='L1: evaluate under knot_tolerance differs from model', t_hex=tf.hex(), d=d, from_right=fr_)
                if f < 1:
                    if not np.array_equal(Nt[i], Nk[i]):
                        V.failure(dict(case0, what='L2: parameter within %s*tol of a knot is not evaluated as that knot' % f, t_hex=tf.hex(), knot=str(x), d=d, from_right=fr_))
        else:
            n = tk.int()
            for i, (x, f, sg, tf) in enumerate(pts):
                evals += 1
                tag = tk.word()
                if tag == 'Err':
                    mv = tk.word()
                else:
                    has = tk.int()
                    mv = int(tk.word()) if has else float('inf')
                iv, ik = res[i]
                if iv != mv and not (iv == 'ValueError' and mv == 'ValueError') and corr_bad.open():
                    corr_bad += dict(case0, what='L1: continuity(%r) = %r, model %r' % (tf, iv, mv))
                s_, e_ = O.domain(b)
                if f < 1 and iv != 'ValueError' and s_ <= C.fr(tf) <= e_ and iv != ik:
                    V.failure(dict(case0, what='L2: continuity at a parameter within %s*tol of a knot (%r) differs from the knot\'s (%r)' % (f, iv, ik), t_hex=tf.hex(), knot=str(x)))
    # ------------------------------------------------------------------ B: vertices
    lines = []
    vmeta = []
    for atol in [1e-12, 1e-8, 1e-5, 1e-2]:
        for rtol in [0.0, 0.0, 1e-6, 1e-3]:
            for _ in range(6 if tier == 'quick' else 60):
                base = [[float(Fr(rng.randint(-40, 40), 4)) for _ in range(rng.choice([2, 3]))] for _ in range(4)]
                pts = []
                for p_ in base:
                    pts.append(list(p_))
                    for fac in ((0.5, 2.0, 10.0) if rng.random() < 0.5 else (0.25, 0.5, 40.0)):
                        q = list(p_)
                        q[rng.randrange(len(q))] += fac * atol * rng.choice([-1, 1])
                        pts.append(q)
                rng.shuffle(pts)
                pts = [p_ for p_ in pts if len(p_) == len(pts[0])]
                # skip configurations in which a stored coordinate sits on the edge of a look-up window up to rounding
                # (there the floating-point division in _bounds, not the tolerance, decides)
                def _bounds(key):
                    k, a, r = C.fr(key), C.fr(atol), C.fr(rtol)
                    if k >= a:
                        return (k - a) / (1 + r), (k + a) / (1 - r)
                    if k <= -a:
                        return (k - a) / (1 - r), (k + a) / (1 + r)
                    return (k - a) / (1 - r), (k + a) / (1 - r)
                tie = False
                for q_ in pts:
                    for st in pts:
                        for kq, vs in zip(q_, st):
                            lo_, hi_ = _bounds(kq)
                            v_ = C.fr(vs)
                            if min(abs(v_ - lo_), abs(v_ - hi_)) <= Fr(1, 10 ** 9) * max(1, abs(v_)) * C.fr(atol) * 10 ** 3:
                                tie = True
                if tie:
                    continue
                # which of several matching stored vertices is returned is not specified (the library iterates a set):
                # keep only configurations in which every query matches at most one stored vertex
                stored, amb = [], False
                for q_ in pts:
                    m_ = [st for st in stored if all(_bounds(kq)[0] <= C.fr(vs) < _bounds(kq)[1] for kq, vs in zip(q_, st))]
                    if len(m_) > 1:
                        amb = True
                    if not m_:
                        stored.append(q_)
                # ... also afterwards: a point looked up later must not match a vertex that was stored after it either
                for q_ in pts:
                    if len([st for st in stored if all(_bounds(kq)[0] <= C.fr(vs) < _bounds(kq)[1] for kq, vs in zip(q_, st))]) > 1:
                        amb = True
                if amb:
                    continue
                vd = VertexDict(rtol=rtol, atol=atol)
                ids = []
                for p_ in pts:
                    ids.append(vd.setdefault(np.array(p_), len(vd._keys)))
                # L2 (no model): a stored vertex is found again; points within atol/2 are one vertex, points clearly
                # farther apart (3 * (atol + rtol * |v|) in some coordinate) are distinct
                def _rel(p_, q_):
                    if max(abs(a_ - b_) for a_, b_ in zip(p_, q_)) <= 0.5 * atol:
                        return 'within'
                    if any(abs(a_ - b_) > 3 * (atol + rtol * max(abs(a_), abs(b_))) for a_, b_ in zip(p_, q_)):
                        return 'far'
                    return 'gray'
                # the pair assertions presume well separated clusters (identification by tolerance is not transitive):
                # they are made only when no pair of the set is in the gray zone between "within" and "clearly farther"
                clustered = all(_rel(p_, q_) != 'gray' for i_, p_ in enumerate(pts) for q_ in pts[:i_])
                for i_, p_ in enumerate(pts):
                    evals += 1
                    try:
                        if vd[np.array(p_)] != ids[i_]:
                            V.failure({'what': 'L2: VertexDict: looking up a point after insertion gives another vertex', 'atol': atol, 'rtol': rtol, 'points': pts, 'point': p_})
                    except KeyError:
                        V.failure({'what': 'L2: VertexDict: a point that was inserted is not found again (KeyError)', 'atol': atol, 'rtol': rtol, 'points': pts, 'point': p_})
                    for j_ in range(i_ if clustered else 0):
                        q_ = pts[j_]
                        dmax = max(abs(a_ - b_) for a_, b_ in zip(p_, q_))
                        far = _rel(p_, q_) == 'far'
                        if dmax <= 0.5 * atol and ids[i_] != ids[j_]:
                            V.failure({'what': 'L2: VertexDict: two points within atol/2 of each other are different vertices', 'atol': atol, 'rtol': rtol, 'points': pts, 'pair': [p_, q_]})
                        if far and ids[i_] == ids[j_]:
                            V.failure({'what': 'L2: VertexDict: two points clearly farther apart than the tolerance are one vertex', 'atol': atol, 'rtol': rtol, 'points': pts, 'pair': [p_, q_]})
                lines.append('vd_insert_all %s %s %d %s' % (C.qs(C.fr(rtol)), C.qs(C.fr(atol)), len(pts), ' '.join(C.qlist([C.fr(x) for x in p_]) for p_ in pts)))
                vmeta.append((atol, rtol, pts, ids))
    outs = C.run_model(lines)
    for tk, (atol, rtol, pts, ids) in zip(outs, vmeta):
        evals += 1
        mids = tk.list(tk.int)
        nontriv.add(C.case_hash([atol, rtol, pts]))
        if mids != ids and corr_bad.open():
            corr_bad += {'what': 'L1: VertexDict identification differs from model', 'atol': atol, 'rtol': rtol, 'points': pts, 'impl': ids, 'model': mids}
    # configured tolerances reach the model catalogue: two segments sharing an end point up to a perturbation
    for tolf in [1e-10, 1e-6, 1e-3]:
        for fac, same in ((0.5, True), (4.0, False)):
            with state_cm(controlpoint_absolute_tolerance=tolf, controlpoint_relative_tolerance=0.0):
                m = SplineModel(pardim=1, dimension=2)
                m.add(cf.line([0, 0], [1, 0]))
                m.add(cf.line([1 + fac * tolf, 0], [2, 1]))
                nv = len(m.catalogue.nodes(0))
            evals += 1
            if (nv == 3) != same:
                V.failure({'what': 'L2: end points %s*tol apart are %s in the model catalogue' % (fac, 'distinct vertices' if same else 'one vertex'),
                           'controlpoint_absolute_tolerance': tolf, 'vertices': nv})
    # the relative control-point tolerance, entry by entry: two curves whose nets differ in ONE small entry by far more than
    # atol + rtol*|entry| are distinct objects, however large the other coordinates are; below that they are one
    from splipy.splinemodel import Orientation, OrientationError
    for rtolf in [1e-6, 1e-3]:
        for big in [1.0, 50.0, 4096.0]:
            for fac, same in ((0.25, True), (40.0, False)):
                small = 0.002
                delta = fac * rtolf * small
                a_ = Curve(BSplineBasis(2, [0, 0, 1, 2, 2]), [[0.0, 0.0], [small, big], [1.0, 2 * big]])
                b_ = Curve(BSplineBasis(2, [0, 0, 1, 2, 2]), [[0.0, 0.0], [small + delta, big], [1.0, 2 * big]])
                with state_cm(controlpoint_absolute_tolerance=1e-12, controlpoint_relative_tolerance=rtolf):
                    try:
                        Orientation.compute(a_, b_)
                        matched = True
                    except OrientationError:
                        matched = False
                    m_ = SplineModel(pardim=1, dimension=2)
                    m_.add(a_)
                    try:
                        m_.add(b_, raise_on_twins=False)
                        nedge = len(m_.catalogue.nodes(1))
                    except Exception as e:  # noqa
                        nedge = type(e).__name__
                evals += 1
                if matched != same or nedge != (1 if same else 2):
                    V.failure({'what': 'L2: curves whose nets differ in one entry by %s*rtol*|entry| are %s by Orientation.compute and give %s edge node(s)'
                                       % (fac, 'matched' if matched else 'distinct', nedge),
                               'controlpoint_relative_tolerance': rtolf, 'other_coordinates': big, 'entry': small, 'difference': delta})
    # ------------------------------------------------------------------ C: programs over state()
    lines, pmeta = [], []
    nprog = 700 if tier == 'quick' else 6000
    for _ in range(nprog):
        depth = rng.randint(1, 5)
        p = gen_prog(rng, depth)
        dist['prog_depth'][depth] = dist['prog_depth'].get(depth, 0) + 1
        for k, v in defaults.items():
            setattr(state, k, v)
        init = [C.fr(getattr(state, k)) for k in KEYS]
        leaks = []

        def ex(q):
            if q[0] == 'A':
                setattr(state, KEYS[q[1]], float(q[2]))
            elif q[0] == 'W':
                before = [getattr(state, k) for k in KEYS]
                try:
                    with state_cm(**{KEYS[k]: float(v) for k, v in q[1]}):
                        inside = [getattr(state, k) for k in KEYS]
                        for k, v in dict(q[1]).items():
                            if inside[k] != float(dict(q[1])[k]):
                                leaks.append('setting %s not applied inside the block' % KEYS[k])
                        ex(q[2])
                finally:
                    after = [getattr(state, k) for k in KEYS]
                    if after != before:
                        leaks.append('with-block did not restore: %r -> %r' % (before, after))
            elif q[0] == 'S':
                ex(q[1])
                ex(q[2])
            elif q[0] == 'R':
                raise Boom()
            elif q[0] == 'C':
                api = q[1]
                dist['api_calls'][api] = dist['api_calls'].get(api, 0) + 1
                try:      # absurd tolerance values may make a call fail; only its effect on the settings matters
                    c = cf.circle(r=2)
                    if api == 0:
                        c.evaluate(0.3)
                    elif api == 1:
                        c.clone().insert_knot(0.37)
                    elif api == 2:
                        sf.cylinder().evaluate(0.1, 0.2)
                    elif api == 3:
                        c.clone().raise_order(1)
                    elif api == 4:
                        c.split([0.5, 1.5])
                    else:
                        SplineModel(pardim=1, dimension=2).add(cf.line([0, 0], [1, 1]))
                except Boom:
                    raise
                except Exception:  # noqa
                    pass
        normal = True
        try:
            ex(p)
        except Boom:
            normal = False
        final = [getattr(state, k) for k in KEYS]
        lines.append('state_exec %s %s' % (C.qlist(init), prog_tokens(p)))
        pmeta.append((p, final, normal, leaks))
    for k, v in defaults.items():
        setattr(state, k, v)
    outs = C.run_model(lines)
    for tk, (p, final, normal, leaks) in zip(outs, pmeta):
        evals += 1
        nontriv.add(C.case_hash(prog_tokens(p)))
        mv = tk.qlist()
        mok = bool(tk.int())
        if ([C.fr(x) for x in final] != mv or normal != mok) and corr_bad.open():
            corr_bad += {'what': 'L1: settings after the program differ from the model', 'program': prog_tokens(p), 'impl': final, 'model': [float(x) for x in mv],
                        'impl_normal_exit': normal, 'model_normal_exit': mok}
        for l in leaks:
            V.failure({'what': 'L2: ' + l, 'program': prog_tokens(p)})
        if len(samples) < 3 and not normal and p[0] == 'W':
            samples.append({'program': prog_tokens(p), 'final': final})
    # ------------------------------------------------------------------ D: no library call changes a setting
    import tempfile
    from splipy.io import G2
    calls = []
    tmpd = os.path.join(C.BUILD, 'tmp')
    os.makedirs(tmpd, exist_ok=True)

    def g2_roundtrip():
        fn = os.path.join(tmpd, 'c20_%d.g2' % os.getpid())
        with G2(fn) as f:
            f.write([cf.circle(), sf.sphere()])
        with G2(fn) as f:
            f.read()
        os.remove(fn)

    def g2_trimmed():
        fn = os.path.join(C.REPO, 'test', 'io', 'geometries', 'winglet_from_step.g2')
        with G2(fn) as f:
            f.read()
    def g2_trimmed_broken():
        """a trimmed surface whose trimming loop is NOT closed within the file's own tolerance: the reader raises, and must
        still leave every global setting as it found it"""
        import tempfile
        def crv2(a, b):
            return '0 100 100\n2 0\n2 2\n0 0 1 1\n%g %g\n%g %g\n\n3 0\n2 2\n0 0 1 1\n%g %g 0\n%g %g 0\n' % (a[0], a[1], b[0], b[1], a[0], a[1], b[0], b[1])
        corners = [(0.1, 0.1), (0.9, 0.1), (0.9, 0.9), (0.1, 0.9)]
        txt = '210 1 0 0\n200\n3 0\n2 2\n0 0 1 1\n2 2\n0 0 1 1\n0 0 0\n1 0 0\n0 1 0\n1 1 0\n\n1\n4 0.001\n'
        for i_ in range(4):
            a_, b_ = corners[i_], corners[(i_ + 1) % 4]
            if i_ == 3:
                b_ = (b_[0] + 0.05, b_[1])        # the loop misses its starting point by 0.05
            txt += crv2(a_, b_) + '\n'
        d_ = tempfile.mkdtemp(prefix='c20_')
        fn = os.path.join(d_, 'broken.g2')
        try:
            open(fn, 'w').write(txt)
            with G2(fn) as f:
                f.read()
        finally:
            import shutil
            shutil.rmtree(d_, ignore_errors=True)
    API = [('g2 trimmed surface with an open loop (the reader raises)', g2_trimmed_broken), ('curve.evaluate', lambda: cf.circle().evaluate([0.1, 0.2])), ('surface.derivative', lambda: sf.sphere().derivative(0.3, 0.4, d=(1, 0))),
           ('insert_knot', lambda: cf.circle().insert_knot(0.3)), ('refine', lambda: sf.square().refine(2)),
           ('raise_order', lambda: sf.disc().raise_order(1)), ('split', lambda: cf.circle().split([1.0, 2.0])),
           ('reverse', lambda: sf.cylinder().reverse(0)), ('make_identical', lambda: splipy.SplineObject.make_splines_identical(cf.circle(), cf.line([0, 0], [1, 1]))),
           ('length', lambda: cf.circle().length()), ('factories', lambda: (sf.torus(), cf.n_gon(5), sf.revolve(cf.line([1, 0, 0], [2, 0, 1])))),
           ('interpolate', lambda: cf.cubic_curve(np.array([[0, 0], [1, 1], [2, 0], [3, 1]]))), ('model', lambda: SplineModel(2, 2).add(sf.square())),
           ('g2 write/read', g2_roundtrip), ('g2 trimmed surfaces', g2_trimmed), ('edge_curves', lambda: sf.edge_curves(cf.line([0, 0], [1, 0]), cf.line([0, 1], [1, 1])))]
    for name, fn in API:
        before = {k: getattr(state, k) for k in KEYS}
        err = None
        try:
            fn()
        except Exception as e:  # noqa
            err = type(e).__name__
        after = {k: getattr(state, k) for k in KEYS}
        evals += 1
        if after != before:
            V.failure({'what': 'L2: library call %s changed global settings' % name, 'before': before, 'after': after})
            for k, v in before.items():
                setattr(state, k, v)
    rc = V.finish(l0, corr_bad)
    C.write_evidence(PID, tier, seed, l0, {
        'evaluations': evals, 'distinct_nontrivial': len(nontriv),
        'rule': 'knot tolerances 1e-14..1e-2: parameters at knot +- {1/4,1/2,3/4,3/2,4} tol (values, first derivatives, both sides, continuity, fuzz beyond domain ends); '
                'VertexDict with separations {1/2,2,10} atol; catalogue vertex identification under configured tolerances; random programs over state() '
                '(nesting depth <= 5, raise at any position, library calls inside blocks) executed with the real context manager; settings monitor around API calls; '
                'non-trivial = distinct cases',
        'traces_validated_against_impl': evals,
        'input_distribution': {k: {str(a): b for a, b in v.items()} for k, v in dist.items()},
        'samples': samples or [{'note': 'none'}],
    }, t0, V.nviol, known=V.known)
    return rc


if __name__ == '__main__':
    sys.exit(C.guarded_main(PID, run))
