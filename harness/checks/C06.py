"""C06 — reverse, swap and reparam are exact reparametrisations."""
import os
import random
import sys
import time
from fractions import Fraction as Fr

sys.path.insert(0, os.path.dirname(os.path.dirname(os.path.abspath(__file__))))
import common as C
import objs as O
import build_pyx

PID = 'C06'
DIRNAMES = [[0, 'u', 'U'], [1, 'v', 'V'], [2, 'w', 'W']]


def jumps(b, t, tol):
    s_, e_ = O.domain(b)
    return sum(1 for x in b['knots'] if abs(x - t) < tol) >= b['order'] and s_ < t < e_


def probes(rng, snap, tol, with_knots):
    per_dir = []
    for b in snap['bases']:
        s, e = O.domain(b)
        pts = [s, e] + [s + (e - s) * Fr(j, 64) for j in rng.sample(range(1, 64), 4)]
        if with_knots:
            pts += [x for x in sorted(set(b['knots'])) if s < x < e and not jumps(b, x, tol)]
        per_dir.append(pts)
    tuples = []
    base = [rng.choice(p) for p in per_dir]
    for d, pts in enumerate(per_dir):
        for x in pts:
            tp = list(base)
            tp[d] = x
            tuples.append(tuple(tp))
    for _ in range(3):
        tuples.append(tuple(rng.choice(p) for p in per_dir))
    return tuples


def run(tier, seed, replay=None):
    t0 = time.time()
    V = C.Verdict(PID, tier, seed)
    O.FAR_PROB = 0.08     # some objects live far from the origin on compressed knot vectors
    l0 = C.l0_check(PID, thorough=(tier == 'thorough'))
    build_pyx.load_splipy()
    import numpy as np
    from splipy import state
    rng = random.Random(seed)
    tolf = state.knot_tolerance
    tol = C.fr(tolf)
    nobj = 250 if tier == 'quick' else 2500
    hist_len = 5 if tier == 'quick' else 8
    steps = []
    dist = {'op': {}, 'pardim': {}, 'periodic_dir': {}, 'errors': {}, 'spelling': {}}
    if replay:
        import json
        rc = json.load(open(replay))
        rc = rc.get('case', rc)
        specs = [O.spec_from_json(rc['obj'])]
        forced_ops = [rc]
    else:
        specs = [O.gen_obj(rng, kinds=['open', 'open', 'nonopen', 'periodic']) for _ in range(nobj)]
        forced_ops = None
    for spec in specs:
        o = O.make_impl(spec)
        pd = len(spec['bases'])
        dist['pardim'][pd] = dist['pardim'].get(pd, 0) + 1
        for stepno in range(hist_len if not forced_ops else 1):
            pre = O.snapshot(o)
            if forced_ops:
                f = forced_ops[0]
                op, args = f['op'], f['args']
            else:
                op = rng.choice(['reverse', 'reverse', 'swap', 'reparam_dir', 'reparam_dir', 'reparam_all'])
                if op == 'reverse':
                    args = [rng.randrange(pd)]
                elif op == 'swap':
                    args = rng.sample(range(pd), 2) if pd > 1 else [0, 1]
                    if pd > 1 and rng.random() < 0.2:
                        args = [args[0], args[0]]      # swapping a direction with itself is the identity
                elif op == 'reparam_dir':
                    s_ = Fr(rng.randint(-16, 16), rng.choice([1, 2, 4]))
                    bad = rng.random() < 0.08
                    e_ = s_ - Fr(rng.randint(0, 3)) if bad else s_ + Fr(rng.randint(1, 24), rng.choice([1, 2, 4]))
                    if rng.random() < 0.2:
                        # a domain that is almost, but not exactly, the unit interval (what splitting at 1 - 4e-6 leaves behind):
                        # later reparametrisations must still hit the requested interval exactly
                        s_ = rng.choice([Fr(0), Fr(1, 2 ** 30), Fr(-1, 2 ** 28)])
                        e_ = 1 + rng.choice([-1, -1, 1]) * Fr(1, 2 ** rng.choice([18, 20, 27]))
                    args = [rng.randrange(pd), str(s_), str(e_)]
                else:
                    k = rng.randint(0, pd)
                    rs = []
                    for _ in range(k):
                        s_ = Fr(rng.randint(-16, 16), rng.choice([1, 2, 4]))
                        e_ = s_ + Fr(rng.randint(1, 24), rng.choice([1, 2, 4]))
                        rs.append([str(s_), str(e_)])
                    args = rs
            dist['op'][op] = dist['op'].get(op, 0) + 1
            case = dict(op=op, args=args, obj=O.spec_json(pre))
            err = None
            try:
                if op == 'reverse':
                    sp = rng.choice(DIRNAMES[args[0]])
                    dist['spelling'][str(sp)] = dist['spelling'].get(str(sp), 0) + 1
                    ret = o.reverse(sp)
                    if ret is not o:
                        V.failure(dict(case, what='reverse did not return the object itself'))
                elif op == 'swap':
                    ret = o.swap(rng.choice(DIRNAMES[args[0]]), rng.choice(DIRNAMES[args[1]])) if pd > 1 else o.swap()
                elif op == 'reparam_dir':
                    ret = o.reparam((float(Fr(args[1])), float(Fr(args[2]))), direction=rng.choice(DIRNAMES[args[0]]))
                else:
                    ret = o.reparam(*[(float(Fr(a)), float(Fr(b))) for a, b in args])
            except Exception as e:  # noqa
                err = type(e).__name__
                dist['errors'][err] = dist['errors'].get(err, 0) + 1
            post = O.snapshot(o)
            steps.append(dict(case=case, pre=pre, post=post, err=err, op=op, args=args))
            if err is not None:
                break
    lines = []
    idx = []
    for st in steps:
        pre, post, op, args = st['pre'], st['post'], st['op'], st['args']
        ent = {'l1': len(lines)}
        if op == 'reverse':
            lines.append('obj_reverse %s %d' % (O.obj_tokens(pre), args[0]))
        elif op == 'swap':
            lines.append('obj_swap %s %d %d' % (O.obj_tokens(pre), args[0], args[1]))
        elif op == 'reparam_dir':
            lines.append('obj_reparam_dir %s %d %s %s' % (O.obj_tokens(pre), args[0], C.qs(Fr(args[1])), C.qs(Fr(args[2]))))
        else:
            lines.append('obj_reparam_all %s %d %s' % (O.obj_tokens(pre), len(args), ' '.join('%s %s' % (C.qs(Fr(a)), C.qs(Fr(b))) for a, b in args)))
        if st['err'] is None:
            pr = probes(rng, pre, tol, with_knots=(op in ('reverse', 'swap')))
            mapped = []
            pd = len(pre['bases'])
            for tp in pr:
                tp2 = list(tp)
                if op == 'reverse':
                    s_, e_ = O.domain(pre['bases'][args[0]])
                    tp2[args[0]] = s_ + e_ - tp[args[0]]
                elif op == 'swap' and pd > 1:
                    tp2[args[0]], tp2[args[1]] = tp[args[1]], tp[args[0]]
                elif op == 'reparam_dir':
                    s_, e_ = O.domain(pre['bases'][args[0]])
                    a_, b_ = Fr(args[1]), Fr(args[2])
                    tp2[args[0]] = a_ + (tp[args[0]] - s_) / (e_ - s_) * (b_ - a_)
                elif op == 'reparam_all':
                    for d in range(pd):
                        s_, e_ = O.domain(pre['bases'][d])
                        a_, b_ = (Fr(args[d][0]), Fr(args[d][1])) if d < len(args) else (Fr(0), Fr(1))
                        tp2[d] = a_ + (tp[d] - s_) / (e_ - s_) * (b_ - a_)
                mapped.append(tuple(tp2))
            # keep only pairs whose mapped parameter is exactly representable and not at a jump of the object
            keep = [(a, b) for a, b in zip(pr, mapped)
                    if all(C.fr(float(x)) == x for x in b)
                    and not any(jumps(bb, t, tol) for bb, t in zip(pre['bases'], a))]
            if op == 'reverse':
                # at an interior knot the reversed object takes the limit from the other side; keep knots only where
                # the object is continuous (multiplicity < order), which 'jumps' already guarantees for the value
                pass
            ent['pairs'] = keep
            ent['ev_pre'] = len(lines)
            lines.append(O.eval_cmd(tol, pre, [a for a, _ in keep]))
            ent['ev_post'] = len(lines)
            lines.append(O.eval_cmd(tol, post, [b for _, b in keep]))
        idx.append(ent)
    outs = C.run_model(lines)
    evals = 0
    nontriv = set()
    corr_bad = C.Corr()
    samples = []
    for st, ent in zip(steps, idx):
        evals += 1
        case, pre, post, op, args = st['case'], st['pre'], st['post'], st['op'], st['args']
        nontriv.add(C.case_hash(case))
        tk = outs[ent['l1']]
        if op in ('reverse', 'swap'):
            mp = ('Ok', O.read_obj(tk))
        else:
            mp = ('Err', (tk.word(), tk.word())[1]) if tk.peek() == 'Err' else ('Ok', (tk.word(), O.read_obj(tk))[1])
        if mp[0] == 'Err':
            if st['err'] != mp[1] and corr_bad.open():
                corr_bad += dict(case, what='L1: model raises %s, implementation %s' % (mp[1], st['err'] or 'succeeds'))
        elif st['err'] is not None:
            if corr_bad.open():
                corr_bad += dict(case, what='L1: implementation raises %s, model succeeds' % st['err'])
        else:
            dfr = O.snaps_differ(post, mp[1])
            if dfr and corr_bad.open():
                corr_bad += dict(case, what='L1: post-state differs from model: ' + dfr)
        # ---- L2
        if st['err'] is not None:
            expected_err = False
            if op == 'reparam_dir' and Fr(args[2]) <= Fr(args[1]):
                expected_err = st['err'] == 'ValueError'
            if not expected_err:
                V.failure(dict(case, what='L2: %s raised %s' % (op, st['err'])))
            continue
        if op == 'reparam_dir' and Fr(args[2]) <= Fr(args[1]):
            V.failure(dict(case, what='L2: reparam with end <= start did not raise ValueError'))
            continue
        va = O.parse_eval(outs[ent['ev_pre']])
        vb = O.parse_eval(outs[ent['ev_post']])
        df = O.maps_differ(va, vb)
        if df:
            a, b = ent['pairs'][df[0]]
            V.failure(dict(case, what='L2: %s is not the stated reparametrisation: %s' % (op, df[1]),
                           param_before=[str(x) for x in a], param_after=[str(x) for x in b]))
            continue
        # domain / periodicity
        pd = len(pre['bases'])
        for d in range(pd):
            db = pre['bases'][d]
            da = post['bases'][d]
            if op == 'swap' and pd > 1 and d in args:
                db = pre['bases'][args[1] if d == args[0] else args[0]]
            if da['periodic'] != db['periodic'] or da['order'] != db['order']:
                V.failure(dict(case, what='L2: order/periodicity of direction %d changed' % d))
            want = O.domain(db)
            if op == 'reparam_dir' and d == args[0]:
                want = (Fr(args[1]), Fr(args[2]))
            if op == 'reparam_all':
                want = (Fr(args[d][0]), Fr(args[d][1])) if d < len(args) else (Fr(0), Fr(1))
            got = O.domain(da)
            if got != want:
                V.failure(dict(case, what='L2: domain of direction %d is %s, expected %s' % (d, [str(x) for x in got], [str(x) for x in want])))
        if len(samples) < 3 and op == 'reverse' and pre['bases'][args[0]]['periodic'] >= 0:
            samples.append(case)
    # involutions on the implementation: reverse twice / swap twice give back the same object (to rounding)
    ninv = 0
    for spec in specs[: (40 if tier == 'quick' else 400)]:
        o = O.make_impl(spec)
        pd = len(spec['bases'])
        a = O.snapshot(o)
        d = rng.randrange(pd)
        o.reverse(d)
        o.reverse(d)
        b = O.snapshot(o)
        ninv += 1
        dfr = O.snaps_differ(b, a)
        if dfr:
            V.failure({'what': 'reverse is not an involution: ' + dfr, 'obj': O.spec_json(a), 'op': 'reverse', 'args': [d]})
        if pd > 1:
            d1, d2 = rng.sample(range(pd), 2)
            o.swap(d1, d2)
            o.swap(d1, d2)
            c_ = O.snapshot(o)
            ninv += 1
            dfr = O.snaps_differ(c_, b)
            if dfr:
                V.failure({'what': 'swap is not an involution: ' + dfr, 'obj': O.spec_json(b), 'op': 'swap', 'args': [d1, d2]})
    rc = V.finish(l0, corr_bad)
    C.write_evidence(PID, tier, seed, l0, {
        'evaluations': evals + ninv, 'distinct_nontrivial': len(nontriv),
        'rule': 'random objects (pardim 1-3, periodic and non-periodic directions, rational 40%%); histories of %d operations drawn from '
                'reverse(d), swap(d1,d2), reparam((s,e),direction=d), reparam(u,v,..) incl. end<=start; directions spelled 0/u/U; '
                'after every step post-state vs model and map relation at mapped parameters; non-trivial = distinct (pre-state, op, args)' % hist_len,
        'traces_validated_against_impl': evals, 'involution_probes': ninv,
        'input_distribution': {k: {str(a): b for a, b in v.items()} for k, v in dist.items()},
        'samples': samples or [steps[0]['case']],
    }, t0, V.nviol, assumptions=['knot_tolerance=%r' % tolf], known=V.known)
    return rc


if __name__ == '__main__':
    sys.exit(C.guarded_main(PID, run))
