#!/usr/bin/env python3
"""Confirm a seeded change and run checks against it.

  seedtest.py confirm <seed_dir>            # scratch worktree: demo fails with patch, passes without, test suite passes with patch
  seedtest.py run <seed_dir> <Cxx> [...]    # apply to /repo, run ./check Cxx --tier quick, undo; records detection in meta.json
"""
import json
import os
import subprocess
import sys
import tempfile

VERIF = os.path.dirname(os.path.dirname(os.path.abspath(__file__)))
REPO = '/repo'
PY = '/venv/bin/python'


def sh(cmd, cwd=None, timeout=3000, env=None):
    p = subprocess.run(cmd, shell=True, cwd=cwd, stdout=subprocess.PIPE, stderr=subprocess.STDOUT, text=True, timeout=timeout, env=env)
    return p.returncode, p.stdout


def confirm(seed):
    patch = os.path.abspath(os.path.join(seed, 'patch.diff'))
    demo = os.path.abspath(os.path.join(seed, 'demo.py'))
    wt = tempfile.mkdtemp(prefix='seedwt_', dir='/tmp')
    os.rmdir(wt)
    res = {}
    try:
        rc, out = sh('git -C %s worktree add -q %s HEAD' % (REPO, wt))
        assert rc == 0, out
        sh('cp %s/splipy/basis_eval.cpython-312-x86_64-linux-gnu.so %s/splipy/' % (REPO, wt))
        env = dict(os.environ, PYTHONPATH=wt)
        rc0, out0 = sh('%s %s' % (PY, demo), cwd=wt, env=env)
        res['demo_passes_without_patch'] = (rc0 == 0)
        rc, out = sh('git apply %s' % patch, cwd=wt)
        res['patch_applies'] = (rc == 0)
        if rc != 0:
            res['apply_output'] = out[-500:]
            return res
        if 'basis_eval.pyx' in open(patch).read():
            sys.path.insert(0, os.path.join(VERIF, 'harness'))
            rc, out = sh('%s -m cython -3 splipy/basis_eval.pyx -o splipy/basis_eval.c && gcc -shared -fPIC -O2 -fwrapv -w '
                         '-I $(%s -c "import sysconfig;print(sysconfig.get_paths()[\'include\'])") '
                         '-I $(%s -c "import numpy;print(numpy.get_include())") splipy/basis_eval.c '
                         '-o splipy/basis_eval.cpython-312-x86_64-linux-gnu.so' % (PY, PY, PY), cwd=wt)
            res['pyx_rebuilt'] = (rc == 0)
        rc1, out1 = sh('%s %s' % (PY, demo), cwd=wt, env=env)
        res['demo_fails_with_patch'] = (rc1 != 0)
        res['demo_output_with_patch'] = out1[-400:]
        rc2, out2 = sh('%s -m pytest -q -p no:cacheprovider --timeout=900 -q --benchmark-disable > /tmp/seedtest_pytest.log 2>&1; echo EXIT=$?; '
                       'grep -E "passed|failed" /tmp/seedtest_pytest.log | tail -1' % PY, cwd=wt, env=env, timeout=3000)
        res['tests_pass_with_patch'] = ('EXIT=0' in out2)
        res['tests_tail'] = out2[-200:]
    finally:
        sh('git -C %s worktree remove --force %s' % (REPO, wt))
    return res


def run_checks(seed, pids):
    patch = os.path.abspath(os.path.join(seed, 'patch.diff'))
    rc, out = sh('git -C %s status --porcelain --untracked-files=no' % REPO)
    assert out.strip() == '', 'repo not clean: ' + out
    res = {}
    rc, out = sh('git -C %s apply %s' % (REPO, patch))
    assert rc == 0, out
    try:
        for pid in pids:
            rc, out = sh('./check %s --tier quick' % pid, cwd=VERIF, timeout=3000)
            lines = [l for l in out.split('\n') if l.startswith('VIOLATION') or l.startswith('KNOWN-FINDING')]
            res[pid] = {'exit': rc, 'lines': [l[:300] for l in lines][:4]}
    finally:
        sh('git -C %s checkout -- .' % REPO)
    return res


def main():
    mode, seed = sys.argv[1], sys.argv[2]
    metap = os.path.join(seed, 'meta.json')
    meta = json.load(open(metap)) if os.path.exists(metap) else {}
    if mode == 'confirm':
        meta['confirmed'] = confirm(seed)
    else:
        r = run_checks(seed, sys.argv[3:])
        meta.setdefault('checks_run', {}).update(r)
        meta['detected_by'] = sorted(p for p, v in meta['checks_run'].items() if v['exit'] != 0 and any(l.startswith('VIOLATION') for l in v['lines']))
    json.dump(meta, open(metap, 'w'), indent=1)
    print(json.dumps(meta.get('confirmed' if mode == 'confirm' else 'checks_run'), indent=1))


if __name__ == '__main__':
    main()
