"""Conforming multipatch complexes on a lattice: cells of a (distorted) integer grid, every patch randomly
re-oriented, in random insertion order.  Used by C17 / C18."""
import itertools
from fractions import Fraction as Fr

import numpy as np


def shapes(rng, pardim):
    """a set of lattice cells: structured block, L, T, O (ring)"""
    kind = rng.choice(['block', 'block', 'L', 'T', 'O', 'single'])
    if pardim == 1:
        n = rng.randint(1, 5)
        return kind, [(i,) for i in range(n)]
    if kind == 'single':
        return kind, [tuple([0] * pardim)]
    if kind == 'block':
        dims = [rng.randint(1, 3) for _ in range(pardim)]
        return kind, list(itertools.product(*[range(n) for n in dims]))
    if kind == 'L':
        base = [(0, 0), (1, 0), (2, 0), (0, 1), (0, 2)]
    elif kind == 'T':
        base = [(0, 2), (1, 2), (2, 2), (1, 1), (1, 0)]
    else:
        base = [(i, j) for i in range(3) for j in range(3) if (i, j) != (1, 1)]
    if pardim == 2:
        return kind, base
    nz = rng.randint(1, 2)
    return kind, [b + (k,) for b in base for k in range(nz)]


def distort(rng, dim):
    """a smooth injective map of the lattice into R^dim (affine + small quadratic wobble)"""
    A = np.eye(3) + 0.15 * np.array([[rng.uniform(-1, 1) for _ in range(3)] for _ in range(3)])
    q = 0.02 * np.array([rng.uniform(-1, 1) for _ in range(3)])
    sh = np.array([rng.randint(-3, 3) for _ in range(3)], dtype=float)

    def phi(p):
        p = np.concatenate([np.asarray(p, dtype=float), np.zeros(3 - len(p))])
        x = A @ p + q * np.array([p[1] * p[2], p[0] * p[2], p[0] * p[1] + p[0] * p[0]]) + sh
        return x[:dim]
    return phi


def orientations(pardim):
    return [(perm, flip) for perm in itertools.permutations(range(pardim)) for flip in itertools.product([False, True], repeat=pardim)]


def reorient(obj, perm, flip):
    """a copy of obj whose direction d is the original direction perm[d], reversed when flip[d]"""
    o = obj.clone()
    pd = o.pardim
    # bring direction perm[d] to position d by swaps
    cur = list(range(pd))
    for d in range(pd):
        j = cur.index(perm[d])
        if j != d:
            o.swap(d, j)
            cur[d], cur[j] = cur[j], cur[d]
    for d in range(pd):
        if flip[d]:
            o.reverse(d)
    return o


def build(rng, pardim, dim=None, order=2, refine=0, rational=False, right_handed=False, phi=None, cells=None, kind=None, repeat_knot=False):
    """returns dict(patches=[SplineObject], cells=[...], kind=..., expected={d: count}, phi=phi)"""
    from splipy import BSplineBasis, Curve, Surface, Volume
    dim = dim or max(pardim, rng.choice([2, 3]))
    if cells is None:
        kind, cells = shapes(rng, pardim)
    phi = phi or distort(rng, dim)
    cls = {1: Curve, 2: Surface, 3: Volume}[pardim]
    patches = []
    for c in cells:
        # corner lattice points in the order the constructors expect (first index fastest)
        cps = []
        for corner in itertools.product([0, 1], repeat=pardim):
            idx = corner[::-1]            # itertools varies the last fastest; we need the first fastest
            cps.append(phi([c[d] + idx[d] for d in range(pardim)]).tolist())
        o = cls(*[BSplineBasis(2) for _ in range(pardim)], cps)
        if order > 2:
            o.raise_order(*([order - 2] * pardim))
        if refine:
            o.refine(refine)
        if repeat_knot and order >= 3:
            # a repeated interior knot (multiplicity 2, still continuous) at the symmetric position 1/2 of every
            # direction of every patch: interfaces stay conforming under every re-orientation
            for d_ in range(pardim):
                have = sum(1 for x in o.knots(d_, with_multiplicities=True) if abs(x - 0.5) < 1e-12)
                if have < 2:
                    o.insert_knot([0.5] * (2 - have), d_)
        if rational:
            o.force_rational()
        ors = orientations(pardim)
        while True:
            perm, flip = rng.choice(ors)
            parity = (sum(flip) + sum(1 for i in range(pardim) for j in range(i) if perm[j] > perm[i])) % 2
            if not right_handed or parity == 0:
                break
        patches.append(reorient(o, perm, flip))
    # expected numbers of entities of the cell complex
    expected = {}
    for d in range(pardim + 1):
        ents = set()
        for c in cells:
            for fixed in itertools.combinations(range(pardim), pardim - d):
                for vals in itertools.product([0, 1], repeat=pardim - d):
                    key = []
                    it = iter(vals)
                    for ax in range(pardim):
                        key.append((c[ax] + next(it),) if ax in fixed else (c[ax], c[ax] + 1))
                    ents.add(tuple(key))
        expected[d] = len(ents)
    order_ = list(range(len(patches)))
    rng.shuffle(order_)
    return dict(patches=[patches[i] for i in order_], cells=[cells[i] for i in order_], kind=kind, expected=expected, phi=phi, pardim=pardim, dim=dim)


def interior_faces(cells, pardim):
    """codimension-one entities shared by two cells, and boundary ones: returns (shared:set, boundary:set) of keys"""
    cnt = {}
    for c in cells:
        for ax in range(pardim):
            for v in (0, 1):
                key = tuple((c[a] + v,) if a == ax else (c[a], c[a] + 1) for a in range(pardim))
                cnt.setdefault(key, []).append(c)
    return {k: v for k, v in cnt.items() if len(v) == 2}, {k: v for k, v in cnt.items() if len(v) == 1}
