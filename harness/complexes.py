"""Conforming multipatch complexes on a lattice: cells of a (distorted) integer grid, every patch randomly
re-oriented, in random insertion order.  Used by C17 / C18."""
import itertools
from fractions import Fraction as Fr

import numpy as np


def shapes(rng, pardim):
    """a set of lattice cells: structured block, L, T, O (ring)"""
    kind = rng.choice(['block', 'block', 'L', 'T', 'O', 'single'])
    if pardim == 1:
        n = rng.randint(1, 5)
        return kind, [(i,) for i in range(n)]
    if kind == 'single':
        return kind, [tuple([0] * pardim)]
    if kind == 'block':
        dims = [rng.randint(1, 3) for _ in range(pardim)]
        return kind, list(itertools.product(*[range(n) for n in dims]))
    if kind == 'L':
        base = [(0, 0), (1, 0), (2, 0), (0, 1), (0, 2)]
    elif kind == 'T':
        base = [(0, 2), (1, 2), (2, 2), (1, 1), (1, 0)]
    else:
        base = [(i, j) for i in range(3) for j in range(3) if (i, j) != (1, 1)]
    if pardim == 2:
        return kind, base
    nz = rng.randint(1, 2)
    return kind, [b + (k,) for b in base for k in range(nz)]


def distort(rng, dim):
    """a smooth injective map of the lattice into R^dim (affine + small quadratic wobble)"""
    A = np.eye(3) + 0.15 * np.array([[rng.uniform(-1, 1) for _ in range(3)] for _ in range(3)])
    q = 0.02 * np.array([rng.uniform(-1, 1) for _ in range(3)])
    sh = np.array([rng.randint(-3, 3) for _ in range(3)], dtype=float)

    def phi(p):
        p = np.concatenate([np.asarray(p, dtype=float), np.zeros(3 - len(p))])
        x = A @ p + q * np.array([p[1] * p[2], p[0] * p[2], p[0] * p[1] + p[0] * p[0]]) + sh
        return x[:dim]
    return phi


def orientations(pardim):
    return [(perm, flip) for perm in itertools.permutations(range(pardim)) for flip in itertools.product([False, True], repeat=pardim)]


def reorient(obj, perm, flip):
    """a copy of obj whose direction d is the original direction perm[d], reversed when flip[d]"""
    o = obj.clone()
    pd = o.pardim
    # bring direction perm[d] to position d by swaps
    cur = list(range(pd))
    for d in range(pd):
        j = cur.index(perm[d])
        if j != d:
            o.swap(d, j)
            cur[d], cur[j] = cur[j], cur[d]
    for d in range(pd):
        if flip[d]:
            o.reverse(d)
    return o


def expected_counts(cells, pardim, period=None):
    """numbers of d-dimensional entities of the cell complex; with period N the lattice is wrapped along axis 0
    (coordinate N is coordinate 0), which includes N = 1: one cell whose two opposite ends are the same face"""
    def pt(ax, v):
        return ('P', v % period) if (period and ax == 0) else ('P', v)

    def seg(ax, v):
        return ('I', v % period) if (period and ax == 0) else ('I', v)
    expected = {}
    for d in range(pardim + 1):
        ents = set()
        for c in cells:
            for fixed in itertools.combinations(range(pardim), pardim - d):
                for vals in itertools.product([0, 1], repeat=pardim - d):
                    key = []
                    it = iter(vals)
                    for ax in range(pardim):
                        key.append(pt(ax, c[ax] + next(it)) if ax in fixed else seg(ax, c[ax]))
                    ents.add(tuple(key))
        expected[d] = len(ents)
    return expected


def apply_weights(o):
    """non-unit weights that are a smooth function of the (projected) control point, so that control points shared between
    patches carry the same weight: the homogeneous nets of shared faces stay identical"""
    import numpy as np
    cp = o.controlpoints
    x = cp[..., :-1] / cp[..., -1:]
    w = 1.25 + 0.5 * x[..., :1] / (1.0 + np.sum(x * x, axis=-1, keepdims=True))
    cp[..., :-1] = x * w
    cp[..., -1:] = w
    return o



def build_ring(rng, pardim, order=2, refine=0, rational=False, repeat_knot=False, nring=None, right_handed=False, asym=False):
    """Conforming complexes that close around an axis: the lattice is periodic along axis 0 with nring cells per turn.
    nring = 1: every patch is a ring cut open along a seam, so its first and last face along axis 0 are ONE interface
    (a patch adjacent to itself); nring = 2: two patches that meet along two different interfaces; nring = 3: an
    ordinary closed chain.  Other axes: 1-2 cells (radial / axial stacking).  Coincident control points are computed
    from the same table of angles, so they are bitwise equal."""
    import math
    from splipy import BSplineBasis, Surface, Volume
    nring = nring or rng.choice([1, 1, 2, 3])
    M = {1: rng.choice([3, 4, 5]), 2: rng.choice([2, 3]), 3: rng.choice([1, 2])}[nring]     # polyline spans per patch
    nrad = rng.randint(1, 2)
    nax = rng.randint(1, 2) if pardim == 3 else 1
    dim = 3 if pardim == 3 else rng.choice([2, 3])
    tot = nring * M
    ang = [2 * math.pi * g / tot + 0.1 for g in range(tot)]
    sx, sy = rng.choice([1.0, 1.5]), rng.choice([1.0, 0.75])
    tilt = rng.choice([0.0, 0.25])

    def point(g, r, z):
        a = ang[g % tot]
        x, y = (1.0 + r) * sx * math.cos(a), (1.0 + r) * sy * math.sin(a)
        return [x, y, z + tilt * x][:dim] if dim == 3 else [x, y]
    cells = [(i, j) + ((k,) if pardim == 3 else ()) for i in range(nring) for j in range(nrad) for k in range(nax)]
    cls = {2: Surface, 3: Volume}[pardim]
    patches = []
    for c in cells:
        b0 = BSplineBasis(2, [0.0] + [m / M for m in range(M + 1)] + [1.0])
        cps = []
        # first index fastest
        for kk in (range(2) if pardim == 3 else [0]):
            for jj in range(2):
                for m in range(M + 1):
                    cps.append(point(c[0] * M + m, c[1] + jj, (c[2] + kk) if pardim == 3 else 0.0))
        o = cls(*([b0] + [BSplineBasis(2) for _ in range(pardim - 1)]), cps)
        # the patch as built (angle, radius, height) is left-handed: right-handed re-orientations are the odd ones
        patches.append(_dress(rng, o, pardim, order, refine, repeat_knot, rational, right_handed, base_parity=1, asym=asym))
    order_ = list(range(len(patches)))
    rng.shuffle(order_)
    return dict(patches=[patches[i] for i in order_], cells=[cells[i] for i in order_], kind='ring%d' % nring,
                expected=expected_counts(cells, pardim, nring), phi=None, pardim=pardim, dim=dim, period=nring)


def _dress(rng, o, pardim, order, refine, repeat_knot, rational, right_handed, base_parity=0, asym=False):
    """order elevation, refinement, repeated knots, rationality and a random re-orientation of one patch"""
    if order > 2:
        o.raise_order(*([order - 2] * pardim))
    if refine:
        o.refine(refine)
    if repeat_knot and order >= 3:
        for d_ in range(pardim):
            have = sum(1 for x in o.knots(d_, with_multiplicities=True) if abs(x - 0.5) < 1e-12)
            if have < 2:
                o.insert_knot([0.5] * (2 - have), d_)
    if asym:
        # knot vectors that are not symmetric under reversal (the same in every patch along a lattice axis, so the complex
        # stays conforming): a reversed interface direction is then distinguishable from an unreversed one
        for d_ in range(pardim):
            x_ = [0.3137, 0.3519, 0.6073][d_]
            if not any(abs(k_ - x_) < 1e-6 for k_ in o.knots(d_)):
                o.insert_knot(x_, d_)
    if rational == 'mixed':
        rational = rng.random() < 0.5       # per patch: rational and polynomial patches share vertices, edges and faces
    if rational:
        o.force_rational()
        if rational == 'weighted':
            apply_weights(o)
    ors = orientations(pardim)
    while True:
        perm, flip = rng.choice(ors)
        parity = (sum(flip) + sum(1 for i in range(pardim) for j in range(i) if perm[j] > perm[i])) % 2
        if not right_handed or parity == base_parity:
            break
    return reorient(o, perm, flip)


def build(rng, pardim, dim=None, order=2, refine=0, rational=False, right_handed=False, phi=None, cells=None, kind=None, repeat_knot=False, asym=False):
    """returns dict(patches=[SplineObject], cells=[...], kind=..., expected={d: count}, phi=phi)"""
    from splipy import BSplineBasis, Curve, Surface, Volume
    dim = dim or max(pardim, rng.choice([2, 3]))
    if cells is None:
        kind, cells = shapes(rng, pardim)
    phi = phi or distort(rng, dim)
    cls = {1: Curve, 2: Surface, 3: Volume}[pardim]
    patches = []
    for c in cells:
        # corner lattice points in the order the constructors expect (first index fastest)
        cps = []
        for corner in itertools.product([0, 1], repeat=pardim):
            idx = corner[::-1]            # itertools varies the last fastest; we need the first fastest
            cps.append(phi([c[d] + idx[d] for d in range(pardim)]).tolist())
        o = cls(*[BSplineBasis(2) for _ in range(pardim)], cps)
        if order > 2:
            o.raise_order(*([order - 2] * pardim))
        if refine:
            o.refine(refine)
        if repeat_knot and order >= 3:
            # a repeated interior knot (multiplicity 2, still continuous) at the symmetric position 1/2 of every
            # direction of every patch: interfaces stay conforming under every re-orientation
            for d_ in range(pardim):
                have = sum(1 for x in o.knots(d_, with_multiplicities=True) if abs(x - 0.5) < 1e-12)
                if have < 2:
                    o.insert_knot([0.5] * (2 - have), d_)
        if asym:
            for d_ in range(pardim):
                x_ = [0.3137, 0.3519, 0.6073][d_]
                if not any(abs(k_ - x_) < 1e-6 for k_ in o.knots(d_)):
                    o.insert_knot(x_, d_)
        if (rng.random() < 0.5) if rational == 'mixed' else rational:
            o.force_rational()
            if rational == 'weighted':
                apply_weights(o)
        ors = orientations(pardim)
        while True:
            perm, flip = rng.choice(ors)
            parity = (sum(flip) + sum(1 for i in range(pardim) for j in range(i) if perm[j] > perm[i])) % 2
            if not right_handed or parity == 0:
                break
        patches.append(reorient(o, perm, flip))
    # expected numbers of entities of the cell complex
    expected = {}
    for d in range(pardim + 1):
        ents = set()
        for c in cells:
            for fixed in itertools.combinations(range(pardim), pardim - d):
                for vals in itertools.product([0, 1], repeat=pardim - d):
                    key = []
                    it = iter(vals)
                    for ax in range(pardim):
                        key.append((c[ax] + next(it),) if ax in fixed else (c[ax], c[ax] + 1))
                    ents.add(tuple(key))
        expected[d] = len(ents)
    order_ = list(range(len(patches)))
    rng.shuffle(order_)
    return dict(patches=[patches[i] for i in order_], cells=[cells[i] for i in order_], kind=kind, expected=expected, phi=phi, pardim=pardim, dim=dim)


def interior_faces(cells, pardim, period=None):
    """codimension-one entities shared by two cells, and boundary ones: returns (shared:set, boundary:set) of keys;
    with a period the lattice is wrapped along axis 0 (a cell may then meet itself)"""
    cnt = {}
    for c in cells:
        for ax in range(pardim):
            for v in (0, 1):
                key = tuple((((c[a] + v) % period) if (period and a == 0) else (c[a] + v),) if a == ax else (c[a], c[a] + 1) for a in range(pardim))
                cnt.setdefault(key, []).append(c)
    return {k: v for k, v in cnt.items() if len(v) == 2}, {k: v for k, v in cnt.items() if len(v) == 1}
