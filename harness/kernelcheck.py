"""Kernel cross-check of the extracted runner.

A sample of the command lines that the OCaml runner answered is turned into Coq terms (arguments and the
printed result), and one coqc call evaluates `ceq (Exec.q_f args) expected` with vm_compute for each of
them (Extract/Ceq.v).  What this checks: extraction (ExtrOcamlBasic + ExtrOcamlZBigInt), Zarith, the
OCaml compiler and runner/main.ml (parsing, dispatch, printing) give, on these lines, exactly what the Coq
kernel computes from the same definitions.  The table below mirrors the dispatch of runner/main.ml for the
commands it covers; a command that is not in the table is simply not sampled.
"""
import os
import subprocess

VERIF = os.path.dirname(os.path.dirname(os.path.abspath(__file__)))
COQ = os.path.join(VERIF, 'coq')


class TK:
    def __init__(self, s):
        self.t = s.split()
        self.i = 0

    def nx(self):
        s = self.t[self.i]
        self.i += 1
        return s


# ---- readers / printers: each returns the Coq term for what main.ml reads / prints
def q(tk):
    s = tk.nx()
    if '/' in s:
        a, b = s.split('/')
    else:
        a, b = s, '1'
    return '(Qmake (%s)%%Z %s%%positive)' % (a, b)


def nat(tk):
    return '%s%%nat' % tk.nx()


def boo(tk):
    return 'true' if int(tk.nx()) != 0 else 'false'


def zint(tk):
    return '(%s)%%Z' % tk.nx()


def lst(f):
    def g(tk):
        n = int(tk.nx())
        return '[' + '; '.join(f(tk) for _ in range(n)) + ']'
    return g


qlist = lst(q)
natlist = lst(nat)


def basis(tk):
    p = nat(tk)
    per1 = nat(tk)
    k = qlist(tk)
    return '(q_mkBasis %s %s %s)' % (p, k, per1)


def obj(tk):
    bs = lst(basis)(tk)
    dim = nat(tk)
    rat = boo(tk)
    cps = lst(qlist)(tk)
    return '(q_mkObj %s %s %s %s)' % (bs, cps, dim, rat)


def res(f):
    def g(tk):
        w = tk.nx()
        if w == 'Ok':
            return '(Ok %s)' % f(tk)
        assert w == 'Err', w
        return '(Err %s)' % tk.nx()
    return g


def opt(f):
    def g(tk):
        return ('(Some %s)' % f(tk)) if int(tk.nx()) else 'None'
    return g


def pair(f, g):
    def h(tk):
        a = f(tk)
        b = g(tk)
        return '(%s, %s)' % (a, b)
    return h


def qpair(tk):
    return pair(q, q)(tk)


def tri(tk):
    a = qlist(tk)
    b = qlist(tk)
    c = qlist(tk)
    return '[%s; %s; %s]' % (a, b, c)


def someobj(tk):
    w = tk.nx()
    return ('(Some %s)' % obj(tk)) if w == 'Some' else 'None'


def triple_nat(tk):
    return '(%s, %s, %s)' % (nat(tk), nat(tk), nat(tk))


def face(tk):
    ns = '[' + '; '.join('[%s; %s; %s]' % (nat(tk), nat(tk), nat(tk)) for _ in range(4)) + ']'
    ow = nat(tk)
    nb = zint(tk)
    return '(%s, %s, %s)' % (ns, ow, nb)


def oface(tk):
    ns = natlist(tk)
    ow = nat(tk)
    nb = zint(tk)
    nm = int(tk.nx())
    return '(%s, %s, %s, %s)' % (ns, ow, nb, ('None' if nm < 0 else '(Some %d%%nat)' % nm))


def oface_in(tk):
    ns = natlist(tk)
    ow = nat(tk)
    nb = zint(tk)
    nm = int(tk.nx())
    return '(SplipyModel.Model.OFoam.mkFace %s %s %s %s)' % (ns, ow, nb, ('None' if nm < 0 else '(Some %d%%nat)' % nm))


def oblock(tk):
    return '(%s, %s, %s)' % (nat(tk), nat(tk), nat(tk))


def ofoam_res(tk):
    fs = lst(oface)(tk)
    bl = lst(oblock)(tk)
    return '(%s, %s, %s, %s)' % (fs, bl, nat(tk), nat(tk))


def catres(tk):
    counts = natlist(tk)
    bnd = lst(natlist)(tk)
    faces = lst(pair(natlist, lst(natlist)))(tk)
    return '(%s, %s, %s)' % (counts, bnd, faces)


# name -> (argument readers, call template, result printer)
TABLE = {
    'basis_evaluate': ([qlist, nat, nat, q, nat, boo, qlist], 'q_basis_evaluate {0} {1} {2} {3} {4} {5} {6}', lst(qlist)),
    'basis_evaluate_sparse': ([qlist, nat, nat, q, nat, boo, qlist], 'q_basis_evaluate_sparse {0} {1} {2} {3} {4} {5} {6}',
                              lst(opt(pair(natlist, qlist)))),
    'snap': ([qlist, q, qlist], 'map (q_snap1 {0} {1}) {2}', qlist),
    'dB': ([boo, qlist, nat, nat, nat, q], 'q_dB {0} {1} {2} {3} {4} {5}', q),
    'ref_row': ([boo, qlist, nat, nat, nat, q], 'q_ref_row {0} {1} {2} {3} {4} {5}', qlist),
    'obj_eval': ([q, obj, lst(qlist)], 'map (fun ts => q_obj_eval {0} {1} ts) {2}', lst(res(qlist))),
    'obj_deriv': ([q, obj, natlist, lst(boo), lst(qlist)], 'map (fun ts => q_obj_deriv {0} {1} {2} {3} ts) {4}', lst(res(qlist))),
    'basis_insert_knot': ([basis, q], 'q_basis_insert_knot {0} {1}', res(pair(basis, lst(qlist)))),
    'obj_insert_knots': ([obj, nat, qlist], 'q_obj_insert_knots {0} {1} {2}', res(obj)),
    'refine_knots': ([q, basis, nat], 'q_refine_knots {0} {1} {2}', qlist),
    'knot_spans': ([q, basis, boo], 'q_knot_spans {0} {1} {2}', qlist),
    'obj_reverse': ([obj, nat], 'q_obj_reverse {0} {1}', obj),
    'obj_swap': ([obj, nat, nat], 'q_obj_swap {0} {1} {2}', obj),
    'obj_reparam_dir': ([obj, nat, q, q], 'q_obj_reparam_dir {0} {1} {2} {3}', res(obj)),
    'obj_reparam_all': ([obj, lst(qpair)], 'q_obj_reparam_all {0} {1}', res(obj)),
    'obj_translate': ([obj, qlist], 'q_obj_translate {0} {1}', res(obj)),
    'obj_scale': ([obj, qlist], 'q_obj_scale {0} {1}', res(obj)),
    'obj_rotate': ([obj, q, q, qlist, q], 'q_obj_rotate {0} {1} {2} {3} {4}', res(obj)),
    'obj_mirror': ([obj, qlist, q], 'q_obj_mirror {0} {1} {2}', res(obj)),
    'obj_project': ([obj, lst(boo)], 'q_obj_project {0} {1}', obj),
    'obj_set_dimension': ([obj, nat], 'q_obj_set_dimension {0} {1}', obj),
    'obj_force_rational': ([obj], 'q_obj_force_rational {0}', obj),
    'basis_continuity': ([q, basis, qlist], 'map (fun x => q_basis_continuity {0} {1} x) {2}', lst(res(opt(zint)))),
    'basis_raise_order': ([q, basis, nat], 'q_basis_raise_order {0} {1} {2}', basis),
    'basis_lower_order': ([q, basis, nat], 'q_basis_lower_order {0} {1} {2}', res(basis)),
    'obj_raise_order': ([q, obj, natlist], 'q_obj_raise_order {0} {1} {2}', res(obj)),
    'obj_lower_order': ([q, obj, natlist], 'q_obj_lower_order {0} {1} {2}', res(obj)),
    'solve': ([lst(qlist), lst(qlist)], 'q_solve {0} {1}', res(lst(qlist))),
    'obj_append': ([q, obj, obj], 'q_obj_append {0} {1} {2}', res(obj)),
    'obj_split': ([q, obj, nat, qlist], 'q_obj_split {0} {1} {2} {3}', res(lst(obj))),
    'obj_make_periodic': ([obj, zint, nat], 'q_obj_make_periodic {0} {1} {2}', res(obj)),
    'obj_lower_periodic': ([obj, nat, nat], 'q_obj_lower_periodic {0} {1} {2}', res(obj)),
    'wf_obj': ([q, obj], 'q_wf_obj_b {0} {1}', boo),
    'basis_ctor': ([q, zint, qlist, nat], 'q_basis_ctor {0} {1} {2} {3}', res(basis)),
    'obj_section': ([obj, natlist], 'q_obj_section {0} {1}', obj),
    'basis_integrate': ([q, basis, q, q], 'q_basis_integrate {0} {1} {2} {3}', qlist),
    'obj_center': ([q, obj], 'q_obj_center {0} {1}', qlist),
    'revolve_cps': ([lst(qlist), lst(qlist)], 'q_revolve_cps {0} {1}', lst(qlist)),
    'extrude_cps': ([nat, boo, qlist, lst(qlist)], 'q_extrude_cps {0} {1} {2} {3}', lst(qlist)),
    'curve_interpolate': ([q, basis, qlist, lst(qlist)], 'match q_curve_interpolate {0} {1} {2} {3} with Ok o => Ok (o_cps o) | Err e => Err e end', res(lst(qlist))),
    'curve_lsq': ([q, basis, qlist, lst(qlist)], 'match q_curve_lsq {0} {1} {2} {3} with Ok o => Ok (o_cps o) | Err e => Err e end', res(lst(qlist))),
    'g2_encode': ([obj], 'q_g2_encode [{0}]', lst(qlist)),
    'disc_square_net': ([q, q], 'q_disc_square_net {0} {1}', lst(qlist)),
    'const_par_curve': ([q, obj, q, nat], 'q_const_par_curve {0} {1} {2} {3}', res(obj)),
    'default_obj': ([boo, lst(basis)], 'if {0} then q_default_obj_rat {1} else q_default_obj {1}', obj),
    'bounding_box': ([obj], 'q_obj_bounding_box {0}', lst(qpair)),
    'model_faces': ([triple_nat, nat, nat, boo, triple_nat, nat, nat, boo, boo, boo, boo],
                    'let g := SplipyModel.Model.Faces2.mkGluing {0} {1} {2} {3} {4} {5} {6} {7} {8} {9} {10} in (x_conform g, map (fun f => (map (fun p => [fst (fst p); snd (fst p); snd p]) (SplipyModel.Model.Faces.nodes f), SplipyModel.Model.Faces.owner f, '
                    'match SplipyModel.Model.Faces.neighbor f with Some n => Z.of_nat n | None => (-1)%Z end)) (x_model_faces g))',
                    pair(boo, lst(face))),
    'loft': ([q, boo, lst(obj), qlist], 'if {1} then q_vloft {0} {2} {3} else q_loft {0} {2} {3}', res(obj)),
    'cubic_periodic': ([q, qlist, lst(qlist)], 'q_cubic_periodic {0} {1} {2}', res(obj)),
    'surface_lsq': ([q, basis, basis, qlist, qlist, lst(qlist)], 'match q_surface_lsq {0} {1} {2} {3} {4} {5} with Ok o => Ok (o_cps o) | Err e => Err e end', res(lst(qlist))),
    'number_model': ([lst(natlist)], 'let r := x_number_model {0} in (snd r, fst r)', pair(nat, lst(natlist))),
    'eval_grid': ([q, obj, lst(qlist)], 'q_obj_eval_grid {0} {1} {2}', res(lst(qlist))),
    'eval_pointwise': ([q, obj, lst(qlist)], 'q_obj_eval_pointwise {0} {1} {2}', res(lst(qlist))),
    'stl_write_surface': ([q, obj, boo, nat, nat],
                          'match q_stl_write_surface {0} {1} (if {2} then Some ({3}, {4}) else None) with '
                          'Ok tris => Ok (q_stl_binary_count tris, map (fun t => [fst (fst t); snd (fst t); snd t]) tris) | Err e => Err e end',
                          res(pair(nat, lst(tri)))),
    'stl_params': ([nat, qlist, q, q, boo, nat], 'q_stl_params {0} {1} {2} {3} (if {4} then Some {5} else None)', res(qlist)),
    'spl_lines': ([q, obj], 'q_spl_lines {0} {1}', lst(qlist)),
    'spl_decode': ([q, lst(qlist)], 'q_spl_decode {0} {1}', someobj),
    'patch_faces': ([nat, nat, nat, nat],
                    'map (fun f => (map (fun p => [fst (fst p); snd (fst p); snd p]) (SplipyModel.Model.Faces.nodes f), SplipyModel.Model.Faces.owner f, '
                    'match SplipyModel.Model.Faces.neighbor f with Some n => Z.of_nat n | None => (-1)%Z end)) (x_patch_faces {0} ({1}, {2}, {3}))',
                    lst(face)),
    'edge_loop': ([q, q, lst(pair(qlist, qlist))], 'q_edge_loop {0} {1} {2}', res(lst(pair(nat, boo)))),
    'right_hand': ([q, q, obj], 'q_obj_right_hand {0} {1} {2}', res(boo)),
    'ofoam': ([lst(oface_in)],
              'let o := x_ofoam_order {0} in (map (fun f => (SplipyModel.Model.OFoam.f_nodes f, SplipyModel.Model.OFoam.f_owner f, SplipyModel.Model.OFoam.f_neighbor f, SplipyModel.Model.OFoam.f_name f)) o, '
              'map (fun b => (SplipyModel.Model.OFoam.b_name b, SplipyModel.Model.OFoam.b_nfaces b, SplipyModel.Model.OFoam.b_start b)) (x_ofoam_blocks o), x_ofoam_declared o, x_ofoam_ninternal o)',
              ofoam_res),
    'cell_numbers': ([lst(triple_nat)], 'let r := x_cell_numbers_model {0} in (snd r, fst r)', pair(nat, lst(natlist))),
    'catalogue': ([nat, lst(natlist)], 'x_catalogue {0} {1}', catres),
    'cat_lookup': ([nat, lst(natlist), natlist], 'x_cat_lookup {0} {1} {2}', opt(natlist)),
}

HEADER = '''From Coq Require Import List ZArith QArith Bool.
From SplipyModel Require Import Model.Num Model.Obj Extract.Exec Extract.Ceq.
Import ListNotations.
'''


def render(line, out):
    """Coq boolean term comparing the kernel's evaluation of `line` with the runner's printed `out`,
    or None if the command is not covered / the runner reported an exception."""
    name = line.split(None, 1)[0]
    ent = TABLE.get(name)
    if ent is None or out.startswith('EXN') or out.startswith('UNKNOWN'):
        return None
    readers, templ, printer = ent
    tk = TK(line)
    tk.nx()
    args = [r(tk) for r in readers]
    if tk.i != len(tk.t):
        raise ValueError('kernelcheck: trailing tokens in command ' + name)
    ot = TK(out)
    exp = printer(ot)
    if ot.i != len(ot.t):
        raise ValueError('kernelcheck: trailing tokens in output of ' + name)
    return '(ceq (%s) (%s))' % (templ.format(*args), exp)


HEAVY = {'loft', 'cubic_periodic', 'surface_lsq', 'const_par_curve', 'stl_write_surface', 'eval_grid', 'eval_pointwise', 'obj_append', 'obj_raise_order', 'obj_lower_order', 'solve', 'curve_interpolate', 'curve_lsq', 'obj_split', 'obj_make_periodic',
         'obj_lower_periodic', 'basis_integrate', 'obj_center'}


def crosscheck(pid, lines, outs, rng, sample=24, per_term_timeout=25, timeout=600):
    """lines: command lines; outs: the runner's raw output lines (same order).
    One small .v file per sampled line, evaluated in parallel under a per-file time limit (vm_compute on
    unary/binary numbers is orders of magnitude slower than the Zarith runner, so only moderate cases are sampled
    and a case that does not finish in time is counted as 'timeouts', never as a mismatch).
    Returns dict(checked=n, mismatches=[indices], timeouts=n, skipped=n, seconds=t, commands={name: n})."""
    import time

    def ok_size(i):
        nm = lines[i].split(None, 1)[0]
        return len(lines[i]) + len(outs[i]) <= (2500 if nm in HEAVY else 12000)
    cand = [i for i, l in enumerate(lines) if l.split(None, 1)[0] in TABLE and ok_size(i)]
    rng.shuffle(cand)
    # prefer variety of commands: round-robin by command name
    byname = {}
    for i in cand:
        byname.setdefault(lines[i].split(None, 1)[0], []).append(i)
    pick = []
    while len(pick) < sample and any(byname.values()):
        for nm in sorted(byname):
            if byname[nm] and len(pick) < sample:
                pick.append(byname[nm].pop())
    terms, used = [], []
    for i in pick:
        t = render(lines[i], outs[i])
        if t is not None:
            terms.append(t)
            used.append(i)
    res = dict(checked=0, mismatches=[], timeouts=0, skipped=len(pick) - len(used), seconds=0.0, commands={})
    if not terms:
        return res
    d = os.path.join(VERIF, 'build', 'kc', pid)
    os.makedirs(d, exist_ok=True)
    for f in os.listdir(d):
        os.remove(os.path.join(d, f))
    for j, t in enumerate(terms):
        with open(os.path.join(d, 'K%d.v' % j), 'w') as f:
            f.write(HEADER)
            f.write('Definition kc : bool := %s.\n' % t)
            f.write('Eval vm_compute in kc.\n')
    t0 = time.time()
    cmd = ('cd %s && ls K*.v | xargs -P 8 -I{} sh -c "ulimit -s unlimited 2>/dev/null; '
           'timeout %d coqc -Q %s/theories SplipyModel {} > {}.out 2>&1; echo \\$? > {}.rc"' % (d, per_term_timeout, COQ))
    subprocess.run(cmd, shell=True, stdout=subprocess.PIPE, stderr=subprocess.STDOUT, text=True, timeout=timeout)
    res['seconds'] = round(time.time() - t0, 1)
    for j in range(len(terms)):
        nm = lines[used[j]].split(None, 1)[0]
        try:
            rc = int(open(os.path.join(d, 'K%d.v.rc' % j)).read().strip())
            txt = open(os.path.join(d, 'K%d.v.out' % j)).read()
        except Exception:
            rc, txt = 124, ''
        if rc == 124 or rc == 137:
            res['timeouts'] += 1
            continue
        if rc != 0 or '= ' not in txt:
            res['error'] = ('kernel evaluation of a %s line failed: ' % nm) + txt[-1200:]
            res['mismatches'].append(used[j])
            continue
        verdict = txt[txt.rindex('= ') + 2:].split()[0]
        res['checked'] += 1
        res['commands'][nm] = res['commands'].get(nm, 0) + 1
        if verdict != 'true':
            res['mismatches'].append(used[j])
    return res
