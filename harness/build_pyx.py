"""Build splipy/basis_eval.pyx from /repo's *current working tree* into
/verif/build/pyx/<sha256>/ and load it under the name ``splipy.basis_eval``
before ``splipy`` is imported.  /repo is never written to."""
import hashlib
import importlib.machinery
import importlib.util
import os
import subprocess
import sys
import sysconfig

REPO = os.environ.get('SPLIPY_REPO', '/repo')
VERIF = os.path.dirname(os.path.dirname(os.path.abspath(__file__)))
BUILD = os.path.join(VERIF, 'build')


def build_pyx():
    src = os.path.join(REPO, 'splipy', 'basis_eval.pyx')
    with open(src, 'rb') as f:
        data = f.read()
    h = hashlib.sha256(data).hexdigest()[:20]
    outdir = os.path.join(BUILD, 'pyx', h)
    suffix = sysconfig.get_config_var('EXT_SUFFIX')
    so = os.path.join(outdir, 'basis_eval' + suffix)
    if os.path.exists(so):
        return so
    os.makedirs(outdir, exist_ok=True)
    pyx = os.path.join(outdir, 'basis_eval.pyx')
    with open(pyx, 'wb') as f:
        f.write(data)
    import numpy as np
    c = os.path.join(outdir, 'basis_eval.c')
    subprocess.run([sys.executable, '-m', 'cython', '-3', pyx, '-o', c],
                   check=True, stdout=subprocess.PIPE, stderr=subprocess.PIPE, timeout=600)
    inc = sysconfig.get_paths()['include']
    tmp = so + '.tmp.%d' % os.getpid()
    subprocess.run(['gcc', '-shared', '-fPIC', '-O2', '-fwrapv', '-w', '-I', inc, '-I', np.get_include(),
                    c, '-o', tmp], check=True, timeout=900)
    os.replace(tmp, so)
    return so


def load_splipy():
    """Import splipy from REPO with the freshly built evaluator."""
    so = build_pyx()
    if REPO not in sys.path:
        sys.path.insert(0, REPO)
    for k in list(sys.modules):
        if k == 'splipy' or k.startswith('splipy.'):
            del sys.modules[k]
    # package first (without executing __init__ twice): create the package module shell
    spec = importlib.util.spec_from_file_location(
        'splipy', os.path.join(REPO, 'splipy', '__init__.py'),
        submodule_search_locations=[os.path.join(REPO, 'splipy')])
    pkg = importlib.util.module_from_spec(spec)
    sys.modules['splipy'] = pkg
    loader = importlib.machinery.ExtensionFileLoader('splipy.basis_eval', so)
    espec = importlib.util.spec_from_file_location('splipy.basis_eval', so, loader=loader)
    ext = importlib.util.module_from_spec(espec)
    loader.exec_module(ext)
    sys.modules['splipy.basis_eval'] = ext
    pkg.basis_eval = ext
    spec.loader.exec_module(pkg)
    import splipy
    assert splipy.basis_eval is ext or sys.modules['splipy.basis_eval'] is ext
    return splipy


if __name__ == '__main__':
    print(build_pyx())
