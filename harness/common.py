"""Shared machinery of the checks: building the Coq development, the extracted
runner, exact conversions, L0 (proof layer) checking, evidence and verdicts."""
import fcntl
import glob
import hashlib
import json
import os
import random
import re
import subprocess
import sys
import time
from fractions import Fraction

VERIF = os.path.dirname(os.path.dirname(os.path.abspath(__file__)))
COQ = os.path.join(VERIF, 'coq')
BUILD = os.path.join(VERIF, 'build')
REPO = os.environ.get('SPLIPY_REPO', '/repo')
EXDIR = os.path.join(BUILD, 'extracted')
RUNNER = os.path.join(EXDIR, 'runner')
NPROC = int(os.environ.get('VERIF_JOBS', '16'))

ALLOWED_AXIOMS = {
    'ClassicalDedekindReals.sig_forall_dec',
    'ClassicalDedekindReals.sig_not_dec',
    'FunctionalExtensionality.functional_extensionality_dep',
    'Classical_Prop.classic',
    'ProofIrrelevance.proof_irrelevance',
    'Eqdep.Eq_rect_eq.eq_rect_eq',
    'JMeq.JMeq_eq',
    'PropExtensionality.propositional_extensionality',
    'ClassicalEpsilon.constructive_indefinite_description',
    'Epsilon.epsilon_statement',
    'ChoiceFacts.FunctionalChoice_on', 'ClassicalChoice.choice',
}

FORBIDDEN = re.compile(r'\b(Admitted|admit|Axiom|Axioms|Parameter|Parameters|Conjecture|Conjectures|'
                       r'Admit Obligations|bypass_check)\b|Unset\s+Guard|Unset\s+Positivity|'
                       r'Unset\s+Universe\s+Checking|type-in-type|impredicative-set')


def sh(cmd, timeout=1800, cwd=None, env=None, check=False, inp=None):
    p = subprocess.run(cmd, shell=isinstance(cmd, str), cwd=cwd, env=env, input=inp,
                       stdout=subprocess.PIPE, stderr=subprocess.STDOUT, timeout=timeout, text=True)
    if check and p.returncode != 0:
        raise RuntimeError('command failed: %s\n%s' % (cmd, p.stdout[-4000:]))
    return p.returncode, p.stdout


class Lock:
    def __init__(self, name):
        os.makedirs(BUILD, exist_ok=True)
        self.path = os.path.join(BUILD, name + '.lock')

    def __enter__(self):
        self.f = open(self.path, 'w')
        fcntl.flock(self.f, fcntl.LOCK_EX)
        return self

    def __exit__(self, *a):
        fcntl.flock(self.f, fcntl.LOCK_UN)
        self.f.close()


# ----------------------------------------------------------------------------
# building

def coq_makefile():
    mk = os.path.join(COQ, 'Makefile')
    proj = os.path.join(COQ, '_CoqProject')
    if (not os.path.exists(mk)) or os.path.getmtime(mk) < os.path.getmtime(proj):
        sh('coq_makefile -f _CoqProject -o Makefile', cwd=COQ, check=True)


def regen_kernels():
    """Regenerate Gen/*.v from /repo's current sources (fail-closed translator)."""
    try:
        import translate
    except ImportError:
        return []
    w = translate.regenerate_all()
    os.makedirs(BUILD, exist_ok=True)
    json.dump({'failed': translate.FAILED, 'props': translate.KERNEL_PROPERTIES},
              open(os.path.join(BUILD, 'translate_failed.json'), 'w'))
    return w


def make(targets=None, timeout=3000):
    """Full .vo build (never -vos).  Returns (ok, log)."""
    with Lock('coq'):
        regen = regen_kernels()
        coq_makefile()
        tg = ' '.join(targets) if targets else ''
        rc, out = sh('timeout %d make -j%d %s' % (timeout, NPROC, tg), cwd=COQ, timeout=timeout + 60)
        return rc == 0, out


def build_runner(force=False):
    """Extract the Q instance and compile the OCaml runner (if stale)."""
    with Lock('runner'):
        os.makedirs(EXDIR, exist_ok=True)
        execvo = os.path.join(COQ, 'theories', 'Extract', 'Exec.vo')
        srcs = [execvo, os.path.join(COQ, 'runner', 'main.ml'),
                os.path.join(COQ, 'theories', 'Extract', 'ExtractAll.v')]
        ok, out = make(['theories/Extract/Exec.vo'])
        if not ok:
            raise RuntimeError('cannot build Exec.vo\n' + out[-3000:])
        if (not force) and os.path.exists(RUNNER) and all(
                os.path.getmtime(RUNNER) >= os.path.getmtime(s) for s in srcs):
            return RUNNER
        for f in glob.glob(os.path.join(EXDIR, '*')):
            if os.path.isfile(f):
                os.remove(f)
        sh('timeout 900 coqc -Q %s/theories SplipyModel %s/theories/Extract/ExtractAll.v -o %s/ExtractAll.vo'
           % (COQ, COQ, EXDIR), cwd=EXDIR, check=True, timeout=1000)
        sh('cp %s/runner/main.ml %s/' % (COQ, EXDIR), check=True)
        sh('ocamlfind ocamlopt -package zarith -linkpkg -w -a -I . '
           '$(ocamlfind ocamldep -sort *.ml *.mli | tr -s " \\n" " ") -o runner.tmp && mv runner.tmp runner',
           cwd=EXDIR, check=True, timeout=1000)
        return RUNNER


def setup():
    t0 = time.time()
    ok, out = make()
    if not ok:
        print(out[-6000:])
        print('SETUP FAILED: coq build')
        return 1
    build_runner(force=True)
    sys.path.insert(0, os.path.join(VERIF, 'harness'))
    import build_pyx
    build_pyx.build_pyx()
    print('setup ok in %.0fs' % (time.time() - t0))
    return 0


# ----------------------------------------------------------------------------
# exact numbers

def fr(x):
    """exact value of a float / int / Fraction"""
    if isinstance(x, Fraction):
        return x
    if isinstance(x, int):
        return Fraction(x)
    return Fraction(*float(x).as_integer_ratio())


def qs(x):
    x = fr(x)
    return str(x.numerator) if x.denominator == 1 else '%d/%d' % (x.numerator, x.denominator)


def qlist(xs):
    xs = list(xs)
    return '%d %s' % (len(xs), ' '.join(qs(x) for x in xs))


def ilist(xs):
    xs = list(xs)
    return '%d %s' % (len(xs), ' '.join(str(int(x)) for x in xs))


class Toks:
    def __init__(self, line):
        self.t = line.split()
        self.i = 0

    def peek(self):
        return self.t[self.i]

    def word(self):
        s = self.t[self.i]
        self.i += 1
        return s

    def int(self):
        return int(self.word())

    def q(self):
        s = self.word()
        if '/' in s:
            a, b = s.split('/')
            return Fraction(int(a), int(b))
        return Fraction(int(s))

    def list(self, f):
        n = self.int()
        return [f() for _ in range(n)]

    def qlist(self):
        return self.list(self.q)

    def ilist(self):
        return self.list(self.int)

    def opt(self, f):
        return f() if self.int() else None

    def done(self):
        return self.i >= len(self.t)


MODEL_LOG = []     # (command line, raw output line) of every runner call of this process (for the kernel cross-check)
LAST_KC = None


def kernel_crosscheck(pid, tier, seed):
    """Re-evaluate a sample of the runner's answers inside Coq (vm_compute); see harness/kernelcheck.py."""
    global LAST_KC
    if os.environ.get('VERIF_NO_KC') or not MODEL_LOG:
        return None
    import random as _r
    import kernelcheck
    rng = _r.Random(seed * 7919 + 13)
    lines = [a for a, _ in MODEL_LOG]
    outs = [b for _, b in MODEL_LOG]
    LAST_KC = kernelcheck.crosscheck(pid, lines, outs, rng, sample=(16 if tier == 'quick' else 160),
                                     per_term_timeout=(25 if tier == 'quick' else 120), timeout=(600 if tier == 'quick' else 6000))
    LAST_KC['runner_lines_total'] = len(lines)
    return LAST_KC


def run_model(lines, shards=None, timeout=3000):
    """Run the extracted model on command lines; returns one Toks per line."""
    build_runner()
    if not lines:
        return []
    shards = shards or min(NPROC, max(1, len(lines) // 200))
    chunks = [lines[i::shards] for i in range(shards)]
    if os.environ.get('VERIF_DUMP_LINES'):
        with open(os.environ['VERIF_DUMP_LINES'], 'a') as f_:
            f_.write('\n'.join(lines) + '\n')
    procs = []
    for ch in chunks:
        p = subprocess.Popen([RUNNER], stdin=subprocess.PIPE, stdout=subprocess.PIPE, text=True)
        procs.append(p)
    import threading
    outs = [None] * shards

    def feed(i):
        outs[i], _ = procs[i].communicate('\n'.join(chunks[i]) + '\n', timeout=timeout)
    th = [threading.Thread(target=feed, args=(i,)) for i in range(shards)]
    for t in th:
        t.start()
    for t in th:
        t.join()
    res = [None] * len(lines)
    for s in range(shards):
        ol = outs[s].split('\n')
        if ol and ol[-1] == '':
            ol.pop()
        if len(ol) != len(chunks[s]):
            raise RuntimeError('runner produced %d lines for %d commands' % (len(ol), len(chunks[s])))
        for j, o in enumerate(ol):
            res[s + j * shards] = Toks(o)
            if len(MODEL_LOG) < 200000:
                MODEL_LOG.append((lines[s + j * shards], o))
    return res


# ----------------------------------------------------------------------------
# L0: the proof layer

def grep_gate():
    bad = []
    for root, _, files in os.walk(os.path.join(COQ, 'theories')):
        for f in files:
            if f.endswith('.v'):
                p = os.path.join(root, f)
                txt = open(p).read()
                # strip comments
                txt2 = re.sub(r'\(\*.*?\*\)', '', txt, flags=re.S)
                for m in FORBIDDEN.finditer(txt2):
                    bad.append('%s: %s' % (os.path.relpath(p, VERIF), m.group(0)))
    proj = open(os.path.join(COQ, '_CoqProject')).read()
    for m in re.finditer(r'type-in-type|impredicative-set|-vos|-vok|bypass', proj):
        bad.append('_CoqProject: ' + m.group(0))
    return bad


def l0_check(pid, thorough=False):
    """Build Properties/<pid>.vo and everything it needs from the current tree,
    re-compile the property file to capture Print Assumptions, check axioms.
    Returns dict(ok, theorems=[{name, axioms, closed}], log, broken=[names])."""
    t0 = time.time()
    res = {'ok': False, 'theorems': [], 'log': '', 'broken': [], 'gate': []}
    res['gate'] = grep_gate()
    propfile = os.path.join(COQ, 'theories', 'Properties', pid + '.v')
    if not os.path.exists(propfile):
        res['log'] = 'no property file'
        return res
    ok, out = make(['theories/Properties/%s.vo' % pid])
    if not ok:
        res['log'] = out[-6000:]
        m = re.findall(r'File "([^"]+)", line (\d+)', out)
        res['broken'] = ['%s:%s' % x for x in m[-3:]] or ['make failed']
        return res
    l0dir = os.path.join(BUILD, 'l0')
    os.makedirs(l0dir, exist_ok=True)
    rc, out = sh('timeout 900 coqc -Q theories SplipyModel theories/Properties/%s.v -o %s/%s.vo'
                 % (pid, l0dir, pid), cwd=COQ, timeout=1000)
    if rc != 0:
        res['log'] = out[-6000:]
        res['broken'] = ['Properties/%s.v' % pid]
        return res
    src = re.sub(r'\(\*.*?\*\)', '', open(propfile).read(), flags=re.S)
    names = re.findall(r'^\s*(?:Theorem|Corollary)\s+([A-Za-z0-9_\']+)', src, flags=re.M)
    printed = re.findall(r'Print Assumptions\s+([A-Za-z0-9_\'\.]+)\s*\.', src)
    # parse output blocks in order
    blocks = []
    cur = None
    for line in out.split('\n'):
        if line.startswith('Closed under the global context'):
            blocks.append([])
            cur = None
        elif line.startswith('Axioms:'):
            cur = []
            blocks.append(cur)
        elif cur is not None:
            m = re.match(r'^([A-Za-z_][A-Za-z0-9_\.\']*)\s*(:|$)', line)
            if m and not line.startswith(' '):
                cur.append(m.group(1))
    ok_all = True
    for i, nm in enumerate(printed):
        ax = blocks[i] if i < len(blocks) else None
        if ax is None:
            ok_all = False
            res['broken'].append(nm + ': no Print Assumptions output')
            continue
        bad = [a for a in ax if a not in ALLOWED_AXIOMS]
        if bad:
            ok_all = False
            res['broken'].append('%s: disallowed axioms %s' % (nm, bad))
        res['theorems'].append({'name': nm, 'axioms': ax})
    try:
        tf = json.load(open(os.path.join(BUILD, 'translate_failed.json')))
        for fn, msg in tf['failed'].items():
            if pid in tf['props'].get(fn, []):
                ok_all = False
                res['broken'].append('tie broken: kernel %s could not be translated from the current source (%s); '
                                     'theorems were checked against the committed reference copy only' % (fn, msg))
    except Exception:
        pass
    missing = [n for n in names if n not in printed]
    if missing:
        ok_all = False
        res['broken'].append('theorems without Print Assumptions: %s' % missing)
    if res['gate']:
        ok_all = False
        res['broken'].append('grep gate: %s' % res['gate'][:5])
    if thorough:
        rc, out2 = sh('timeout 1500 coqchk -silent -o -Q theories SplipyModel SplipyModel.Properties.%s' % pid,
                      cwd=COQ, timeout=1600)
        res['coqchk'] = out2[-3000:]
        if rc != 0:
            ok_all = False
            res['broken'].append('coqchk failed')
    res['ok'] = ok_all
    res['log'] = out[-3000:]
    res['wall_s'] = time.time() - t0
    return res


# ----------------------------------------------------------------------------
# findings / verdicts / evidence

def load_findings():
    p = os.path.join(VERIF, 'known_findings.json')
    if not os.path.exists(p):
        return []
    return json.load(open(p)).get('findings', [])


class Corr:
    """Collector of L1 disagreements (implementation vs extracted model on the same pre-state).  Every disagreement
    of a run is kept (up to a cap), so that one inside the scope of a recorded finding cannot hide another."""
    CAP = 400

    def __init__(self):
        self.items = []
        self.total = 0

    def open(self):
        return True

    def __iadd__(self, case):
        self.total += 1
        if len(self.items) < self.CAP:
            self.items.append(case)
        return self

    def __bool__(self):
        return bool(self.items)


class Verdict:
    """Collects failures of one run, classifies them against known findings and
    prints the VIOLATION / KNOWN-FINDING lines."""

    def __init__(self, pid, tier, seed):
        self.pid, self.tier, self.seed = pid, tier, seed
        self.t0 = time.time()
        self.fail = []          # (kind, case dict)
        self.known = {}         # finding id -> count
        self.findings = [f for f in load_findings() if f.get('property') == pid and f.get('status') == 'open']
        self.nviol = 0
        os.makedirs(os.path.join(VERIF, 'replays'), exist_ok=True)
        if not os.environ.get('VERIF_REPLAY'):
            for f in glob.glob(os.path.join(VERIF, 'replays', pid + '-*.json')):
                os.remove(f)

    def failure(self, case, classify=None):
        """case: JSON-able dict with at least 'what'.  classify: callable(finding, case) -> bool"""
        for f in self.findings:
            try:
                import findings as FM
                pred = getattr(FM, f['classifier'])
                if pred(case, f.get('params', {})):
                    self.known[f['id']] = self.known.get(f['id'], 0) + 1
                    return 'known'
            except Exception as e:  # a broken classifier never hides a failure
                pass
        self.fail.append(case)
        return 'new'

    def finish(self, l0=None, extra_no_input=None):
        """Print verdict lines; return exit code."""
        rc = 0
        self.l1_total = self.l1_known = 0
        if isinstance(extra_no_input, Corr):
            corr, extra_no_input = extra_no_input, None
            self.l1_total = corr.total
            for item in corr.items:
                # a model/implementation disagreement inside the scope of a recorded finding (the model guards that
                # sub-domain instead of transcribing the defect) is counted with that finding; the first one outside
                # every such scope is what is reported
                if self.failure(item) == 'known':
                    self.l1_known += 1
                else:
                    self.fail.remove(item)
                    if extra_no_input is None:
                        extra_no_input = item
            if os.environ.get('VERIF_DEBUG'):
                print('DEBUG L1 disagreements: total=%d classified-known=%d first-new=%s' % (corr.total, self.l1_known, (extra_no_input or {}).get('what')), file=sys.stderr)
        elif extra_no_input is not None and self.failure(extra_no_input) == 'known':
            extra_no_input = None      # a model/implementation disagreement inside the scope of a recorded finding
        elif extra_no_input is not None:
            self.fail.remove(extra_no_input)
        for f in self.findings:
            if f['id'] in self.known:
                print('KNOWN-FINDING: property=%s %s (%d cases this run; id=%s)'
                      % (self.pid, f['summary'], self.known[f['id']], f['id']))
        if os.environ.get('VERIF_DUMP'):
            json.dump(self.fail, open(os.path.join(VERIF, 'replays', '%s-all.json' % self.pid), 'w'), default=str)
        shown = 0
        for case in self.fail:
            if shown >= 3:
                break
            path = os.path.join(VERIF, 'replays', '%s-%d.json' % (self.pid, shown))
            json.dump(case, open(path, 'w'), indent=1, default=str)
            print('VIOLATION property=%s replay=%s' % (self.pid, os.path.relpath(path, VERIF)))
            shown += 1
            rc = 1
        self.nviol = len(self.fail)
        kc = None
        try:
            kc = kernel_crosscheck(self.pid, self.tier, self.seed)
        except Exception as e:   # noqa
            kc = {'error': 'kernel cross-check crashed: %r' % (e,), 'mismatches': [], 'checked': 0}
            global LAST_KC
            LAST_KC = kc
        if kc is not None and (kc.get('mismatches') or kc.get('error')) and not self.fail:
            path = os.path.join(VERIF, 'replays', '%s-kernel.json' % self.pid)
            bad = [{'command': MODEL_LOG[i][0][:4000], 'runner_output': MODEL_LOG[i][1][:4000]} for i in kc.get('mismatches', [])[:3]]
            json.dump({'what': 'correspondence broken: the extracted runner and the Coq kernel (vm_compute of the same definitions) disagree, '
                               'or the kernel re-evaluation could not be completed', 'kernel_crosscheck': kc, 'cases': bad},
                      open(path, 'w'), indent=1, default=str)
            print('VIOLATION property=%s replay=%s no-failing-input-found' % (self.pid, os.path.relpath(path, VERIF)))
            self.nviol += 1
            rc = 1
        if l0 is not None and not l0['ok'] and not self.fail:
            path = os.path.join(VERIF, 'replays', '%s-l0.json' % self.pid)
            json.dump({'what': 'proof layer no longer checks', 'broken': l0['broken'], 'log': l0['log'][-3000:]},
                      open(path, 'w'), indent=1)
            print('VIOLATION property=%s replay=%s no-failing-input-found' % (self.pid, os.path.relpath(path, VERIF)))
            self.nviol += 1
            rc = 1
        if extra_no_input and not self.fail:
            path = os.path.join(VERIF, 'replays', '%s-corr.json' % self.pid)
            json.dump(extra_no_input, open(path, 'w'), indent=1, default=str)
            print('VIOLATION property=%s replay=%s no-failing-input-found' % (self.pid, os.path.relpath(path, VERIF)))
            self.nviol += 1
            rc = 1
        return rc


def write_evidence(pid, tier, seed, l0, coverage, t0, violations, assumptions=None, known=None):
    os.makedirs(os.path.join(VERIF, 'evidence'), exist_ok=True)
    cov = dict(coverage)
    th = l0.get('theorems', []) if l0 else []
    cov['obligations'] = max(1, len(th) + len(l0.get('broken', []) if l0 and not l0['ok'] else []))
    cov['discharged'] = len(th) if (l0 and l0['ok']) else max(0, len(th) - 1)
    if cov['discharged'] < 1:
        cov['discharged'] = 0
    cov['checker_cmd'] = ('make -C coq theories/Properties/%s.vo && coqc theories/Properties/%s.v '
                          '(Print Assumptions parsed)%s' % (pid, pid, '; coqchk -o' if tier == 'thorough' else ''))
    cov['theorems'] = th
    cov['trusted_base'] = [
        'Coq 8.16.1 kernel (vm_compute used; native_compute not used)',
        'axioms per theorem as listed under coverage.theorems (standard library only)',
        'extraction: ExtrOcamlBasic + ExtrOcamlZBigInt; OCaml 4.13 + zarith; runner/main.ml parsing/printing',
        'harness: case generation, exact float->rational snapshot, comparison tolerance 1e-9 relative',
        'numpy/scipy/libm/IEEE rounding modelled not verified (see DESIGN.md section 7)',
    ]
    if known:
        cov['known_findings_hit'] = known
    if LAST_KC is not None:
        cov['kernel_crosscheck'] = {k: v for k, v in LAST_KC.items() if k != 'error'}
        cov['trusted_base'][2] += (' (cross-checked on this run: %d sampled runner answers re-evaluated inside Coq with vm_compute, %d mismatches)'
                                   % (LAST_KC.get('checked', 0), len(LAST_KC.get('mismatches', []))))
    ev = {
        'property_id': pid, 'tier': tier, 'seed': seed, 'level': 'proof',
        'coverage': cov,
        'assumptions': assumptions or [],
        'wall_s': round(time.time() - t0, 2),
        'violations': violations,
    }
    if cov['discharged'] < 1:
        # proof layer broken: fall back to the generic keys only
        cov.pop('obligations'); cov.pop('discharged')
    path = os.path.join(VERIF, 'evidence', pid + '.json')
    json.dump(ev, open(path, 'w'), indent=1, default=str)
    return path


def case_hash(obj):
    return hashlib.sha1(json.dumps(obj, sort_keys=True, default=str).encode()).hexdigest()


def get_seed():
    return int(os.environ.get('VERIF_SEED', '20260929'))


def close(a, b, scale=1.0, tol=1e-9):
    """float a (impl) vs exact Fraction b (model)"""
    bf = float(b)
    return abs(float(a) - bf) <= tol * max(1.0, abs(bf), scale)


def guarded_main(pid, run):
    """Entry point wrapper: a crash of the machinery itself is reported as 'property no longer shown to hold'."""
    import argparse
    import traceback
    ap = argparse.ArgumentParser()
    ap.add_argument('--tier', default=os.environ.get('VERIF_TIER', 'quick'))
    ap.add_argument('--replay')
    a = ap.parse_args()
    try:
        return run(a.tier, get_seed(), a.replay)
    except Exception as exc:   # noqa
        if type(exc).__name__ == 'ConstructorMismatch':
            # a concrete failing input: the object of this case cannot even be constructed as specified
            os.makedirs(os.path.join(VERIF, 'replays'), exist_ok=True)
            path = os.path.join(VERIF, 'replays', '%s-ctor.json' % pid)
            json.dump(exc.case, open(path, 'w'), indent=1, default=str)
            print('VIOLATION property=%s replay=%s' % (pid, os.path.relpath(path, VERIF)))
            try:
                write_evidence(pid, a.tier, get_seed(), {'ok': False, 'theorems': [], 'broken': ['constructor'], 'log': ''},
                               {'evaluations': 1, 'distinct_nontrivial': 2, 'rule': 'stopped at the first object the constructor stores wrongly', 'samples': [exc.case]},
                               time.time(), 1)
            except Exception:
                pass
            return 1
        tb = traceback.format_exc()
        os.makedirs(os.path.join(VERIF, 'replays'), exist_ok=True)
        path = os.path.join(VERIF, 'replays', '%s-crash.json' % pid)
        json.dump({'what': 'the check could not complete (model build or correspondence machinery broke on the current tree)',
                   'traceback': tb[-4000:]}, open(path, 'w'), indent=1)
        print(tb[-1500:])
        print('VIOLATION property=%s replay=%s no-failing-input-found' % (pid, os.path.relpath(path, VERIF)))
        try:
            write_evidence(pid, a.tier, get_seed(), {'ok': False, 'theorems': [], 'broken': ['crash'], 'log': tb[-2000:]},
                           {'evaluations': 1, 'distinct_nontrivial': 2, 'rule': 'crashed before exploring', 'samples': [{'crash': tb[-300:]}]},
                           time.time(), 1)
        except Exception:
            pass
        return 1
