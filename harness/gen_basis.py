"""Structured generators for knot vectors / bases (exact Fractions, low-bit dyadics)."""
from fractions import Fraction as Fr

SPACINGS = [Fr(1, 4), Fr(1, 2), Fr(1), Fr(2), Fr(3)]


def gen_breaks(rng, nint, uniform=None):
    """nint interior breakpoints -> list of nint+2 strictly increasing values starting at 0"""
    if uniform is None:
        uniform = rng.random() < 0.4
    h = rng.choice(SPACINGS)
    xs = [Fr(0)]
    for _ in range(nint + 1):
        xs.append(xs[-1] + (h if uniform else rng.choice(SPACINGS)))
    return xs


def place(rng, xs, big=False):
    """affine placement: shift by a dyadic, scale by 2^k"""
    sc = Fr(2) ** rng.choice([-2, -1, 0, 0, 0, 1, 2])
    sh = Fr(rng.randint(-16, 16), rng.choice([1, 2, 4]))
    if big:
        sh += 10 ** 6
    return [x * sc + sh for x in xs]


def open_knots(p, breaks, mults):
    k = [breaks[0]] * p
    for b, m in zip(breaks[1:-1], mults):
        k += [b] * m
    k += [breaks[-1]] * p
    return k


def nonopen_knots(rng, p, breaks, mults):
    """end multiplicities < p: extra distinct knots outside the domain"""
    ms = rng.randint(1, p)
    me = rng.randint(1, p)
    k = []
    # knots before start: p - ms of them, decreasing outward
    pre = []
    x = breaks[0]
    for _ in range(p - ms):
        x = x - rng.choice(SPACINGS)
        pre.append(x)
        if rng.random() < 0.3 and len(pre) < p - ms:
            pre.append(x)
    pre = pre[:p - ms]
    k = sorted(pre) + [breaks[0]] * ms
    for b, m in zip(breaks[1:-1], mults):
        k += [b] * m
    k += [breaks[-1]] * me
    post = []
    x = breaks[-1]
    for _ in range(p - me):
        x = x + rng.choice(SPACINGS)
        post.append(x)
    k += post
    return k


def general_knots(rng, p, breaks, mults):
    """any non-decreasing knot vector the constructor accepts: every break (the outer ones too) with a multiplicity
    1..p, at least 2p knots, start = k[p-1] < k[len-p] = end.  Unlike nonopen_knots, the domain ends may sit inside
    a group of equal knots (e.g. order 2, [0, 1, 2, 2, 3]: end = 2 with a copy to its left and a knot after it)."""
    for _ in range(50):
        k = []
        for b in breaks:
            k += [b] * rng.randint(1, p)
        while len(k) < 2 * p:
            k.append(k[-1] + rng.choice(SPACINGS))
        if k[p - 1] < k[len(k) - p]:
            return k
    return open_knots(p, breaks, mults)


def periodic_knots(p, breaks, mults, cont):
    """periodic knot vector of continuity cont (-1 < cont <= p-2): seam multiplicity p-1-cont,
    ghost knots are the exact periodic images (also for bases with few functions)."""
    a, b = breaks[0], breaks[-1]
    T = b - a
    ms = p - 1 - cont
    period = []          # knots in (a, b] with multiplicity
    for x, m in zip(breaks[1:-1], mults):
        period += [x] * m
    period += [b] * ms
    reps = 2 + (p + cont + 2) // max(1, len(period))
    full = []
    for r in range(-reps, reps + 1):
        full += [x + r * T for x in period]
    # index of the last 'a' in full: a = b - T is the end of period r = -1
    ia = max(i for i, x in enumerate(full) if x == a)
    # knots[p-1] = a
    start_idx = ia - (p - 1)
    nk = (p - 1) + len(period) + (cont + 1) + 1  # up to end (incl ms copies) + cont+1 tail
    # total length: p-1 knots up to and incl. last a ... simpler: n_all = index of end in knots
    # end = knots[n_all] is the FIRST occurrence of b after the domain interior => n_all = p-1 + len(period) - ms + 1
    n_all = (p - 1) + len(period) - ms + 1
    total = n_all + p
    k = full[start_idx:start_idx + total]
    return k


def gen_basis(rng, kind=None, pmax=7, nint_max=6, big=False, multi=None):
    """returns dict(order, knots (Fractions), periodic)"""
    kind = kind or rng.choice(['open', 'open', 'nonopen', 'periodic', 'periodic'])
    p = rng.randint(2 if kind == 'periodic' else 1, pmax)
    nint = rng.randint(0, nint_max)
    breaks = place(rng, gen_breaks(rng, nint), big)
    mm = rng.choice([1, 1, p])  # mostly simple knots, sometimes anything up to p
    if multi is not None and rng.random() < multi:
        mm = p
    mults = [rng.randint(1, max(1, mm)) for _ in range(nint)]
    if kind == 'open':
        return dict(order=p, knots=open_knots(p, breaks, mults), periodic=-1, kind=kind)
    if kind == 'nonopen':
        return dict(order=p, knots=nonopen_knots(rng, p, breaks, mults), periodic=-1, kind=kind)
    if kind == 'general':
        return dict(order=p, knots=general_knots(rng, p, breaks, mults), periodic=-1, kind=kind)
    cont = rng.randint(0, p - 2)
    mults = [min(m, p - 1) for m in mults]
    return dict(order=p, knots=periodic_knots(p, breaks, mults, cont), periodic=cont, kind=kind)


def basis_points(rng, b, tol):
    """evaluation parameters: every knot, ends, mid-spans, random dyadics, tolerance fuzz,
    and (periodic) points outside the domain.  Returns list of (Fraction or float-exact, tag)."""
    p, k, per = b['order'], b['knots'], b['periodic']
    start, end = k[p - 1], k[len(k) - p]
    uniq = sorted(set(x for x in k if start <= x <= end))
    pts = [(x, 'knot') for x in uniq]
    for x, y in zip(uniq[:-1], uniq[1:]):
        pts.append(((x + y) / 2, 'mid'))
        for _ in range(2):
            pts.append((x + (y - x) * Fr(rng.randint(1, 63), 64), 'rand'))
    for x in uniq:
        for f in (Fr(1, 4), Fr(3, 4), Fr(4)):
            for s in (-1, 1):
                if rng.random() < 0.5:
                    pts.append((x + s * f * tol, 'fuzz'))
    if per >= 0:
        T = end - start
        for _ in range(4):
            r = rng.choice([-3, -2, -1, 1, 2, 3])
            x = rng.choice(uniq) if rng.random() < 0.5 else start + T * Fr(rng.randint(0, 64), 64)
            pts.append((x + r * T, 'wrap'))
        # images of the seam itself (both one-sided limits there are part of the statement)
        pts.append((start + rng.choice([-2, -1, 2, 3]) * T, 'wrap'))
    else:
        pts.append((start - 1, 'out'))
        pts.append((end + Fr(1, 2), 'out'))
    return pts
