#!/usr/bin/env python3
"""Writes /verif/MANIFEST.json from the table below (kept in one place so that the
manifest stays valid and in step with the checks that exist)."""
import json
import os

VERIF = os.path.dirname(os.path.dirname(os.path.abspath(__file__)))

TB = ("Trusted: Coq 8.16.1 kernel (vm_compute yes, native_compute no); stdlib axioms only, as printed per theorem "
      "(sig_forall_dec, sig_not_dec, functional_extensionality_dep from Reals; Classical_Prop.classic where Coquelicot is used); "
      "Paramcoq-generated terms are kernel-checked; extraction ExtrOcamlBasic+ExtrOcamlZBigInt, OCaml+zarith, runner/main.ml I/O; "
      "Python harness (generation, exact float snapshot, comparison within 1e-9 relative). Modelled not verified: IEEE rounding, numpy/scipy kernels, libm.")

CHECKS = {
    'C01': dict(
        engine='basisdiff',
        technique='Coq proof (Cox-de Boor recurrence invariants, evaluate_spec) + Paramcoq Q/R transfer + differential run of extracted model vs BSplineBasis.evaluate',
        text=("Theorems in coq/theories/Properties/C01.v, for every sorted knot vector, order, periodicity, parameter, derivative order and side: "
              "the span search brackets the parameter; the triangular scheme of basis_eval.pyx (value and derivative loops) computes the Cox-de Boor "
              "values / derivative recurrence with no division by zero; every dense row equals the sum over wrapped images at the normalised "
              "parameter/side (zero row when skipped); non-negativity, partition of unity, vanishing of derivatives of order >= p; the executed Q "
              "instance equals the R instance (parametricity). The model is tied to the code by differential execution (L1: impl vs transcribed "
              "model) and the statement itself is evaluated on the implementation (L2: impl vs reference definition)."),
        note=TB + " C01: 'derivative' means the standard derivative recurrence dB; its identification with the analytic derivative "
                  "(Coquelicot) is in Spec files where proved. unsigned wrap-around of C indices is excluded by the proved bounds, not modelled.",
        design='DESIGN.md section 8, C01'),
    'C02': dict(
        engine='objdiff',
        technique='Coq proof (tensor-product evaluation: convex weights, bounding box, ValueError iff outside, periodic wrap, Greville identity) + Paramcoq transfer + differential run of extracted model vs evaluate() in all calling forms',
        text=("Theorems in Properties/C02.v for every object/pardim/parameter: curve evaluation is the defining sum; every row used by evaluate() is a "
              "vector of convex weights at every validated parameter (from C01); validate raises ValueError exactly when a non-periodic direction is left; "
              "periodic directions wrap by the period (interior parameters); Greville control points give the identity curve; every evaluated point of a "
              "non-rational object lies in the box of its control points; executed Q instance = proved R instance. Correspondence: grid / scalar / "
              "tensor=False / __call__ forms against the extracted model (L1) and against the tensor-product definition assembled from reference rows (L2); "
              "default objects are checked to be the identity and bounding_box() to contain evaluated points on the implementation."),
        note=TB + " C02: numpy tensordot/einsum are modelled by the recursive contraction teval (not verified); the default-control-point constructor path "
                  "(itertools.product + reshape order F) is covered by the implementation-side identity probe, the theorem covers curves (tensor case: separable argument not yet formalised).",
        design='DESIGN.md section 8, C02'),
    'C03': dict(
        engine='kernelgen+objdiff',
        technique='Coq proof over kernels regenerated from the Python source (field: Leibniz/Taylor-jet identities), Coquelicot is_derive for the derivative recurrence, summation by parts for the derivative spline; differential run of extracted dispatch model vs derivative()',
        text=("Theorems in Properties/C03.v: the rational closed forms of Curve.derivative (orders 2,3), Surface.derivative (all multi-indices of total order <= 3) and the "
              "generic first-order quotient rule, translated from the current source on every run, satisfy the Leibniz product identities (they are the Taylor jet of n/W); "
              "unsupported rational orders raise RuntimeError; the non-rational derivative is the tensor sum with differentiated rows; for every order the derivative recurrence is "
              "the analytic derivative inside knot spans (is_derive); the derivative spline identity (summation by parts). L1: implementation vs the extracted dispatch model "
              "(which executes the regenerated kernels on Q); L2: implementation vs exact Leibniz jets of the homogeneous derivatives for every spelling of d/above/tensor; "
              "derivative splines, tangents and normals are cross-checked on the implementation."),
        note=TB + " C03: translator harness/translate.py (fail-closed Python ast -> Gallina) is trusted; one-sided derivatives at knots where the object itself jumps (multiplicity >= order) "
                  "are excluded for rational objects (no derivative of the evaluated map exists there); tangent/normal normalisation is checked numerically only.",
        design='DESIGN.md section 8, C03'),
    'C04': dict(
        engine='basisdiff+objdiff',
        technique='Coq proof (Boehm identity for arbitrary multiplicities; the matrix written by insert_knot has Boehm entries; lifting lemma for any pardim/direction) + Paramcoq transfer + differential run of the extracted transcription (incl. periodic ghost-knot repair) vs insert_knot/refine',
        text=("Theorems in Properties/C04.v: Boehm's identity (both one-sided variants, every multiplicity); the three write loops of BSplineBasis.insert_knot produce exactly Boehm's "
              "matrix on non-periodic bases (N_old = N_new x C for every t); the returned knot vector is sorted and is the old one plus the value; applying the matrix along any "
              "direction of any-pardim control net leaves every coordinate (weights too) of the evaluation unchanged for every parameter. Periodic directions: PARTIAL - the "
              "transcription (wrap, modular indices, both ghost-knot repairs) is tied to the code by correspondence, the geometric statement is checked by L2 only, and a "
              "machine-checked refutation shows the repair is wrong for bases with fewer than order+continuity functions (recorded as a known finding). L2 evaluates the "
              "statement on the implementation with the exact model evaluator: map before = map after at knots/mid-spans/random/wrapped parameters, knot multiset, shapes; "
              "refine and the graded refinement utilities included."),
        note=TB + " C04: periodic geometric statement not proved (only transcribed and tested); np.linspace spacing in refine is modelled exactly (cases use exactly representable spacings); "
                  "graded refinement knot positions (tan/atan) are inputs, only the map/structure is checked.",
        design='DESIGN.md section 8, C04'),
    'C06': dict(
        engine='objdiff',
        technique='Coq proof (affine/mirror invariance of Cox-de Boor, reparam/reverse knot maps, lifting lemma with the reversal matrix, surface transposition) + differential run of extracted model vs operation histories',
        text=("Theorems in Properties/C06.v: B-splines are invariant under increasing affine maps of knots and parameter; mirroring the knots mirrors the functions and flips the one-sided "
              "variant; BSplineBasis.reparam raises ValueError iff end<=start and otherwise maps the knots affinely onto exactly [s,e] with order/periodicity untouched; "
              "BSplineBasis.reverse produces the mirrored knot function; reversing the control net along any non-periodic direction of any-pardim object together with the basis row "
              "preserves every coordinate of the evaluation; surface swap preserves the contraction. Correspondence: histories of reverse/swap/reparam (all direction spellings, "
              "periodic directions included) — post-state vs extracted model after each step (L1), map relation at mapped parameters, exact domains, periodicity, involutions (L2)."),
        note=TB + " C06: periodic reverse (needs the roll by periodic+1, repaired in /repo by a fix: commit) and volume swap are PARTIAL: transcribed and tested, not proved.",
        design='DESIGN.md section 8, C06'),
    'C09': dict(
        engine='kernelgen+objdiff',
        technique='Coq proof (general affine-commutation theorem over the tensor contraction; ring identities on the rotation matrix regenerated from the source; mirror matrix algebra) + differential run of extracted model vs operation histories with a trig oracle',
        text=("Theorems in Properties/C09.v: any coordinate-wise affine map of the control points is the same affine map of every evaluated point for every pardim (constant part via partition "
              "of unity), with scale and translate instances; the Euler-Rodrigues matrix translated from utils.rotation_matrix on every run is orthogonal with determinant one, fixes its "
              "axis and has the right trace (ring identities, no constraint solving); the mirror matrix is an involution, reflects the normal and fixes the plane. Correspondence: histories "
              "of translate/scale/rotate/mirror/project/set_dimension/force_rational and all operator forms; L1 post-state vs extracted model, L2 evaluated point of the result = the stated "
              "affine map (computed independently in exact arithmetic) of the evaluated point before, weights and bases untouched; angles/axes from rational half-angle tangents and Pythagorean triples."),
        note=TB + " C09: cos/sin/sqrt are oracle inputs (rational points on the circle); rotate/mirror/project instances of the general theorem are not spelled out as separate theorems.",
        design='DESIGN.md section 8, C09'),
    'C20': dict(
        engine='basisdiff+effects',
        technique='Coq proof (snap specification and idempotence, tolerance windows of continuity and VertexDict, big-step semantics of nested state() blocks with try/finally) + differential run of extracted models vs the real context manager and tolerance-dependent routines',
        text=("Theorems in Properties/C20.v: snap moves a parameter to a knot iff one is within the tolerance; evaluation of any derivative order and side at t equals evaluation at snap(t); "
              "rounding fuzz beyond an open domain end is the end knot; continuity() counts exactly the knots in the tolerance window; VertexDict matches a coordinate iff it is inside the "
              "window; for every program over the settings (assignments, arbitrarily nested with-blocks, exceptions raised anywhere, library calls) every with-block restores all six settings and "
              "only top-level assignments write; the pre-repair generator code is refuted by a witness. Correspondence: seven tolerance values x parameters at knot +- {1/4..4} tol, "
              "continuity queries, fuzz beyond domain ends, VertexDict identification at {1/2,2,10} atol, catalogue vertex counts under configured tolerances, 300 (6000) random programs "
              "run with the real splipy.state.state, and a settings monitor around API calls including the G2 reader of trimmed surfaces."),
        note=TB + " C20: that library calls have an empty write set is an assumption of theorem 7 that is tied to the code only by the settings monitor; Python contextmanager/try-finally semantics are modelled.",
        design='DESIGN.md section 8, C20'),
    'C05': dict(
        engine='objdiff',
        technique='Coq proof (Prautzsch degree-elevation identity by induction over Cox-de Boor; iterated Boehm insertion; nestedness matrix for any raise amount; the two-sided-inverse order-change matrix of the model IS that matrix; lifting lemma for any pardim/direction; lower-after-raise left inverse) + differential run: implementation vs the exact collocation model extracted from the same definitions, and the statement evaluated on the implementation',
        text=("Proof level for non-periodic open (clamped) directions, any raise amount, any pardim and direction, rational or not; PARTIAL for periodic directions. Theorems in Properties/C05.v: "
              "(4) degree elevation identity (q+1) B_{k,q,i} = sum_j B_{k with knot j doubled,q+1,i} for every sorted knot sequence, both one-sided variants; (5) BSplineBasis.raise_order(a) of the "
              "model returns order p+a, non-periodic, with the sorted union of the old knots and a copies of each distinct knot (multiplicities, hence continuity, unchanged); (6) whenever the model's "
              "order-change matrix exists (two-sided inverse of the new collocation matrix at the new Greville points times the old collocation matrix - np.linalg.inv in the code), applying it in "
              "direction d of any tensor-product net leaves every coordinate of the evaluation unchanged at every parameter and both sides; (7) the reverse change of basis is a left inverse "
              "(lower_order after raise_order restores the control points); (8) the generic uniqueness theorem behind 6; (1)-(3) self-checking solve, sorted merge, and the conditional lifting "
              "statement that still carries the periodic case. Correspondence: the implementation's control points after raise_order/set_order/lower_order are compared with the extracted model (L1), "
              "and the statement is evaluated on the implementation with the proven evaluator (L2): map before = map after at knots/mid-spans/random parameters, order grows by the amounts, domain, "
              "periodicity and every knot multiplicity preserved, lower_order(raise_order) restores knot vectors and map. Known findings: objects with an interior knot of full multiplicity, "
              "non-open knot vectors, lower_order on periodic objects."),
        note=TB + " C05: hypotheses of theorems 5-7: sorted clamped knot vector, distinct knots farther apart than the knot tolerance, start<end, the model's inverse exists (it is self-checking: both products and the shape are verified by the model itself); the periodic analogue of theorem 6 and the knot vector of lower_order are not proved (L1/L2 only); np.linalg.inv/spsolve are modelled by the exact self-checked inverse; tolerance of the control-point comparison 1e-7.",
        design='DESIGN.md section 8, C05 and section 14'),
    'C07': dict(
        engine='objdiff',
        technique='Coq proof (restriction of B-splines to a knot sub-range; slice matrix through the lifting lemma, any pardim; joining theorem at a C0 knot and its list-level instance for the knot vector and control net Curve.append builds) + differential run of the extracted transcriptions of split (incl. periodic roll) and append vs the implementation',
        text=("Theorems in Properties/C07.v: (1,2) on the domain of a piece that keeps knots a..a+m+q the full basis row is the piece's row at columns a..a+m-1 (local support, both sides, any "
              "multiplicity), hence the control net sliced along any direction of any-pardim object, with the piece's basis, evaluates to the original; (3) joining: a spline whose knot sequence has "
              "q copies of e is, left of e, the spline over the left part with the first coefficients and, right of e, the spline over the right part with the remaining ones; (4) Curve.append: "
              "with the merged knot vector of the model (first without its last knot, second shifted and without its first p knots) and the control net c1 ++ tl c2 the joined curve evaluates to the "
              "first curve left of the junction and to the shifted second curve right of it (any order >= 2, any multiplicities, both sides). PARTIAL: the slice arithmetic of split (cuts at "
              "full-multiplicity knots, tiling), BSplineBasis.roll / the periodic branch, the order/rationality unification inside append and subdivide are transcribed (Model/Split.v, "
              "Model/Append.v) and tied by correspondence; the statement itself is evaluated on the implementation: number and domains of pieces tile the domain (one full period from the first "
              "split point; single point -> single object), pieces non-periodic, each piece equals the original at random parameters of its sub-interval, split-then-append, append of two "
              "independent curves of different order/rationality, and subdivide reproduce the maps."),
        note=TB + " C07: known findings for periodic directions with fewer than order+continuity functions and for split at end() of non-open bases; append across a jump of the curve (knot of multiplicity >= order at the split point) is outside append's documented precondition and not asked.",
        design='DESIGN.md section 8, C07 and section 14'),
    'C08': dict(
        engine='objdiff',
        technique='Coq proof (wrap invariance of the evaluator normalisation; dipole lemma for the jump between span polynomials; lifting lemma for rolls) + differential run of the extracted transcription of make_periodic / lower_periodic vs the implementation',
        text=("PARTIAL proof level. Theorems in Properties/C08.v: the evaluator's normalised parameter is invariant under adding integer multiples of the period; the jump between adjacent "
              "span polynomials at a knot is a dipole that vanishes when the multiplicity is at most the degree, so one-sided limits of B-splines agree there; rolls of the control net "
              "commute with evaluation through the lifting lemma. Not proved: smoothness across the seam for the wrapped sums, the open/close round trip, lower_periodic preserving the map; "
              "these are tied by the transcription (Model/Periodic.v, Model/Split.v) + correspondence and evaluated on the implementation: evaluation at t and t+z*period, derivatives up to "
              "the periodic continuity from both sides of the seam, split(seam) then make_periodic restores knots and control points, lower_periodic to every level keeps the map."),
        note=TB + " C08: known findings: small periodic bases (fewer than order+continuity functions) and the control points after open/close for continuity >= 1 with non-uniform seam knots.",
        design='DESIGN.md section 8, C08'),
    'C10': dict(
        engine='objdiff',
        technique='Coq proof (invariant by induction over an operation language; constructor acceptance iff) + structural predicate evaluated on the implementation after every step of random operation histories, cross-checked with the extracted executable predicate',
        text=("Theorems in Properties/C10.v: shape consistency (one basis per direction, |control net| = product of function counts, dim(+1) components per point, no empty direction) is preserved by "
              "every step of the modelled operation language (insert, reverse, swap, reparam, translate, scale, project, set_dimension, force_rational) and hence by every history of any length; "
              "the basis constructor accepts exactly the well-formed inputs and otherwise raises ValueError. Correspondence/L2: histories of up to 8 (12) public operations drawn from 22 kinds "
              "(incl. refine, raise/lower_order, split, make/lower_periodic, rotate, mirror, section, clone, infix operators, derivative splines, make_splines_identical): after each step the "
              "statement's predicate, accessor consistency, first-index-fastest flat indexing, clone, re-construction from own parts and evaluation on the whole domain are checked on the "
              "implementation, and the extracted wf predicate must agree on the snapshot; malformed constructor stream against the constructor model."),
        note=TB + " C10: histories stay in the regime where the periodic algorithms are defined (>= order+continuity functions) and avoid order elevation of objects with jump knots (C04/C05 findings). "
                  "The constructor's periodic test ignores the last ghost knot (noted in DESIGN.md section 10, not a violation of the statement as worded).",
        design='DESIGN.md section 8, C10'),
    'C11': dict(
        engine='effects',
        technique='Coq proof of the frame / freshness / non-interference consequences of effect signatures + effects monitor establishing the signatures on the implementation (byte snapshots, shares_memory, mutation probes)',
        text=("Theorems in Properties/C11.v (axiom-free): an operation whose effect signature writes no pre-existing cell and returns only fresh cells leaves every operand unchanged, shares nothing "
              "with them, and later mutation of result or operand cannot change the other; an in-place operation changes only its receiver's footprint. These proofs are easy given the signatures; "
              "the assurance that the implementation has them is the monitor: 46 non-in-place operations (clone, infix arithmetic, evaluation/derivative queries, sections incl. single points, "
              "edges/faces/corners, split, lower_order, rebuild, make_periodic, derivative splines, measures, G2/STL/SVG writing, extrude/revolve/thicken/edge_curves/edge_surfaces/loft, "
              "SplineModel.add) on operands of pardim 1-3, dimension 2-3, rational or not, periodic or not, and 17 in-place operations (return the receiver, touch no bystander)."),
        note=TB + " C11: proof level applies to the consequences only; the signatures themselves are observed, not proved (numpy aliasing beyond np.shares_memory is not visible).",
        design='DESIGN.md section 8, C11'),
    'C12': dict(
        engine='objdiff',
        technique='Coq proof (compatibility spec, knot-count arithmetic) + composition of C04/C05/C06/C08/C09 results + differential run of the extracted composite model vs make_splines_compatible/identical',
        text=("PARTIAL proof level. Theorems in Properties/C12.v: make_splines_compatible leaves both objects with the larger dimension and common rationality and untouched bases; the insertion "
              "counts min(c2-c1, p-1-c1) bring both knot multiplicities to their maximum. Map preservation is the composition of earlier theorems with their guards (insertion proved; order elevation "
              "conditional; periodic lowering not proved). Correspondence: pairs of objects of equal pardim with different orders, knots, multiplicities, domains, periodicities, rationality and "
              "dimensions; both post-states vs the extracted composite model (L1); same dimension/rationality, identical order/periodicity/knot vector on [0,1] in the requested directions, and "
              "each object still equal to its old map at rescaled parameters with zero-padded coordinates (L2)."),
        note=TB + " C12: inherits the findings about jump knots (order elevation) and small periodic bases.",
        design='DESIGN.md section 8, C12'),
    'C13': dict(
        engine='factories',
        technique='Coq proof (conic identity, Bernstein/quartic weights from Cox-de Boor, regenerated circle nets and circle_segment rule, rotation placement, revolve/extrude sections) + regenerated kernels + differential run of control nets vs the extracted model + implicit-equation evaluation of every factory',
        text=("PARTIAL proof level. Theorems in Properties/C13.v: an ellipse is the (r1, r2)-scaled unit circle; on every span of an order-2 curve (lines, polygons, n_gon) the point is a convex combination of two consecutive control points and n_gon's vertices lie on the circle of radius r; three arc control points blended with quadratic Bernstein weights satisfy X^2+Y^2=r^2 W^2; quadratic B-splines on doubled "
              "knots are Bernstein weights and quartic B-splines on uniformly tripled knots have the stated closed forms (from the Cox-de Boor spec); the p2C0 and p4C1 nets regenerated from "
              "curve_factory.circle lie on the unit circle span by span (sqrt(2) read as the real square root); the regenerated circle_segment loop produces (r cos(i dt), r sin(i dt), w_i), "
              "every span lies on the circle, the arc runs from angle 0 to theta and the weights are positive; the placement built from the regenerated rotation_matrix maps planar points into "
              "the plane orthogonal to the normal at equal distance, z to the normal, recovers the requested x-axis and is an isometry; revolve sections are the profile rotated by the sweep "
              "angle, extrude sections the translated profile. Not proved (checked at L2 only): ellipse/n_gon/polygon/square/cube, disc/sphere/torus/cylinder composites, three-point arcs, "
              "orientation, and the atan2/acos glue. Correspondence: L1 the regenerated nets and Model/Factory.v run in Q on libm's exact cos/sin/sqrt values vs the control points of circle, "
              "circle_segment, revolve, extrude; L2 every factory with random placements evaluated at random parameters against the implicit equation of its shape, start point, orientation."),
        note=TB + " C13: libm cos/sin/sqrt/atan2 are read as the real functions (floating-point rounding is outside the model; the L2 tolerance is 1e-9 relative).",
        design='DESIGN.md section 8, C13'),
    'C14': dict(
        engine='interp',
        technique='Coq proof (matrix algebra over lists, self-checked inverse/solve, collocation rows = evaluation rows, lifting lemma for tensor grids) + differential run of control points vs the extracted exact model + data-reproduction checks on every factory',
        text=("PARTIAL proof level. Theorems in Properties/C14.v: curve interpolation satisfies N cp = x and evaluate(t_i) = x_i for any basis with non-singular collocation; interpolation and "
              "least squares are projections (samples of a spline of the space return its control points) and the least-squares result satisfies the normal equations; every row of the "
              "cubic_curve system (interpolation rows, first/second derivative rows per boundary type) holds for the returned control points; tensor-product surface interpolation passes "
              "through its grid (through the lifting lemma). Not proved (checked at L2 only): PERIODIC cubic curves, chord-length default parameters, loft, manipulate, fit/fit_points, bezier, "
              "rebuild, volume versions, and that floating-point LU agrees with the exact solve. Correspondence: L1 control points (and cubic knot vectors) of interpolate, least_square_fit, "
              "cubic_curve (five boundary types) and surface interpolate vs the extracted exact model; L2 every factory reproduces its data / end conditions / sections / tolerance."),
        note=TB + " C14: numpy/scipy linear solves are modelled by exact Gauss-Jordan elimination whose result is accepted only after checking shape, A X = B (and X A = I for inverses) inside the model; conditioning is outside the model (L1 tolerance 1e-6 relative, inputs with cond > 1e6 skipped).",
        design='DESIGN.md section 8, C14'),
    'C15': dict(
        engine='sections',
        technique='Coq proof (B-splines at a full-multiplicity knot from the Cox-de Boor spec, clamped end rows, sections through the lifting lemma, Coons algebra) + differential run of section() vs the extracted model + boundary evaluation of every construction',
        text=("PARTIAL proof level. Theorems in Properties/C15.v: at a knot of multiplicity q exactly one degree-q B-spline is one (both one-sided families), hence the rows at the ends of an "
              "open direction are unit rows; contracting a net with a unit row in direction d equals contracting the net sliced by the selection matrix (lifting lemma) and the pinned "
              "direction drops out, i.e. a section evaluates to the restriction; bilinear Coons blending of four curves meeting at their corners has those curves as boundary, and the trilinear "
              "blending of six faces has the given faces. Not proved (L2 only): the loop reordering of edge_curves, make_splines_identical inside the constructions (C12), const_par_curve's "
              "matrix product, extrude/thicken, documented order of edges()/faces(). Correspondence: L1 section() for random selectors vs the extracted model; L2 every selector incl. keyword "
              "forms, corners, edges()/faces() order, const_par_curve, edge_curves (2 and 4 curves: rotated, reversed, shuffled, re-represented boundary loops), edge_surfaces (2, 6), "
              "extrude, thicken evaluated against the object / inputs."),
        note=TB + " C15: sections are taken in open (clamped) directions; periodic directions may only be free.",
        design='DESIGN.md section 8, C15'),
    'C16': dict(
        engine='measures',
        technique='Coq proof (telescoping antiderivative formula + Coquelicot is_derive, Frenet algebra, rotation/scaling laws of the integrands) + differential run of integrate()/center() vs the extracted exact model + invariance checks against heavily refined references',
        text=("PARTIAL proof level. Theorems in Properties/C16.v: the function BSplineBasis.integrate evaluates, (k_{i+q+1}-k_i)/(q+1) * sum_{j>=i} B_{j,q+1}, has derivative recurrence telescoping to "
              "B_{i,q}, and that recurrence is the analytic derivative inside every open knot span; tangent, binormal and normal as computed are orthonormal; the rotation matrix regenerated from "
              "the source keeps the squared length of every vector and uniform scaling multiplies the length/area/volume integrands by s, s^2, s^3 at every quadrature point; scaling laws of "
              "curvature and torsion. Not proved (L2 only): the fundamental theorem of calculus step across knots, exactness of Gauss-Legendre quadrature, invariance under knot insertion / order "
              "elevation / splitting (to quadrature accuracy), convergence to the analytic values. Correspondence: L1 integrate() on random sub-intervals and center() vs the extracted exact "
              "model; L2 measures and centres before/after re-representation (heavily refined references must agree), reversal/swap/rigid motion (exact), scaling (proper power), exactness for "
              "polynomial integrands, curvature/torsion scalar and vector forms vs the defining formulas, Frenet orthonormality, analytic circle/disc/cylinder/sphere/torus values under refinement."),
        note=TB + " C16: numpy's Gauss-Legendre nodes/weights and sqrt are outside the model.",
        design='DESIGN.md section 8, C16'),
    'C17': dict(
        engine='topology',
        technique='Coq proof (algebra of signed permutations for any parametric dimension, exhaustive group facts for pardim <= 3 by kernel computation, soundness and completeness of the compute search) + differential run of Orientation.compute vs the extracted model + cell-complex counts on random conforming complexes',
        text=("PARTIAL proof level. Theorems in Properties/C17.v: composition of orientations is associative with the identity as unit and preserves well-formedness (any pardim); for pardim <= 3 "
              "the orientations are exactly the 2/8/48 signed permutations, closed under composition, each with a two-sided inverse (finite check inside the kernel); map_section and the index "
              "map of map_array are compatible with composition; an orientation returned by compute maps the (weight-normalised) control net of b onto that of a within the tolerances with "
              "matching bases, and compute answers None only if no signed permutation of the directions passes that test (the itertools enumeration is complete: every duplicate-free arrangement and every sign vector is a candidate, any pardim). Not proved (L2 only): the catalogue itself (one node per geometric entity, neighbours, boundary()), view_section, twins and handedness handling. "
              "Correspondence: L1 Orientation.compute on re-oriented random objects vs the extracted model; L2 random conforming complexes (blocks, L/T/O shapes, 1-3 dimensions, orders 2-3, "
              "rational or not) with every patch in a random orientation and random insertion order: node counts vs the cell complex, neighbours, boundary, lookups of re-oriented entities, "
              "re-adding, tolerance-level perturbation; orientation laws on the implementation; twins, handedness, self-connected patches."),
        note=TB + " C17: Properties/C17.v is closed under the global context (no axioms).",
        design='DESIGN.md section 8, C17'),
    'C18': dict(
        engine='numbering',
        technique='Coq proof (first-come numbering is a consistent bijection onto 0..ncps-1 by induction over patches and points; IFEM flag injective by kernel computation) + differential run of generate_cp_numbers vs the extracted abstract model + mesh export checks on random complexes',
        text=("PARTIAL proof level. Theorems in Properties/C18.v: in the abstract numbering (patches in insertion order, a point not contained in an earlier patch gets the next number in the "
              "patch's own enumeration) two control points carry the same number exactly when they are the same geometric point, all numbers are below ncps and every number below ncps is "
              "used; the IFEM orientation flag determines the relative orientation of an edge/face interface. Not proved (L2 only): that ownership/sections/orientations of the implementation "
              "realise this numbering (checked by L1 on every generated complex), cell numbers, the exported face list (owner < neighbour, six faces per cell, normals), OpenFOAM ordering. "
              "Correspondence: L1 cp_numbers of every patch vs the extracted model on the point identities; L2 numbering vs geometric identity, range, cps(), cell numbers, IFEM connections "
              "vs the interfaces of the complex with decoded flags, faces of trilinear right-handed models incl. normals, OpenFOAM files (also into a new directory)."),
        note=TB + " C18: Properties/C18.v is closed under the global context (no axioms). Point identity is taken from coordinates rounded to 1e-6.",
        design='DESIGN.md section 8, C18'),
    'C19': dict(
        engine='codecs',
        technique='Coq proof (G2 record layout decode-after-encode = identity for any list of objects, flat/multi-index bijection, C-order/F-order re-indexing round trip) + differential run of the written records vs the extracted encoder + round trips through independent readers/writers',
        text=("PARTIAL proof level. Theorems in Properties/C19.v: decoding the G2 lines of any list of well-formed objects (parametric dimension 1-3, non-periodic, control net of the right size) "
              "returns exactly that list; the first-index-fastest point order of the file and the stored order are inverse re-indexings; ravel/unravel are inverse bijections for every shape. "
              "Not proved (L2 only): '%.16g' number formatting and text parsing, opening of periodic objects before writing (C07/C08), analytic primitive records, SPL, STL, SVG. "
              "Correspondence: L1 the records found in written files (parsed by an independent reader) vs the extracted encoder; L2 write/read round trips to 16 digits for lists of random "
              "objects incl. periodic ones and magnitudes 1e-150..1e150, records from an independent writer, G2 primitive records (circle, line, sphere, cylinder, torus, disc, plane) with random "
              "placement evaluated against their shape, SPL records, STL ascii/binary vertex and facet checks, SVG write/read up to one similarity."),
        note=TB + " C19: SVG curves are continuous planar non-rational curves of order <= 4 (a curve with a jump cannot be elevated to a cubic, see the C05 finding).",
        design='DESIGN.md section 8, C19'),
}

# Added by the fourth build session: theorems that now exist on top of what the texts above describe (where a text above says
# "PARTIAL ... L2 only" about one of these items, this addendum is right).
ADDENDUM = {
    'C15': " ADDED: END TO END: obj_section for any selector (any subset of directions pinned to first/last, clamped ends) then obj_eval = obj_eval of the object with the start/end parameters filled in; corners are the corresponding control points; section nets are slices; the documented order of edges()/faces()/corners() (transcribed from utils.sections, each entry tied to the restriction it evaluates to); Model/ConstPar.v transcribes Surface.const_par_curve (insertion to multiplicity order-1 through basis_continuity, choice of the control-point row) with the theorem obj_eval(curve, s) = obj_eval(surface, (x, s)) for non-periodic directions (x a knot value or tol-separated, multiplicity <= order-1 inside, clamped ends), tied by L1; extrude nets start with the profile.",
    'C12': " ADDED: END TO END for directions that are non-periodic in both operands, any pardim, any mix of dimension/rationality, with order elevation: after make_splines_compatible both objects evaluate to their old maps padded with zeros; after make_splines_identical (one direction or all) both have order max(p1,p2), domain [0,1] and THE SAME knot list (equal as lists; multiplicities are the maxima), and each evaluates at the rescaled parameter to the padded old map; the computation provably succeeds for equal orders (for unequal orders success of the order elevation is a hypothesis, as in C05). Periodic directions (lower_periodic inside) remain L1/L2.",
    'C10': " ADDED: Model/Ops2.v extends the operation language (raise_order, split-and-pick, section, rotate, mirror, make_periodic, lower_periodic, append, make_splines_identical on top of the nine old operations) and Proofs/Ops2Proofs.v proves over ALL histories a stronger invariant: shape, one basis per direction, order >= 1, enough knots, sorted knots, start < end; periodic ghost knots are exact images of the interior (carried through periodic insertion incl. both repair loops, make_periodic, lower_periodic); positive weights preserved by every operation except order raising/lowering; every intermediate object of a history satisfies it; flat first-index-fastest indexing is the documented re-indexing of the stored C order. State-dependent guards (e.g. periodic insertion needs a regular periodic basis, split needs separated split values) are stated per operation; lower_order is not covered.",
    'C04': " ADDED: periodic directions are now PROVED for regular periodic bases (canonical knot list with exact images, at least order+continuity functions -- the threshold below which the recorded finding lives): periodic Boehm identity at spec level; basis_insert_knot succeeds, returns a canonical periodic basis whose period is the old one plus exactly the new knot, in the interior case and in both ghost-repair branches, and the model's dense periodic rows satisfy row(old) = row(new) x C; hence the object-level map is preserved. (End to end through obj_eval: see the wave-3 addition below.)",
    'C03': " ADDED: the regenerated rational kernels are the TRUE derivatives: for numerator/weight functions differentiable on an open interval the curve kernels for d = 1,2,3 are is_derive_n of the quotient (Coquelicot), the generic quotient rule is the partial derivative in any direction, all ten surface multi-indices are the iterated partials (both nestings); for rational spline curves and tensor-product surfaces on open knot spans the kernels applied to the dB sums are the derivatives of the rational map; tangent = normalised first derivative (unit, parallel), normal = normalised cross product (unit, orthogonal to both).",
    'C01': " ADDED: the dense and the sparse result forms agree (dense row = scatter-add of the stored (index, datum) pairs, duplicates summed, for every Num instance; "
           "on non-periodic bases the p indices are the consecutive columns mu-p..mu-1 and everything else is zero).",
    'C02': " ADDED: Model/EvalForms.v models the calling forms as wholes (tensor grid in C order, tensor=False, scalars; whole-list validation incl. empty lists and unequal lengths) with "
           "theorems: grid entry at a multi-index = obj_eval at that tuple, pointwise = grid diagonal, singleton lists/scalars give exactly one point, ValueError iff some non-periodic "
           "direction has an empty list or a parameter outside its domain; tied by L1 on lists of every length (runner commands eval_grid/eval_pointwise).",
    'C06': " ADDED (end to end on the model's own functions, any pardim): obj_reparam_dir then obj_eval at the mapped parameter = obj_eval of the old object (same tolerance under a clear-of-knots "
           "hypothesis on that parameter, or tolerance scaled by the slope with no hypothesis; periodic directions included), the domain is exactly the requested interval, reparam back is the "
           "identity; obj_reverse then obj_eval at a+b-t = obj_eval at t on non-periodic directions for every t that is not within the tolerance of an interior knot of full multiplicity "
           "(ends and knots of lower multiplicity included), domain/order/periodicity unchanged, reverse is an involution (objects equal); obj_swap then obj_eval with the parameters exchanged = "
           "obj_eval for any two directions of any pardim, swap is an involution, curves unchanged. (Reverse on periodic directions: see the wave-3 addition below.)",
    'C07': " ADDED (end to end): for the model's obj_split in a non-periodic direction of any-pardim object, for every strictly increasing list of interior split values that keep 2*tol "
           "distance from each other and the ends: the call succeeds with exactly len+1 pieces, every piece is well formed, non-periodic, of the same order, its domain in that direction is the "
           "consecutive sub-interval [x_{j-1}, x_j] (tiling from start to end), the other directions are untouched, and obj_eval of piece j equals obj_eval of the original at every parameter tuple "
           "of its sub-interval (up to 2*tol below an interior piece end, where the piece evaluates the left and the original the right limit); values outside (start,end) are skipped. "
           "Still L1/L2 only: subdivide (the periodic branch and append: see the additions below).",
    'C08': " ADDED: seam continuity -- for knot functions with exact periodic images and periodic coefficients the wrapped sum and all its derivatives up to the periodic continuity agree from the "
           "right at start and from the left at end (also for finite knot lists; B-splines and their derivatives are continuous at knots of sufficiently low multiplicity, any multiplicity); "
           "translation by a period leaves the wrapped sums unchanged; BSplineBasis.make_periodic of an open basis gives a sorted knot list whose ghost knots are the exact periodic images with "
           "seam multiplicity p-1-continuity, the model's dense rows at start/end agree up to that derivative order; opening at the seam and make_periodic with the same continuity returns the "
           "same knot list (canonical periodic bases with at least p-1+... interior room: cont <= number of interior knots); roll + truncation of the periodic split branch opens exactly at the seam. "
           "Still L1/L2 only: control-point round trip (known finding)."
           " one step of lower_periodic (insert the start knot, roll, drop the last knot) preserves the map and yields a canonical periodic basis of continuity one lower (so the step iterates); Paramcoq transfer of make_periodic/lower_periodic.",
    'C13': " ADDED: composite primitives from the proved building blocks -- sphere, torus (quartic and sqrt form) and solid torus from revolve nets; cylinder and solid cylinder from extrude nets "
           "(point = base + v*axis, radial distance r, height in [0,h]); radial disc and radial solid sphere (straight interpolation to the centre: distance u*r, stays in the plane); the 3x3 "
           "'square' disc net has the four quarter arcs as boundary and lies inside the disc; all composed with the placement by centre and normal (distances, axial and radial coordinates "
           "preserved).",
    'C17': " ADDED: Model/Catalogue.v, an abstract catalogue (patches by their 2^d corner vertex ids, nodes keyed by dimension and corner set, lower/higher links as in TopologicalNode), with "
           "axiom-free theorems for any dimension and any number of patches: add is idempotent and lookup finds every sub-entity, the node set is exactly the set of sub-cubes and is independent "
           "of insertion order and of every re-orientation of every patch (one node per distinct vertex/edge/face/patch), higher neighbours of an interface are exactly the patches having it as a "
           "face, boundary = faces of exactly one patch, node counts of nx x ny (x nz) lattices for all sizes. Tied by L1 on lattice complexes (counts, boundary, interface neighbours). Not "
           "captured by the abstraction: tolerance-based vertex identification, twins, self-adjacent patches (those stay with L2).",
    'C18': " ADDED: Model/Faces.v transcribes generate_cell_numbers and TopologicalNode.faces for a structured trilinear patch (slices, mkindex incl. the swap for direction 1, flatten order, "
           "the node swap at the lower boundary); axiom-free theorems for all nx,ny,nz >= 1: cell numbers over any list of patches are a bijection onto 0..ncells-1; face counts; every internal "
           "face has owner < neighbour which are the two adjacent cells, every adjacent pair has exactly one face; every cell is bounded by exactly six faces; the four nodes of a face are the "
           "four distinct corners shared by owner and neighbour (resp. on the boundary); no face is exported twice; with control points on the integer lattice the vertex order gives normal "
           "+e_d for internal and upper-boundary faces and -e_d at the lower boundary (owner to neighbour / outward). Tied by L1 (faces() and cell numbers of single and offset patches). "
           "(Interfaces between two patches: see the wave-3 addition below.)",
    'C19': " ADDED: Model/Spl.v (SPL reader incl. the component-major, first-index-fastest coefficient layout; an independent writer) with the round-trip theorem decode(encode o) = o for every "
           "non-rational non-periodic object of any pardim, the index bijection, soundness, truncated files rejected; Model/Stl.v (choice of evaluation parameters, padding to 3 components, "
           "quads, split into two triangles, binary counter, whole write_surface path through obj_eval) with theorems: facet count = 2(nu-1)(nv-1) = declared count, every vertex is an evaluated "
           "grid point (zero-padded for planar surfaces) and every grid point occurs, the two triangles of a quad share the diagonal with consistent winding, the parameter list is sorted, "
           "starts/ends at the domain ends and contains every knot. Both tied by L1 (same token lines to model and SPL.read, files written by the model's writer read by the implementation; "
           "STL facets in file order against the model tessellation).",
}

# wave 3 (session 4): appended to the texts above
ADDENDUM3 = {
    'C02': " ADDED (wave 3): Model/DefaultObj.v -- the default object of any parametric dimension (Curve(), Surface(), Volume(), also rational) is the identity map of its unit cube (net, coordinates and on the whole domain), shape and well-formedness; every evaluated point lies in the reported bounding box = box of the projected control points; tied by L1 (runner default_obj, bounding_box).",
    'C04': " ADDED (wave 3): periodic insertion END TO END through obj_eval (wrapped parameters, any periodic direction of any object, lists of knots): Proofs/PeriodicEndToEnd.v insert_knot(s)_periodic_eval, periodic_change_dir_eval.",
    'C06': " ADDED (wave 3): obj_reverse in a periodic direction then obj_eval (Proofs/PeriodicReverse.v, canonical periodic bases).",
    'C07': " ADDED (wave 3): the periodic branch -- roll opens a canonical periodic basis; split of a periodic direction at one value gives one open piece with the same map over a full period; at several increasing values: count, tiling, evaluation of every piece; a decreasing list is refused as the code does (Proofs/PeriodicSplit.v).",
    'C08': " ADDED (wave 3): lower_periodic step and iteration END TO END through obj_eval (Proofs/PeriodicEndToEnd.v lower_periodic_step_eval, lower_periodic_eval).",
    'C13': " ADDED (wave 3): circle_segment_from_three_points -- the linear system the code solves has the determinant of the three points, its solution is the unique circumcentre, the arc passes through first/middle/last point, is planar and on the circle; n-gon, line, polygon, square, cube factories with evaluation theorems (Proofs/ThreePoint.v); Gen/DiscSquare.v regenerated from surface_factory.disc and proved equal to the hand net (DiscSquareTie.v).",
    'C14': " ADDED (wave 3): Model/Loft.v, Model/InterpMore.v -- loft (surface and volume) passes through every section at its parameter, also after set_dimension; cubic curve interpolation with natural/tangent/Hermite/tangent-natural/periodic end conditions passes through the data and meets the end condition (periodic: closed and C2); volume interpolation; surface/volume least squares satisfy the normal equations and are projections; Paramcoq transfer; tied by L1 (runner loft, volume_interpolate, surface_lsq, volume_lsq, cubic_periodic).",
    'C18': " ADDED (wave 3): Model/Faces2.v -- two structured patches glued along one face in any of the 8 orientations: interface faces in closed form, owner/neighbour adjacent, each pair once, six faces per cell in both patches, the final owner<neighbour assertion holds iff the lower-numbered patch owns the interface, normals and nodes of interface faces, total count; tied by L1 (runner model_faces, orientation read from the implementation). Rings (a volume adjacent to itself) are L2 only.",
}
for _k, _v in ADDENDUM3.items():
    ADDENDUM[_k] = ADDENDUM.get(_k, '') + _v

# wave 4 (session 4)
ADDENDUM4 = {
    'C07': " ADDED (wave 4): Model/SplitSnap.v models the REPAIRED split (fix eba13ec: a splitting value in continuity()'s window [k-tol, k+tol) of a knot is replaced by that knot first); Proofs/SplitSnapProofs.v: on the old theorems' inputs the repaired routine is the old one (all end-to-end split theorems re-stated for it, periodic ones included), a value within the tolerance window of an isolated knot splits AT that knot (tiling and evaluation), the periodic recursion's second snap is the identity, and old_split_defect keeps the defect as a machine-checked fact about the faithful model of the old routine; knots separated by more than tol remain a hypothesis (witness given). Proofs/AppendEndToEnd.v: Curve.append END TO END on obj_append (compatibility + order elevation + merge): success, well-formedness, domain, left/right evaluation, and split-then-append re-joins to the original map with the junction PROVED (not assumed).",
    'C12': " ADDED (wave 4): Proofs/IdenticalPeriodic.v -- make_splines_identical in PERIODIC directions for equal orders: both periodic with equal continuity, one periodic/one open (lower_periodic inside), both periodic with different continuity: success, same order, domain [0,1], EQUAL knot lists (period multiplicities are the maxima), both maps preserved on the base period; hypotheses: canonical periodic knot lists with at least order+continuity functions, strict seam, equal seam multiplicity, separation across the seam (the implementation was run where each hypothesis fails: different seam multiplicities give knot vectors of different length -- noted in DESIGN.md 16.13).",
    'C15': " ADDED (wave 4): Model/EdgeLoop.v transcribes the four-curve loop search of edge_curves, old (greedy) and repaired (fix 6667c22, exhaustive over the 48 orders/directions of the last three curves); Proofs/EdgeLoopProofs.v: repaired search sound (all four junctions close), complete without any separation hypothesis, Err iff no arrangement closes, first closing candidate in the code's loop order; the old search's incompleteness and its acceptance of open chains are kept as refutation theorems. Tied by L1 (runner edge_loop: the arrangement realised by the implementation's surface).",
    'C16': " ADDED (wave 4): Proofs/IntegrateFTC.v (Coquelicot) -- the integral of every basis function over ANY interval, for every degree and knot multiplicity, is the difference of the closed-form antiderivative (it never jumps); integral over the support; the integrals sum to the interval length; the model's basis_integrate IS that integral for every non-periodic basis wf_basis_R accepts (at the snapped end points, as in the code).",
    'C17': " ADDED (wave 4): Model/Handed.v, Proofs/HandedProofs.v -- is_right_hand under re-orientation: the normalised triple product of a re-oriented patch is sign(orientation) x the original for all 48 (8) orientations, sign is a homomorphism of compose, value in [-1,1]; a patch passing with margin fails after every odd re-orientation and passes with the same value after every even one; executable square-root-free form of the test with its specification, tied by L1 (runner right_hand vs utils.is_right_hand); chain rule for obj_swap/obj_reverse at the midpoint on the analytic partials of obj_eval (the bridge to obj_deriv is not made).",
    'C18': " ADDED (wave 4): Model/OFoam.v, Proofs/OFoamProofs.v (axiom-free) -- OpenFOAM face ordering for EVERY face list: the three stable sorts give a permutation with internal faces first, sorted by (owner, neighbour), names contiguous and increasing; the groupby loop gives one block per distinct name with startFace/nFaces covering exactly the boundary faces, first startFace = number of internal faces; tied by L1 against the written files entry by entry (runner ofoam). Three defects repaired on the way: e110469 (faces() of a volume adjacent to itself), 026dd4c (boundary count without internal faces), 7544c00 (cps() with rational patches).",
}
for _k, _v in ADDENDUM4.items():
    ADDENDUM[_k] = ADDENDUM.get(_k, '') + _v

# wave 5 (session 4)
ADDENDUM5 = {
    'C04': " ADDED (wave 5): Proofs/PeriodicInsertWrap.v -- a knot given ANYWHERE on the real line is inserted as its image in the base period (wrap_knot_spec; basis_insert_knot b x = basis_insert_knot b (wrap x)); all periodic insertion theorems (basis level, map preservation, through obj_eval, lists) without the hypothesis start <= x < end.",
    'C12': " ADDED: Model/IdenticalFix.v models the REPAIRED routine (fix d42b8fc: the seam of a periodic direction is visited once); Proofs/IdenticalFixProofs.v: it equals the old routine on every input the earlier theorems cover (all of them re-stated for it), and WITHOUT the equal-seam-multiplicity hypothesis it succeeds with equal knot lists (seam multiplicity = the maximum) and preserves both maps; old_identical_seam_defect / repaired_identical_seam are the two outcomes on Q; the runner executes the repaired model.",
    'C15': " ADDED (wave 5): Proofs/EdgeLoopBridge.v -- obj_reverse of a non-periodic curve reverses its control net, hence the abstract loop search IS the search on curve objects (soundness/completeness restated for curve objects, evaluation of each arranged curve); the Coons function of the arranged curves has them as boundary (also homogeneous coordinates); a net-level Coons patch with the input nets as boundary rows/columns (its identity with the library's net is checked numerically only).",
    'C17': " ADDED (wave 5): Model/Matches.v, Proofs/MatchesProofs.v -- BSplineBasis.matches transcribed (incl. numpy's default rtol 1e-5 and the reversal of the FIRST operand): specification, invariance under positive affine maps of either knot vector, reflexivity, exact threshold for a moved interior knot; equals the matcher used by the orientation model (orient_basis_matches_eq).",
}
for _k, _v in ADDENDUM5.items():
    ADDENDUM[_k] = ADDENDUM.get(_k, '') + _v

# wave 6 (session 4)
ADDENDUM6 = {
    'C14': " ADDED (wave 6): Model/Rebuild.v, Proofs/RebuildProofs.v -- Curve.rebuild: the uniform open basis mapped onto the curve's own interval has domain exactly [t0, t1] for ANY t0 (end multiplicities p, interior knots t0 + (t1-t0) i/(n-p+1)), the result is a non-periodic order-p curve with n control points, it interpolates the curve at the Greville points and reproduces curves already in the space.",
    'C16': " ADDED (wave 6): Model/Frenet.v, Proofs/FrenetProofs.v -- tangent, normal, binormal as the code computes them are an orthonormal right-handed frame at every point with non-zero velocity and either curvature or vanishing acceleration; the two-case helper direction for straight legs is never parallel to the velocity; the frame at a parameter depends only on the derivatives there (no single helper works for a whole call: counterexample).",
}
for _k, _v in ADDENDUM6.items():
    ADDENDUM[_k] = ADDENDUM.get(_k, '') + _v

# wave 7 (session 5)
ADDENDUM7 = {
    'C05': " ADDED (wave 7): Model/LowerOrder.v, Proofs/LowerOrderProofs.v -- BSplineBasis.raise_order/lower_order as called (amount < 0 -> ValueError, amount 0 -> clone, constructor call): for every sorted, tolerance-separated knot vector raise_order(a) keeps the distinct knots, adds a to every multiplicity and keeps continuity() at every knot; lower_order(a) sets every multiplicity to max(m - a, 1); lower_order(a) after raise_order(a) is the identity on clamped non-periodic bases of order >= 2; the error branches (order - a < 2, unclamped, periodic: NameError) are theorems, the periodic round trip is a refuted statement (recorded finding).",
    'C15': " ADDED (wave 7): Model/CoonsLib.v, Proofs/CoonsLibProofs.v -- the control net surface_factory.coons_patch really computes (s1 + s2 - s3 on the refined nets, Greville abscissae of the reparametrised bases) equals the abstract Coons net entry by entry for all sizes; its four boundary rows/columns are the four input nets exactly when the corners agree (gap formula and refutation otherwise); the surface object evaluates to the four curves on its edges for every parameter; homogeneous weights blend the same way (interior weights may become negative: counterexample theorem). Tied to the code on every run by kernel evaluation (harness/vmtie.py: coons_patch_obj on Q under vm_compute vs coons_patch on the same four curves).",
    'C13': " ADDED (wave 7): Model/Ellipse.v, Proofs/EllipseProofs.v -- curve_factory.ellipse (scale, in-plane rotation, placement) and n_gon transcribed: the quadric equation r2^2 X^2 + r1^2 Y^2 = r1^2 r2^2 W^2 in the placed frame on every span blend for both circle types, weights copied, plane orthogonal to the normal; n_gon: order 2, periodic, vertices at distance r, every edge is the segment between consecutive vertices, closure; refuted: a centre within allclose of 0 is ignored, ellipse accepts non-positive radii.",
    'C04': " ADDED (wave 7): Model/Refinement.v, Proofs/RefinementProofs.v -- geometric_refine, SplineObject.refine and edge/center_refine: closed form of the inserted knots, strictly inside and increasing, counts, same_geometry end to end through the insertion theorem; refuted: knots are spread over the whole direction (not the first span), alpha < 0 leaves the domain.",
    'C07': " ADDED (wave 7): Model/Subdivide.v, Proofs/SubdivideProofs.v -- utils.refinement.subdivide for curves and surfaces: pieces in order, domains tile at existing knots, every piece evaluates to the original; refuted: the piece count is n+1 only below the number of distinct knots, break values are knots not equidistant values, periodic directions fail for n = 0/1.",
    'C17': " ADDED (session 5): Model/Matches.v is now tied to the code on every run (harness/vmtie.py: basis_matches_res on Q under vm_compute vs BSplineBasis.matches incl. the ValueError branch, pairs built as same/affine/moved/relative/reversed/other order/length/periodicity under several knot tolerances).",
    'C14': " ADDED (session 5): Model/Rebuild.v is now tied to the code on every run (harness/vmtie.py: curve_rebuild on Q under vm_compute vs Curve.rebuild: orders, knots, control net, dimension, rational flag).",
    'C16': " ADDED (session 5): Model/Frenet.v is now tied to the code on every run (harness/vmtie.py: binormal()/normal() of the implementation are unit vectors and positive multiples of binormal_dir/normal_dir evaluated on Q under vm_compute from x', x''; cubic, polyline, axis-parallel, tiny and long-domain curves).",
}
for _k, _v in ADDENDUM7.items():
    ADDENDUM[_k] = ADDENDUM.get(_k, '') + _v

PENDING_REASON = "not claimed in this revision: model/theorems for this property are still being built (see DESIGN.md section 8 for the plan)"


def main():
    props = [json.loads(l) for l in open(os.path.join(VERIF, 'properties.jsonl'))]
    checks, na = [], []
    for p in props:
        pid = p['id']
        if pid in CHECKS and os.path.exists(os.path.join(VERIF, 'harness', 'checks', pid + '.py')):
            c = CHECKS[pid]
            checks.append({
                'property_id': pid,
                'quick_cmd': './check %s --tier quick' % pid,
                'thorough_cmd': './check %s --tier thorough' % pid,
                'evidence_file': 'evidence/%s.json' % pid,
                'replay_cmd_template': './check %s --replay {path}' % pid,
                'engine': c['engine'],
                'level_claimed': {'category': 'proof', 'text': c['text'] + ADDENDUM.get(pid, ''), 'design_ref': c['design']},
                'level_note': c['note'],
                'technique': c['technique'],
            })
        else:
            na.append({'property_id': pid, 'reason': CHECKS.get(pid, {}).get('na', PENDING_REASON)})
    man = {
        'version': 1,
        'setup_cmd': './check --setup',
        'hooks': {
            'guard': 'SPLIPY_VERIF',
            'enable': 'no source hooks are needed: checks import /repo as is (basis_eval.pyx is rebuilt from the working tree into /verif/build)',
            'baseline_off_cmd': 'cd /repo && /venv/bin/python -m pytest -ra -q -p no:cacheprovider --timeout=900 --continue-on-collection-errors',
            'source_commits': [],
            'add_only': True,
        },
        'engines': [
            {'name': 'coq', 'path': 'coq/', 'serves_properties': sorted(CHECKS), 'kind_free_text': 'Coq 8.16 development SplipyModel: Spec (reference), Model (executable, polymorphic), Proofs (on R), Transfer (Paramcoq Q<->R), Properties (theorems)'},
            {'name': 'runner', 'path': 'coq/runner/main.ml', 'serves_properties': sorted(CHECKS), 'kind_free_text': 'extracted Q instance of the model + OCaml driver'},
            {'name': 'harness', 'path': 'harness/', 'serves_properties': sorted(CHECKS), 'kind_free_text': 'Python correspondence harness driving /repo and the extracted model on the same inputs'},
        ],
        'checks': checks,
        'not_applicable': na,
        'notes': 'See DESIGN.md. Known findings: known_findings.json. Seeded mutants: seeded/.',
    }
    json.dump(man, open(os.path.join(VERIF, 'MANIFEST.json'), 'w'), indent=1)
    print('checks:', [c['property_id'] for c in checks], 'n/a:', len(na))


if __name__ == '__main__':
    main()
