"""Spline objects for the harness: generation (exact), construction of the
implementation object, exact snapshot, encoding for the model runner."""
import itertools
from fractions import Fraction as Fr

import numpy as np

import common as C
import gen_basis as G


def nfun(b):
    return len(b['knots']) - b['order'] - (b['periodic'] + 1)


def gen_obj(rng, pardim=None, dim=None, rational=None, kinds=None, pmax=None, nint_max=None):
    pardim = pardim or rng.choice([1, 1, 2, 2, 3])
    pmax = pmax or {1: 6, 2: 4, 3: 3}[pardim]
    nint_max = nint_max if nint_max is not None else {1: 5, 2: 3, 3: 2}[pardim]
    bases = []
    for _ in range(pardim):
        kind = rng.choice(kinds or ['open', 'open', 'open', 'periodic', 'nonopen'])
        while True:
            b = G.gen_basis(rng, kind=kind, pmax=pmax, nint_max=nint_max)
            if b['order'] >= 2 and nfun(b) >= 1:
                break
        bases.append(b)
    dim = dim or rng.choice([1, 2, 2, 3, 3])
    if rational is None:
        rational = rng.random() < 0.4
    shape = [nfun(b) for b in bases]
    n = int(np.prod(shape))
    ncomp = dim + (1 if rational else 0)
    cps = []
    for i in range(n):
        pt = [Fr(rng.randint(-64, 64), rng.choice([1, 2, 4, 8])) for _ in range(dim)]
        if rational:
            w = rng.choice([Fr(1, 4), Fr(1, 2), Fr(1), Fr(1), Fr(3, 2), Fr(2), Fr(4)])
            pt = [x * w for x in pt] + [w]
        cps.append(pt)
    return dict(bases=bases, cps=cps, dim=dim, rational=bool(rational))


def make_impl(spec):
    """implementation object from a spec (cps are in C order)"""
    from splipy import BSplineBasis, Curve, Surface, Volume
    from splipy.splineobject import SplineObject
    bs = [BSplineBasis(b['order'], [float(x) for x in b['knots']], b['periodic']) for b in spec['bases']]
    shape = [nfun(b) for b in spec['bases']]
    ncomp = spec['dim'] + (1 if spec['rational'] else 0)
    arr = np.array([[float(x) for x in pt] for pt in spec['cps']], dtype=float).reshape(shape + [ncomp])
    cls = {1: Curve, 2: Surface, 3: Volume}.get(len(bs))
    if cls is None:
        return SplineObject(bs, arr, spec['rational'], raw=True)
    return cls(*bs, arr, spec['rational'], raw=True)


def snapshot(o):
    """exact state of an implementation object"""
    bases = [dict(order=int(b.order), knots=[C.fr(x) for x in b.knots], periodic=int(b.periodic)) for b in o.bases]
    arr = np.asarray(o.controlpoints)
    ncomp = arr.shape[-1]
    flat = arr.reshape(-1, ncomp)
    cps = [[C.fr(x) for x in row] for row in flat]
    return dict(bases=bases, cps=cps, dim=int(o.dimension), rational=bool(o.rational),
                shape=list(arr.shape[:-1]))


def basis_tokens(b):
    return '%d %d %s' % (b['order'], b['periodic'] + 1, C.qlist(b['knots']))


def obj_tokens(s):
    return '%d %s %d %d %d %s' % (len(s['bases']), ' '.join(basis_tokens(b) for b in s['bases']),
                                  s['dim'], int(s['rational']), len(s['cps']),
                                  ' '.join(C.qlist(p) for p in s['cps']))


def read_obj(tk):
    bases = []
    for _ in range(tk.int()):
        p = tk.int()
        per1 = tk.int()
        k = tk.qlist()
        bases.append(dict(order=p, knots=k, periodic=per1 - 1))
    dim = tk.int()
    rat = bool(tk.int())
    cps = tk.list(tk.qlist)
    return dict(bases=bases, cps=cps, dim=dim, rational=rat)


def spec_json(s):
    return dict(bases=[dict(order=b['order'], knots=[str(x) for x in b['knots']], periodic=b['periodic']) for b in s['bases']],
                cps=[[str(x) for x in p] for p in s['cps']], dim=s['dim'], rational=s['rational'])


def spec_from_json(j):
    return dict(bases=[dict(order=b['order'], knots=[Fr(x) for x in b['knots']], periodic=b['periodic']) for b in j['bases']],
                cps=[[Fr(x) for x in p] for p in j['cps']], dim=j['dim'], rational=j['rational'])


def domain(b):
    p, k = b['order'], b['knots']
    return k[p - 1], k[len(k) - p]


def dir_points(rng, b, tol, n_in=3, outside=True):
    """parameters for one direction: (value, tag)"""
    s, e = domain(b)
    uniq = sorted(set(x for x in b['knots'] if s <= x <= e))
    pts = [(s, 'start'), (e, 'end')]
    pts += [(x, 'knot') for x in uniq[1:-1]]
    for _ in range(n_in):
        pts.append((s + (e - s) * Fr(rng.randint(1, 127), 128), 'in'))
    pts.append((rng.choice(uniq) + rng.choice([-1, 1]) * Fr(1, 4) * tol, 'fuzz'))
    if outside:
        if b['periodic'] >= 0:
            T = e - s
            pts.append((s + T * Fr(rng.randint(0, 32), 32) + rng.choice([-2, -1, 1, 2]) * T, 'wrap'))
        else:
            pts.append((s - rng.choice([Fr(1, 2) * tol, 4 * tol, Fr(1)]), 'out'))
            pts.append((e + rng.choice([Fr(1, 2) * tol, 4 * tol, Fr(1)]), 'out'))
    return pts
