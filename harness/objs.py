"""Spline objects for the harness: generation (exact), construction of the
implementation object, exact snapshot, encoding for the model runner."""
import itertools
from fractions import Fraction as Fr

import numpy as np

import common as C
import gen_basis as G


def nfun(b):
    return len(b['knots']) - b['order'] - (b['periodic'] + 1)


# probability with which gen_obj moves every knot vector far from the origin and compresses it (knot values ~4096, spans
# ~1/64: neighbouring knots closer than 1e-5 of their magnitude, still millions of tolerances apart); set per check
FAR_PROB = 0.0
# probability of a uniformly rescaled homogeneous net (all weights and weighted coordinates times 2^-40: the same geometry with
# tiny weights) and of coordinates of magnitude 2^+-20
SCALE_PROB = 0.06
# the tiny-weight half of SCALE_PROB can be switched off separately: where the library compares stored (homogeneous) control
# points with its ABSOLUTE control-point tolerance 1e-8 (loop closing in edge_curves, vertex matching), a net scaled by 2^-30
# is by the library's own definition a single point, and the property (C20: "points within the control-point tolerance are
# one vertex") says so too
TINY_WEIGHTS = True
# probability that all directions of a surface/volume get the same basis (then make_impl may pass one instance several times)
SAME_BASIS_PROB = 0.08
# probability of an object that is tiny compared with its distance from the origin (coordinates ~2^24, extent ~64)
OFFSET_PROB = 0.05


def gen_obj(rng, pardim=None, dim=None, rational=None, kinds=None, pmax=None, nint_max=None, big_periodic=False, dir_kinds=None, multi=None):
    pardim = pardim or rng.choice([1, 1, 2, 2, 3])
    pmax = pmax or {1: 6, 2: 4, 3: 3}[pardim]
    nint_max = nint_max if nint_max is not None else {1: 5, 2: 3, 3: 2}[pardim]
    bases = []
    for d_ in range(pardim):
        kind = dir_kinds[d_] if dir_kinds else rng.choice(kinds or ['open', 'open', 'open', 'periodic', 'nonopen'])
        while True:
            b = G.gen_basis(rng, kind=kind, pmax=pmax, nint_max=nint_max + (3 if big_periodic and kind == 'periodic' else 0), multi=multi)
            if b['order'] >= 2 and nfun(b) >= 1:
                # big_periodic: periodic directions with at least order+continuity functions (the range in which the
                # library's periodic algorithms are defined; the small ones are covered by recorded findings)
                if big_periodic and b['periodic'] >= 0 and nfun(b) < b['order'] + b['periodic']:
                    continue
                break
        bases.append(b)
    if pardim > 1 and rng.random() < SAME_BASIS_PROB:
        bases = [dict(bases[0]) for _ in range(pardim)]
    if FAR_PROB and rng.random() < FAR_PROB:
        for b_ in bases:
            k0_ = b_['knots'][0]
            b_['knots'] = [4096 + (x_ - k0_) / 64 for x_ in b_['knots']]
    dim = dim or rng.choice([1, 2, 2, 3, 3])
    if rational is None:
        rational = rng.random() < 0.4
    shape = [nfun(b) for b in bases]
    n = int(np.prod(shape))
    ncomp = dim + (1 if rational else 0)
    cps = []
    # one object in ten is built from integer control points and keeps numpy's integer dtype (what
    # Curve(basis, [[0, 0], [1, 2]]) gives): operations must not truncate or fail on it
    intcps = rng.random() < 0.1
    for i in range(n):
        pt = [Fr(rng.randint(-64, 64), 1 if intcps else rng.choice([1, 2, 4, 8])) for _ in range(dim)]
        if rational:
            w = rng.choice([Fr(1), Fr(1), Fr(2), Fr(4)] if intcps else [Fr(1, 4), Fr(1, 2), Fr(1), Fr(1), Fr(3, 2), Fr(2), Fr(4)])
            pt = [x * w for x in pt] + [w]
        cps.append(pt)
    # how the control points are handed to the constructor (see make_impl): mostly the internal raw form
    ctor = rng.choice(['raw'] * 6 + ['flatC', 'flatF', 'flatF', 'strided', 'list'])
    if not intcps and SCALE_PROB:
        r_ = rng.random()
        if rational and r_ < SCALE_PROB and TINY_WEIGHTS:
            lam_ = Fr(1, 2 ** rng.choice([30, 40]))
            cps = [[c_ * lam_ for c_ in pt] for pt in cps]
        elif r_ < 2 * SCALE_PROB:
            mag_ = Fr(2) ** rng.choice([20, -20, 12])
            cps = [[c_ * mag_ if (not rational or j_ < dim) else c_ for j_, c_ in enumerate(pt)] for pt in cps]
    if not intcps and OFFSET_PROB and rng.random() < OFFSET_PROB:
        off_ = [Fr(2 ** 24), Fr(-(2 ** 23)), Fr(2 ** 24) + 2 ** 22][:dim]
        cps = [[(c_ + off_[j_] * (pt[-1] if rational else 1)) if j_ < dim else c_ for j_, c_ in enumerate(pt)] for pt in cps]
    return dict(bases=bases, cps=cps, dim=dim, rational=bool(rational), intcps=intcps, ctor=ctor)


class ConstructorMismatch(Exception):
    """the public constructor did not store the control points it was given"""
    def __init__(self, case):
        Exception.__init__(self, case['what'])
        self.case = case


def spell(rng, d):
    """a parametric direction in one of the spellings the API documents: index, lower-case or upper-case letter"""
    r = rng.random()
    if d is None or d > 2 or r < 0.5:
        return d
    return 'uvw'[d] if r < 0.75 else 'UVW'[d]


def fuzz_knots(rng, spec, prob=1.0):
    """Copies of one knot that agree to within the knot tolerance but are not bit-identical (what
    insert_knot(0.1 + 0.2) next to an existing 0.3 leaves behind): in every non-periodic direction that has an interior knot
    of multiplicity >= 2, the last copy of one such knot is moved up by 2^-40 (exactly representable, far below the
    tolerance 1e-10, order preserved).  Returns True when something was changed."""
    changed = False
    for b in spec['bases']:
        if b['periodic'] >= 0 or rng.random() >= prob:
            continue
        k, p = b['knots'], b['order']
        s, e = k[p - 1], k[len(k) - p]
        cand = [i for i in range(1, len(k) - 1) if s < k[i] < e and k[i - 1] == k[i] and k[i + 1] > k[i] + Fr(1, 2 ** 30)
                and abs(k[i]) < 2 ** 11]
        if cand:
            i = rng.choice(cand)
            k[i] = k[i] + Fr(1, 2 ** 40)
            changed = True
    return changed


def make_impl(spec):
    """implementation object from a spec (cps are in C order).  spec['ctor'] selects how the control points reach the
    constructor: 'raw' (the internal (n1, .., nd, ncomp) array), or the public flat form -- one row per control point, first
    parametric index running fastest -- as a C-contiguous array, a Fortran-contiguous array (what np.array([x, y, z]).T or a
    solver returns), a strided view, or nested lists.  All of them must give the same object."""
    from splipy import BSplineBasis, Curve, Surface, Volume
    from splipy.splineobject import SplineObject
    bs = [BSplineBasis(b['order'], [float(x) for x in b['knots']], b['periodic']) for b in spec['bases']]
    # directions with identical bases are given the SAME basis instance in half of the cases (Surface(b, b, cps)):
    # the object must not let one direction's later changes leak into the other
    for i_ in range(1, len(bs)):
        for j_ in range(i_):
            sb_i, sb_j = spec['bases'][i_], spec['bases'][j_]
            if sb_i['order'] == sb_j['order'] and sb_i['periodic'] == sb_j['periodic'] and list(sb_i['knots']) == list(sb_j['knots']) \
                    and (hash((len(spec['cps']), i_, j_, sb_i['order'])) % 2 == 0):
                bs[i_] = bs[j_]
    shape = [nfun(b) for b in spec['bases']]
    ncomp = spec['dim'] + (1 if spec['rational'] else 0)
    if spec.get('intcps') and all(Fr(x).denominator == 1 and abs(Fr(x)) < 2 ** 31 for pt in spec['cps'] for x in pt):
        arr = np.array([[int(x) for x in pt] for pt in spec['cps']], dtype=int).reshape(shape + [ncomp])
    else:
        arr = np.array([[float(x) for x in pt] for pt in spec['cps']], dtype=float).reshape(shape + [ncomp])
    cls = {1: Curve, 2: Surface, 3: Volume}.get(len(bs))
    ctor = spec.get('ctor', 'raw')
    if ctor == 'raw' or cls is None:
        if cls is None:
            return SplineObject(bs, arr, spec['rational'], raw=True)
        return cls(*bs, arr, spec['rational'], raw=True)
    pd = len(bs)
    flat = np.ascontiguousarray(arr.transpose(tuple(range(pd - 1, -1, -1)) + (pd,)).reshape(-1, ncomp))
    if ctor == 'flatF':
        given = np.asfortranarray(flat)
    elif ctor == 'strided':
        big = np.zeros((2 * flat.shape[0], ncomp + 1), dtype=flat.dtype)
        big[::2, :ncomp] = flat
        given = big[::2, :ncomp]
    elif ctor == 'list':
        given = flat.tolist()
    else:
        given = flat
    o = cls(*bs, given, spec['rational'])
    got = np.asarray(o.controlpoints)
    if got.shape != arr.shape or not np.array_equal(got, arr):
        raise ConstructorMismatch(dict(what='L2: the constructor given the control points as %s (one row per point, first index fastest) '
                                            'stores a different control net' % {'flatC': 'a C-contiguous array', 'flatF': 'a Fortran-contiguous array',
                                                                                 'strided': 'a strided view', 'list': 'nested lists'}[ctor],
                                       op='constructor', ctor=ctor, obj=spec_json(spec)))
    return o


def snapshot(o):
    """exact state of an implementation object"""
    bases = [dict(order=int(b.order), knots=[C.fr(x) for x in b.knots], periodic=int(b.periodic)) for b in o.bases]
    arr = np.asarray(o.controlpoints)
    ncomp = arr.shape[-1]
    flat = arr.reshape(-1, ncomp)
    cps = [[C.fr(x) for x in row] for row in flat]
    return dict(bases=bases, cps=cps, dim=int(o.dimension), rational=bool(o.rational),
                shape=list(arr.shape[:-1]), intcps=bool(arr.dtype.kind in 'iu'))


def finite(o):
    """all knots and control points of an implementation object are finite numbers"""
    return bool(np.isfinite(np.asarray(o.controlpoints)).all() and all(np.isfinite(b.knots).all() for b in o.bases))


def basis_tokens(b):
    return '%d %d %s' % (b['order'], b['periodic'] + 1, C.qlist(b['knots']))


def obj_tokens(s):
    return '%d %s %d %d %d %s' % (len(s['bases']), ' '.join(basis_tokens(b) for b in s['bases']),
                                  s['dim'], int(s['rational']), len(s['cps']),
                                  ' '.join(C.qlist(p) for p in s['cps']))


def read_obj(tk):
    bases = []
    for _ in range(tk.int()):
        p = tk.int()
        per1 = tk.int()
        k = tk.qlist()
        bases.append(dict(order=p, knots=k, periodic=per1 - 1))
    dim = tk.int()
    rat = bool(tk.int())
    cps = tk.list(tk.qlist)
    return dict(bases=bases, cps=cps, dim=dim, rational=rat)


def spec_json(s):
    return dict(bases=[dict(order=b['order'], knots=[str(x) for x in b['knots']], periodic=b['periodic']) for b in s['bases']],
                cps=[[str(x) for x in p] for p in s['cps']], dim=s['dim'], rational=s['rational'], intcps=bool(s.get('intcps', False)), ctor=s.get('ctor', 'raw'))


def spec_from_json(j):
    return dict(bases=[dict(order=b['order'], knots=[Fr(x) for x in b['knots']], periodic=b['periodic']) for b in j['bases']],
                cps=[[Fr(x) for x in p] for p in j['cps']], dim=j['dim'], rational=j['rational'], intcps=bool(j.get('intcps', False)), ctor=j.get('ctor', 'raw'))


def domain(b):
    p, k = b['order'], b['knots']
    return k[p - 1], k[len(k) - p]


def dir_points(rng, b, tol, n_in=3, outside=True):
    """parameters for one direction: (value, tag)"""
    s, e = domain(b)
    uniq = sorted(set(x for x in b['knots'] if s <= x <= e))
    pts = [(s, 'start'), (e, 'end')]
    pts += [(x, 'knot') for x in uniq[1:-1]]
    for _ in range(n_in):
        pts.append((s + (e - s) * Fr(rng.randint(1, 127), 128), 'in'))
    pts.append((rng.choice(uniq) + rng.choice([-1, 1]) * Fr(1, 4) * tol, 'fuzz'))
    if outside:
        if b['periodic'] >= 0:
            T = e - s
            pts.append((s + T * Fr(rng.randint(0, 32), 32) + rng.choice([-2, -1, 1, 2]) * T, 'wrap'))
            pts.append((s + rng.choice([-2, -1, 2, 3]) * T, 'seam_image'))
        else:
            pts.append((s - rng.choice([Fr(1, 2) * tol, 4 * tol, Fr(1)]), 'out'))
            pts.append((e + rng.choice([Fr(1, 2) * tol, 4 * tol, Fr(1)]), 'out'))
    return pts


# ---------------------------------------------------------------------------
# helpers shared by the object-level checks

def eval_cmd(tol, snap, tuples):
    return 'obj_eval %s %s %d %s' % (C.qs(tol), obj_tokens(snap), len(tuples), ' '.join(C.qlist(tp) for tp in tuples))


def parse_eval(tk):
    out = []
    for _ in range(tk.int()):
        if tk.word() == 'Err':
            out.append((tk.word(), None))
        else:
            out.append((None, tk.qlist()))
    return out


def probe_tuples(rng, snap, tol, n_random=3, with_knots=True, with_outside_periodic=True):
    """parameter tuples for map comparisons: per direction the domain ends, every distinct knot, span mid-points and
    a few random dyadics; combined as a few random tuples plus 'axis sweeps'"""
    per_dir = []
    for b in snap['bases']:
        s, e = domain(b)
        uniq = sorted(set(x for x in b['knots'] if s <= x <= e))
        pts = list(uniq) if with_knots else [s, e]
        for x, y in zip(uniq[:-1], uniq[1:]):
            pts.append((x + y) / 2)
        for _ in range(n_random):
            pts.append(s + (e - s) * Fr(rng.randint(1, 255), 256))
        if with_outside_periodic and b['periodic'] >= 0:
            T = e - s
            pts.append(s + T * Fr(rng.randint(1, 31), 32) + rng.choice([-2, -1, 1, 2]) * T)
        per_dir.append(pts)
    tuples = []
    pd = len(per_dir)
    base = [rng.choice(p) for p in per_dir]
    for d in range(pd):
        for x in per_dir[d]:
            tp = list(base)
            tp[d] = x
            tuples.append(tuple(tp))
    for _ in range(4):
        tuples.append(tuple(rng.choice(p) for p in per_dir))
    # exact values of the doubles (all inputs are dyadic, so this is the identity)
    return [tuple(C.fr(float(x)) for x in tp) for tp in tuples]


def maps_differ(vals_a, vals_b, rel=1e-9):
    """compare two lists of (err, values) as returned by parse_eval"""
    for i, ((ea, va), (eb, vb)) in enumerate(zip(vals_a, vals_b)):
        if ea or eb:
            if ea != eb:
                return i, 'error %s vs %s' % (ea, eb)
            continue
        sc = max([1.0] + [abs(float(x)) for x in va])
        for x, y in zip(va, vb):
            if abs(float(x - y)) > rel * sc:
                return i, 'value %s vs %s' % ([float(t) for t in va], [float(t) for t in vb])
    return None


def snaps_differ(a, b, rel=1e-9, what='object'):
    """impl snapshot a vs model object b (both specs); discrete parts exactly, numbers within tolerance"""
    if len(a['bases']) != len(b['bases']):
        return 'pardim'
    for d, (x, y) in enumerate(zip(a['bases'], b['bases'])):
        if x['order'] != y['order'] or x['periodic'] != y['periodic']:
            return 'basis %d order/periodic %s vs %s' % (d, (x['order'], x['periodic']), (y['order'], y['periodic']))
        if len(x['knots']) != len(y['knots']):
            return 'basis %d knot count %d vs %d' % (d, len(x['knots']), len(y['knots']))
        sc = max([1.0] + [abs(float(t)) for t in y['knots']])
        for i, (s, t) in enumerate(zip(x['knots'], y['knots'])):
            if abs(float(s - t)) > rel * sc:
                return 'basis %d knot %d: %r vs %r' % (d, i, float(s), float(t))
    if a['dim'] != b['dim'] or a['rational'] != b['rational']:
        return 'dim/rational'
    if len(a['cps']) != len(b['cps']):
        return 'number of control points %d vs %d' % (len(a['cps']), len(b['cps']))
    sc = max([1.0] + [abs(float(t)) for p in b['cps'] for t in p])
    for i, (p, q) in enumerate(zip(a['cps'], b['cps'])):
        if len(p) != len(q):
            return 'control point %d components' % i
        for s, t in zip(p, q):
            if abs(float(s - t)) > rel * sc:
                return 'control point %d: %r vs %r' % (i, [float(z) for z in p], [float(z) for z in q])
    return None
