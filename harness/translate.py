"""Fail-closed translator: straight-line arithmetic kernels of /repo's Python sources
-> Gallina definitions in coq/theories/Gen/*.v, regenerated on every run.

Accepted: assignments whose right-hand sides are built from names, numeric literals,
+ - * /, unary minus, **2, and array atoms (fixed subscripts) that the kernel
description maps to scalar atoms.  Anything else raises TranslationError (reported as a
broken tie, never skipped)."""
import ast
import os
import re

REPO = os.environ.get('SPLIPY_REPO', '/repo')
VERIF = os.path.dirname(os.path.dirname(os.path.abspath(__file__)))
GEN = os.path.join(VERIF, 'coq', 'theories', 'Gen')


class TranslationError(Exception):
    pass


def find_func(tree, cls, name):
    for node in ast.walk(tree):
        if cls and isinstance(node, ast.ClassDef) and node.name == cls:
            for f in node.body:
                if isinstance(f, ast.FunctionDef) and f.name == name:
                    return f
        if not cls and isinstance(node, ast.FunctionDef) and node.name == name:
            return node
    raise TranslationError('function %s.%s not found' % (cls, name))


class Expr:
    """translates a Python expression AST to Gallina text over R"""

    def __init__(self, atom, env):
        self.atom = atom      # callable(node) -> str or None for array atoms
        self.env = env        # set of let-bound names

    def tr(self, e):
        if isinstance(e, ast.BinOp) and isinstance(e.op, ast.Mod):
            a = self.atom(e)
            if a is not None:
                return a
            raise TranslationError('unsupported modulus %s' % ast.unparse(e))
        if isinstance(e, ast.BinOp):
            a, b = self.tr(e.left), self.tr(e.right)
            if isinstance(e.op, ast.Add):
                return '(nadd %s %s)' % (a, b)
            if isinstance(e.op, ast.Sub):
                return '(nsub %s %s)' % (a, b)
            if isinstance(e.op, ast.Mult):
                return '(nmul %s %s)' % (a, b)
            if isinstance(e.op, ast.Div):
                return '(ndiv %s %s)' % (a, b)
            if isinstance(e.op, ast.Pow) and isinstance(e.right, ast.Constant) and e.right.value == 2:
                return '(nmul %s %s)' % (a, a)
            raise TranslationError('operator %s' % ast.dump(e.op))
        if isinstance(e, ast.UnaryOp) and isinstance(e.op, ast.USub):
            return '(nsub n0 %s)' % self.tr(e.operand)
        if isinstance(e, ast.Constant) and isinstance(e.value, (int, float)):
            v = e.value
            if isinstance(v, float):
                if v != int(v):
                    raise TranslationError('non-integer literal %r' % v)
                v = int(v)
            return '(nofZ (%d)%%Z)' % v
        if isinstance(e, ast.Name):
            if e.id in self.env:
                return 'v_' + e.id
            a = self.atom(e)
            if a is not None:
                return a
            raise TranslationError('unbound name %s' % e.id)
        if isinstance(e, (ast.Subscript, ast.Call, ast.Attribute)):
            a = self.atom(e)
            if a is not None:
                return a
            raise TranslationError('unsupported atom %s' % ast.unparse(e))
        raise TranslationError('unsupported expression %s' % ast.unparse(e))


def sub_index(s):
    """classify a subscript index: returns 'i' (component), 'w' (weight, -1) or None"""
    sl = s.slice
    elts = sl.elts if isinstance(sl, ast.Tuple) else [sl]
    last = elts[-1]
    for x in elts[:-1]:
        if not (isinstance(x, ast.Slice) and x.lower is None and x.upper is None) and not isinstance(x, ast.Constant.__mro__[0]) :
            pass
    for x in elts[:-1]:
        ok = (isinstance(x, ast.Slice) and x.lower is None and x.upper is None and x.step is None) or \
             (isinstance(x, ast.Constant) and x.value is Ellipsis)
        if not ok:
            return None
    if isinstance(last, ast.Name) and last.id == 'i':
        return 'i'
    if isinstance(last, ast.UnaryOp) and isinstance(last.op, ast.USub) and isinstance(last.operand, ast.Constant) and last.operand.value == 1:
        return 'w'
    return None


def lets(assigns, upto):
    out = []
    for name, text in assigns[:upto]:
        out.append('  let v_%s := %s in' % (name, text))
    return '\n'.join(out)


# ----------------------------------------------------------------------------
# Surface.derivative (surface.py): rational closed forms, total order 2 and 3

def translate_surface():
    src = open(os.path.join(REPO, 'splipy', 'surface.py')).read()
    f = find_func(ast.parse(src), 'Surface', 'derivative')
    arrays = {}     # python array name -> (a, b)
    assigns = []    # (name, gallina text) in order
    results = {}    # (a,b) -> (text, number of assigns visible)
    env = set()

    def atom(e):
        if isinstance(e, ast.Subscript) and isinstance(e.value, ast.Name) and e.value.id in arrays:
            kind = sub_index(e)
            a, b = arrays[e.value.id]
            if kind == 'i':
                return '(n %d %d)' % (a, b)
            if kind == 'w':
                return '(W %d %d)' % (a, b)
        return None

    def handle_assign(st, cond):
        tgt = st.targets[0]
        val = st.value
        # array definitions: X = evaluate([dNus[a], dNvs[b]], self.controlpoints, tensor)
        if isinstance(tgt, ast.Name) and isinstance(val, ast.Call) and isinstance(val.func, ast.Name) and val.func.id == 'evaluate':
            lst = val.args[0]
            try:
                (x, y) = lst.elts
                assert x.value.id == 'dNus' and y.value.id == 'dNvs'
                arrays[tgt.id] = (x.slice.value, y.slice.value)
                assert ast.unparse(val.args[1]) == 'self.controlpoints'
            except Exception:
                raise TranslationError('unexpected evaluate() call: ' + ast.unparse(st))
            return
        ex = Expr(atom, env)
        if isinstance(tgt, ast.Name):
            assigns.append((tgt.id, ex.tr(val)))
            env.add(tgt.id)
            return
        if isinstance(tgt, ast.Subscript) and isinstance(tgt.value, ast.Name) and tgt.value.id == 'result' and sub_index(tgt) == 'i':
            if cond is None:
                raise TranslationError('unconditional result assignment')
            if cond in results:
                raise TranslationError('duplicate result for %s' % (cond,))
            results[cond] = (ex.tr(val), len(assigns))
            return
        raise TranslationError('unsupported statement: ' + ast.unparse(st))

    def cond_of(test):
        # derivs == (a, b)
        if isinstance(test, ast.Compare) and isinstance(test.left, ast.Name) and test.left.id == 'derivs' \
                and len(test.ops) == 1 and isinstance(test.ops[0], ast.Eq) and isinstance(test.comparators[0], ast.Tuple):
            t = test.comparators[0]
            return tuple(x.value for x in t.elts)
        return None

    def walk(stmts, cond=None, in_kernel=False):
        for st in stmts:
            if isinstance(st, ast.Assign):
                if in_kernel or (isinstance(st.value, ast.Call) and getattr(st.value.func, 'id', '') == 'evaluate') \
                        or (isinstance(st.targets[0], ast.Name) and isinstance(st.value, ast.Subscript)
                            and isinstance(st.value.value, ast.Name) and st.value.value.id in arrays):
                    handle_assign(st, cond)
                # other set-up statements (u = ensure_listlike(u), result = np.zeros, dNus = [...]) are glue
            elif isinstance(st, ast.For):
                if ast.unparse(st.iter) != 'range(self.dimension)' or st.target.id != 'i':
                    raise TranslationError('unexpected loop ' + ast.unparse(st.iter))
                walk(st.body, None, True)
            elif isinstance(st, ast.If):
                c = cond_of(st.test)
                if c is not None:
                    walk(st.body, c, in_kernel)
                    walk(st.orelse, None, in_kernel)
                elif in_kernel and ast.unparse(st.test) == 'np.sum(derivs) > 2':
                    walk(st.body, None, True)
                    if st.orelse:
                        raise TranslationError('else branch of order test')
                elif in_kernel:
                    raise TranslationError('unexpected test ' + ast.unparse(st.test))
                # glue ifs outside the kernel (dispatch, squeeze) are not arithmetic
            elif isinstance(st, (ast.Expr, ast.Return)):
                continue
            else:
                if in_kernel:
                    raise TranslationError('unsupported statement ' + ast.unparse(st))
    walk(f.body)
    need = [(1, 1), (2, 0), (0, 2), (3, 0), (0, 3), (2, 1), (1, 2)]
    for c in need:
        if c not in results:
            raise TranslationError('no closed form found for derivs == %s' % (c,))
    out = ['(* GENERATED by harness/translate.py from splipy/surface.py (Surface.derivative); do not edit *)',
           'From Coq Require Import ZArith.', 'From SplipyModel Require Import Model.Num.', '',
           'Section SurfaceRational.', 'Context {F : Type} `{Num F}.',
           '(* n a b : the (a,b) partial derivative of one homogeneous numerator component; W a b : of the weight *)',
           'Variables n W : nat -> nat -> F.', '']
    for c in sorted(results):
        text, k = results[c]
        out.append('Definition surf_d%d%d : F :=\n%s\n  %s.\n' % (c[0], c[1], lets(assigns, k), text))
    out.append('End SurfaceRational.')
    return 'RatDerivSurface.v', '\n'.join(out) + '\n'


# ----------------------------------------------------------------------------
# Curve.derivative (curve.py): rational closed forms d = 2, 3

def translate_curve():
    src = open(os.path.join(REPO, 'splipy', 'curve.py')).read()
    f = find_func(ast.parse(src), 'Curve', 'derivative')
    arrays = {}
    env = set()
    results = {}

    def atom(e):
        if isinstance(e, ast.Subscript) and isinstance(e.value, ast.Name) and e.value.id in arrays:
            kind = sub_index(e)
            a = arrays[e.value.id]
            if kind == 'i':
                return '(n %d)' % a
            if kind == 'w':
                return '(W %d)' % a
        return None

    def array_def(st):
        # dK = np.array(self.bases[0].evaluate(t, K, above) @ self.controlpoints)
        tgt, val = st.targets[0], st.value
        if not (isinstance(tgt, ast.Name) and isinstance(val, ast.Call) and ast.unparse(val.func) == 'np.array'):
            return False
        mm = val.args[0]
        if not (isinstance(mm, ast.BinOp) and isinstance(mm.op, ast.MatMult) and ast.unparse(mm.right) == 'self.controlpoints'):
            return False
        call = mm.left
        if not (isinstance(call, ast.Call) and ast.unparse(call.func) == 'self.bases[0].evaluate'):
            return False
        order = 0
        if len(call.args) >= 2:
            if not isinstance(call.args[1], ast.Constant):
                raise TranslationError('non-literal derivative order in ' + ast.unparse(st))
            order = call.args[1].value
        arrays[tgt.id] = order
        return True

    def walk(stmts, cond, assigns):
        for st in stmts:
            if isinstance(st, ast.Assign):
                if array_def(st):
                    continue
                tgt = st.targets[0]
                ex = Expr(atom, env)
                if isinstance(tgt, ast.Name) and (cond is not None or
                                                  (isinstance(st.value, ast.Subscript) and getattr(st.value.value, 'id', None) in arrays)):
                    assigns.append((tgt.id, ex.tr(st.value)))
                    env.add(tgt.id)
                elif isinstance(tgt, ast.Subscript) and getattr(tgt.value, 'id', None) == 'result' and sub_index(tgt) == 'i':
                    if cond is None:
                        raise TranslationError('unconditional result')
                    results[cond] = (ex.tr(st.value), list(assigns))
                elif cond is not None:
                    raise TranslationError('unsupported statement ' + ast.unparse(st))
            elif isinstance(st, ast.If):
                t = ast.unparse(st.test)
                m = re.fullmatch(r'd == (\d)', t)
                if m:
                    walk(st.body, int(m.group(1)), assigns)
                elif cond is not None:
                    raise TranslationError('unexpected test ' + t)
            elif isinstance(st, ast.For):
                if ast.unparse(st.iter) != 'range(self.dimension)':
                    raise TranslationError('unexpected loop')
                walk(st.body, cond, assigns)
    walk(f.body, None, [])
    for d in (2, 3):
        if d not in results:
            raise TranslationError('no closed form for curve d == %d' % d)
    out = ['(* GENERATED by harness/translate.py from splipy/curve.py (Curve.derivative); do not edit *)',
           'From Coq Require Import ZArith.', 'From SplipyModel Require Import Model.Num.', '',
           'Section CurveRational.', 'Context {F : Type} `{Num F}.', 'Variables n W : nat -> F.', '']
    for d in sorted(results):
        text, asg = results[d]
        out.append('Definition curve_d%d : F :=\n%s\n  %s.\n' % (d, lets(asg, len(asg)), text))
    out.append('End CurveRational.')
    return 'RatDerivCurve.v', '\n'.join(out) + '\n'


# ----------------------------------------------------------------------------
# SplineObject.derivative: first-order quotient rule

def translate_generic_quotient():
    src = open(os.path.join(REPO, 'splipy', 'splineobject.py')).read()
    f = find_func(ast.parse(src), 'SplineObject', 'derivative')
    found = []

    def atom(e):
        s = ast.unparse(e)
        return {'result[..., i]': 'nd', 'non_derivative[..., i]': 'nn', 'W': 'W', 'Wd': 'Wd'}.get(s)
    binds = {}
    for node in ast.walk(f):
        if isinstance(node, ast.Assign) and isinstance(node.targets[0], ast.Name) and node.targets[0].id in ('W', 'Wd'):
            binds[node.targets[0].id] = ast.unparse(node.value)
        if isinstance(node, ast.Assign) and ast.unparse(node.targets[0]) == 'result[..., i]' and 'non_derivative' in ast.unparse(node.value):
            found.append(Expr(atom, set()).tr(node.value))
    if len(found) != 1:
        raise TranslationError('quotient rule statement not found exactly once')
    if binds.get('W') != 'non_derivative[..., -1]' or binds.get('Wd') != 'result[..., -1]':
        raise TranslationError('unexpected W / Wd bindings: %r' % binds)
    out = ['(* GENERATED by harness/translate.py from splipy/splineobject.py (SplineObject.derivative); do not edit *)',
           'From Coq Require Import ZArith.', 'From SplipyModel Require Import Model.Num.', '',
           '(* nd: derivative of the numerator component, n0: the numerator, Wd: derivative of the weight, W: the weight *)',
           'Definition quot1 {F : Type} `{Num F} (nd nn Wd W : F) : F := %s.' % found[0]]
    return 'RatDerivGeneric.v', '\n'.join(out) + '\n'


# ----------------------------------------------------------------------------
# utils.rotation_matrix: Euler-Rodrigues matrix from (a, b, c, d)

def translate_rotation_matrix():
    src = open(os.path.join(REPO, 'splipy', 'utils', '__init__.py')).read()
    f = find_func(ast.parse(src), None, 'rotation_matrix')
    body = [st for st in f.body if not (isinstance(st, ast.Expr) and isinstance(st.value, ast.Constant))]
    want = ['axis = axis / np.sqrt(np.dot(axis, axis))', 'a = np.cos(theta / 2)', 'b, c, d = -axis * np.sin(theta / 2)']
    got = [ast.unparse(st) for st in body[:3]]
    if got != want:
        raise TranslationError('rotation_matrix preamble changed: %r' % got)
    ret = body[-1]
    if not (isinstance(ret, ast.Return) and isinstance(ret.value, ast.Call) and ast.unparse(ret.value.func) == 'np.array'):
        raise TranslationError('rotation_matrix does not return np.array([...])')
    mat = ret.value.args[0]
    if not (isinstance(mat, ast.List) and len(mat.elts) == 3 and all(isinstance(r, ast.List) and len(r.elts) == 3 for r in mat.elts)):
        raise TranslationError('rotation_matrix: expected a 3x3 literal')
    env = set()
    assigns = []

    def atom(e):
        if isinstance(e, ast.Name) and e.id in ('a', 'b', 'c', 'd') and e.id not in env:
            return e.id
        return None
    # optional straight-line temporaries between the preamble and the return
    for st in body[3:-1]:
        if not isinstance(st, ast.Assign) or len(st.targets) != 1:
            raise TranslationError('rotation_matrix: unsupported statement ' + ast.unparse(st))
        tgt, val = st.targets[0], st.value
        if isinstance(tgt, ast.Name):
            pairs = [(tgt, val)]
        elif isinstance(tgt, ast.Tuple) and isinstance(val, ast.Tuple) and len(tgt.elts) == len(val.elts) \
                and all(isinstance(x, ast.Name) for x in tgt.elts):
            pairs = list(zip(tgt.elts, val.elts))
        else:
            raise TranslationError('rotation_matrix: unsupported assignment ' + ast.unparse(st))
        texts = [(t.id, Expr(atom, env).tr(v)) for t, v in pairs]   # right-hand sides see the old environment
        for nm, tx in texts:
            if nm in ('a', 'b', 'c', 'd'):
                raise TranslationError('rotation_matrix: rebinding of %s' % nm)
            assigns.append((nm, tx))
            env.add(nm)
    ex = Expr(atom, env)
    rows = ['[%s]' % '; '.join(ex.tr(x) for x in r.elts) for r in mat.elts]
    out = ['(* GENERATED by harness/translate.py from splipy/utils/__init__.py (rotation_matrix); do not edit *)',
           'From Coq Require Import ZArith List.', 'From SplipyModel Require Import Model.Num.', 'Import ListNotations.', '',
           '(* a = cos(theta/2); (b, c, d) = -unit_axis * sin(theta/2) *)',
           'Definition rotmat {F : Type} `{Num F} (a b c d : F) : list (list F) :=\n%s\n  [%s].' % (lets(assigns, len(assigns)), ';\n   '.join(rows))]
    return 'RotationMatrix.v', '\n'.join(out) + '\n'


# ----------------------------------------------------------------------------
# curve_factory.circle: the hard-coded rational control nets (sqrt(2) enters as the oracle variable s2)

def translate_circle_nets():
    src = open(os.path.join(REPO, 'splipy', 'curve_factory.py')).read()
    f = find_func(ast.parse(src), None, 'circle')
    nets = {}

    def atom_factory(env):
        def atom(e):
            if isinstance(e, ast.Call) and ast.unparse(e) == 'sqrt(2)':
                return 's2'
            if isinstance(e, ast.Name) and e.id in env:
                return None
            return None
        return atom

    def do_branch(stmts, key):
        env = set()
        assigns = []
        net = None
        for st in stmts:
            if not isinstance(st, ast.Assign) or len(st.targets) != 1 or not isinstance(st.targets[0], ast.Name):
                raise TranslationError('circle(%s): unsupported statement %s' % (key, ast.unparse(st)))
            nm = st.targets[0].id
            if nm == 'controlpoints':
                if not isinstance(st.value, ast.List):
                    raise TranslationError('circle(%s): control points are not a literal list' % key)
                ex = Expr(atom_factory(env), env)
                net = ['[%s]' % '; '.join(ex.tr(x) for x in row.elts) for row in st.value.elts]
            elif nm in ('knot', 'result'):
                continue
            else:
                assigns.append((nm, Expr(atom_factory(env), env).tr(st.value)))
                env.add(nm)
        if net is None:
            raise TranslationError('circle(%s): no control net found' % key)
        nets[key] = (assigns, net)
    found = 0
    for st in f.body:
        if isinstance(st, ast.If) and "'p2C0'" in ast.unparse(st.test):
            do_branch(st.body, 'p2C0')
            found += 1
            for st2 in st.orelse:
                if isinstance(st2, ast.If) and 'p4c1' in ast.unparse(st2.test).lower():
                    do_branch(st2.body, 'p4C1')
                    found += 1
    if found != 2:
        raise TranslationError('circle: expected the p2C0 and p4C1 branches')
    out = ['(* GENERATED by harness/translate.py from splipy/curve_factory.py (circle); do not edit *)',
           'From Coq Require Import ZArith List.', 'From SplipyModel Require Import Model.Num.', 'Import ListNotations.', '',
           '(* s2 stands for sqrt(2) *)']
    for key in ('p2C0', 'p4C1'):
        assigns, net = nets[key]
        out.append('Definition circle_net_%s {F : Type} `{Num F} (s2 : F) : list (list F) :=\n%s\n  [%s].\n'
                   % (key, lets(assigns, len(assigns)), ';\n   '.join(net)))
    return 'CircleNets.v', '\n'.join(out) + '\n'


# ----------------------------------------------------------------------------
# curve_factory.circle_segment: the control point rule of the loop body (cos/sin values enter as parameters)

def translate_circle_segment():
    src = open(os.path.join(REPO, 'splipy', 'curve_factory.py')).read()
    f = find_func(ast.parse(src), None, 'circle_segment')
    loop = None
    pre = {}
    for st in f.body:
        if isinstance(st, ast.For) and ast.unparse(st.iter) == 'range(n)' and ast.unparse(st.target) == 'i':
            loop = st
        if isinstance(st, ast.Assign) and len(st.targets) == 1 and isinstance(st.targets[0], ast.Name):
            pre[st.targets[0].id] = st.value
    if loop is None:
        raise TranslationError('circle_segment: control point loop not found')
    for nm in ('n', 'dt', 't', 'knot_spans'):
        if nm not in pre:
            raise TranslationError('circle_segment: assignment to %s not found' % nm)
    if ast.unparse(pre['t']) != '0':
        raise TranslationError('circle_segment: the angle does not start at 0')
    if ast.unparse(pre['knot_spans']).replace(' ', '') != 'int(ceil(abs(theta)/(2*pi/3)))':
        raise TranslationError('circle_segment: unexpected knot span count ' + ast.unparse(pre['knot_spans']))

    def atom(e):
        u = ast.unparse(e).replace(' ', '')
        table = {'cos(dt)': 'cos_dt', 'cos(t)': 'cos_t', 'sin(t)': 'sin_t', 'r': 'r', 'i%2': '(nofZ (Z.of_nat (Nat.modulo i 2)))',
                 'float(theta)': 'theta', 'theta': 'theta', 'knot_spans': '(nofZ (Z.of_nat ks))'}
        return table.get(u)
    env = set()
    assigns = []
    row = None
    step = None
    for st in loop.body:
        if isinstance(st, ast.Assign) and len(st.targets) == 1 and isinstance(st.targets[0], ast.Name):
            assigns.append((st.targets[0].id, Expr(atom, env).tr(st.value)))
            env.add(st.targets[0].id)
        elif isinstance(st, ast.AugAssign) and isinstance(st.op, ast.Add) and ast.unparse(st.target) == 'cp':
            v = st.value
            if not (isinstance(v, ast.List) and len(v.elts) == 1 and isinstance(v.elts[0], ast.List)):
                raise TranslationError('circle_segment: unexpected cp update ' + ast.unparse(st))
            row = [Expr(atom, env).tr(x) for x in v.elts[0].elts]
        elif isinstance(st, ast.AugAssign) and isinstance(st.op, ast.Add) and ast.unparse(st.target) == 't':
            if ast.unparse(st.value) != 'dt':
                raise TranslationError('circle_segment: unexpected angle step ' + ast.unparse(st))
            step = True
        else:
            raise TranslationError('circle_segment: unsupported loop statement ' + ast.unparse(st))
    if row is None or not step or len(row) != 3:
        raise TranslationError('circle_segment: loop body incomplete')
    # n = (knot_spans - 1) * 2 + 3 on naturals
    nn = ast.unparse(pre['n']).replace(' ', '')
    if nn != '(knot_spans-1)*2+3':
        raise TranslationError('circle_segment: unexpected control point count ' + nn)
    dt = Expr(atom, set()).tr(pre['dt'])
    out = ['(* GENERATED by harness/translate.py from splipy/curve_factory.py (circle_segment); do not edit *)',
           'From Coq Require Import ZArith List Arith.', 'From SplipyModel Require Import Model.Num.', 'Import ListNotations.', '',
           '(* control point i of the loop; cos_dt = cos(dt), cos_t = cos(t), sin_t = sin(t) for the current angle t *)',
           'Definition cs_row {F : Type} `{Num F} (r cos_dt cos_t sin_t : F) (i : nat) : list F :=\n%s\n  [%s].\n'
           % (lets(assigns, len(assigns)), '; '.join(row)),
           '(* t += dt *)', 'Definition cs_next_t {F : Type} `{Num F} (t dt : F) : F := nadd t dt.\n',
           '(* dt, n as functions of theta and the number of knot spans ks *)',
           'Definition cs_dt {F : Type} `{Num F} (theta : F) (ks : nat) : F := %s.' % dt,
           'Definition cs_n (ks : nat) : nat := ((ks - 1) * 2 + 3)%nat.']
    return 'CircleSegment.v', '\n'.join(out) + '\n'


KERNELS = [translate_surface, translate_curve, translate_generic_quotient, translate_rotation_matrix, translate_circle_nets, translate_circle_segment]


# ----------------------------------------------------------------------------
# surface_factory.disc(type='square'): the hard-coded 3 x 3 rational control net (w = 1/sqrt(2) enters as a parameter)

def translate_disc_square():
    src = open(os.path.join(REPO, 'splipy', 'surface_factory.py')).read()
    f = find_func(ast.parse(src), None, 'disc')
    branch = None
    for st in ast.walk(f):
        if isinstance(st, ast.If) and "'square'" in ast.unparse(st.test):
            branch = st.body
    if branch is None:
        raise TranslationError("disc: no branch for type == 'square'")
    net = None
    saw_w = False
    for st in branch:
        if isinstance(st, ast.Assign) and len(st.targets) == 1 and isinstance(st.targets[0], ast.Name):
            nm = st.targets[0].id
            if nm == 'w':
                if ast.unparse(st.value).replace(' ', '') not in ('1/sqrt(2)', '1/np.sqrt(2)', '1.0/sqrt(2)'):
                    raise TranslationError('disc(square): w is no longer 1/sqrt(2): %s' % ast.unparse(st.value))
                saw_w = True
            elif nm == 'cp':
                if not isinstance(st.value, ast.List) or len(st.value.elts) != 9:
                    raise TranslationError('disc(square): cp is not a literal list of nine points')
                ex = Expr(lambda e: None, {'r', 'w'})
                rows = []
                for row in st.value.elts:
                    if not isinstance(row, ast.List) or len(row.elts) != 3:
                        raise TranslationError('disc(square): a control point is not a literal [x, y, w]')
                    rows.append('[%s]' % '; '.join(ex.tr(x) for x in row.elts))
                net = rows
            elif nm in ('basis1', 'basis2', 'result'):
                if nm.startswith('basis') and ast.unparse(st.value) != 'BSplineBasis(3)':
                    raise TranslationError('disc(square): %s is no longer BSplineBasis(3)' % nm)
            else:
                raise TranslationError('disc(square): unsupported statement %s' % ast.unparse(st))
        elif isinstance(st, ast.Return):
            continue
        else:
            raise TranslationError('disc(square): unsupported statement %s' % ast.unparse(st))
    if net is None or not saw_w:
        raise TranslationError('disc(square): control net or weight not found')
    out = ['(* GENERATED by harness/translate.py from splipy/surface_factory.py (disc, type square); do not edit *)',
           'From Coq Require Import ZArith List.', 'From SplipyModel Require Import Model.Num.', 'Import ListNotations.', '',
           '(* w stands for 1/sqrt(2); entry i + 3 j is control point (i, j), homogeneous *)',
           'Definition disc_square_net_gen {F : Type} `{Num F} (v_r v_w : F) : list (list F) :=\n  [%s].\n' % ';\n   '.join(net)]
    return 'DiscSquare.v', '\n'.join(out) + '\n'


KERNELS.append(translate_disc_square)


KERNEL_FILES = {'translate_surface': 'RatDerivSurface.v', 'translate_curve': 'RatDerivCurve.v',
                'translate_generic_quotient': 'RatDerivGeneric.v', 'translate_rotation_matrix': 'RotationMatrix.v',
                'translate_circle_nets': 'CircleNets.v', 'translate_circle_segment': 'CircleSegment.v',
                'translate_disc_square': 'DiscSquare.v'}
# which properties' proofs are about which regenerated kernel
KERNEL_PROPERTIES = {'RatDerivSurface.v': ['C03'], 'RatDerivCurve.v': ['C03'], 'RatDerivGeneric.v': ['C03'],
                     'RotationMatrix.v': ['C09', 'C13'], 'CircleNets.v': ['C13'], 'CircleSegment.v': ['C13'], 'DiscSquare.v': ['C13']}
FALLBACK = os.path.join(VERIF, 'coq', 'fallback_gen')
FAILED = {}   # file name -> error text (this run)


def regenerate_all():
    """(Re)writes Gen/*.v only when the content changes (keeps make incremental).
    If a kernel can no longer be translated, the tie for it is BROKEN: the failure is recorded in FAILED (and
    reported by the proof layer), and the committed reference copy (coq/fallback_gen) is used instead so that the
    executable model still builds and the search for a failing input can run."""
    os.makedirs(GEN, exist_ok=True)
    written = []
    FAILED.clear()
    for k in KERNELS:
        name = KERNEL_FILES[k.__name__]
        try:
            name, text = k()
        except TranslationError as e:
            FAILED[name] = str(e)
            fb = os.path.join(FALLBACK, name)
            text = '(* TRANSLATION FAILED (%s); reference copy used *)\n' % str(e).replace('*)', '* )').replace('(*', '( *') + open(fb).read()
        path = os.path.join(GEN, name)
        old = open(path).read() if os.path.exists(path) else None
        if old != text:
            open(path, 'w').write(text)
        written.append(name)
    return written


if __name__ == '__main__':
    for k in KERNELS:
        n, t = k()
        print('(*', n, '*)')
        print(t)
