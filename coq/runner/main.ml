(* Driver for the extracted Q-instance of the model.  One command per input line:
   NAME tok tok ...   (ints plain, rationals "a/b" or "a", lists prefixed by their length)
   One output line per command.  Trusted: parsing/printing only. *)
open Datatypes
open QArith_base

let toks : string array ref = ref [||]
let pos = ref 0
let next () = let t = (!toks).(!pos) in incr pos; t
let rec nat_of_int n = if n <= 0 then O else S (nat_of_int (n-1))
let rec int_of_nat = function O -> 0 | S n -> 1 + int_of_nat n
let rint () = int_of_string (next ())
let rnat () = nat_of_int (rint ())
let rbool () = (rint ()) <> 0
let q_of_string s =
  match String.index_opt s '/' with
  | None -> { coq_Qnum = Z.of_string s; coq_Qden = Z.one }
  | Some i -> { coq_Qnum = Z.of_string (String.sub s 0 i);
                coq_Qden = Z.of_string (String.sub s (i+1) (String.length s - i - 1)) }
let rq () = q_of_string (next ())
let rlist f = let n = rint () in Stdlib.List.init n (fun _ -> f ())
let rqlist () = rlist rq
let rnatlist () = rlist rnat

let buf = Buffer.create 65536
let out s = Buffer.add_string buf s; Buffer.add_char buf ' '
let pint n = out (string_of_int n)
let pnat n = pint (int_of_nat n)
let pbool b = pint (if b then 1 else 0)
let pq (q : coq_Q) =
  let n = q.coq_Qnum and d = q.coq_Qden in
  if Z.equal n Z.zero then out "0" else begin
    let g = Z.gcd n d in
    let n = Z.div n g and d = Z.div d g in
    if Z.equal d Z.one then out (Z.to_string n) else out (Z.to_string n ^ "/" ^ Z.to_string d) end
let plist f l = pint (Stdlib.List.length l); Stdlib.List.iter f l
let pqlist l = plist pq l
let popt f = function None -> pint 0 | Some x -> pint 1; f x

let perr (e : Num.err) = out (match e with
  | Num.ValueError -> "ValueError" | Num.RuntimeError -> "RuntimeError" | Num.TypeError -> "TypeError"
  | Num.IndexError -> "IndexError" | Num.NotSupported -> "NotSupported" | Num.Singular -> "Singular"
  | Num.Fuel -> "Fuel" | Num.KeyError -> "KeyError" | Num.NameError -> "NameError")
let pres f = function Num.Ok a -> out "Ok"; f a | Num.Err e -> out "Err"; perr e

(* objects: pardim, then per basis (order per1 knots), dim, rat, cps *)
let rbasis () = let p = rnat () in let per1 = rnat () in let k = rqlist () in Exec.q_mkBasis p k per1
let robj () =
  let bs = rlist rbasis in let dim = rnat () in let rat = rbool () in
  let cps = rlist rqlist in Exec.q_mkObj bs cps dim rat
let pbasis (b : coq_Q Obj.basis) = pnat b.Obj.b_order; pnat b.Obj.b_per1; pqlist b.Obj.b_knots
let pobj (o : coq_Q Obj.obj) =
  plist pbasis o.Obj.o_bases; pnat o.Obj.o_dim; pbool o.Obj.o_rat; plist pqlist o.Obj.o_cps

let rec rprog () : coq_Q StateCtx.prog =
  match next () with
  | "A" -> let k = rnat () in let v = rq () in StateCtx.Assign (k, v)
  | "W" -> let kvs = rlist (fun () -> let k = rnat () in let v = rq () in (k, v)) in let b = rprog () in StateCtx.With (kvs, b)
  | "S" -> let p = rprog () in let q = rprog () in StateCtx.Seq (p, q)
  | "R" -> StateCtx.Raise
  | "K" -> StateCtx.Skip
  | "C" -> let i = rnat () in StateCtx.Call i
  | t -> failwith ("bad prog token " ^ t)

let dispatch name =
  match name with
  | "basis_evaluate" ->
    let k = rqlist () in let p = rnat () in let per1 = rnat () in let tol = rq () in
    let d = rnat () in let fr = rbool () in let ts = rqlist () in
    plist pqlist (Exec.q_basis_evaluate k p per1 tol d fr ts)
  | "basis_evaluate_sparse" ->
    let k = rqlist () in let p = rnat () in let per1 = rnat () in let tol = rq () in
    let d = rnat () in let fr = rbool () in let ts = rqlist () in
    plist (popt (fun (ix, m) -> plist pnat ix; pqlist m)) (Exec.q_basis_evaluate_sparse k p per1 tol d fr ts)
  | "snap" ->
    let k = rqlist () in let tol = rq () in let ts = rqlist () in
    pqlist (Stdlib.List.map (Exec.q_snap1 k tol) ts)
  | "dB" ->
    let side = rbool () in let k = rqlist () in let r = rnat () in let q = rnat () in
    let i = rnat () in let t = rq () in
    pq (Exec.q_dB side k r q i t)
  | "ref_row" ->
    let side = rbool () in let k = rqlist () in let p = rnat () in let per1 = rnat () in
    let d = rnat () in let t = rq () in
    pqlist (Exec.q_ref_row side k p per1 d t)
  | "obj_eval" ->
    let tol = rq () in let o = robj () in let pts = rlist rqlist in
    plist (fun ts -> pres pqlist (Exec.q_obj_eval tol o ts)) pts
  | "obj_deriv" ->
    let tol = rq () in let o = robj () in let ds = rnatlist () in let ab = rlist rbool in
    let pts = rlist rqlist in
    plist (fun ts -> pres pqlist (Exec.q_obj_deriv tol o ds ab ts)) pts
  | "curve_deriv" ->
    let tol = rq () in let o = robj () in let d = rnat () in let ab = rbool () in let ts = rqlist () in
    plist (fun t -> pres pqlist (Exec.q_curve_deriv tol o d ab t)) ts
  | "surface_deriv" ->
    let tol = rq () in let o = robj () in let d1 = rnat () in let d2 = rnat () in
    let ab = rlist rbool in let pts = rlist rqlist in
    plist (fun ts -> pres pqlist (Exec.q_surface_deriv tol o d1 d2 ab ts)) pts
  | "eval_h" ->
    let tol = rq () in let o = robj () in let ds = rnatlist () in let ab = rlist rbool in
    let pts = rlist rqlist in
    plist (fun ts -> pqlist (Exec.q_eval_h tol o ds ab ts)) pts
  | "basis_insert_knot" ->
    let b = rbasis () in let x = rq () in
    pres (fun (b', c) -> pbasis b'; plist pqlist c) (Exec.q_basis_insert_knot b x)
  | "obj_insert_knots" ->
    let o = robj () in let d = rnat () in let xs = rqlist () in
    pres pobj (Exec.q_obj_insert_knots o d xs)
  | "refine_knots" ->
    let tol = rq () in let b = rbasis () in let n = rnat () in
    pqlist (Exec.q_refine_knots tol b n)
  | "knot_spans" ->
    let tol = rq () in let b = rbasis () in let g = rbool () in
    pqlist (Exec.q_knot_spans tol b g)
  | "obj_reverse" ->
    let o = robj () in let d = rnat () in pobj (Exec.q_obj_reverse o d)
  | "obj_swap" ->
    let o = robj () in let d1 = rnat () in let d2 = rnat () in pobj (Exec.q_obj_swap o d1 d2)
  | "obj_reparam_dir" ->
    let o = robj () in let d = rnat () in let s = rq () in let e = rq () in
    pres pobj (Exec.q_obj_reparam_dir o d s e)
  | "obj_reparam_all" ->
    let o = robj () in let rs = rlist (fun () -> let s = rq () in let e = rq () in (s, e)) in
    pres pobj (Exec.q_obj_reparam_all o rs)
  | "obj_translate" -> let o = robj () in let x = rqlist () in pres pobj (Exec.q_obj_translate o x)
  | "obj_scale" -> let o = robj () in let x = rqlist () in pres pobj (Exec.q_obj_scale o x)
  | "obj_rotate" ->
    let o = robj () in let ch = rq () in let sh = rq () in let nrm = rqlist () in let inv = rq () in
    pres pobj (Exec.q_obj_rotate o ch sh nrm inv)
  | "obj_mirror" -> let o = robj () in let nrm = rqlist () in let inv = rq () in pres pobj (Exec.q_obj_mirror o nrm inv)
  | "obj_project" -> let o = robj () in let keep = rlist rbool in pobj (Exec.q_obj_project o keep)
  | "obj_set_dimension" -> let o = robj () in let d = rnat () in pobj (Exec.q_obj_set_dimension o d)
  | "obj_force_rational" -> let o = robj () in pobj (Exec.q_obj_force_rational o)
  | "basis_continuity" ->
    let tol = rq () in let b = rbasis () in let xs = rqlist () in
    plist (fun x -> pres (popt (fun z -> out (Z.to_string z))) (Exec.q_basis_continuity tol b x)) xs
  | "vd_insert_all" ->
    let rtol = rq () in let atol = rq () in let pts = rlist rqlist in
    plist pnat (Exec.q_vd_insert_all rtol atol [] pts)
  | "state_exec" ->
    let init = rqlist () in let p = rprog () in
    let (vals, ok) = Exec.q_state_exec p init in pqlist vals; pbool ok
  | "basis_raise_order" -> let tol = rq () in let b = rbasis () in let a = rnat () in pbasis (Exec.q_basis_raise_order tol b a)
  | "basis_lower_order" -> let tol = rq () in let b = rbasis () in let a = rnat () in pres pbasis (Exec.q_basis_lower_order tol b a)
  | "obj_raise_order" -> let tol = rq () in let o = robj () in let rs = rnatlist () in pres pobj (Exec.q_obj_raise_order tol o rs)
  | "obj_lower_order" -> let tol = rq () in let o = robj () in let rs = rnatlist () in pres pobj (Exec.q_obj_lower_order tol o rs)
  | "solve" -> let a = rlist rqlist in let b = rlist rqlist in pres (plist pqlist) (Exec.q_solve a b)
  | "obj_split" -> let tol = rq () in let o = robj () in let d = rnat () in let ks = rqlist () in
    pres (plist pobj) (Exec.q_obj_split tol o d ks)
  | "obj_make_periodic" -> let o = robj () in let c = rint () in let d = rnat () in
    pres pobj (Exec.q_obj_make_periodic o (Z.of_int c) d)
  | "obj_lower_periodic" -> let o = robj () in let t = rnat () in let d = rnat () in
    pres pobj (Exec.q_obj_lower_periodic o t d)
  | "wf_obj" -> let tol = rq () in let o = robj () in pbool (Exec.q_wf_obj_b tol o)
  | "basis_ctor" -> let tol = rq () in let p = rint () in let k = rqlist () in let per1 = rnat () in
    pres pbasis (Exec.q_basis_ctor tol (Z.of_int p) k per1)
  | "obj_make_identical" -> let tol = rq () in let o1 = robj () in let o2 = robj () in let dd = rint () in
    pres (fun (a, b) -> pobj a; pobj b) (Exec.q_obj_make_identical tol o1 o2 (if dd < 0 then None else Some (nat_of_int dd)))
  | "obj_append" -> let tol = rq () in let o1 = robj () in let o2 = robj () in pres pobj (Exec.q_obj_append tol o1 o2)
  | "obj_compatible" -> let o1 = robj () in let o2 = robj () in let (a, b) = Exec.q_obj_compatible o1 o2 in pobj a; pobj b
  | "cs_loop_tab" -> let r = rq () in let cdt = rq () in let tab = rlist (fun () -> let c = rq () in let s = rq () in (c, s)) in
    plist pqlist (Exec.q_cs_loop_tab r cdt tab O)
  | "revolve_cps" -> let prof = rlist rqlist in let seg = rlist rqlist in plist pqlist (Exec.q_revolve_cps prof seg)
  | "extrude_cps" -> let dim = rnat () in let rat = rbool () in let am = rqlist () in let prof = rlist rqlist in
    plist pqlist (Exec.q_extrude_cps dim rat am prof)
  | "circle_net" -> let which = rint () in let s2 = rq () in
    plist pqlist (if which = 2 then Exec.q_circle_net_p2C0 s2 else Exec.q_circle_net_p4C1 s2)
  | "disc_square_net" -> let r = rq () in let w = rq () in plist pqlist (Exec.q_disc_square_net r w)
  | "const_par_curve" -> let tol = rq () in let o = robj () in let x = rq () in let d = rnat () in
    pres pobj (Exec.q_const_par_curve tol o x d)
  | "default_obj" -> let rat = rbool () in let bs = rlist rbasis in
    pobj (if rat then Exec.q_default_obj_rat bs else Exec.q_default_obj bs)
  | "bounding_box" -> let o = robj () in plist (fun (a, b) -> pq a; pq b) (Exec.q_obj_bounding_box o)
  | "loft" -> let tol = rq () in let vol = rbool () in let os = rlist robj in let dist = rqlist () in
    pres pobj (if vol then Exec.q_vloft tol os dist else Exec.q_loft tol os dist)
  | "volume_interpolate" -> let tol = rq () in let bu = rbasis () in let bv = rbasis () in let bw = rbasis () in
    let us = rqlist () in let vs = rqlist () in let ws = rqlist () in let x = rlist rqlist in
    pres (fun o -> plist pqlist o.Obj.o_cps) (Exec.q_volume_interpolate tol bu bv bw us vs ws x)
  | "surface_lsq" -> let tol = rq () in let bu = rbasis () in let bv = rbasis () in let us = rqlist () in let vs = rqlist () in
    let x = rlist rqlist in pres (fun o -> plist pqlist o.Obj.o_cps) (Exec.q_surface_lsq tol bu bv us vs x)
  | "volume_lsq" -> let tol = rq () in let bu = rbasis () in let bv = rbasis () in let bw = rbasis () in
    let us = rqlist () in let vs = rqlist () in let ws = rqlist () in let x = rlist rqlist in
    pres (fun o -> plist pqlist o.Obj.o_cps) (Exec.q_volume_lsq tol bu bv bw us vs ws x)
  | "cubic_periodic" -> let tol = rq () in let t = rqlist () in let x = rlist rqlist in
    pres pobj (Exec.q_cubic_periodic tol t x)
  | "model_faces" -> let r3 () = let a = rnat () in let b = rnat () in let c = rnat () in ((a, b), c) in
    let shA = r3 () in let stA = rnat () in let dA = rnat () in let sA = rbool () in
    let shB = r3 () in let stB = rnat () in let dB = rnat () in let sB = rbool () in
    let sw = rbool () in let f0 = rbool () in let f1 = rbool () in
    let g = { Faces2.g_shA = shA; g_startA = stA; g_dA = dA; g_sideA = sA; g_shB = shB; g_startB = stB; g_dB = dB; g_sideB = sB;
              g_swap = sw; g_flip0 = f0; g_flip1 = f1 } in
    let p3 ((i, j), k) = pnat i; pnat j; pnat k in
    pbool (Exec.x_conform g);
    plist (fun (f : Faces.face) -> p3 f.Faces.fn0; p3 f.Faces.fn1; p3 f.Faces.fn2; p3 f.Faces.fn3; pnat f.Faces.owner;
                                    (match f.Faces.neighbor with Some n -> pint (int_of_nat n) | None -> pint (-1)))
      (Exec.x_model_faces g)
  | "edge_loop" -> let rtol = rq () in let atol = rq () in
    let cs = rlist (fun () -> let a = rqlist () in let b = rqlist () in (a, b)) in
    pres (plist (fun (i, f) -> pnat i; pbool f)) (Exec.q_edge_loop rtol atol cs)
  | "right_hand" -> let tol = rq () in let htol = rq () in let o = robj () in
    pres pbool (Exec.q_obj_right_hand tol htol o)
  | "ofoam" ->
    let fs = rlist (fun () -> let nodes = rnatlist () in let ow = rnat () in let nb = rint () in let nm = rint () in
               { OFoam.f_nodes = nodes; f_owner = ow; f_neighbor = Z.of_int nb; f_name = (if nm < 0 then None else Some (nat_of_int nm)) }) in
    let ordered = Exec.x_ofoam_order fs in
    plist (fun (f : OFoam.face) -> plist pnat f.OFoam.f_nodes; pnat f.OFoam.f_owner; out (Z.to_string f.OFoam.f_neighbor);
                                    (match f.OFoam.f_name with Some n -> pnat n | None -> pint (-1))) ordered;
    plist (fun (b : OFoam.block) -> pnat b.OFoam.b_name; pnat b.OFoam.b_nfaces; pnat b.OFoam.b_start) (Exec.x_ofoam_blocks ordered);
    pnat (Exec.x_ofoam_declared ordered); pnat (Exec.x_ofoam_ninternal ordered)
  | "curve_interpolate" -> let tol = rq () in let b = rbasis () in let ts = rqlist () in let x = rlist rqlist in
    pres (fun o -> plist pqlist o.Obj.o_cps) (Exec.q_curve_interpolate tol b ts x)
  | "curve_lsq" -> let tol = rq () in let b = rbasis () in let ts = rqlist () in let x = rlist rqlist in
    pres (fun o -> plist pqlist o.Obj.o_cps) (Exec.q_curve_lsq tol b ts x)
  | "cubic_curve" -> let tol = rq () in let bt = rnat () in let ts = rqlist () in let x = rlist rqlist in let tg = rlist rqlist in
    pres (fun o -> (match o.Obj.o_bases with b :: _ -> pqlist b.Obj.b_knots | [] -> pint 0); plist pqlist o.Obj.o_cps) (Exec.q_cubic_curve tol bt ts x tg)
  | "surface_interpolate" -> let tol = rq () in let bu = rbasis () in let bv = rbasis () in let us = rqlist () in let vs = rqlist () in
    let x = rlist rqlist in pres (fun o -> plist pqlist o.Obj.o_cps) (Exec.q_surface_interpolate tol bu bv us vs x)
  | "obj_section" -> let o = robj () in let sels = rnatlist () in pobj (Exec.q_obj_section o sels)
  | "basis_integrate" -> let tol = rq () in let b = rbasis () in let t0 = rq () in let t1 = rq () in
    pqlist (Exec.q_basis_integrate tol b t0 t1)
  | "obj_center" -> let tol = rq () in let o = robj () in pqlist (Exec.q_obj_center tol o)
  | "orient_compute" -> let atol = rq () in let a = robj () in let b = robj () in
    (match Exec.q_orient_compute atol { coq_Qnum = Z.zero; coq_Qden = Z.one } { coq_Qnum = Z.one; coq_Qden = Z.of_string "10000000000" } a b with
     | Some o -> out "Some"; plist pnat o.Orient.o_perm; plist pbool o.Orient.o_flip
     | None -> out "None")
  | "number_model" -> let ps = rlist rnatlist in let (nss, n) = Exec.x_number_model ps in pnat n; plist (plist pnat) nss
  | "g2_encode" -> let o = robj () in plist pqlist (Exec.q_g2_encode [o])
  | "g2_decode" -> let ls = rlist rqlist in
    (match Exec.q_g2_decode (nat_of_int (Stdlib.List.length ls)) ls with Some os -> out "Some"; plist pobj os | None -> out "None")
  | "eval_grid" -> let tol = rq () in let o = robj () in let ls = rlist rqlist in
    pres (plist pqlist) (Exec.q_obj_eval_grid tol o ls)
  | "eval_pointwise" -> let tol = rq () in let o = robj () in let ls = rlist rqlist in
    pres (plist pqlist) (Exec.q_obj_eval_pointwise tol o ls)
  | "stl_write_surface" -> let tol = rq () in let o = robj () in let has = rbool () in let n0 = rnat () in let n1 = rnat () in
    pres (fun tris -> pnat (Exec.q_stl_binary_count tris); plist (fun ((a, b), c) -> pqlist a; pqlist b; pqlist c) tris)
      (Exec.q_stl_write_surface tol o (if has then Some (n0, n1) else None))
  | "stl_params" -> let p = rnat () in let kn = rqlist () in let a = rq () in let b = rq () in let has = rbool () in let n = rnat () in
    pres pqlist (Exec.q_stl_params p kn a b (if has then Some n else None))
  | "spl_lines" -> let acc = rq () in let o = robj () in plist pqlist (Exec.q_spl_lines acc o)
  | "spl_decode" -> let tol = rq () in let ls = rlist rqlist in
    (match Exec.q_spl_decode tol ls with Some o -> out "Some"; pobj o | None -> out "None")
  | "patch_faces" -> let start = rnat () in let nx = rnat () in let ny = rnat () in let nz = rnat () in
    let p3 ((i, j), k) = pnat i; pnat j; pnat k in
    plist (fun (f : Faces.face) -> p3 f.Faces.fn0; p3 f.Faces.fn1; p3 f.Faces.fn2; p3 f.Faces.fn3; pnat f.Faces.owner;
                                    (match f.Faces.neighbor with Some n -> pint (int_of_nat n) | None -> pint (-1)))
      (Exec.x_patch_faces start ((nx, ny), nz))
  | "cell_numbers" -> let shs = rlist (fun () -> let a = rnat () in let b = rnat () in let c = rnat () in ((a, b), c)) in
    let (nss, n) = Exec.x_cell_numbers_model shs in pnat n; plist (plist pnat) nss
  | "catalogue" -> let d = rnat () in let ps = rlist rnatlist in
    let ((counts, bnd), faces) = Exec.x_catalogue d ps in
    plist pnat counts; plist (plist pnat) bnd; plist (fun (k, hs) -> plist pnat k; plist (plist pnat) hs) faces
  | "cat_lookup" -> let d = rnat () in let ps = rlist rnatlist in let q = rnatlist () in
    popt (plist pnat) (Exec.x_cat_lookup d ps q)
  | _ -> out ("UNKNOWN " ^ name)

let () =
  try
    while true do
      let line = input_line stdin in
      let parts = Array.of_list (Stdlib.List.filter (fun s -> s <> "") (String.split_on_char ' ' (String.trim line))) in
      if Array.length parts > 0 then begin
        toks := parts; pos := 1;
        Buffer.clear buf;
        (try dispatch parts.(0)
         with e -> Buffer.clear buf; out ("EXN " ^ Printexc.to_string e));
        print_string (Buffer.contents buf); print_newline ()
      end
    done
  with End_of_file -> ()
