(* Joining two B-spline curves at a knot of multiplicity q (C0 junction), on knot functions:
   if K has q copies of e at the indices J+1 .. J+q, then
     - left of e, the spline over K with coefficients c is the spline over K1 (= K up to index J+q, then e)
       with the coefficients c_0 .. c_J;
     - right of e, it is the spline over K2 (= e, then K from index J+1 on) with the coefficients c_J, c_{J+1}, ...
   This is what Curve.append relies on (the junction control point is shared), and it is the converse of the
   restriction theorem used for split. *)
From Coq Require Import List Arith Reals Lra Lia Bool.
From SplipyModel Require Import Spec.BSpline Spec.DegreeElev.
Open Scope R_scope.

Definition left_of (side : bool) (e t : R) : Prop := if side then t < e else t <= e.
Definition right_of (side : bool) (e t : R) : Prop := if side then e <= t else e < t.

Lemma B_ext' side (k1 k2 : nat -> R) q i t :
  (forall j, (i <= j <= i + q + 1)%nat -> k1 j = k2 j) -> B side k1 q i t = B side k2 q i t.
Proof. intros H. apply B_ext_shift. intros m Hm. apply H. lia. Qed.

Lemma sumf_reindex0 f a n : sumf f a n = sumf (fun j => f (a + j)%nat) 0 n.
Proof.
  revert a. induction n as [|n IH]; intros a; cbn [sumf]; [reflexivity|].
  rewrite Nat.add_0_r. f_equal. rewrite (IH (S a)). rewrite <- (sumf_shift (fun j => f (a + j)%nat) 0 n).
  apply sumf_ext. intros j _. f_equal. lia.
Qed.

(* the last knot of a B-spline does not matter left of its second knot ... *)
Lemma B_last_knot_irrelevant side (k1 k2 : nat -> R) q i t : sorted k1 -> sorted k2 ->
  (forall j, (i <= j <= i + q + 1)%nat -> k1 j = k2 j) ->
  left_of side (k1 (i + 1)%nat) t ->
  B side k1 (S q) i t = B side k2 (S q) i t.
Proof.
  intros S1 S2 E Hl. cbn [B].
  assert (Z1 : B side k1 q (i + 1) t = 0).
  { apply B_support; [exact S1|]. unfold outside, left_of in *. destruct side; left; exact Hl. }
  assert (Z2 : B side k2 q (i + 1) t = 0).
  { apply B_support; [exact S2|]. rewrite <- (E (i + 1)%nat) by lia. unfold outside, left_of in *. destruct side; left; exact Hl. }
  rewrite Z1, Z2. rewrite !Rmult_0_r.
  rewrite (B_ext' side k1 k2 q i t) by (intros j Hj; apply E; lia).
  rewrite (E i), (E (i + q + 1)%nat) by lia. reflexivity.
Qed.

(* ... and the first knot does not matter right of its last-but-one knot *)
Lemma B_first_knot_irrelevant side (k1 k2 : nat -> R) q i1 i2 t : sorted k1 -> sorted k2 ->
  (forall m, (1 <= m <= q + 2)%nat -> k1 (i1 + m)%nat = k2 (i2 + m)%nat) ->
  right_of side (k1 (i1 + q + 1)%nat) t ->
  B side k1 (S q) i1 t = B side k2 (S q) i2 t.
Proof.
  intros S1 S2 E Hr. cbn [B].
  assert (Z1 : B side k1 q i1 t = 0).
  { apply B_support; [exact S1|]. unfold outside, right_of in *. destruct side; right; exact Hr. }
  assert (Z2 : B side k2 q i2 t = 0).
  { apply B_support; [exact S2|]. replace (i2 + q + 1)%nat with (i2 + (q + 1))%nat by lia.
    rewrite <- (E (q + 1)%nat) by lia. replace (i1 + (q + 1))%nat with (i1 + q + 1)%nat by lia.
    unfold outside, right_of in *. destruct side; right; exact Hr. }
  rewrite Z1, Z2. rewrite !Rmult_0_r.
  rewrite (B_ext_shift side k1 k2 q (i1 + 1) (i2 + 1) t).
  2:{ intros m Hm. replace (i1 + 1 + m)%nat with (i1 + (1 + m))%nat by lia. replace (i2 + 1 + m)%nat with (i2 + (1 + m))%nat by lia. apply E. lia. }
  pose proof (E 1%nat ltac:(lia)) as E1. pose proof (E (q + 2)%nat ltac:(lia)) as E2.
  replace (i1 + (q + 2))%nat with (i1 + q + 2)%nat in E2 by lia. replace (i2 + (q + 2))%nat with (i2 + q + 2)%nat in E2 by lia.
  rewrite E1, E2. reflexivity.
Qed.

Lemma B_last_knot_irrelevant' side (k1 k2 : nat -> R) q i t : (1 <= q)%nat -> sorted k1 -> sorted k2 ->
  (forall j, (i <= j <= i + q)%nat -> k1 j = k2 j) -> left_of side (k1 (i + 1)%nat) t ->
  B side k1 q i t = B side k2 q i t.
Proof.
  intros Hq S1 S2 E Hl. destruct q as [|q']; [lia|].
  apply B_last_knot_irrelevant; try assumption. intros j Hj. apply E. lia.
Qed.
Lemma B_first_knot_irrelevant' side (k1 k2 : nat -> R) q i1 i2 t : (1 <= q)%nat -> sorted k1 -> sorted k2 ->
  (forall m, (1 <= m <= q + 1)%nat -> k1 (i1 + m)%nat = k2 (i2 + m)%nat) -> right_of side (k1 (i1 + q)%nat) t ->
  B side k1 q i1 t = B side k2 q i2 t.
Proof.
  intros Hq S1 S2 E Hr. destruct q as [|q']; [lia|].
  apply B_first_knot_irrelevant; try assumption.
  - intros m Hm. apply E. lia.
  - replace (i1 + q' + 1)%nat with (i1 + S q')%nat by lia. exact Hr.
Qed.

Section Join.
Variable side : bool.
Variable K : nat -> R.
Hypothesis HK : sorted K.
Variables (q J : nat) (e : R).
Hypothesis Hq : (1 <= q)%nat.
Hypothesis He : forall m, (1 <= m <= q)%nat -> K (J + m)%nat = e.

Definition K1 : nat -> R := fun i => if (i <=? J + q)%nat then K i else e.
Definition K2 : nat -> R := fun m => if (m =? 0)%nat then e else K (J + m)%nat.

Lemma K1_sorted : sorted K1.
Proof.
  intros a b Hab. unfold K1. destruct (Nat.leb_spec a (J + q)); destruct (Nat.leb_spec b (J + q)); try lia.
  - apply HK. exact Hab.
  - rewrite <- (He q ltac:(lia)). apply HK. lia.
  - lra.
Qed.
Lemma K2_sorted : sorted K2.
Proof.
  intros a b Hab. unfold K2. destruct (Nat.eqb_spec a 0); destruct (Nat.eqb_spec b 0); try lia.
  - lra.
  - rewrite <- (He 1%nat ltac:(lia)). apply HK. lia.
  - apply HK. lia.
Qed.

(* left of the junction: functions 0 .. J of K are those of K1, the later ones vanish *)
Theorem join_left (c : nat -> R) n t : (J < n)%nat -> left_of side e t ->
  sumf (fun i => c i * B side K q i t) 0 n = sumf (fun i => c i * B side K1 q i t) 0 (S J).
Proof.
  intros Hn Hl. replace n with (S J + (n - S J))%nat by lia. rewrite sumf_app.
  rewrite (sumf_zero _ (0 + S J)).
  2:{ intros i Hi. rewrite (B_support side K HK q i t); [ring|].
      pose proof (HK (J + 1)%nat i ltac:(lia)) as Hle. rewrite (He 1%nat ltac:(lia)) in Hle.
      unfold outside, left_of in *. destruct side; left; lra. }
  rewrite Rplus_0_r. apply sumf_ext. intros i Hi. f_equal.
  destruct (Nat.eq_dec i J) as [->|Hne].
  - apply (B_last_knot_irrelevant' side K K1 q J t Hq HK K1_sorted).
    + intros j Hj. unfold K1. destruct (Nat.leb_spec j (J + q)); [reflexivity|lia].
    + rewrite (He 1%nat ltac:(lia)). exact Hl.
  - apply B_ext'. intros j Hj. unfold K1. destruct (Nat.leb_spec j (J + q)); [reflexivity|lia].
Qed.

(* right of the junction: function J + m of K is function m of K2 (m >= 0), the earlier ones vanish *)
Theorem join_right (c : nat -> R) n t : (J < n)%nat -> right_of side e t ->
  sumf (fun i => c i * B side K q i t) 0 n = sumf (fun m => c (J + m)%nat * B side K2 q m t) 0 (n - J).
Proof.
  intros Hn Hr. replace n with (J + (n - J))%nat at 1 by lia. rewrite sumf_app.
  rewrite (sumf_zero _ 0 J).
  2:{ intros i Hi. rewrite (B_support side K HK q i t); [ring|].
      pose proof (HK (i + q + 1)%nat (J + q)%nat ltac:(lia)) as Hle. rewrite (He q ltac:(lia)) in Hle.
      unfold outside, right_of in *. destruct side; right; lra. }
  rewrite Rplus_0_l. cbn [Nat.add].
  rewrite (sumf_reindex0 (fun i => c i * B side K q i t) J (n - J)).
  apply sumf_ext. intros m Hm. f_equal.
  destruct (Nat.eq_dec m 0) as [->|Hne].
  - replace (J + 0)%nat with J by lia.
    apply (B_first_knot_irrelevant' side K K2 q J 0 t Hq HK K2_sorted).
    + intros m Hm2. unfold K2. destruct (Nat.eqb_spec (0 + m) 0); [lia|]. reflexivity.
    + rewrite (He q ltac:(lia)). exact Hr.
  - apply B_ext_shift. intros j Hj. unfold K2. destruct (Nat.eqb_spec (m + j) 0); [lia|]. f_equal. lia.
Qed.
End Join.
