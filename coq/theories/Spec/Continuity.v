(* Continuity across knots (appendix A.9): the jump between the span polynomials of two adjacent spans at
   their common knot x is a dipole gamma_q (delta_{i,m+1-q} - delta_{i,m-q}), gamma_q = 1 iff x is repeated q
   more times to the left; so pieces of degree q agree at a knot of multiplicity <= q. *)
From Coq Require Import List Arith Reals Lra Lia Bool.
From SplipyModel Require Import Spec.BSpline.
Open Scope R_scope.

(* preamble: Rltb, Rltb_spec, w, w_lt, w_ge, sorted as in A.2, plus: *)
Lemma w_left a b : w a b a = 0.
Proof. unfold w. destruct (Rltb a b); [|reflexivity]. unfold Rdiv. ring. Qed.
Lemma w_right a b : a < b -> w a b b = 1.
Proof. intros H. rewrite w_lt by exact H. field. lra. Qed.

(* span polynomial: the Cox-de Boor recursion with the base case decided by the span index m *)
Fixpoint P (k : nat -> R) (m q i : nat) (t : R) : R :=
  match q with
  | O => if Nat.eqb i m then 1 else 0
  | S q' => w (k i) (k (i + q' + 1)%nat) t * P k m q' i t
            + (1 - w (k (i+1)%nat) (k (i + q' + 2)%nat) t) * P k m q' (i+1) t
  end.

Section Knot.
Variable k : nat -> R.
Hypothesis Hk : sorted k.
Variable m : nat.            (* spans m and m+1 meet at x = k (m+1) *)
Let x := k (S m).

Definition delta (i j : nat) : R := if Nat.eqb i j then 1 else 0.

(* repb q: the q knots k_{m+1-q} .. k_m all equal x *)
Fixpoint repb (q : nat) : bool :=
  match q with O => true | S q' => repb q' && Reqb (k (m - q')%nat) x end.
Definition gam (q : nat) : R := if repb q then 1 else 0.

Lemma repb_spec q : repb q = true -> forall j, (m + 1 - q <= j <= m + 1)%nat -> k j = x.
Proof.
  induction q as [|q IH]; intros H j Hj.
  - replace j with (S m) by lia. reflexivity.
  - cbn [repb] in H. apply andb_prop in H as [H1 H2].
    destruct (Reqb_spec (k (m - q)%nat) x) as [E|]; [|discriminate].
    destruct (Nat.eq_dec j (m - q)) as [->|N]; [exact E|].
    destruct (Nat.le_gt_cases q m).
    + apply IH; [exact H1|lia].
    + (* q > m : then m - q = 0 and range below is vacuous or j = 0 *)
      apply IH; [exact H1|lia].
Qed.

Definition E (q i : nat) : R := P k (S m) q i x - P k m q i x.
Lemma E_rec q i : E (S q) i = w (k i) (k (i + q + 1)%nat) x * E q i
                              + (1 - w (k (i+1)%nat) (k (i + q + 2)%nat) x) * E q (i+1).
Proof. unfold E. cbn [P]. ring. Qed.

Lemma dipole q : (q <= m)%nat -> forall i,
  E q i = gam q * (delta i (m + 1 - q) - delta i (m - q)).
Proof.
  induction q as [|q IH]; intros Hq i.
  - unfold E, gam, delta. cbn [P repb]. replace (m + 1 - 0)%nat with (S m) by lia. replace (m - 0)%nat with m by lia. ring.
  - rewrite E_rec, (IH ltac:(lia) i), (IH ltac:(lia) (i+1)%nat).
    set (a := (m - q)%nat). assert (Ha : (1 <= a)%nat) by (unfold a; lia).
    replace (m + 1 - q)%nat with (a + 1)%nat by (unfold a; lia).
    replace (m + 1 - S q)%nat with a by (unfold a; lia).
    replace (m - S q)%nat with (a - 1)%nat by (unfold a; lia).
    unfold gam at 3. cbn [repb]. fold a.
    unfold gam. destruct (repb q) eqn:R; cbn [andb]; [|ring].
    pose proof (repb_spec q R) as HR.
    assert (Ka1 : k (a+1)%nat = x) by (apply HR; unfold a; lia).
    assert (Kaq : k (a + q + 1)%nat = x) by (apply HR; unfold a; lia).
    assert (Kle : k a <= x) by (unfold x; apply Hk; unfold a; lia).
    unfold delta.
    destruct (Nat.eq_dec i (a+1)) as [->|N1].
    { (* i = a+1 *)
      rewrite Ka1, w_left.
      repeat match goal with |- context[Nat.eqb ?u ?v] => destruct (Nat.eqb_spec u v); try lia end.
      destruct (Reqb (k a) x); ring. }
    destruct (Nat.eq_dec i a) as [->|N2].
    { (* i = a *)
      rewrite Kaq. rewrite Ka1, w_left.
      repeat match goal with |- context[Nat.eqb ?u ?v] => destruct (Nat.eqb_spec u v); try lia end.
      destruct (Reqb_spec (k a) x) as [Ex|Nx].
      - rewrite Ex, w_left. ring.
      - rewrite w_right by lra. ring. }
    destruct (Nat.eq_dec i (a-1)) as [->|N3].
    { (* i = a-1 *)
      replace (a - 1 + 1)%nat with a by lia. replace (a - 1 + q + 2)%nat with (a + q + 1)%nat by lia.
      rewrite Kaq.
      repeat match goal with |- context[Nat.eqb ?u ?v] => destruct (Nat.eqb_spec u v); try lia end.
      destruct (Reqb_spec (k a) x) as [Ex|Nx].
      - rewrite Ex, w_left. ring.
      - rewrite w_right by lra. ring. }
    repeat match goal with |- context[Nat.eqb ?u ?v] => destruct (Nat.eqb_spec u v); try lia end.
    destruct (Reqb (k a) x); ring.
Qed.

(* continuity across the knot: if x is not repeated q times to the left of k_{m+1}, the two span
   polynomials of degree q agree at x *)
Theorem pieces_agree q : (q <= m)%nat -> repb q = false -> forall i, P k (S m) q i x = P k m q i x.
Proof.
  intros Hq R i. pose proof (dipole q Hq i) as D. unfold E, gam in D. rewrite R in D. lra.
Qed.
End Knot.

(* the one-sided B-splines are the span polynomials on their span *)
Lemma B_is_P side (k : nat -> R) (Hk : sorted k) m t : in_span side (k m) (k (S m)) t ->
  forall q i, B side k q i t = P k m q i t.
Proof.
  intros Ht. induction q as [|q IH]; intros i.
  - rewrite (B0_span side k Hk m t Ht i). reflexivity.
  - cbn [B P]. rewrite !IH. reflexivity.
Qed.

(* C08 core (value continuity at a simple-enough knot): if x = k(m+1) has the spans m and m+1 non-empty and is
   not repeated q times to its left, the limit from the right and the limit from the left of every degree-q
   B-spline agree at x *)
Theorem B_continuous_at_knot (k : nat -> R) (Hk : sorted k) m q i : (q <= m)%nat ->
  k m < k (S m) -> k (S m) < k (S (S m)) -> repb k m q = false ->
  B true k q i (k (S m)) = B false k q i (k (S m)).
Proof.
  intros Hq H1 H2 Hr.
  rewrite (B_is_P true k Hk (S m) (k (S m))) by (unfold in_span; lra).
  rewrite (B_is_P false k Hk m (k (S m))) by (unfold in_span; lra).
  apply pieces_agree; assumption.
Qed.
