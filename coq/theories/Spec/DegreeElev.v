(* Degree elevation of B-splines (Prautzsch's identity), both one-sided variants, arbitrary multiplicities:
     (q+1) * B_k q i  =  sum_{j=i}^{i+q+1}  B_{dup j k} (q+1) i
   where [dup j k] is the knot function k with its j-th knot repeated once more.  The proof is a direct
   induction over the Cox-de Boor recurrence (no divided differences).  Together with Boehm's identity
   (Spec/Boehm.v) this gives the nestedness of the spline spaces used by raise_order (C05). *)
From Coq Require Import List Arith Reals Lra Lia Bool.
From SplipyModel Require Import Spec.BSpline.
Open Scope R_scope.

Definition dup (j : nat) (k : nat -> R) : nat -> R := fun m => if (m <=? j)%nat then k m else k (m - 1)%nat.

Lemma dup_le j k m : (m <= j)%nat -> dup j k m = k m.
Proof. intros H. unfold dup. destruct (Nat.leb_spec m j); [reflexivity|lia]. Qed.
Lemma dup_gt j k m : (j < m)%nat -> dup j k m = k (m - 1)%nat.
Proof. intros H. unfold dup. destruct (Nat.leb_spec m j); [lia|reflexivity]. Qed.

Lemma dup_sorted j k : sorted k -> sorted (dup j k).
Proof.
  intros Hk a b Hab. destruct (Nat.le_gt_cases a j) as [A|A]; destruct (Nat.le_gt_cases b j) as [Bb|Bb].
  - rewrite !dup_le by lia. apply Hk; lia.
  - rewrite dup_le, dup_gt by lia. apply Hk; lia.
  - lia.
  - rewrite !dup_gt by lia. apply Hk; lia.
Qed.

(* B depends on the knots i .. i+q+1 only, and only through their values (shifted version) *)
Lemma B_ext_shift side (k1 k2 : nat -> R) q : forall i1 i2 t,
  (forall m, (m <= q + 1)%nat -> k1 (i1 + m)%nat = k2 (i2 + m)%nat) -> B side k1 q i1 t = B side k2 q i2 t.
Proof.
  induction q as [|q IH]; intros i1 i2 t H; cbn [B].
  - pose proof (H 0%nat ltac:(lia)) as H0. pose proof (H 1%nat ltac:(lia)) as H1.
    rewrite !Nat.add_0_r in H0. replace (i1 + 1)%nat with (S i1) in H1 by lia. replace (i2 + 1)%nat with (S i2) in H1 by lia.
    rewrite H0, H1. reflexivity.
  - rewrite (IH i1 i2) by (intros; apply H; lia).
    rewrite (IH (i1+1)%nat (i2+1)%nat).
    2:{ intros m Hm. replace (i1 + 1 + m)%nat with (i1 + (m + 1))%nat by lia. replace (i2 + 1 + m)%nat with (i2 + (m + 1))%nat by lia. apply H; lia. }
    pose proof (H 0%nat ltac:(lia)) as H0. rewrite !Nat.add_0_r in H0.
    pose proof (H 1%nat ltac:(lia)) as H1.
    pose proof (H (q + 1)%nat ltac:(lia)) as H2. pose proof (H (q + 2)%nat ltac:(lia)) as H3.
    replace (i1 + (q + 1))%nat with (i1 + q + 1)%nat in H2 by lia. replace (i2 + (q + 1))%nat with (i2 + q + 1)%nat in H2 by lia.
    replace (i1 + (q + 2))%nat with (i1 + q + 2)%nat in H3 by lia. replace (i2 + (q + 2))%nat with (i2 + q + 2)%nat in H3 by lia.
    rewrite H0, H1, H2, H3. reflexivity.
Qed.

Section Elev.
Variable side : bool.

(* base case *)
Lemma prautzsch0 k i t :
  B side k 0 i t = B side (dup i k) 1 i t + B side (dup (i + 1) k) 1 i t.
Proof.
  cbn [B]. replace (i + 0 + 1)%nat with (i + 1)%nat by lia. replace (i + 0 + 2)%nat with (i + 2)%nat by lia.
  replace (S i) with (i + 1)%nat by lia. replace (S (i + 1)) with (i + 2)%nat by lia.
  rewrite (dup_le i k i), (dup_gt i k (i+1)), (dup_gt i k (i+2)) by lia.
  rewrite (dup_le (i+1) k i), (dup_le (i+1) k (i+1)), (dup_gt (i+1) k (i+2)) by lia.
  replace (i + 1 - 1)%nat with i by lia. replace (i + 2 - 1)%nat with (i + 1)%nat by lia.
  rewrite (w_ge (k i) (k i)) by lra. rewrite (w_ge (k (i+1)%nat) (k (i+1)%nat)) by lra.
  assert (E : forall a, B0 side a a t = 0).
  { intros a. unfold B0. destruct side.
    - destruct (Rleb_spec a t), (Rltb_spec t a); cbn; try reflexivity; lra.
    - destruct (Rltb_spec a t), (Rleb_spec t a); cbn; try reflexivity; lra. }
  rewrite !E. ring.
Qed.

Theorem prautzsch q : forall k, sorted k -> forall i t,
  INR (q + 1) * B side k q i t = sumf (fun j => B side (dup j k) (S q) i t) i (q + 2).
Proof.
  induction q as [|q IH]; intros k Hk i t.
  - cbn [sumf Nat.add INR]. rewrite (prautzsch0 k i t). replace (S i) with (i + 1)%nat by lia. ring.
  - (* unfold the outer recurrence in every term of the sum *)
    set (Bi := B side k q i t). set (Bi1 := B side k q (i+1) t).
    assert (Hsum : sumf (fun j => B side (dup j k) (S (S q)) i t) i (S q + 2)
      = w (k i) (k (i + q + 1)%nat) t * sumf (fun j => B side (dup j k) (S q) i t) i (q + 2)
        + w (k i) (k (i + q + 2)%nat) t * B side k (S q) i t
        + (1 - w (k i) (k (i + q + 2)%nat) t) * B side k (S q) i t
        + (1 - w (k (i+1)%nat) (k (i + q + 2)%nat) t) * sumf (fun j => B side (dup j k) (S q) (i+1) t) (i+1) (q + 2)).
    { replace (S q + 2)%nat with (S (q + 2)) by lia.
      rewrite (sumf_snoc (fun j => B side (dup j k) (S (S q)) i t) i (q + 2)).
      replace (q + 2)%nat with (S (q + 1)) at 1 by lia.
      rewrite (sumf_S (fun j => B side (dup j k) (S (S q)) i t) i (q + 1)).
      (* the generic term, expanded *)
      assert (Gen : forall j, B side (dup j k) (S (S q)) i t
                = w (dup j k i) (dup j k (i + S q + 1)%nat) t * B side (dup j k) (S q) i t
                  + (1 - w (dup j k (i+1)%nat) (dup j k (i + S q + 2)%nat) t) * B side (dup j k) (S q) (i+1) t) by reflexivity.
      (* first term j = i *)
      rewrite (Gen i). rewrite (dup_le i k i), (dup_gt i k (i + S q + 1)), (dup_gt i k (i+1)), (dup_gt i k (i + S q + 2)) by lia.
      replace (i + S q + 1 - 1)%nat with (i + q + 1)%nat by lia. replace (i + 1 - 1)%nat with i by lia.
      replace (i + S q + 2 - 1)%nat with (i + q + 2)%nat by lia.
      rewrite (B_ext_shift side (dup i k) k (S q) (i+1) i t).
      2:{ intros m Hm. rewrite dup_gt by lia. f_equal. lia. }
      (* last term j = i + q + 2 *)
      rewrite (Gen (i + (q + 2))%nat).
      rewrite (dup_le (i + (q+2)) k i), (dup_le (i + (q+2)) k (i + S q + 1)), (dup_le (i + (q+2)) k (i+1)), (dup_gt (i + (q+2)) k (i + S q + 2)) by lia.
      replace (i + S q + 2 - 1)%nat with (i + q + 2)%nat by lia. replace (i + S q + 1)%nat with (i + q + 2)%nat by lia.
      rewrite (B_ext_shift side (dup (i + (q+2)) k) k (S q) i i t).
      2:{ intros m Hm. rewrite dup_le by lia. reflexivity. }
      (* middle terms j = i+1 .. i+q+1 *)
      rewrite (sumf_ext (fun j => B side (dup j k) (S (S q)) i t)
                 (fun j => w (k i) (k (i + q + 1)%nat) t * B side (dup j k) (S q) i t
                           + (1 - w (k (i+1)%nat) (k (i + q + 2)%nat) t) * B side (dup j k) (S q) (i+1) t) (S i) (q + 1)).
      2:{ intros j Hj. rewrite (Gen j).
          rewrite (dup_le j k i), (dup_gt j k (i + S q + 1)), (dup_le j k (i+1)), (dup_gt j k (i + S q + 2)) by lia.
          replace (i + S q + 1 - 1)%nat with (i + q + 1)%nat by lia. replace (i + S q + 2 - 1)%nat with (i + q + 2)%nat by lia.
          reflexivity. }
      rewrite sumf_plus, !sumf_scal.
      (* reassemble the two sums of length q+2 *)
      replace (q + 2)%nat with (S (q + 1)) at 2 by lia.
      rewrite (sumf_S (fun j => B side (dup j k) (S q) i t) i (q + 1)).
      replace (sumf (fun j => B side (dup j k) (S q) (i+1) t) (i+1) (q + 2))
        with (sumf (fun j => B side (dup j k) (S q) (i+1) t) (S i) (q + 1) + B side (dup (i + (q + 2)) k) (S q) (i+1) t).
      2:{ replace (q + 2)%nat with (S (q + 1)) by lia. rewrite sumf_snoc.
          replace (i + 1 + (q + 1))%nat with (i + (S (q + 1)))%nat by lia.
          replace (sumf (fun j => B side (dup j k) (S q) (i + 1) t) (S i) (q + 1))
            with (sumf (fun j => B side (dup j k) (S q) (i + 1) t) (i + 1) (q + 1)) by (f_equal; lia).
          reflexivity. }
      ring. }
    replace (S q + 1)%nat with (S (q + 1)) by lia. rewrite (S_INR (q + 1)).
    rewrite Hsum. rewrite <- (IH k Hk i t). rewrite <- (IH k Hk (i+1)%nat t).
    fold Bi Bi1.
    change (B side k (S q) i t) with (w (k i) (k (i + q + 1)%nat) t * Bi + (1 - w (k (i+1)%nat) (k (i + q + 2)%nat) t) * Bi1).
    ring.
Qed.
End Elev.
