(* The derivative of a spline is the spline of one order less whose coefficients are the
   scaled differences  q (c_{i+1} - c_i) / (k_{i+1+q} - k_{i+1})  on the knots with the first
   and last one dropped (summation by parts on the derivative recurrence). *)
From Coq Require Import List Arith Reals Lra Lia Bool.
From SplipyModel Require Import Spec.BSpline Spec.Deriv.
Open Scope R_scope.

(* Abel summation *)
Lemma abel (c b : nat -> R) n :
  sumf (fun i => c i * (b i - b (S i))) 0 (S n)
  = c 0%nat * b 0%nat + sumf (fun i => (c (S i) - c i) * b (S i)) 0 n - c n * b (S n).
Proof.
  induction n as [|n IH].
  - cbn [sumf]. ring.
  - rewrite sumf_snoc, IH. rewrite (sumf_snoc _ 0 n). cbn [Nat.add]. ring.
Qed.

(* shifting the knot function shifts the index *)
Lemma B_shift side k q : forall i t, B side (fun j => k (S j)) q i t = B side k q (S i) t.
Proof.
  induction q as [|q IH]; intros i t; cbn [B]; [reflexivity|].
  rewrite !IH. replace (S i + q + 1)%nat with (S (i + q + 1)) by lia.
  replace (S i + 1)%nat with (S (i + 1)) by lia. replace (S i + q + 2)%nat with (S (i + q + 2)) by lia.
  replace (S (i + 1)) with (S i + 1)%nat by lia. reflexivity.
Qed.

Section DS.
Variable side : bool.
Variable k : nat -> R.
Hypothesis Hk : sorted k.
Variable q : nat.              (* the derivative spline has degree q, the spline degree q+1 *)
Variable c : nat -> R.         (* coefficients (one coordinate) *)
Variable n : nat.              (* number of functions of the spline, n >= 1 *)

Definition beta (t : R) (i : nat) : R := dqR (k i) (k (i + S q)%nat) (B side k q i t).

Lemma dB1_beta i t : dB side k 1 (S q) i t = INR (S q) * (beta t i - beta t (S i)).
Proof.
  cbn [dB]. unfold beta. replace (i + S q + 1)%nat with (S i + S q)%nat by lia.
  replace (i + 1)%nat with (S i) by lia. reflexivity.
Qed.

(* coefficients of the derivative spline, as get_derivative_spline builds them (zero knot
   differences skipped) *)
Definition dcoef (i : nat) : R :=
  if Rltb (k (S i)) (k (S i + S q)%nat) then INR (S q) * (c (S i) - c i) / (k (S i + S q)%nat - k (S i)) else 0.

Theorem derivative_spline_identity t :
  (* t in the domain [k_{q+1}, k_n] on the side where a span exists *)
  outside side (k 0%nat) (k (S q)) t -> outside side (k (S n)) (k (S n + S q)%nat) t ->
  sumf (fun i => c i * dB side k 1 (S q) i t) 0 (S n)
  = sumf (fun i => dcoef i * B side (fun j => k (S j)) q i t) 0 n.
Proof.
  intros H0 Hn.
  rewrite (sumf_ext _ (fun i => INR (S q) * (c i * (beta t i - beta t (S i))))).
  2:{ intros i _. rewrite dB1_beta. ring. }
  rewrite sumf_scal, abel.
  assert (E0 : beta t 0%nat = 0).
  { unfold beta. rewrite (B_support side k Hk q 0 t); [apply dqR_0|]. replace (0 + q + 1)%nat with (S q) by lia. exact H0. }
  assert (En : beta t (S n) = 0).
  { unfold beta. rewrite (B_support side k Hk q (S n) t); [apply dqR_0|].
    eapply outside_widen; [| |exact Hn]; [lra|apply Hk; lia]. }
  rewrite E0, En. rewrite !Rmult_0_r, Rplus_0_l, Rminus_0_r.
  rewrite <- sumf_scal. apply sumf_ext. intros i _.
  rewrite B_shift. unfold beta, dcoef, dqR.
  destruct (Rltb_spec (k (S i)) (k (S i + S q)%nat)); [|ring].
  field. lra.
Qed.
End DS.
