(* Reference (mathematical) definitions on R: Cox-de Boor B-splines in both
   one-sided variants over a knot *function* nat -> R, and the basic theory:
   local support, non-negativity, partition of unity, de Boor step, Greville
   (Marsden first moment) identity.  Definitions and lemmas only; no model code. *)
From Coq Require Import List Arith Reals Lra Lia Bool.
Import ListNotations.
Open Scope R_scope.

Definition Rltb (a b : R) : bool := if Rlt_dec a b then true else false.
Definition Rleb (a b : R) : bool := if Rle_dec a b then true else false.
Definition Reqb (a b : R) : bool := if Req_EM_T a b then true else false.
Lemma Rltb_spec a b : reflect (a < b) (Rltb a b).
Proof. unfold Rltb; destruct (Rlt_dec a b); constructor; auto. Qed.
Lemma Rleb_spec a b : reflect (a <= b) (Rleb a b).
Proof. unfold Rleb; destruct (Rle_dec a b); constructor; auto. Qed.
Lemma Reqb_spec a b : reflect (a = b) (Reqb a b).
Proof. unfold Reqb; destruct (Req_EM_T a b); constructor; auto. Qed.

Definition w (a b t : R) : R := if Rltb a b then (t - a) / (b - a) else 0.
Lemma w_lt a b t : a < b -> w a b t = (t - a) / (b - a).
Proof. intros H; unfold w; destruct (Rltb_spec a b); [reflexivity|lra]. Qed.
Lemma w_ge a b t : b <= a -> w a b t = 0.
Proof. intros H; unfold w; destruct (Rltb_spec a b); [lra|reflexivity]. Qed.
Lemma w_range a b t : a <= t <= b -> 0 <= w a b t <= 1.
Proof.
  intros Ht. unfold w. destruct (Rltb_spec a b); [|lra].
  split.
  - apply Rmult_le_pos; [lra|]. left; apply Rinv_0_lt_compat; lra.
  - apply (Rmult_le_reg_r (b - a)); [lra|]. unfold Rdiv. rewrite Rmult_assoc, Rinv_l by lra. lra.
Qed.

(* side = true: right-continuous [k_i, k_{i+1});  side = false: left-continuous (k_i, k_{i+1}] *)
Definition B0 (side : bool) (a b t : R) : R :=
  if side then (if Rleb a t && Rltb t b then 1 else 0) else (if Rltb a t && Rleb t b then 1 else 0).
Fixpoint B (side : bool) (k : nat -> R) (q i : nat) (t : R) : R :=
  match q with
  | O => B0 side (k i) (k (S i)) t
  | S q' => w (k i) (k (i + q' + 1)%nat) t * B side k q' i t
            + (1 - w (k (i+1)%nat) (k (i + q' + 2)%nat) t) * B side k q' (i+1) t
  end.

Definition sorted (k : nat -> R) := forall i j, (i <= j)%nat -> k i <= k j.
Definition outside (side : bool) (lo hi t : R) : Prop :=
  if side then (t < lo \/ hi <= t) else (t <= lo \/ hi < t).
Definition in_span (side : bool) (lo hi t : R) : Prop :=
  if side then lo <= t < hi else lo < t <= hi.

Lemma B_support side k (Hk : sorted k) q : forall i t, outside side (k i) (k (i + q + 1)%nat) t -> B side k q i t = 0.
Proof.
  induction q as [|q IH]; intros i t H; cbn [B].
  - replace (i + 0 + 1)%nat with (S i) in H by lia. unfold B0, outside in *. destruct side.
    + destruct (Rleb_spec (k i) t), (Rltb_spec t (k (S i))); cbn; try reflexivity; lra.
    + destruct (Rltb_spec (k i) t), (Rleb_spec t (k (S i))); cbn; try reflexivity; lra.
  - rewrite (IH i), (IH (i+1)%nat); [ring| |].
    + pose proof (Hk i (i+1)%nat ltac:(lia)). replace (i + 1 + q + 1)%nat with (i + S q + 1)%nat by lia.
      unfold outside in *. destruct side; lra.
    + pose proof (Hk (i + q + 1)%nat (i + S q + 1)%nat ltac:(lia)).
      unfold outside in *. destruct side; lra.
Qed.
Lemma B_empty side k (Hk : sorted k) q i t : k (i + q + 1)%nat <= k i -> B side k q i t = 0.
Proof.
  intros H. apply B_support; auto. unfold outside. destruct side.
  - destruct (Rlt_dec t (k i)); [left; auto|right; lra].
  - destruct (Rle_dec t (k i)); [left; auto|right; lra].
Qed.

Lemma outside_dec side lo hi t : lo <= hi -> {outside side lo hi t} + {lo <= t <= hi}.
Proof.
  intros H. unfold outside. destruct side.
  - destruct (Rlt_dec t lo); [left; auto|]. destruct (Rle_dec hi t); [left; auto|right; lra].
  - destruct (Rle_dec t lo); [left; auto|]. destruct (Rlt_dec hi t); [left; auto|right; lra].
Qed.

Lemma B_nonneg side k (Hk : sorted k) q : forall i t, 0 <= B side k q i t.
Proof.
  induction q as [|q IH]; intros i t; cbn [B].
  - unfold B0. destruct side; destruct (_ && _); lra.
  - apply Rplus_le_le_0_compat.
    + destruct (outside_dec side (k i) (k (i+q+1)%nat) t) as [O|I]; [apply Hk; lia| |].
      * rewrite (B_support side k Hk q i t O). lra.
      * apply Rmult_le_pos; [apply w_range; lra|apply IH].
    + destruct (outside_dec side (k (i+1)%nat) (k (i+q+2)%nat) t) as [O|I]; [apply Hk; lia| |].
      * rewrite (B_support side k Hk q (i+1) t); [lra|].
        replace (i+1+q+1)%nat with (i+q+2)%nat by lia. exact O.
      * apply Rmult_le_pos; [|apply IH]. pose proof (w_range (k (i+1)%nat) (k (i+q+2)%nat) t). lra.
Qed.

(* sum over i in [a, a+n) *)
Fixpoint sumf (f : nat -> R) (a n : nat) : R :=
  match n with O => 0 | S n' => f a + sumf f (S a) n' end.

Lemma sumf_ext f g a n : (forall i, (a <= i < a + n)%nat -> f i = g i) -> sumf f a n = sumf g a n.
Proof. revert a; induction n; intros a H; cbn; [reflexivity|]. rewrite H by lia. f_equal. apply IHn. intros; apply H; lia. Qed.
Lemma sumf_plus f g a n : sumf (fun i => f i + g i) a n = sumf f a n + sumf g a n.
Proof. revert a; induction n; intros a; cbn; [lra|]. rewrite IHn. lra. Qed.
Lemma sumf_snoc f a n : sumf f a (S n) = sumf f a n + f (a + n)%nat.
Proof. revert a; induction n; intros a. { cbn [sumf]. replace (a+0)%nat with a by lia. lra. }
  change (sumf f a (S (S n))) with (f a + sumf f (S a) (S n)).
  rewrite (IHn (S a)). cbn [sumf]. replace (S a + n)%nat with (a + S n)%nat by lia. lra. Qed.
Lemma sumf_shift f a n : sumf (fun i => f (S i)) a n = sumf f (S a) n.
Proof. revert a; induction n; intros a; cbn; [reflexivity|]. now rewrite IHn. Qed.
Lemma sumf_S f a n : sumf f a (S n) = f a + sumf f (S a) n.
Proof. reflexivity. Qed.
Lemma sumf_scal c f a n : sumf (fun i => c * f i) a n = c * sumf f a n.
Proof. revert a; induction n; intros a; cbn [sumf]; [ring|]. rewrite IHn. ring. Qed.
Lemma sumf_zero f a n : (forall i, (a <= i < a + n)%nat -> f i = 0) -> sumf f a n = 0.
Proof. revert a; induction n; intros a H; cbn [sumf]; [reflexivity|]. rewrite H by lia. rewrite IHn; [lra|]. intros; apply H; lia. Qed.
Lemma sumf_app f a n m : sumf f a (n + m) = sumf f a n + sumf f (a + n) m.
Proof. revert a; induction n; intros a; cbn [sumf Nat.add]. { replace (a+0)%nat with a by lia. lra. }
  rewrite IHn. replace (S a + n)%nat with (a + S n)%nat by lia. lra. Qed.
Lemma sumf_nonneg f a n : (forall i, (a <= i < a + n)%nat -> 0 <= f i) -> 0 <= sumf f a n.
Proof. revert a; induction n; intros a H; cbn [sumf]; [lra|]. apply Rplus_le_le_0_compat; [apply H; lia|apply IHn; intros; apply H; lia]. Qed.

Section B.
Variable side : bool.
Variable k : nat -> R.
Hypothesis ksorted : sorted k.

Lemma B0_span m t : in_span side (k m) (k (S m)) t -> forall i, B side k 0 i t = if Nat.eqb i m then 1 else 0.
Proof.
  intros Ht i. cbn [B]. unfold B0, in_span in *. destruct (Nat.eqb_spec i m) as [->|N].
  - destruct side.
    + destruct (Rleb_spec (k m) t), (Rltb_spec t (k (S m))); cbn; try lra; reflexivity.
    + destruct (Rltb_spec (k m) t), (Rleb_spec t (k (S m))); cbn; try lra; reflexivity.
  - assert (HH : (S i <= m \/ S m <= i)%nat) by lia.
    destruct side.
    + destruct (Rleb_spec (k i) t), (Rltb_spec t (k (S i))); cbn; try reflexivity.
      exfalso. destruct HH as [HH|HH]; [pose proof (ksorted (S i) m HH)|pose proof (ksorted (S m) i HH)]; lra.
    + destruct (Rltb_spec (k i) t), (Rleb_spec t (k (S i))); cbn; try reflexivity.
      exfalso. destruct HH as [HH|HH]; [pose proof (ksorted (S i) m HH)|pose proof (ksorted (S m) i HH)]; lra.
Qed.

Lemma span_out_hi m t j : in_span side (k m) (k (S m)) t -> (j <= m)%nat -> forall lo, outside side lo (k j) t.
Proof. intros Ht Hj lo. pose proof (ksorted j m Hj). unfold in_span, outside in *. destruct side; right; lra. Qed.
Lemma span_out_lo m t j : in_span side (k m) (k (S m)) t -> (S m <= j)%nat -> forall hi, outside side (k j) hi t.
Proof. intros Ht Hj hi. pose proof (ksorted (S m) j Hj). unfold in_span, outside in *. destruct side; left; lra. Qed.

(* Partition of unity on the span m *)
Lemma partition_unity q : forall m t, (q <= m)%nat -> in_span side (k m) (k (S m)) t ->
  sumf (fun i => B side k q i t) (m - q) (S q) = 1.
Proof.
  induction q as [|q IH]; intros m t Hm Ht.
  - cbn [sumf]. rewrite (B0_span m t Ht). replace (m-0)%nat with m by lia. rewrite Nat.eqb_refl. lra.
  - set (a := (m - S q)%nat). assert (Ha : (a + S q = m)%nat) by (unfold a; lia).
    transitivity (sumf (fun i => w (k i) (k (i + q + 1)%nat) t * B side k q i t) a (S (S q))
                  + sumf (fun i => (1 - w (k (i+1)%nat) (k (i + q + 2)%nat) t) * B side k q (i+1) t) a (S (S q))).
    { rewrite <- sumf_plus. apply sumf_ext. intros i _. reflexivity. }
    rewrite (sumf_snoc (fun i => (1 - w (k (i+1)%nat) (k (i + q + 2)%nat) t) * B side k q (i+1) t)).
    rewrite (sumf_S (fun i => w (k i) (k (i + q + 1)%nat) t * B side k q i t)).
    rewrite (B_support side k ksorted q a t) by (apply (span_out_hi m); [exact Ht|lia]).
    rewrite (B_support side k ksorted q (a + S q + 1) t) by (apply (span_out_lo m); [exact Ht|lia]).
    rewrite !Rmult_0_r, Rplus_0_l, Rplus_0_r.
    rewrite <- (sumf_shift (fun i => w (k i) (k (i+q+1)%nat) t * B side k q i t)).
    rewrite <- sumf_plus.
    etransitivity; [|apply (IH m t ltac:(lia) Ht)].
    replace (m - q)%nat with (S a) by lia.
    rewrite <- sumf_shift. apply sumf_ext. intros i Hi.
    replace (i+1)%nat with (S i) by lia. replace (S i + q + 1)%nat with (i + q + 2)%nat by lia. ring.
Qed.

(* de Boor step: a spline of degree q+1 written over degree-q B-splines *)
Lemma deboor_step q (c : nat -> R) m t : (S q <= m)%nat -> in_span side (k m) (k (S m)) t ->
  sumf (fun i => c i * B side k (S q) i t) (m - S q) (S (S q))
  = sumf (fun i => (c i * w (k i) (k (i + q + 1)%nat) t + c (i - 1)%nat * (1 - w (k i) (k (i + q + 1)%nat) t)) * B side k q i t)
         (m - q) (S q).
Proof.
  intros Hm Ht. set (a := (m - S q)%nat). assert (Ha : (a + S q = m)%nat) by (unfold a; lia).
  transitivity (sumf (fun i => c i * w (k i) (k (i + q + 1)%nat) t * B side k q i t) a (S (S q))
                + sumf (fun i => c i * (1 - w (k (i+1)%nat) (k (i + q + 2)%nat) t) * B side k q (i+1) t) a (S (S q))).
  { rewrite <- sumf_plus. apply sumf_ext. intros i _. cbn [B]. ring. }
  rewrite (sumf_snoc (fun i => c i * (1 - w (k (i+1)%nat) (k (i + q + 2)%nat) t) * B side k q (i+1) t)).
  rewrite (sumf_S (fun i => c i * w (k i) (k (i + q + 1)%nat) t * B side k q i t)).
  rewrite (B_support side k ksorted q a t) by (apply (span_out_hi m); [exact Ht|lia]).
  rewrite (B_support side k ksorted q (a + S q + 1) t) by (apply (span_out_lo m); [exact Ht|lia]).
  rewrite !Rmult_0_r, Rplus_0_l, Rplus_0_r.
  rewrite <- (sumf_shift (fun i => c i * w (k i) (k (i+q+1)%nat) t * B side k q i t)).
  rewrite <- sumf_plus.
  replace (m - q)%nat with (S a) by lia.
  rewrite <- sumf_shift. apply sumf_ext. intros i Hi.
  replace (i+1)%nat with (S i) by lia. replace (S i + q + 1)%nat with (i + q + 2)%nat by lia.
  replace (S i - 1)%nat with i by lia. ring.
Qed.

(* Greville abscissae: xi q i = (k_{i+1} + ... + k_{i+q}) / q *)
Definition ksum (i q : nat) : R := sumf k (S i) q.
Definition xi (q i : nat) : R := ksum i q / INR q.

Lemma ksum_S i q : ksum i (S q) = ksum i q + k (i + q + 1)%nat.
Proof. unfold ksum. rewrite sumf_snoc. f_equal. f_equal. lia. Qed.
Lemma ksum_shift i q : ksum (i - 1) (S q) = k i + ksum i q \/ i = 0%nat.
Proof. destruct i; [right; reflexivity|left]. unfold ksum. replace (S i - 1)%nat with i by lia. reflexivity. Qed.

Lemma in_span_lt m t : in_span side (k m) (k (S m)) t -> k m < k (S m).
Proof. unfold in_span; destruct side; lra. Qed.

Theorem greville_identity q : forall m t, (S q <= m)%nat -> in_span side (k m) (k (S m)) t ->
  sumf (fun i => xi (S q) i * B side k (S q) i t) (m - S q) (S (S q)) = t.
Proof.
  induction q as [|q IH]; intros m t Hm Ht.
  - rewrite deboor_step by assumption.
    replace (m - 0)%nat with m by lia. cbn [sumf]. rewrite (B0_span m t Ht), Nat.eqb_refl.
    unfold xi, ksum. cbn [sumf INR]. replace (m - 1 + 0 + 1)%nat with m by lia. replace (S (m-1)) with m by lia.
    replace (m+0+1)%nat with (S m) by lia.
    pose proof (in_span_lt m t Ht).
    unfold w. destruct (Rltb_spec (k m) (k (S m))); [|lra]. field. lra.
  - rewrite deboor_step by assumption.
    transitivity (sumf (fun i => ((INR (S q) * xi (S q) i + t) / INR (S (S q))) * B side k (S q) i t) (m - S q) (S (S q))).
    + apply sumf_ext. intros i Hi.
      destruct (Rlt_dec (k i) (k (i + S q + 1)%nat)) as [L|L].
      * apply Rmult_eq_compat_r.
        unfold w. destruct (Rltb_spec (k i) (k (i + S q + 1)%nat)); [|lra].
        destruct (ksum_shift i (S q)) as [E|E]; [|lia].
        unfold xi. rewrite E. rewrite (ksum_S i (S q)).
        assert (INR (S q) <> 0) by (apply not_0_INR; lia).
        assert (INR (S (S q)) <> 0) by (apply not_0_INR; lia).
        field. repeat split; lra.
      * rewrite (B_empty side k ksorted (S q) i t) by lra. ring.
    + transitivity (INR (S q) / INR (S (S q)) * sumf (fun i => xi (S q) i * B side k (S q) i t) (m - S q) (S (S q))
                    + t / INR (S (S q)) * sumf (fun i => B side k (S q) i t) (m - S q) (S (S q))).
      { rewrite <- !sumf_scal, <- sumf_plus. apply sumf_ext. intros i _.
        assert (INR (S (S q)) <> 0) by (apply not_0_INR; lia). field. exact H. }
      rewrite (IH m t) by (lia || assumption). rewrite partition_unity by (lia || assumption).
      assert (INR (S (S q)) <> 0) by (apply not_0_INR; lia).
      rewrite (S_INR (S q)) in *. field. exact H.
Qed.
End B.
