(* Reference derivative recurrence on R and its support. *)
From Coq Require Import List Arith Reals Lra Lia Bool.
From SplipyModel Require Import Spec.BSpline.
Open Scope R_scope.

Definition dqR (a b x : R) : R := if Rltb a b then x / (b - a) else 0.
Lemma dqR_lt a b x : a < b -> dqR a b x = x / (b - a).
Proof. intros; unfold dqR; destruct (Rltb_spec a b); [reflexivity|lra]. Qed.
Lemma dqR_0 a b : dqR a b 0 = 0.
Proof. unfold dqR; destruct (Rltb a b); [unfold Rdiv; ring|reflexivity]. Qed.

Fixpoint dB (side : bool) (k : nat -> R) (r q i : nat) (t : R) : R :=
  match r with
  | O => B side k q i t
  | S r' =>
    match q with
    | O => 0
    | S q' => INR q * (dqR (k i) (k (i + q)%nat) (dB side k r' q' i t)
                       - dqR (k (i+1)%nat) (k (i + q + 1)%nat) (dB side k r' q' (i+1) t))
    end
  end.

Lemma outside_widen side lo hi lo' hi' t : lo' <= lo -> hi <= hi' -> outside side lo' hi' t -> outside side lo hi t.
Proof. unfold outside; destruct side; lra. Qed.

Lemma dB_support side k (Hk : sorted k) r : forall q i t,
  outside side (k i) (k (i + q + 1)%nat) t -> dB side k r q i t = 0.
Proof.
  induction r as [|r IH]; intros q i t H; cbn [dB].
  - apply B_support; assumption.
  - destruct q as [|q]; [reflexivity|].
    rewrite (IH q i t), (IH q (i+1)%nat t).
    + rewrite !dqR_0. ring.
    + replace (i + 1 + q + 1)%nat with (i + S q + 1)%nat by lia.
      eapply outside_widen; [| |exact H]; [apply Hk; lia|lra].
    + eapply outside_widen; [| |exact H]; [lra|apply Hk; lia].
Qed.

(* derivatives of order above the degree vanish *)
Lemma dB_high side k r : forall q i t, (q < r)%nat -> dB side k r q i t = 0.
Proof.
  induction r as [|r IH]; intros q i t H; [lia|]. cbn [dB].
  destruct q as [|q]; [reflexivity|].
  rewrite !IH by lia. rewrite !dqR_0. ring.
Qed.
