(* reparam and reverse at basis level, both one-sided variants (appendix A.6):
     B_{al*k+be} q i (al*t+be) = B_k q i t                      (al > 0)
     B^side_{kr} q i (a+b-t)   = B^{not side}_k q (L-q-2-i) t   with kr j = a + b - k (L-1-j). *)
From Coq Require Import List Arith Reals Lra Lia Bool.
From SplipyModel Require Import Spec.BSpline.
Open Scope R_scope.

(* ---------- affine reparametrisation ---------- *)
Lemma w_affine al be a b t : 0 < al -> w (al * a + be) (al * b + be) (al * t + be) = w a b t.
Proof.
  intros Hal. unfold w.
  destruct (Rltb_spec a b), (Rltb_spec (al*a+be) (al*b+be)); try nra.
  - field. split; nra.
Qed.
Lemma B0_affine side al be a b t : 0 < al -> B0 side (al*a+be) (al*b+be) (al*t+be) = B0 side a b t.
Proof.
  intros Hal. unfold B0. destruct side.
  - destruct (Rleb_spec a t), (Rltb_spec t b), (Rleb_spec (al*a+be) (al*t+be)), (Rltb_spec (al*t+be) (al*b+be)); cbn; try reflexivity; nra.
  - destruct (Rltb_spec a t), (Rleb_spec t b), (Rltb_spec (al*a+be) (al*t+be)), (Rleb_spec (al*t+be) (al*b+be)); cbn; try reflexivity; nra.
Qed.
Theorem reparam_basis side al be k q : 0 < al -> forall i t,
  B side (fun j => al * k j + be) q i (al * t + be) = B side k q i t.
Proof.
  intros Hal. induction q as [|q IH]; intros i t; cbn [B].
  - apply B0_affine; exact Hal.
  - rewrite !w_affine by exact Hal. rewrite !IH. reflexivity.
Qed.

(* ---------- reversal:  k^r_j = a + b - k_{L-1-j} ---------- *)
Section Rev.
Variable k : nat -> R.
Hypothesis Hk : sorted k.
Variables (L : nat) (a b : R).      (* L = number of knots *)
Definition kr (j : nat) : R := a + b - k (L - 1 - j)%nat.

Lemma w_rev x y t : w (a + b - y) (a + b - x) (a + b - t) = if Rltb x y then 1 - w x y t else 0.
Proof.
  unfold w. destruct (Rltb_spec x y), (Rltb_spec (a+b-y) (a+b-x)); try lra. field. lra.
Qed.
Lemma B0_rev side x y t : B0 side (a + b - y) (a + b - x) (a + b - t) = B0 (negb side) x y t.
Proof.
  unfold B0. destruct side; cbn [negb].
  - destruct (Rleb_spec (a+b-y) (a+b-t)), (Rltb_spec (a+b-t) (a+b-x)), (Rltb_spec x t), (Rleb_spec t y); cbn; try reflexivity; lra.
  - destruct (Rltb_spec (a+b-y) (a+b-t)), (Rleb_spec (a+b-t) (a+b-x)), (Rleb_spec x t), (Rltb_spec t y); cbn; try reflexivity; lra.
Qed.

(* function i of the reversed basis at a+b-t is function L-q-2-i of the old basis at t, other side *)
Theorem reverse_basis side q : forall i t, (i + q + 2 <= L)%nat ->
  B side kr q i (a + b - t) = B (negb side) k q (L - q - 2 - i) t.
Proof.
  induction q as [|q IH]; intros i t Hi; cbn [B].
  - unfold kr. replace (L - 1 - i)%nat with (S (L - 0 - 2 - i)) by lia.
    replace (L - 1 - S i)%nat with (L - 0 - 2 - i)%nat by lia. apply B0_rev.
  - rewrite (IH i) by lia. rewrite (IH (i+1)%nat) by lia.
    unfold kr. rewrite !w_rev.
    set (m := (L - S q - 2 - i)%nat).
    replace (L - 1 - i)%nat with (m + q + 2)%nat by lia.
    replace (L - 1 - (i + q + 1))%nat with (m + 1)%nat by lia.
    replace (L - 1 - (i + 1))%nat with (m + q + 1)%nat by lia.
    replace (L - 1 - (i + q + 2))%nat with m by lia.
    replace (L - q - 2 - i)%nat with (m + 1)%nat by lia.
    replace (L - q - 2 - (i + 1))%nat with m by lia.
    destruct (Rltb_spec (k (m+1)%nat) (k (m + q + 2)%nat)) as [A|A];
    destruct (Rltb_spec (k m) (k (m + q + 1)%nat)) as [A2|A2].
    + ring.
    + rewrite (B_empty (negb side) k Hk q m t) by lra. ring.
    + rewrite (B_empty (negb side) k Hk q (m+1) t) by (replace (m+1+q+1)%nat with (m+q+2)%nat by lia; lra). ring.
    + rewrite (B_empty (negb side) k Hk q m t) by lra.
      rewrite (B_empty (negb side) k Hk q (m+1) t) by (replace (m+1+q+1)%nat with (m+q+2)%nat by lia; lra). ring.
Qed.
End Rev.
