(* Boehm's knot-insertion identity for arbitrary multiplicities, both one-sided variants:
   with k' = k with x inserted at position mu (k (mu-1) <= x < k mu),
     B_k q i = alpha q i * B_k' q i + (1 - alpha q (i+1)) * B_k' q (i+1).
   Ported from the planning notes (appendix A.2). *)
From Coq Require Import List Arith Reals Lra Lia Bool.
From SplipyModel Require Import Spec.BSpline.
Open Scope R_scope.

Section Insert.
Variable side : bool.
Variable k : nat -> R.
Hypothesis Hk : sorted k.
Variable mu : nat.
Variable x : R.
Hypothesis Hmu : (1 <= mu)%nat.
Hypothesis Hx1 : k (mu - 1)%nat <= x.
Hypothesis Hx2 : x < k mu.

Definition k' : nat -> R :=
  fun j => if (j <? mu)%nat then k j else if (j =? mu)%nat then x else k (j - 1)%nat.

Lemma k'_lt j : (j < mu)%nat -> k' j = k j.
Proof. intros H. unfold k'. destruct (Nat.ltb_spec j mu); [reflexivity|lia]. Qed.
Lemma k'_eq : k' mu = x.
Proof. unfold k'. rewrite Nat.ltb_irrefl, Nat.eqb_refl. reflexivity. Qed.
Lemma k'_gt j : (mu < j)%nat -> k' j = k (j - 1)%nat.
Proof. intros H. unfold k'. destruct (Nat.ltb_spec j mu); [lia|]. destruct (Nat.eqb_spec j mu); [lia|reflexivity]. Qed.

Lemma k_le_x j : (j < mu)%nat -> k j <= x.
Proof. intros H. pose proof (Hk j (mu-1)%nat ltac:(lia)). lra. Qed.
Lemma x_lt_k j : (mu <= j)%nat -> x < k j.
Proof. intros H. pose proof (Hk mu j H). lra. Qed.

Lemma k'_sorted : sorted k'.
Proof.
  intros i j Hij.
  destruct (lt_eq_lt_dec i mu) as [[Hi|Hi]|Hi]; destruct (lt_eq_lt_dec j mu) as [[Hj|Hj]|Hj]; try lia.
  - rewrite !k'_lt by lia. apply Hk; lia.
  - subst j. rewrite k'_lt, k'_eq by lia. apply k_le_x; auto.
  - rewrite k'_lt, k'_gt by lia. pose proof (k_le_x i Hi). pose proof (x_lt_k (j-1)%nat ltac:(lia)). lra.
  - subst. lra.
  - subst i. rewrite k'_eq, k'_gt by lia. pose proof (x_lt_k (j-1)%nat ltac:(lia)). lra.
  - rewrite !k'_gt by lia. apply Hk; lia.
Qed.

Definition alpha (q i : nat) : R :=
  if (i + q <? mu)%nat then 1 else if (mu <=? i)%nat then 0 else (x - k i) / (k (i + q)%nat - k i).
Lemma alpha_one q i : (i + q < mu)%nat -> alpha q i = 1.
Proof. intros H; unfold alpha. destruct (Nat.ltb_spec (i+q) mu); [reflexivity|lia]. Qed.
Lemma alpha_zero q i : (mu <= i)%nat -> alpha q i = 0.
Proof. intros H; unfold alpha. destruct (Nat.ltb_spec (i+q) mu); [lia|]. destruct (Nat.leb_spec mu i); [reflexivity|lia]. Qed.
Lemma alpha_mid q i : (i < mu <= i + q)%nat -> alpha q i = (x - k i) / (k (i + q)%nat - k i).
Proof. intros H; unfold alpha. destruct (Nat.ltb_spec (i+q) mu); [lia|]. destruct (Nat.leb_spec mu i); [lia|reflexivity]. Qed.

Lemma boehm0 i t : B side k 0 i t = alpha 0 i * B side k' 0 i t + (1 - alpha 0 (i+1)) * B side k' 0 (i+1) t.
Proof.
  cbn [B].
  destruct (lt_eq_lt_dec (i+1) mu) as [[H|H]|H].
  - rewrite !alpha_one by lia. rewrite !k'_lt by lia. ring.
  - rewrite alpha_one by lia. rewrite alpha_zero by lia.
    replace (S (i+1)) with (S mu) by lia. replace (i+1)%nat with mu by lia. replace (S i) with mu by lia.
    rewrite (k'_lt i) by lia. rewrite k'_eq. rewrite (k'_gt (S mu)) by lia.
    replace (S mu - 1)%nat with mu by lia. replace i with (mu-1)%nat by lia.
    unfold B0. destruct side.
    + destruct (Rleb_spec (k (mu-1)%nat) t), (Rltb_spec t (k mu)), (Rltb_spec t x), (Rleb_spec x t); cbn; lra.
    + destruct (Rltb_spec (k (mu-1)%nat) t), (Rleb_spec t (k mu)), (Rleb_spec t x), (Rltb_spec x t); cbn; lra.
  - rewrite !alpha_zero by lia. rewrite Rmult_0_l, Rplus_0_l, Rminus_0_r, Rmult_1_l.
    rewrite (k'_gt (i+1)), (k'_gt (S (i+1))) by lia.
    replace (i+1-1)%nat with i by lia. replace (S (i+1) - 1)%nat with (S i) by lia. reflexivity.
Qed.


Let B' := B side k'.

(* coefficient of B' q i *)
Lemma coef0 q i t :
  w (k i) (k (i + q + 1)%nat) t * alpha q i * B' q i t
  = alpha (S q) i * w (k' i) (k' (i + q + 1)%nat) t * B' q i t.
Proof.
  destruct (le_lt_dec mu i) as [H|H].
  { rewrite !alpha_zero by lia. ring. }
  destruct (lt_eq_lt_dec (i + q + 1) mu) as [[H1|H1]|H1].
  - rewrite !alpha_one by lia. rewrite !k'_lt by lia. ring.
  - rewrite alpha_one by lia. rewrite alpha_mid by lia.
    rewrite k'_lt by lia. replace (i + q + 1)%nat with mu by lia. rewrite k'_eq.
    replace (i + S q)%nat with mu by lia.
    pose proof (k_le_x i H) as Hi.
    destruct (Rlt_dec (k i) x) as [L|L].
    + rewrite !w_lt by lra. f_equal. field. lra.
    + assert (E : B' q i t = 0).
      { apply (B_empty side k' k'_sorted). replace (i + q + 1)%nat with mu by lia.
        rewrite k'_eq, k'_lt by lia. lra. }
      rewrite E. ring.
  - rewrite !alpha_mid by lia. rewrite k'_lt by lia. rewrite k'_gt by lia.
    replace (i + q + 1 - 1)%nat with (i + q)%nat by lia. replace (i + S q)%nat with (i + q + 1)%nat by lia.
    pose proof (k_le_x i H) as Hi. pose proof (x_lt_k (i+q)%nat ltac:(lia)). pose proof (x_lt_k (i+q+1)%nat ltac:(lia)).
    rewrite !w_lt by lra. f_equal. field. lra.
Qed.


(* coefficient of B' q (i+2) *)
Lemma coef2 q i t :
  (1 - w (k (i+1)%nat) (k (i + q + 2)%nat) t) * (1 - alpha q (i+2)) * B' q (i+2) t
  = (1 - alpha (S q) (i+1)) * (1 - w (k' (i+2)%nat) (k' (i + q + 3)%nat) t) * B' q (i+2) t.
Proof.
  destruct (le_lt_dec mu (i+1)) as [H|H].
  { rewrite !alpha_zero by lia. rewrite !k'_gt by lia.
    replace (i+2-1)%nat with (i+1)%nat by lia. replace (i+q+3-1)%nat with (i+q+2)%nat by lia. ring. }
  destruct (lt_eq_lt_dec (i + q + 2) mu) as [[H1|H1]|H1].
  - rewrite !alpha_one by lia. ring.
  - (* i+q+2 = mu *)
    rewrite (alpha_mid (S q) (i+1)) by lia.
    replace (i + 1 + S q)%nat with mu by lia. replace (i + q + 2)%nat with mu by lia.
    rewrite (k'_gt (i+q+3)) by lia. replace (i + q + 3 - 1)%nat with mu by lia.
    pose proof (k_le_x (i+1)%nat H) as Hi.
    destruct (Nat.eq_dec q 0) as [Q|Q].
    + subst q. rewrite alpha_zero by lia. replace (i+2)%nat with mu by lia. rewrite k'_eq.
      rewrite !w_lt by lra. f_equal. field. lra.
    + rewrite alpha_mid by lia. rewrite k'_lt by lia. replace (i + 2 + q)%nat with mu by lia.
      pose proof (k_le_x (i+2)%nat ltac:(lia)).
      rewrite !w_lt by lra. f_equal. field. lra.
  - (* i+1 < mu <= i+q+1 *)
    rewrite (alpha_mid (S q) (i+1)) by lia.
    replace (i + 1 + S q)%nat with (i + q + 2)%nat by lia.
    rewrite (k'_gt (i+q+3)) by lia. replace (i + q + 3 - 1)%nat with (i+q+2)%nat by lia.
    pose proof (k_le_x (i+1)%nat H) as Hi. pose proof (x_lt_k (i+q+2)%nat ltac:(lia)).
    destruct (Nat.eq_dec mu (i+2)) as [M|M].
    + rewrite alpha_zero by lia. replace (i+2)%nat with mu by lia. rewrite k'_eq.
      rewrite !w_lt by lra. f_equal. field. lra.
    + rewrite alpha_mid by lia. rewrite k'_lt by lia. replace (i + 2 + q)%nat with (i+q+2)%nat by lia.
      pose proof (k_le_x (i+2)%nat ltac:(lia)).
      rewrite !w_lt by lra. f_equal. field. lra.
Qed.


(* coefficient of B' q (i+1) *)
Lemma coef1 q i t :
  (w (k i) (k (i + q + 1)%nat) t * (1 - alpha q (i+1))
   + (1 - w (k (i+1)%nat) (k (i + q + 2)%nat) t) * alpha q (i+1)) * B' q (i+1) t
  = (alpha (S q) i * (1 - w (k' (i+1)%nat) (k' (i + q + 2)%nat) t)
     + (1 - alpha (S q) (i+1)) * w (k' (i+1)%nat) (k' (i + q + 2)%nat) t) * B' q (i+1) t.
Proof.
  destruct (le_lt_dec mu i) as [H|H].
  { rewrite !alpha_zero by lia. rewrite !k'_gt by lia.
    replace (i+1-1)%nat with i by lia. replace (i+q+2-1)%nat with (i+q+1)%nat by lia. ring. }
  destruct (lt_eq_lt_dec (i + q + 2) mu) as [[H1|H1]|H1].
  - rewrite !alpha_one by lia. rewrite !k'_lt by lia. ring.
  - (* i+q+2 = mu *)
    rewrite (alpha_one q) by lia. rewrite (alpha_one (S q) i) by lia. rewrite (alpha_mid (S q) (i+1)) by lia.
    replace (1 - 1) with 0 by ring. rewrite Rmult_0_r, Rplus_0_l.
    replace (i + 1 + S q)%nat with mu by lia. replace (i + q + 2)%nat with mu by lia.
    rewrite k'_lt by lia. rewrite k'_eq.
    pose proof (k_le_x (i+1)%nat ltac:(lia)) as Hi.
    destruct (Rlt_dec (k (i+1)%nat) x) as [L|L].
    + rewrite !w_lt by lra. f_equal. field. lra.
    + assert (E : B' q (i+1) t = 0).
      { apply (B_empty side k' k'_sorted). replace (i + 1 + q + 1)%nat with mu by lia.
        rewrite k'_eq, k'_lt by lia. lra. }
      rewrite E. ring.
  - (* i < mu <= i+q+1 *)
    rewrite (alpha_mid (S q) i) by lia. replace (i + S q)%nat with (i+q+1)%nat by lia.
    rewrite (k'_gt (i+q+2)) by lia. replace (i+q+2-1)%nat with (i+q+1)%nat by lia.
    pose proof (k_le_x i H) as Hi. pose proof (x_lt_k (i+q+1)%nat ltac:(lia)) as Hd.
    pose proof (Hk (i+q+1)%nat (i+q+2)%nat ltac:(lia)) as He.
    destruct (Nat.eq_dec mu (i+1)) as [M|M].
    + (* mu = i+1 : alpha q (i+1) = 0, alpha (S q) (i+1) = 0, k'(i+1) = x *)
      rewrite !(alpha_zero _ (i+1)) by lia. replace (i+1)%nat with mu at 3 4 by lia. rewrite k'_eq.
      rewrite Rmult_0_r, Rplus_0_r, Rminus_0_r, Rmult_1_r, Rmult_1_l.
      rewrite !w_lt by lra. apply Rmult_eq_compat_r. field. lra.
    + rewrite (alpha_mid q (i+1)) by lia. rewrite (alpha_mid (S q) (i+1)) by lia.
      replace (i + 1 + q)%nat with (i+q+1)%nat by lia. replace (i + 1 + S q)%nat with (i+q+2)%nat by lia.
      rewrite k'_lt by lia.
      pose proof (k_le_x (i+1)%nat ltac:(lia)).
      rewrite !w_lt by lra. f_equal. field. lra.
Qed.

Theorem boehm q : forall i t,
  B side k q i t = alpha q i * B' q i t + (1 - alpha q (i+1)) * B' q (i+1) t.
Proof.
  induction q as [|q IH]; intros i t.
  - apply boehm0.
  - change (B side k (S q) i t) with
      (w (k i) (k (i + q + 1)%nat) t * B side k q i t + (1 - w (k (i+1)%nat) (k (i + q + 2)%nat) t) * B side k q (i+1) t).
    unfold B'. 
    change (B side k' (S q) i t) with
      (w (k' i) (k' (i + q + 1)%nat) t * B side k' q i t + (1 - w (k' (i+1)%nat) (k' (i + q + 2)%nat) t) * B side k' q (i+1) t).
    change (B side k' (S q) (i+1) t) with
      (w (k' (i+1)%nat) (k' (i + 1 + q + 1)%nat) t * B side k' q (i+1) t + (1 - w (k' (i+1+1)%nat) (k' (i + 1 + q + 2)%nat) t) * B side k' q (i+1+1) t).
    rewrite (IH i t), (IH (i+1)%nat t).
    replace (i+1+1)%nat with (i+2)%nat by lia. replace (i+1+q+1)%nat with (i+q+2)%nat by lia.
    replace (i+1+q+2)%nat with (i+q+3)%nat by lia.
    pose proof (coef0 q i t) as C0. pose proof (coef1 q i t) as C1. pose proof (coef2 q i t) as C2.
    unfold B' in *. lra.
Qed.

End Insert.
