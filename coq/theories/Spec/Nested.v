(* Nestedness of spline spaces under knot refinement, on knot functions:
   if k2 is obtained from k by s single-knot insertions (each one an instance of Boehm's identity),
   every B-spline over k is a combination, with coefficients independent of the parameter and of the
   one-sided variant, of the s+1 B-splines over k2 that start at the same index. *)
From Coq Require Import List Arith Reals Lra Lia Bool.
From SplipyModel Require Import Spec.BSpline Spec.Boehm Spec.DegreeElev.
Open Scope R_scope.

Inductive Refines : nat -> (nat -> R) -> (nat -> R) -> Prop :=
| Ref0 k k2 : (forall m, k2 m = k m) -> Refines 0 k k2
| RefS s k k1 k2 mu x : Refines s k k1 -> (1 <= mu)%nat -> k1 (mu - 1)%nat <= x -> x < k1 mu ->
    (forall m, k2 m = k' k1 mu x m) -> Refines (S s) k k2.

Lemma sorted_ext (k1 k2 : nat -> R) : (forall m, k2 m = k1 m) -> sorted k1 -> sorted k2.
Proof. intros E H i j Hij. rewrite !E. apply H, Hij. Qed.

Lemma Refines_sorted s k k2 : Refines s k k2 -> sorted k -> sorted k2.
Proof.
  induction 1 as [k k2 E|s k k1 k2 mu x R IH Hmu H1 H2 E]; intros Hk.
  - apply (sorted_ext k); assumption.
  - apply (sorted_ext (k' k1 mu x)); [exact E|]. apply k'_sorted; auto.
Qed.

Lemma B_ext_all side (k1 k2 : nat -> R) q i t : (forall m, k2 m = k1 m) -> B side k2 q i t = B side k1 q i t.
Proof. intros E. apply B_ext_shift. intros m _. apply E. Qed.

Theorem refine_span s k k2 : Refines s k k2 -> sorted k -> forall q i,
  exists c : nat -> R, forall side t, B side k q i t = sumf (fun j => c j * B side k2 q j t) i (S s).
Proof.
  induction 1 as [k k2 E|s k k1 k2 mu x R IH Hmu H1 H2 E]; intros Hk q i.
  - exists (fun _ => 1). intros side t. cbn [sumf]. rewrite (B_ext_all side k k2 q i t E). ring.
  - destruct (IH Hk q i) as [c Hc].
    pose proof (Refines_sorted s k k1 R Hk) as Hk1.
    set (al := alpha k1 mu x q).
    exists (fun j => (if (j <=? i + s)%nat then c j * al j else 0) + (if (i + 1 <=? j)%nat then c (j - 1)%nat * (1 - al j) else 0)).
    intros side t. rewrite (Hc side t).
    set (B2 := fun j => B side k2 q j t).
    assert (EB : forall j, B side k1 q j t = al j * B2 j + (1 - al (j + 1)%nat) * B2 (j + 1)%nat).
    { intros j. unfold B2. rewrite !(B_ext_all side (k' k1 mu x) k2 q _ t E). apply (boehm side k1 Hk1 mu x Hmu H1 H2 q j t). }
    rewrite (sumf_ext _ (fun j => c j * al j * B2 j + c j * (1 - al (j+1)%nat) * B2 (j+1)%nat) i (S s)).
    2:{ intros j _. rewrite EB. ring. }
    rewrite sumf_plus.
    rewrite (sumf_ext (fun j => ((if (j <=? i + s)%nat then c j * al j else 0) + (if (i + 1 <=? j)%nat then c (j - 1)%nat * (1 - al j) else 0)) * B side k2 q j t)
                      (fun j => (if (j <=? i + s)%nat then c j * al j else 0) * B2 j + (if (i + 1 <=? j)%nat then c (j - 1)%nat * (1 - al j) else 0) * B2 j) i (S (S s))).
    2:{ intros j _. unfold B2. ring. }
    rewrite sumf_plus. f_equal.
    + rewrite (sumf_snoc _ i (S s)).
      destruct (Nat.leb_spec (i + S s) (i + s)) as [X|_]; [lia|]. rewrite Rmult_0_l, Rplus_0_r.
      apply sumf_ext. intros j Hj. destruct (Nat.leb_spec j (i + s)); [reflexivity|lia].
    + rewrite (sumf_S _ i (S s)).
      destruct (Nat.leb_spec (i + 1) i) as [X|_]; [lia|]. rewrite Rmult_0_l, Rplus_0_l.
      rewrite <- (sumf_shift (fun j => (if (i + 1 <=? j)%nat then c (j - 1)%nat * (1 - al j) else 0) * B2 j) i (S s)).
      apply sumf_ext. intros j Hj. destruct (Nat.leb_spec (i + 1) (S j)); [|lia].
      replace (S j - 1)%nat with j by lia. replace (j + 1)%nat with (S j) by lia. reflexivity.
Qed.

(* transitivity is not needed; a finite-choice principle over an index range is *)
Lemma fin_choice {A} (P : nat -> A -> Prop) (d : A) a n :
  (forall j, (a <= j < a + n)%nat -> exists x, P j x) -> exists f : nat -> A, forall j, (a <= j < a + n)%nat -> P j (f j).
Proof.
  induction n as [|n IH]; intros H.
  - exists (fun _ => d). intros j Hj. lia.
  - destruct IH as [f Hf]. { intros j Hj. apply H. lia. }
    destruct (H (a + n)%nat ltac:(lia)) as [x Hx].
    exists (fun j => if (j =? a + n)%nat then x else f j). intros j Hj.
    destruct (Nat.eqb_spec j (a + n)) as [->|N]; [exact Hx|apply Hf; lia].
Qed.

Lemma sumf_swap (h : nat -> nat -> R) a m b n :
  sumf (fun j => sumf (fun r => h j r) b n) a m = sumf (fun r => sumf (fun j => h j r) a m) b n.
Proof.
  revert a. induction m as [|m IH]; intros a.
  - cbn [sumf]. symmetry. apply sumf_zero. reflexivity.
  - cbn [sumf]. rewrite IH. rewrite <- sumf_plus. reflexivity.
Qed.

(* degree elevation + refinement: if every one-knot duplication of k refines (in s steps) to K2, then every
   degree-q B-spline over k is a combination of s+1 degree-(q+1) B-splines over K2 *)
Theorem elevate_span k K2 s q i : sorted k ->
  (forall j, (i <= j < i + (q + 2))%nat -> Refines s (dup j k) K2) ->
  exists c : nat -> R, forall side t, B side k q i t = sumf (fun r => c r * B side K2 (S q) r t) i (S s).
Proof.
  intros Hk HR.
  destruct (fin_choice (fun j (c : nat -> R) => forall side t, B side (dup j k) (S q) i t = sumf (fun r => c r * B side K2 (S q) r t) i (S s))
              (fun _ => 0) i (q + 2)) as [cc Hcc].
  { intros j Hj. apply (refine_span s (dup j k) K2 (HR j Hj) (dup_sorted j k Hk) (S q) i). }
  exists (fun r => / INR (q + 1) * sumf (fun j => cc j r) i (q + 2)).
  intros side t.
  assert (Hq : INR (q + 1) <> 0) by (apply not_0_INR; lia).
  apply (Rmult_eq_reg_l (INR (q + 1))); [|exact Hq].
  rewrite (prautzsch side q k Hk i t).
  rewrite (sumf_ext _ (fun j => sumf (fun r => cc j r * B side K2 (S q) r t) i (S s)) i (q + 2)).
  2:{ intros j Hj. apply Hcc. exact Hj. }
  rewrite <- sumf_scal.
  rewrite (sumf_ext (fun r => INR (q + 1) * (/ INR (q + 1) * sumf (fun j => cc j r) i (q + 2) * B side K2 (S q) r t))
                    (fun r => sumf (fun j => cc j r * B side K2 (S q) r t) i (q + 2)) i (S s)).
  2:{ intros r _. rewrite <- Rmult_assoc, <- Rmult_assoc, Rinv_r by exact Hq. rewrite Rmult_1_l.
      rewrite Rmult_comm, <- sumf_scal. apply sumf_ext. intros j _. ring. }
  apply sumf_swap.
Qed.
