(* Inside an open knot span the derivative recurrence is the derivative (Coquelicot):
   is_derive (B q i) t (dB 1 q i t).  Ported from the planning notes (appendix A.8). *)
From Coq Require Import List Arith Reals Lra Lia Bool.
From Coquelicot Require Import Coquelicot.
From SplipyModel Require Import Spec.BSpline Spec.Deriv.
Open Scope R_scope.

Section D.
Variable k : nat -> R.
Hypothesis Hk : sorted k.

(* the derivative recurrence; x / 0 = 0 in Coq, so vanishing denominators drop their term *)
Definition D (q i : nat) (t : R) : R :=
  match q with
  | O => 0
  | S r => INR (S r) * (B true k r i t / (k (i + r + 1)%nat - k i) - B true k r (i+1) t / (k (i + r + 2)%nat - k (i+1)%nat))
  end.

Lemma div0 x : x / 0 = 0.
Proof. unfold Rdiv. rewrite Rinv_0. ring. Qed.

(* purely algebraic core of the derivative formula *)
Lemma deriv_alg q i t :
  w (k i) (k (i + q + 1)%nat) t * D q i t + (1 - w (k (i+1)%nat) (k (i + q + 2)%nat) t) * D q (i+1) t
  = INR q * (B true k q i t / (k (i + q + 1)%nat - k i) - B true k q (i+1) t / (k (i + q + 2)%nat - k (i+1)%nat)).
Proof.
  destruct q as [|r]; [cbn [D INR]; ring|].
  cbn [D]. cbn [B].
  replace (i + 1 + r + 1)%nat with (i + r + 2)%nat by lia.
  replace (i + 1 + r + 2)%nat with (i + r + 3)%nat by lia.
  replace (i + 1 + 1)%nat with (i + 2)%nat by lia.
  replace (i + S r + 1)%nat with (i + r + 2)%nat by lia.
  replace (i + S r + 2)%nat with (i + r + 3)%nat by lia.
  set (a0 := k i). set (a1 := k (i+1)%nat). set (a2 := k (i+2)%nat).
  set (e1 := k (i+r+1)%nat). set (e2 := k (i+r+2)%nat). set (e3 := k (i+r+3)%nat).
  set (b0 := B true k r i t). set (b1 := B true k r (i+1) t). set (b2 := B true k r (i+2) t).
  assert (S01 : a0 <= a1) by (apply Hk; lia). assert (S12 : a1 <= a2) by (apply Hk; lia).
  assert (E12 : e1 <= e2) by (apply Hk; lia). assert (E23 : e2 <= e3) by (apply Hk; lia).
  assert (A0E1 : a0 <= e1) by (apply Hk; lia). assert (A1E2 : a1 <= e2) by (apply Hk; lia).
  assert (A2E3 : a2 <= e3) by (apply Hk; lia).
  assert (Z0 : e1 <= a0 -> b0 = 0) by (intros; apply (B_empty true k Hk); auto).
  assert (Z1 : e2 <= a1 -> b1 = 0).
  { intros; apply (B_empty true k Hk); auto. replace (i+1+r+1)%nat with (i+r+2)%nat by lia. auto. }
  assert (Z2 : e3 <= a2 -> b2 = 0).
  { intros; apply (B_empty true k Hk); auto. replace (i+2+r+1)%nat with (i+r+3)%nat by lia. auto. }
  assert (N : INR (S r) <> 0) by (apply not_0_INR; lia).
  assert (A1E1 : a1 <= e1) by (apply Hk; lia). assert (A2E2 : a2 <= e2) by (apply Hk; lia).
  assert (D0 : forall y, 0 / y = 0) by (intros; unfold Rdiv; ring).
  Ltac wsimp t := repeat match goal with
    | |- context[w ?a ?b t] => first [rewrite (w_lt a b t) by lra | rewrite (w_ge a b t) by lra] end.
  destruct (Rlt_dec a0 e1) as [L0|L0]; [|rewrite (Z0 ltac:(lra))];
  (destruct (Rlt_dec a1 e2) as [L1|L1]; [|rewrite (Z1 ltac:(lra))]);
  (destruct (Rlt_dec a2 e3) as [L2|L2]; [|rewrite (Z2 ltac:(lra))]);
  wsimp t;
  do 4 rewrite ?D0, ?Rmult_0_r, ?Rmult_0_l, ?Rplus_0_r, ?Rplus_0_l, ?Rminus_0_r;
  field; repeat split; lra.
Qed.

(* ---- analysis: inside an open knot span the recurrence D is the derivative of B ---- *)
Variables (m : nat) (t : R).
Hypothesis Hspan : k m < t < k (S m).

Lemma span_locally (P : R -> Prop) :
  (forall s, k m < s < k (S m) -> P s) -> locally t P.
Proof.
  intros H.
  assert (He : 0 < Rmin (t - k m) (k (S m) - t)) by (apply Rmin_pos; lra).
  exists (mkposreal _ He). intros s Hs. apply H.
  unfold ball in Hs; cbn in Hs. unfold AbsRing_ball, abs, minus, plus, opp in Hs; cbn in Hs.
  pose proof (Rmin_l (t - k m) (k (S m) - t)). pose proof (Rmin_r (t - k m) (k (S m) - t)).
  apply Rabs_lt_between in Hs. lra.
Qed.

Lemma B0_const i s : k m < s < k (S m) -> B true k 0 i s = if Nat.eqb i m then 1 else 0.
Proof.
  intros Hs. cbn [B]. destruct (Nat.eqb_spec i m) as [->|N].
  - unfold B0. destruct (Rleb_spec (k m) s), (Rltb_spec s (k (S m))); cbn; try lra; reflexivity.
  - unfold B0. destruct (Rleb_spec (k i) s), (Rltb_spec s (k (S i))); cbn; try reflexivity.
    exfalso. destruct (Nat.lt_ge_cases i m).
    + pose proof (Hk (S i) m ltac:(lia)). lra.
    + pose proof (Hk (S m) i ltac:(lia)). lra.
Qed.

Lemma w_derive a b : a <= b -> is_derive (fun s => w a b s) t (/ (b - a)).
Proof.
  intros Hab. destruct (Rlt_dec a b) as [L|L].
  - apply (is_derive_ext (fun s => (s - a) / (b - a))).
    { intros s. now rewrite w_lt. }
    auto_derive; [exact I|]. field. lra.
  - replace (b - a) with 0 by lra. rewrite Rinv_0.
    apply (is_derive_ext (fun _ => 0)). { intros s. now rewrite w_ge by lra. }
    apply @is_derive_const.
Qed.

Theorem B_derive q : forall i, is_derive (fun s => B true k q i s) t (D q i t).
Proof.
  induction q as [|q IH]; intros i.
  - apply (is_derive_ext_loc (fun _ => if Nat.eqb i m then 1 else 0)).
    { apply span_locally. intros s Hs. symmetry. now apply B0_const. }
    cbn [D]. apply @is_derive_const.
  - cbn [B].
    assert (H1 : k i <= k (i + q + 1)%nat) by (apply Hk; lia).
    assert (H2 : k (i+1)%nat <= k (i + q + 2)%nat) by (apply Hk; lia).
    pose proof (w_derive _ _ H1) as W1. pose proof (w_derive _ _ H2) as W2.
    pose proof (IH i) as I1. pose proof (IH (i+1)%nat) as I2.
    pose proof (is_derive_mult (fun s => w (k i) (k (i + q + 1)%nat) s) (fun s => B true k q i s) t _ _ W1 I1 Rmult_comm) as M1.
    pose proof (is_derive_minus (fun _ => 1) (fun s => w (k (i+1)%nat) (k (i + q + 2)%nat) s) t _ _
                  (is_derive_const 1 t) W2) as Wm.
    pose proof (is_derive_mult (fun s => minus 1 (w (k (i+1)%nat) (k (i + q + 2)%nat) s)) (fun s => B true k q (i+1) s) t _ _ Wm I2 Rmult_comm) as M2.
    pose proof (is_derive_plus _ _ t _ _ M1 M2) as P.
    match type of P with is_derive _ _ ?d =>
      replace (D (S q) i t) with d; [exact P|] end.
    pose proof (deriv_alg q i t) as A.
    cbn [D]. rewrite S_INR.
    unfold plus, mult, minus, opp, zero; cbn -[INR B w D].
    unfold Rdiv in *. nra.
Qed.
End D.


Lemma D_eq_dB k (Hk : sorted k) q i t : D k q i t = dB true k 1 q i t.
Proof.
  destruct q as [|r]; [reflexivity|]. cbn [D dB]. unfold dqR.
  replace (i + r + 1)%nat with (i + S r)%nat by lia. replace (i + r + 2)%nat with (i + S r + 1)%nat by lia.
  pose proof (Hk i (i + S r)%nat ltac:(lia)). pose proof (Hk (i+1)%nat (i + S r + 1)%nat ltac:(lia)).
  assert (D0 : forall x, x / 0 = 0) by (intros; unfold Rdiv; rewrite Rinv_0; ring).
  destruct (Rltb_spec (k i) (k (i + S r)%nat)) as [A|A]; destruct (Rltb_spec (k (i+1)%nat) (k (i + S r + 1)%nat)) as [C|C];
  try reflexivity.
  - replace (k (i + S r + 1)%nat - k (i+1)%nat) with 0 by lra. rewrite D0. reflexivity.
  - replace (k (i + S r)%nat - k i) with 0 by lra. rewrite D0. reflexivity.
  - replace (k (i + S r + 1)%nat - k (i+1)%nat) with 0 by lra. replace (k (i + S r)%nat - k i) with 0 by lra. rewrite !D0. reflexivity.
Qed.

(* C01.5 / C03.6 (first order): inside an open knot span, the first-derivative recurrence is the derivative *)
Theorem dB1_is_derivative k (Hk : sorted k) m t q i : k m < t < k (S m) ->
  is_derive (fun s => B true k q i s) t (dB true k 1 q i t).
Proof. intros H. rewrite <- D_eq_dB by exact Hk. apply (B_derive k Hk m t H). Qed.

Lemma dqR_derive a b (f : R -> R) t f' : is_derive f t f' -> is_derive (fun s => dqR a b (f s)) t (dqR a b f').
Proof.
  intros Hf. unfold dqR. destruct (Rltb a b).
  - cbv iota. apply (is_derive_ext (fun s => / (b - a) * f s)).
    { intros s. unfold Rdiv. apply Rmult_comm. }
    replace (f' / (b - a)) with (/ (b - a) * f') by (unfold Rdiv; apply Rmult_comm).
    apply is_derive_scal. exact Hf.
  - cbv iota. apply @is_derive_const.
Qed.

(* every order: the (r+1)-st recurrence is the derivative of the r-th *)
Theorem dB_is_derivative k (Hk : sorted k) m t : k m < t < k (S m) ->
  forall r q i, is_derive (fun s => dB true k r q i s) t (dB true k (S r) q i t).
Proof.
  intros H. induction r as [|r IH]; intros q i.
  - apply (dB1_is_derivative k Hk m t q i H).
  - destruct q as [|q].
    + cbn [dB]. apply @is_derive_const.
    + change (dB true k (S (S r)) (S q) i t) with
        (INR (S q) * (dqR (k i) (k (i + S q)%nat) (dB true k (S r) q i t)
                      - dqR (k (i+1)%nat) (k (i + S q + 1)%nat) (dB true k (S r) q (i+1) t))).
      apply (is_derive_ext (fun s => INR (S q) *
               (minus (dqR (k i) (k (i + S q)%nat) (dB true k r q i s))
                      (dqR (k (i+1)%nat) (k (i + S q + 1)%nat) (dB true k r q (i+1) s))))).
      { intros s. reflexivity. }
      apply is_derive_scal.
      apply @is_derive_minus; apply dqR_derive; apply IH.
Qed.
