(* C17 — Multipatch model: orientations between matching objects.
   Model: Model/Orient.v (Orientation: __mul__, map_section, view_section, ifem_format, the index map of map_array,
   compute as the first matching signed permutation in itertools order). The catalogue (node identification, neighbours,
   boundary) is checked at the implementation level only. *)
From Coq Require Import List Arith Lia Bool ZArith QArith.
From SplipyModel Require Import Model.Num Model.BasisDef Model.Tensor Model.Obj Model.Orient Proofs.OrientProofs Extract.Exec.
Import ListNotations.
Open Scope nat_scope.

(* 1. orientations compose associatively and the identity is a unit (any parametric dimension) *)
Theorem C17_compose_assoc n l m r : wf_orient n l -> wf_orient n m -> wf_orient n r ->
  ocompose (ocompose l m) r = ocompose l (ocompose m r).
Proof. exact (ocompose_assoc n l m r). Qed.
Print Assumptions C17_compose_assoc.
Theorem C17_compose_ident n o : wf_orient n o -> ocompose (oident n) o = o /\ ocompose o (oident n) = o.
Proof. intros H. split; [exact (ocompose_ident_l n o H)|exact (ocompose_ident_r n o H)]. Qed.
Print Assumptions C17_compose_ident.
Theorem C17_compose_wf n l r : wf_orient n l -> wf_orient n r -> wf_orient n (ocompose l r).
Proof. exact (ocompose_wf n l r). Qed.
Print Assumptions C17_compose_wf.

(* 2. for curves, surfaces and volumes the orientations are exactly the 2, 8, 48 signed permutations, closed under
      composition and each with a two-sided inverse *)
Theorem C17_orientation_group n : n <= 3 ->
  length (all_orients n) = Nat.pow 2 n * fact n /\
  forallb (fun l => forallb (fun r => existsb (orient_eqb (ocompose l r)) (all_orients n)) (all_orients n)) (all_orients n) = true /\
  forallb (fun l => existsb (fun r => orient_eqb (ocompose l r) (oident n) && orient_eqb (ocompose r l) (oident n)) (all_orients n)) (all_orients n) = true.
Proof. exact (orientation_group_small n). Qed.
Print Assumptions C17_orientation_group.

(* 3. sections and arrays are mapped compatibly with composition *)
Theorem C17_map_section_compose n l r s : wf_orient n l -> wf_orient n r -> length s = n ->
  omap_section (ocompose l r) s = omap_section l (omap_section r s).
Proof. exact (omap_section_compose n l r s). Qed.
Print Assumptions C17_map_section_compose.
Theorem C17_map_array_compose n l r shape idx s1 s2 : wf_orient n l -> wf_orient n r ->
  (forall d, d < n -> nth d idx 0 < nth d (oshape l (oshape r shape)) 0) ->
  is_src l (oshape r shape) idx s1 -> is_src r shape s1 s2 -> is_src (ocompose l r) shape idx s2.
Proof. exact (is_src_compose n l r shape idx s1 s2). Qed.
Print Assumptions C17_map_array_compose.

(* 4. compute: a returned orientation maps the control net of b onto that of a within the configured tolerances,
      with equal shapes and matching bases; None means that no signed permutation does *)
Theorem C17_compute_sound (atol rtol ktol : Q) (a b : obj Q) o : q_orient_compute atol rtol ktol a b = Some o ->
  let rat := o_rat a || o_rat b in
  let ca := @norm_weights Q NumQ rat (if o_rat a then o_cps a else if rat then map (fun v => v ++ [1%Q]) (o_cps a) else o_cps a) in
  let cb := @norm_weights Q NumQ rat (if o_rat b then o_cps b else if rat then map (fun v => v ++ [1%Q]) (o_cps b) else o_cps b) in
  list_eq_dec_b (oshape o (o_shape b)) (o_shape a) = true /\
  @nets_close Q NumQ atol rtol ca (@omap_net Q o (o_shape b) cb) = true /\
  forall i, i < length (o_bases a) ->
    @basis_matches Q NumQ ktol (nth i (o_bases a) (mkBasis 0 [] 0)) (nth (nth i (o_perm o) 0) (o_bases b) (mkBasis 0 [] 0)) (nth i (o_flip o) false) = true.
Proof. exact (@orient_compute_sound Q NumQ atol rtol ktol a b o). Qed.
Print Assumptions C17_compute_sound.

(* 5. completeness of the search (any pardim): compute answers None only if NO signed permutation of the directions
      passes its test (shapes, control nets within the tolerances, matching bases): non-matching objects are
      reported as such and matching ones are never missed, whatever the orientation of the copy *)
Theorem C17_compute_complete (atol rtol ktol : Q) (a b : obj Q) :
  q_orient_compute atol rtol ktol a b = None ->
  length (o_bases a) = length (o_bases b) -> o_dim a = o_dim b ->
  forall o, signed_perm (length (o_bases a)) o ->
    (let rat := o_rat a || o_rat b in
     let ca := @norm_weights Q NumQ rat (if o_rat a then o_cps a else if rat then map (fun v => v ++ [1%Q]) (o_cps a) else o_cps a) in
     let cb := @norm_weights Q NumQ rat (if o_rat b then o_cps b else if rat then map (fun v => v ++ [1%Q]) (o_cps b) else o_cps b) in
     list_eq_dec_b (oshape o (o_shape b)) (o_shape a) &&
     @nets_close Q NumQ atol rtol ca (@omap_net Q o (o_shape b) cb) &&
     forallb (fun i => @basis_matches Q NumQ ktol (nth i (o_bases a) (mkBasis 0 [] 0)) (nth (nth i (o_perm o) 0) (o_bases b) (mkBasis 0 [] 0)) (nth i (o_flip o) false))
             (seq 0 (length (o_bases a)))) = false.
Proof. exact (@orient_compute_complete Q NumQ atol rtol ktol a b). Qed.
Print Assumptions C17_compute_complete.

(* the enumeration itself: every duplicate-free arrangement of 0..n-1 and every sign vector is a candidate *)
Theorem C17_all_signed_permutations_enumerated n o : signed_perm n o ->
  In o (flat_map (fun p => map (fun f => mkOrient p f) (@flips n)) (@perms_fuel n (seq 0 n))).
Proof. exact (all_candidates n o). Qed.
Print Assumptions C17_all_signed_permutations_enumerated.

(* non-vacuity: a 2 x 3 net against its transposed-and-reversed copy *)
Example C17_example :
  let bu := q_mkBasis 2 [0; 0; 1; 1]%Q 0 in
  let bv := q_mkBasis 2 [0; 0; 1; 2; 2]%Q 0 in
  let a := q_mkObj [bu; bv] [[0;0]; [0;1]; [0;2]; [1;0]; [1;1]; [1;3]]%Q 2 false in
  let b := q_mkObj [q_mkBasis 2 [0; 0; 1; 2; 2]%Q 0; bu] [[0;2]; [1;3]; [0;1]; [1;1]; [0;0]; [1;0]]%Q 2 false in
  q_orient_compute (1#100000000) 0 (1#10000000000) a b = Some (mkOrient [1; 0] [false; true]).
Proof. vm_compute. reflexivity. Qed.

(* ------------------------------------------------------------------------------------------------------
   Added in build session 4 (statements re-stated from the proof files by harness tooling; each is closed by
   exact). *)
From Coquelicot Require Import Coquelicot.
From SplipyModel Require Import Model.Catalogue Proofs.CatalogueProofs Model.Orient Model.Handed Proofs.HandedProofs Model.Matches Proofs.MatchesProofs.
Theorem C17_add_idempotent :
  forall (c : catalogue) (p : patch), valid_patch p -> cat_add (cat_add c p) p = cat_add c p.
Proof. exact @add_idempotent. Qed.
Print Assumptions C17_add_idempotent.

Theorem C17_lookup_after_add :
  forall (c : catalogue) (p : patch) (s : list (option bool)),
         valid_patch p ->
         length s = p_dim p ->
         exists n : node,
           cat_lookup (cat_add c p) {| p_dim := nfree s; p_corners := sec s (p_corners p) |} = Some n /\
           n_key n = pkey (nfree s) (sec s (p_corners p)) /\ In n (cat_add c p).
Proof. exact @lookup_after_add. Qed.
Print Assumptions C17_lookup_after_add.

Theorem C17_nodes_are_cells :
  forall ps : list patch,
         List.Forall valid_patch ps ->
         let c := cat_add_all cat_empty ps in
         NoDup (cat_keys c) /\
         (forall k : key, In k (cat_keys c) <-> In k (flat_map all_subkeys ps)) /\
         (forall d : nat,
          length (cat_nodes c d) =
          length (nodup key_dec (filter (fun k : key => fst k =? d) (flat_map all_subkeys ps)))).
Proof. exact @nodes_are_cells. Qed.
Print Assumptions C17_nodes_are_cells.

Theorem C17_order_independent :
  forall ps ps' : list patch,
         Permutation.Permutation ps ps' ->
         List.Forall valid_patch ps ->
         let c := cat_add_all cat_empty ps in
         let c' := cat_add_all cat_empty ps' in
         (forall k : key, In k (cat_keys c) <-> In k (cat_keys c')) /\
         Permutation.Permutation (cat_keys c) (cat_keys c') /\
         (forall d : nat, length (cat_nodes c d) = length (cat_nodes c' d)).
Proof. exact @order_independent. Qed.
Print Assumptions C17_order_independent.

Theorem C17_orientation_independent :
  forall (c : catalogue) (p : patch) (o : orient),
         valid_patch p ->
         signed_perm (p_dim p) o ->
         (forall k : key, In k (all_subkeys (preorient o p)) <-> In k (all_subkeys p)) /\
         (forall k : key, In k (cat_keys (cat_add c (preorient o p))) <-> In k (cat_keys (cat_add c p))).
Proof. exact @orientation_independent. Qed.
Print Assumptions C17_orientation_independent.

Theorem C17_reoriented_copy_known :
  forall (c : catalogue) (p : patch) (o : orient),
         valid_patch p ->
         signed_perm (p_dim p) o ->
         (forall k : key, is_sub (p_dim p) (p_corners p) k -> In k (cat_keys c)) ->
         cat_add c (preorient o p) = c /\
         (exists n : node,
            cat_lookup c (preorient o p) = Some n /\ cat_lookup c p = Some n /\ n_key n = patch_key p /\ In n c).
Proof. exact @reoriented_copy_known. Qed.
Print Assumptions C17_reoriented_copy_known.

Theorem C17_order_orientation_independent :
  forall ps qs ps' : list patch,
         List.Forall valid_patch ps ->
         Forall2 reoriented ps qs ->
         Permutation.Permutation qs ps' ->
         let c := cat_add_all cat_empty ps in
         let c' := cat_add_all cat_empty ps' in
         (forall k : key, In k (cat_keys c) <-> In k (cat_keys c')) /\
         Permutation.Permutation (cat_keys c) (cat_keys c') /\
         (forall d : nat, length (cat_nodes c d) = length (cat_nodes c' d)).
Proof. exact @order_orientation_independent. Qed.
Print Assumptions C17_order_orientation_independent.

Theorem C17_graph_invariants :
  forall ps : list patch,
         List.Forall valid_patch ps -> let c := cat_add_all cat_empty ps in graph_ok c /\ prov (from_patches ps) c.
Proof. exact @graph_invariants. Qed.
Print Assumptions C17_graph_invariants.

Theorem C17_higher_neighbours :
  forall (ps : list patch) (D : nat),
         List.Forall valid_patch ps ->
         (forall p : patch, In p ps -> p_dim p = S D) ->
         same_faces ps ->
         forall n : node,
         In n (cat_add_all cat_empty ps) ->
         fst (n_key n) = D ->
         forall h : key,
         In h (n_higher n) <-> (exists p : patch, In p ps /\ h = patch_key p /\ In (n_key n) (face_keys p)).
Proof. exact @higher_neighbours. Qed.
Print Assumptions C17_higher_neighbours.

Theorem C17_boundary_spec :
  forall (ps : list patch) (D : nat),
         List.Forall valid_patch ps ->
         (forall p : patch, In p ps -> p_dim p = S D) ->
         same_faces ps ->
         (forall p : patch, In p ps -> NoDup (face_keys p)) ->
         forall n : node,
         In n (cat_boundary (cat_add_all cat_empty ps) (S D)) <->
         In n (cat_add_all cat_empty ps) /\
         fst (n_key n) = D /\
         (exists p : patch,
            In p ps /\
            In (n_key n) (face_keys p) /\
            (forall q : patch, In q ps -> In (n_key n) (face_keys q) -> patch_key q = patch_key p)).
Proof. exact @boundary_spec. Qed.
Print Assumptions C17_boundary_spec.

Theorem C17_lattice2_counts :
  forall nx ny : nat,
         1 <= nx ->
         1 <= ny ->
         let c := cat_add_all cat_empty (lattice2 nx ny) in
         length (cat_nodes c 0) = (nx + 1) * (ny + 1) /\
         length (cat_nodes c 1) = nx * (ny + 1) + (nx + 1) * ny /\ length (cat_nodes c 2) = nx * ny.
Proof. exact @lattice2_counts. Qed.
Print Assumptions C17_lattice2_counts.

Theorem C17_lattice3_counts :
  forall nx ny nz : nat,
         1 <= nx ->
         1 <= ny ->
         1 <= nz ->
         let c := cat_add_all cat_empty (lattice3 nx ny nz) in
         length (cat_nodes c 0) = (nx + 1) * (ny + 1) * (nz + 1) /\
         length (cat_nodes c 1) = (nx + 1) * (ny + 1) * nz + (nx + 1) * ny * (nz + 1) + nx * (ny + 1) * (nz + 1) /\
         length (cat_nodes c 2) = (nx + 1) * ny * nz + nx * (ny + 1) * nz + nx * ny * (nz + 1) /\
         length (cat_nodes c 3) = nx * ny * nz.
Proof. exact @lattice3_counts. Qed.
Print Assumptions C17_lattice3_counts.

Theorem C17_triple3_oapply :
  forall (o : orient) (du dv dw : list Rdefinitions.RbaseSymbolsImpl.R),
         In o A3 ->
         let ds := oapply o [du; dv; dw] in
         triple3 (nth 0 ds []) (nth 1 ds []) (nth 2 ds []) =
         Rdefinitions.RbaseSymbolsImpl.Rmult (osign o) (triple3 du dv dw).
Proof. exact @triple3_oapply. Qed.
Print Assumptions C17_triple3_oapply.

Theorem C17_cross2_oapply :
  forall (o : orient) (du dv : list Rdefinitions.RbaseSymbolsImpl.R),
         In o A2 ->
         let ds := oapply o [du; dv] in
         cross2 (nth 0 ds []) (nth 1 ds []) = Rdefinitions.RbaseSymbolsImpl.Rmult (osign o) (cross2 du dv).
Proof. exact @cross2_oapply. Qed.
Print Assumptions C17_cross2_oapply.

Theorem C17_oparity_compose :
  forall (n : nat) (a b : orient),
         n = 2 \/ n = 3 ->
         signed_perm n a ->
         signed_perm n b -> signed_perm n (ocompose a b) /\ oparity (ocompose a b) = xorb (oparity a) (oparity b).
Proof. exact @oparity_compose. Qed.
Print Assumptions C17_oparity_compose.

Theorem C17_oapply_compose :
  forall (n : nat) (l r : orient) (ds : list (list Rdefinitions.RbaseSymbolsImpl.R)),
         wf_orient n l -> wf_orient n r -> oapply (ocompose l r) ds = oapply l (oapply r ds).
Proof. exact @oapply_compose. Qed.
Print Assumptions C17_oapply_compose.

Theorem C17_steps_orient_parity3 :
  forall w : list rstep,
         List.Forall (valid_step 3) w -> In (steps_orient 3 w) A3 /\ oparity (steps_orient 3 w) = Nat.odd (length w).
Proof. exact @steps_orient_parity3. Qed.
Print Assumptions C17_steps_orient_parity3.

Theorem C17_steps_apply_oapply3 :
  forall w : list rstep,
         List.Forall (valid_step 3) w ->
         forall ds : list (list Rdefinitions.RbaseSymbolsImpl.R),
         length ds = 3 -> steps_apply w ds = oapply (steps_orient 3 w) ds.
Proof. exact @steps_apply_oapply3. Qed.
Print Assumptions C17_steps_apply_oapply3.

Theorem C17_reorient_steps_apply3 :
  forall (o : orient) (du dv dw : list Rdefinitions.RbaseSymbolsImpl.R),
         In o A3 ->
         steps_apply (reorient_steps o) [du; dv; dw] = oapply o [du; dv; dw] /\
         oparity o = Nat.odd (length (reorient_steps o)).
Proof. exact @reorient_steps_apply3. Qed.
Print Assumptions C17_reorient_steps_apply3.

Theorem C17_rh_value3_eq :
  forall du dv dw : list Rdefinitions.RbaseSymbolsImpl.R,
         Rdefinitions.RbaseSymbolsImpl.Rlt (Rdefinitions.IZR 0) (dot3 du du) ->
         Rdefinitions.RbaseSymbolsImpl.Rlt (Rdefinitions.IZR 0) (dot3 dv dv) ->
         Rdefinitions.RbaseSymbolsImpl.Rlt (Rdefinitions.IZR 0) (dot3 dw dw) ->
         rh_value3 du dv dw =
         Rdefinitions.Rdiv (triple3 du dv dw)
           (Rdefinitions.RbaseSymbolsImpl.Rmult (Rdefinitions.RbaseSymbolsImpl.Rmult (norm3 du) (norm3 dv)) (norm3 dw)).
Proof. exact @rh_value3_eq. Qed.
Print Assumptions C17_rh_value3_eq.

Theorem C17_rh_value3_bound :
  forall du dv dw : list Rdefinitions.RbaseSymbolsImpl.R,
         Rdefinitions.RbaseSymbolsImpl.Rlt (Rdefinitions.IZR 0) (dot3 du du) ->
         Rdefinitions.RbaseSymbolsImpl.Rlt (Rdefinitions.IZR 0) (dot3 dv dv) ->
         Rdefinitions.RbaseSymbolsImpl.Rlt (Rdefinitions.IZR 0) (dot3 dw dw) ->
         Rdefinitions.Rle (Rdefinitions.IZR (-1)) (rh_value3 du dv dw) /\
         Rdefinitions.Rle (rh_value3 du dv dw) (Rdefinitions.IZR 1).
Proof. exact @rh_value3_bound. Qed.
Print Assumptions C17_rh_value3_bound.

Theorem C17_right_hand3_spec :
  forall (tol : Rdefinitions.RbaseSymbolsImpl.R) (du dv dw : list Rdefinitions.RbaseSymbolsImpl.R),
         Rdefinitions.RbaseSymbolsImpl.Rlt (Rdefinitions.IZR 0) (dot3 du du) ->
         Rdefinitions.RbaseSymbolsImpl.Rlt (Rdefinitions.IZR 0) (dot3 dv dv) ->
         Rdefinitions.RbaseSymbolsImpl.Rlt (Rdefinitions.IZR 0) (dot3 dw dw) ->
         right_hand3 tol du dv dw = true <-> Rdefinitions.Rle tol (rh_value3 du dv dw).
Proof. exact @right_hand3_spec. Qed.
Print Assumptions C17_right_hand3_spec.

Theorem C17_right_hand2_spec :
  forall (tol : Rdefinitions.RbaseSymbolsImpl.R) (du dv : list Rdefinitions.RbaseSymbolsImpl.R),
         Rdefinitions.RbaseSymbolsImpl.Rlt (Rdefinitions.IZR 0) (dot2 du du) ->
         Rdefinitions.RbaseSymbolsImpl.Rlt (Rdefinitions.IZR 0) (dot2 dv dv) ->
         right_hand2 tol du dv = true <-> Rdefinitions.Rle tol (rh_value2 du dv).
Proof. exact @right_hand2_spec. Qed.
Print Assumptions C17_right_hand2_spec.

Theorem C17_reoriented_handedness3 :
  forall (tol : Rdefinitions.RbaseSymbolsImpl.R) (o : orient) (du dv dw : list Rdefinitions.RbaseSymbolsImpl.R),
         Rdefinitions.RbaseSymbolsImpl.Rlt (Rdefinitions.IZR 0) tol ->
         signed_perm 3 o ->
         Rdefinitions.Rle tol (rh_value3 du dv dw) ->
         let ds := oapply o [du; dv; dw] in
         let val' := rh_value3 (nth 0 ds []) (nth 1 ds []) (nth 2 ds []) in
         (oparity o = false -> val' = rh_value3 du dv dw /\ Rdefinitions.Rle tol val') /\
         (oparity o = true ->
          val' = Rdefinitions.RbaseSymbolsImpl.Ropp (rh_value3 du dv dw) /\
          Rdefinitions.Rle val' (Rdefinitions.RbaseSymbolsImpl.Ropp tol) /\ ~ Rdefinitions.Rle tol val').
Proof. exact @reoriented_handedness3. Qed.
Print Assumptions C17_reoriented_handedness3.

Theorem C17_reoriented_handedness2 :
  forall (tol : Rdefinitions.RbaseSymbolsImpl.R) (o : orient) (du dv : list Rdefinitions.RbaseSymbolsImpl.R),
         Rdefinitions.RbaseSymbolsImpl.Rlt (Rdefinitions.IZR 0) tol ->
         signed_perm 2 o ->
         Rdefinitions.Rle tol (rh_value2 du dv) ->
         let ds := oapply o [du; dv] in
         let val' := rh_value2 (nth 0 ds []) (nth 1 ds []) in
         (oparity o = false -> val' = rh_value2 du dv /\ Rdefinitions.Rle tol val') /\
         (oparity o = true ->
          val' = Rdefinitions.RbaseSymbolsImpl.Ropp (rh_value2 du dv) /\
          Rdefinitions.Rle val' (Rdefinitions.RbaseSymbolsImpl.Ropp tol) /\ ~ Rdefinitions.Rle tol val').
Proof. exact @reoriented_handedness2. Qed.
Print Assumptions C17_reoriented_handedness2.

Theorem C17_right_hand3_reoriented :
  forall (tol : Rdefinitions.RbaseSymbolsImpl.R) (o : orient) (du dv dw : list Rdefinitions.RbaseSymbolsImpl.R),
         Rdefinitions.RbaseSymbolsImpl.Rlt (Rdefinitions.IZR 0) tol ->
         signed_perm 3 o ->
         right_hand3 tol du dv dw = true ->
         let ds := oapply o [du; dv; dw] in
         right_hand3 tol (nth 0 ds []) (nth 1 ds []) (nth 2 ds []) = negb (oparity o).
Proof. exact @right_hand3_reoriented. Qed.
Print Assumptions C17_right_hand3_reoriented.

Theorem C17_right_hand2_reoriented :
  forall (tol : Rdefinitions.RbaseSymbolsImpl.R) (o : orient) (du dv : list Rdefinitions.RbaseSymbolsImpl.R),
         Rdefinitions.RbaseSymbolsImpl.Rlt (Rdefinitions.IZR 0) tol ->
         signed_perm 2 o ->
         right_hand2 tol du dv = true ->
         let ds := oapply o [du; dv] in right_hand2 tol (nth 0 ds []) (nth 1 ds []) = negb (oparity o).
Proof. exact @right_hand2_reoriented. Qed.
Print Assumptions C17_right_hand2_reoriented.

Theorem C17_swap_midpoint_partials :
  forall (tol : Rdefinitions.RbaseSymbolsImpl.R) (o : obj Rdefinitions.RbaseSymbolsImpl.R) 
           (d1 d2 : nat) (ds : list (list Rdefinitions.RbaseSymbolsImpl.R)),
         Rdefinitions.RbaseSymbolsImpl.Rlt (Rdefinitions.IZR 0) tol ->
         ObjEval.wf_obj_R tol o ->
         d1 <> d2 ->
         d1 < length (o_bases o) ->
         d2 < length (o_bases o) ->
         let o' := Reparam.obj_swap o d1 d2 in
         obj_midpoint o' = Reparam.swap_idx (Rdefinitions.IZR 0) (obj_midpoint o) d1 d2 /\
         (is_partials (o_dim o) (evc tol o) (obj_midpoint o) ds ->
          is_partials (o_dim o) (evc tol o') (obj_midpoint o') (step_apply (RSwap d1 d2) ds)).
Proof. exact @swap_midpoint_partials. Qed.
Print Assumptions C17_swap_midpoint_partials.

Theorem C17_reverse_midpoint_partials :
  forall (tol : Rdefinitions.RbaseSymbolsImpl.R) (o : obj Rdefinitions.RbaseSymbolsImpl.R) 
           (d : nat) (ds : list (list Rdefinitions.RbaseSymbolsImpl.R)),
         Rdefinitions.RbaseSymbolsImpl.Rlt (Rdefinitions.IZR 0) tol ->
         ObjEval.wf_obj_R tol o ->
         d < length (o_bases o) ->
         let bd := nth d (o_bases o) ObjEval.dflt_basis in
         b_per1 bd = 0 ->
         (forall v : Rdefinitions.RbaseSymbolsImpl.R,
          In v (b_knots bd) ->
          v = b_start bd \/
          v = b_end bd \/ Rdefinitions.RbaseSymbolsImpl.Rlt tol (Rbasic_fun.Rabs (Rdefinitions.Rminus v (mid_of bd)))) ->
         let o' := Reparam.obj_reverse o d in
         obj_midpoint o' = obj_midpoint o /\
         (is_partials (o_dim o) (evc tol o) (obj_midpoint o) ds ->
          is_partials (o_dim o) (evc tol o') (obj_midpoint o') (step_apply (RRev d) ds)).
Proof. exact @reverse_midpoint_partials. Qed.
Print Assumptions C17_reverse_midpoint_partials.

Theorem C17_step_flips_handedness3 :
  forall (tol htol : Rdefinitions.RbaseSymbolsImpl.R) (o : obj Rdefinitions.RbaseSymbolsImpl.R) 
           (s : rstep) (du dv dw : list Rdefinitions.RbaseSymbolsImpl.R),
         Rdefinitions.RbaseSymbolsImpl.Rlt (Rdefinitions.IZR 0) tol ->
         Rdefinitions.RbaseSymbolsImpl.Rlt (Rdefinitions.IZR 0) htol ->
         ObjEval.wf_obj_R tol o ->
         length (o_bases o) = 3 ->
         o_dim o = 3 ->
         valid_step 3 s ->
         step_ok tol o s ->
         is_partials 3 (evc tol o) (obj_midpoint o) [du; dv; dw] ->
         Rdefinitions.Rle htol (rh_value3 du dv dw) ->
         let o' := obj_step o s in
         let ds' := step_apply s [du; dv; dw] in
         is_partials 3 (evc tol o') (obj_midpoint o') ds' /\
         rh_value3 (nth 0 ds' []) (nth 1 ds' []) (nth 2 ds' []) =
         Rdefinitions.RbaseSymbolsImpl.Ropp (rh_value3 du dv dw) /\
         ~ Rdefinitions.Rle htol (rh_value3 (nth 0 ds' []) (nth 1 ds' []) (nth 2 ds' [])).
Proof. exact @step_flips_handedness3. Qed.
Print Assumptions C17_step_flips_handedness3.

Theorem C17_step_flips_handedness2 :
  forall (tol htol : Rdefinitions.RbaseSymbolsImpl.R) (o : obj Rdefinitions.RbaseSymbolsImpl.R) 
           (s : rstep) (du dv : list Rdefinitions.RbaseSymbolsImpl.R),
         Rdefinitions.RbaseSymbolsImpl.Rlt (Rdefinitions.IZR 0) tol ->
         Rdefinitions.RbaseSymbolsImpl.Rlt (Rdefinitions.IZR 0) htol ->
         ObjEval.wf_obj_R tol o ->
         length (o_bases o) = 2 ->
         o_dim o = 2 ->
         valid_step 2 s ->
         step_ok tol o s ->
         is_partials 2 (evc tol o) (obj_midpoint o) [du; dv] ->
         Rdefinitions.Rle htol (rh_value2 du dv) ->
         let o' := obj_step o s in
         let ds' := step_apply s [du; dv] in
         is_partials 2 (evc tol o') (obj_midpoint o') ds' /\
         rh_value2 (nth 0 ds' []) (nth 1 ds' []) = Rdefinitions.RbaseSymbolsImpl.Ropp (rh_value2 du dv) /\
         ~ Rdefinitions.Rle htol (rh_value2 (nth 0 ds' []) (nth 1 ds' [])).
Proof. exact @step_flips_handedness2. Qed.
Print Assumptions C17_step_flips_handedness2.

Theorem C17_cube_reorientations :
  forall o : orient,
         signed_perm 3 o ->
         let ds := oapply o [e1; e2; e3] in
         let val' := rh_value3 (nth 0 ds []) (nth 1 ds []) (nth 2 ds []) in
         (oparity o = false ->
          val' = Rdefinitions.IZR 1 /\
          Rdefinitions.Rle (Rdefinitions.Rdiv (Rdefinitions.IZR 1) (Rdefinitions.IZR 1000)) val') /\
         (oparity o = true ->
          val' = Rdefinitions.IZR (-1) /\
          ~ Rdefinitions.Rle (Rdefinitions.Rdiv (Rdefinitions.IZR 1) (Rdefinitions.IZR 1000)) val').
Proof. exact @cube_reorientations. Qed.
Print Assumptions C17_cube_reorientations.

Theorem C17_cube_executable_Q :
  right_hand3 0.001%Q q1 q2 q3 = true /\
         forallb
           (fun o : orient =>
            let ds := oapply o [q1; q2; q3] in
            eqb (right_hand3 0.001%Q (nth 0 ds []) (nth 1 ds []) (nth 2 ds [])) (negb (oparity o))) A3 = true /\
         forallb
           (fun o : orient =>
            let ds := oapply o [[1%Q; 0%Q]; [0%Q; 1%Q]] in
            eqb (right_hand2 0.001%Q (nth 0 ds []) (nth 1 ds [])) (negb (oparity o))) A2 = true.
Proof. exact @cube_executable_Q. Qed.
Print Assumptions C17_cube_executable_Q.

Theorem C17_basis_matches_spec :
  forall (tol : Rdefinitions.RbaseSymbolsImpl.R) (b1 b2 : basis Rdefinitions.RbaseSymbolsImpl.R) (rev : bool),
         basis_matches tol b1 b2 rev = true <->
         b_order b1 = b_order b2 /\
         b_per1 b1 = b_per1 b2 /\
         DT (b_knots b1) <> Rdefinitions.IZR 0 /\
         DT (b_knots b2) <> Rdefinitions.IZR 0 /\
         length (b_knots b1) = length (b_knots b2) /\
         (forall i : nat,
          i < length (b_knots b1) ->
          Rdefinitions.Rle
            (Rbasic_fun.Rabs
               (Rdefinitions.Rminus (nth i (nk1 (b_knots b1) rev) (Rdefinitions.IZR 0))
                  (nth i (NK (b_knots b2)) (Rdefinitions.IZR 0))))
            (Rdefinitions.RbaseSymbolsImpl.Rplus tol
               (Rdefinitions.RbaseSymbolsImpl.Rmult (Rdefinitions.Rdiv (Rdefinitions.IZR 1) (Rdefinitions.IZR 100000))
                  (Rbasic_fun.Rabs (nth i (NK (b_knots b2)) (Rdefinitions.IZR 0)))))).
Proof. exact @basis_matches_spec. Qed.
Print Assumptions C17_basis_matches_spec.

Theorem C17_matches_degenerate :
  forall (rtol tol : Rdefinitions.RbaseSymbolsImpl.R) (b1 b2 : basis Rdefinitions.RbaseSymbolsImpl.R)
           (rev : bool),
         DT (b_knots b1) = Rdefinitions.IZR 0 \/ DT (b_knots b2) = Rdefinitions.IZR 0 ->
         basis_matches_gen rtol tol b1 b2 rev = false.
Proof. exact @matches_degenerate. Qed.
Print Assumptions C17_matches_degenerate.

Theorem C17_matches_affine_invariant :
  forall (rtol tol a1 c1 a2 c2 : Rdefinitions.RbaseSymbolsImpl.R)
           (b1 b2 : basis Rdefinitions.RbaseSymbolsImpl.R) (rev : bool),
         Rdefinitions.Rgt a1 (Rdefinitions.IZR 0) ->
         Rdefinitions.Rgt a2 (Rdefinitions.IZR 0) ->
         basis_matches_gen rtol tol
           (Reparam.basis_shift b1
              (fun x : Rdefinitions.RbaseSymbolsImpl.R =>
               Rdefinitions.RbaseSymbolsImpl.Rplus (Rdefinitions.RbaseSymbolsImpl.Rmult a1 x) c1))
           (Reparam.basis_shift b2
              (fun x : Rdefinitions.RbaseSymbolsImpl.R =>
               Rdefinitions.RbaseSymbolsImpl.Rplus (Rdefinitions.RbaseSymbolsImpl.Rmult a2 x) c2)) rev =
         basis_matches_gen rtol tol b1 b2 rev.
Proof. exact @matches_affine_invariant. Qed.
Print Assumptions C17_matches_affine_invariant.

Theorem C17_basis_matches_refl :
  forall (tol : Rdefinitions.RbaseSymbolsImpl.R) (b : basis Rdefinitions.RbaseSymbolsImpl.R),
         Rdefinitions.Rle (Rdefinitions.IZR 0) tol ->
         DT (b_knots b) <> Rdefinitions.IZR 0 -> basis_matches tol b b false = true.
Proof. exact @basis_matches_refl. Qed.
Print Assumptions C17_basis_matches_refl.

Theorem C17_matches_sym :
  forall (tol : Rdefinitions.RbaseSymbolsImpl.R) (b1 b2 : basis Rdefinitions.RbaseSymbolsImpl.R) (rev : bool),
         basis_matches_gen (Rdefinitions.IZR 0) tol b1 b2 rev = basis_matches_gen (Rdefinitions.IZR 0) tol b2 b1 rev.
Proof. exact @matches_sym. Qed.
Print Assumptions C17_matches_sym.

Theorem C17_matches_reverse_flag_l :
  forall (rtol tol : Rdefinitions.RbaseSymbolsImpl.R) (b1 b2 : basis Rdefinitions.RbaseSymbolsImpl.R),
         b_start b1 <> b_end b1 ->
         basis_matches_gen rtol tol b1 b2 true = basis_matches_gen rtol tol (Reparam.basis_reverse b1) b2 false.
Proof. exact @matches_reverse_flag_l. Qed.
Print Assumptions C17_matches_reverse_flag_l.

Theorem C17_matches_separated :
  forall (rtol tol : Rdefinitions.RbaseSymbolsImpl.R) (b1 b2 : basis Rdefinitions.RbaseSymbolsImpl.R)
           (rev : bool) (i : nat),
         i < length (b_knots b1) ->
         Rdefinitions.Rgt
           (Rbasic_fun.Rabs
              (Rdefinitions.Rminus (nth i (nk1 (b_knots b1) rev) (Rdefinitions.IZR 0))
                 (nth i (NK (b_knots b2)) (Rdefinitions.IZR 0))))
           (Rdefinitions.RbaseSymbolsImpl.Rplus tol
              (Rdefinitions.RbaseSymbolsImpl.Rmult rtol
                 (Rbasic_fun.Rabs (nth i (NK (b_knots b2)) (Rdefinitions.IZR 0))))) ->
         basis_matches_gen rtol tol b1 b2 rev = false.
Proof. exact @matches_separated. Qed.
Print Assumptions C17_matches_separated.

Theorem C17_matches_moved_knot_iff :
  forall (l r : list Rdefinitions.RbaseSymbolsImpl.R) (x delta : Rdefinitions.RbaseSymbolsImpl.R),
         l <> [] ->
         r <> [] ->
         forall (rtol tol : Rdefinitions.RbaseSymbolsImpl.R) (p per : nat),
         Rdefinitions.Rminus (last r (Rdefinitions.IZR 0)) (hd (Rdefinitions.IZR 0) l) <> Rdefinitions.IZR 0 ->
         Rdefinitions.Rle (Rdefinitions.IZR 0) tol ->
         Rdefinitions.Rle (Rdefinitions.IZR 0) rtol ->
         basis_matches_gen rtol tol {| b_order := p; b_knots := l ++ x :: r; b_per1 := per |}
           {| b_order := p; b_knots := l ++ Rdefinitions.RbaseSymbolsImpl.Rplus x delta :: r; b_per1 := per |} false =
         true <->
         Rdefinitions.Rle
           (Rbasic_fun.Rabs
              (Rdefinitions.Rdiv delta (Rdefinitions.Rminus (last r (Rdefinitions.IZR 0)) (hd (Rdefinitions.IZR 0) l))))
           (Rdefinitions.RbaseSymbolsImpl.Rplus tol
              (Rdefinitions.RbaseSymbolsImpl.Rmult rtol
                 (Rbasic_fun.Rabs
                    (Rdefinitions.Rdiv
                       (Rdefinitions.Rminus (Rdefinitions.RbaseSymbolsImpl.Rplus x delta) (hd (Rdefinitions.IZR 0) l))
                       (Rdefinitions.Rminus (last r (Rdefinitions.IZR 0)) (hd (Rdefinitions.IZR 0) l)))))).
Proof. exact @matches_moved_knot_iff. Qed.
Print Assumptions C17_matches_moved_knot_iff.

Theorem C17_matches_moved_knot_reported :
  forall (l r : list Rdefinitions.RbaseSymbolsImpl.R) (x delta : Rdefinitions.RbaseSymbolsImpl.R),
         l <> [] ->
         r <> [] ->
         forall (rtol tol : Rdefinitions.RbaseSymbolsImpl.R) (p per : nat),
         Rdefinitions.RbaseSymbolsImpl.Rlt (Rdefinitions.IZR 0)
           (Rdefinitions.Rminus (last r (Rdefinitions.IZR 0)) (hd (Rdefinitions.IZR 0) l)) ->
         Rdefinitions.Rle (Rdefinitions.IZR 0) tol ->
         Rdefinitions.Rle (Rdefinitions.IZR 0) rtol ->
         Rdefinitions.Rle (hd (Rdefinitions.IZR 0) l) (Rdefinitions.RbaseSymbolsImpl.Rplus x delta) /\
         Rdefinitions.Rle (Rdefinitions.RbaseSymbolsImpl.Rplus x delta) (last r (Rdefinitions.IZR 0)) ->
         Rdefinitions.Rgt (Rbasic_fun.Rabs delta)
           (Rdefinitions.RbaseSymbolsImpl.Rmult (Rdefinitions.RbaseSymbolsImpl.Rplus tol rtol)
              (Rdefinitions.Rminus (last r (Rdefinitions.IZR 0)) (hd (Rdefinitions.IZR 0) l))) ->
         basis_matches_gen rtol tol {| b_order := p; b_knots := l ++ x :: r; b_per1 := per |}
           {| b_order := p; b_knots := l ++ Rdefinitions.RbaseSymbolsImpl.Rplus x delta :: r; b_per1 := per |} false =
         false.
Proof. exact @matches_moved_knot_reported. Qed.
Print Assumptions C17_matches_moved_knot_reported.

Theorem C17_matches_default_rtol_accepts_1e_5 :
  basis_matches qtol (qb 2 [0%Q; 0%Q; 1%Q; 2%Q; 2%Q]) (qb 2 [0%Q; 0%Q; 1.00001%Q; 2%Q; 2%Q]) false = true /\
         basis_matches_gen 0%Q qtol (qb 2 [0%Q; 0%Q; 1%Q; 2%Q; 2%Q]) (qb 2 [0%Q; 0%Q; 1.00001%Q; 2%Q; 2%Q]) false =
         false /\
         basis_matches qtol (qb 2 [0%Q; 0%Q; 1%Q; 2%Q; 2%Q]) (qb 2 [0%Q; 0%Q; 1.0001%Q; 2%Q; 2%Q]) false = false.
Proof. exact @ex_rtol_accepts. Qed.
Print Assumptions C17_matches_default_rtol_accepts_1e_5.

Theorem C17_matches_default_rtol_asymmetric :
  basis_matches qtol (qb 2 [0%Q; 0%Q; 1%Q; 2%Q; 2%Q]) (qb 2 [0%Q; 0%Q; 1.00001000024%Q; 2%Q; 2%Q]) false = true /\
         basis_matches qtol (qb 2 [0%Q; 0%Q; 1.00001000024%Q; 2%Q; 2%Q]) (qb 2 [0%Q; 0%Q; 1%Q; 2%Q; 2%Q]) false = false.
Proof. exact @ex_asymmetric. Qed.
Print Assumptions C17_matches_default_rtol_asymmetric.

Theorem C17_orient_basis_matches_eq :
  forall (F : Type) (H : Num F) (ktol : F) (a b : basis F) (rev : bool),
         neqb (knots_dt (b_knots a)) n0 = false ->
         neqb (knots_dt (b_knots b)) n0 = false -> Orient.basis_matches ktol a b rev = basis_matches ktol a b rev.
Proof. exact @orient_basis_matches_eq. Qed.
Print Assumptions C17_orient_basis_matches_eq.

