(* C09 — Affine transformations commute with evaluation, weights untouched.
   Model: Model/Affine.v; rotation_matrix is regenerated from the source (Gen/RotationMatrix.v). *)
From Coq Require Import List Arith Reals Lra Lia Bool ZArith QArith Qreals.
From SplipyModel Require Import Spec.BSpline Model.Num Model.Tensor Model.Obj Model.Affine Gen.RotationMatrix
  Proofs.TensorLemmas Proofs.TensorApply Proofs.AffineProofs Extract.Exec.
Import ListNotations.
Open Scope R_scope.

(* 1. any coordinate-wise affine map of the control points is the same affine map of every evaluated point
      (every pardim; the constant part needs the partition of unity, the linear part does not) *)
Theorem C09_affine_commutes dim dim' c' (cf : list R) (kappa : R) (L : list R -> list R) rows cps :
  (c' < dim')%nat -> length cf = dim ->
  net_ok dim rows cps -> Forall (fun v => length (L v) = dim') cps ->
  (kappa = 0 \/ Forall (fun N => rsum N = 1) rows) ->
  (forall v, In v cps -> coord c' (L v) = sumf (fun c => nth c cf 0 * coord c v) 0 dim + kappa) ->
  (0 < prodl (map (@length R) rows))%nat ->
  coord c' (teval dim' rows (map L cps)) = sumf (fun c => nth c cf 0 * coord c (teval dim rows cps)) 0 dim + kappa.
Proof. exact (teval_affine dim dim' c' cf kappa L rows cps). Qed.
Print Assumptions C09_affine_commutes.

(* 2. scale (as the model writes it): coordinates below m are scaled, the rest (weights) untouched *)
Theorem C09_scale_spec dim rows cps : net_ok dim rows cps -> (0 < prodl (map (@length R) rows))%nat ->
  forall m s c, (m <= dim)%nat -> (c < dim)%nat ->
  coord c (teval dim rows (map (fun v => map (fun i => nmul (nth i v 0) (nth i s 0)) (seq 0 m) ++ skipn m v) cps))
  = (if (c <? m)%nat then nth c s 0 else 1) * coord c (teval dim rows cps).
Proof. intros Hn Hp. exact (scale_commutes dim rows cps Hn Hp). Qed.
Print Assumptions C09_scale_spec.

(* 3. translate (non-rational) *)
Theorem C09_translate_spec dim rows cps : net_ok dim rows cps -> (0 < prodl (map (@length R) rows))%nat ->
  forall x c, Forall (fun N => rsum N = 1) rows -> (c < dim)%nat ->
  coord c (teval dim rows (map (fun v => map (fun i => nadd (nth i v 0) (nmul (nth i x 0) 1)) (seq 0 dim) ++ skipn dim v) cps))
  = coord c (teval dim rows cps) + nth c x 0.
Proof. intros Hn Hp. exact (translate_commutes dim rows cps Hn Hp). Qed.
Print Assumptions C09_translate_spec.

(* 4. the rotation matrix of the current source: for a unit quaternion (a,b,c,d) it is orthogonal with
      determinant one, fixes its axis, and has trace 1 + 2 cos(theta) *)
Theorem C09_rotation_matrix_orthogonal (a b c d : R) i j : (i < 3)%nat -> (j < 3)%nat ->
  rowdot (rotmat a b c d) i j
  = if (i =? j)%nat then (a * a + b * b + c * c + d * d) * (a * a + b * b + c * c + d * d) else 0.
Proof. exact (rotmat_orthogonal a b c d i j). Qed.
Print Assumptions C09_rotation_matrix_orthogonal.
Theorem C09_rotation_matrix_det_one (a b c d : R) :
  let Rm := rotmat a b c d in
  ent Rm 0 0 * (ent Rm 1 1 * ent Rm 2 2 - ent Rm 1 2 * ent Rm 2 1)
  - ent Rm 0 1 * (ent Rm 1 0 * ent Rm 2 2 - ent Rm 1 2 * ent Rm 2 0)
  + ent Rm 0 2 * (ent Rm 1 0 * ent Rm 2 1 - ent Rm 1 1 * ent Rm 2 0)
  = (a * a + b * b + c * c + d * d) * (a * a + b * b + c * c + d * d) * (a * a + b * b + c * c + d * d).
Proof. exact (rotmat_det a b c d). Qed.
Print Assumptions C09_rotation_matrix_det_one.
Theorem C09_rotation_matrix_fixes_axis (a b c d : R) j : (j < 3)%nat ->
  b * ent (rotmat a b c d) 0 j + c * ent (rotmat a b c d) 1 j + d * ent (rotmat a b c d) 2 j
  = (a * a + b * b + c * c + d * d) * nth j [b; c; d] 0.
Proof. exact (rotmat_fixes_axis a b c d j). Qed.
Print Assumptions C09_rotation_matrix_fixes_axis.
Theorem C09_rotation_matrix_angle (a b c d : R) :
  ent (rotmat a b c d) 0 0 + ent (rotmat a b c d) 1 1 + ent (rotmat a b c d) 2 2 = 3 * (a * a) - (b * b + c * c + d * d).
Proof. exact (rotmat_trace a b c d). Qed.
Print Assumptions C09_rotation_matrix_angle.

(* 5. the mirror matrix I - 2 u u^T for a unit normal: involution, reflects the normal, fixes the plane *)
Theorem C09_mirror_involution (u0 u1 u2 : R) : u0 * u0 + u1 * u1 + u2 * u2 = 1 -> forall i j, (i < 3)%nat -> (j < 3)%nat ->
  mir u0 u1 u2 i 0 * mir u0 u1 u2 0 j + mir u0 u1 u2 i 1 * mir u0 u1 u2 1 j + mir u0 u1 u2 i 2 * mir u0 u1 u2 2 j
  = if (i =? j)%nat then 1 else 0.
Proof. intros Hu. exact (mirror_involution u0 u1 u2 Hu). Qed.
Print Assumptions C09_mirror_involution.
Theorem C09_mirror_reflects_normal (u0 u1 u2 : R) : u0 * u0 + u1 * u1 + u2 * u2 = 1 -> forall j, (j < 3)%nat ->
  u0 * mir u0 u1 u2 0 j + u1 * mir u0 u1 u2 1 j + u2 * mir u0 u1 u2 2 j = - uv u0 u1 u2 j.
Proof. intros Hu. exact (mirror_reflects_normal u0 u1 u2 Hu). Qed.
Print Assumptions C09_mirror_reflects_normal.
Theorem C09_mirror_fixes_plane (u0 u1 u2 p0 p1 p2 : R) j : (j < 3)%nat -> p0 * u0 + p1 * u1 + p2 * u2 = 0 ->
  p0 * mir u0 u1 u2 0 j + p1 * mir u0 u1 u2 1 j + p2 * mir u0 u1 u2 2 j = nth j [p0; p1; p2] 0.
Proof. exact (mirror_fixes_plane u0 u1 u2 p0 p1 p2 j). Qed.
Print Assumptions C09_mirror_fixes_plane.

(* non-vacuity: rotate a rational 3-D curve by 2*atan(1/2) about (1,2,2)/3 and evaluate *)
Example C09_example :
  let b := q_mkBasis 2 [0; 0; 1; 1]%Q 0 in
  let o := q_mkObj [b] [[3;0;0;1]; [0;6;0;2]]%Q 3 true in
  match q_obj_rotate o (3#5) (4#5) [1;2;2]%Q (1#3) with
  | Ok o' => (match q_obj_eval (1#10000000000) o' [(0)%Q] with Ok v => map Qred v | Err _ => [] end) = [(-31#75); (208#75); (-16#15)]%Q
  | Err _ => False
  end.
Proof. vm_compute. reflexivity. Qed.

(* ------------------------------------------------------------------------------------------------------
   Added in build session 4 (statements re-stated from the proof files by harness tooling; each is closed by
   exact). *)
From SplipyModel Require Import Transfer.ParamObj Transfer.ParamOps Transfer.ParamOps2.
Open Scope R_scope.
Theorem C09_executed_is_proved_translate :
  forall (o : obj Q) (x : list Q), resmap objQ2R (obj_translate o x) = obj_translate (objQ2R o) (map Q2R x).
Proof. exact @obj_translate_transfer. Qed.
Print Assumptions C09_executed_is_proved_translate.

Theorem C09_executed_is_proved_scale :
  forall (o : obj Q) (s : list Q), resmap objQ2R (obj_scale o s) = obj_scale (objQ2R o) (map Q2R s).
Proof. exact @obj_scale_transfer. Qed.
Print Assumptions C09_executed_is_proved_scale.

Theorem C09_executed_is_proved_rotate :
  forall (o : obj Q) (ch sh : Q) (normal : list Q) (inv : Q),
         resmap objQ2R (obj_rotate o ch sh normal inv) =
         obj_rotate (objQ2R o) (Q2R ch) (Q2R sh) (map Q2R normal) (Q2R inv).
Proof. exact @obj_rotate_transfer. Qed.
Print Assumptions C09_executed_is_proved_rotate.

Theorem C09_executed_is_proved_mirror :
  forall (o : obj Q) (normal : list Q) (inv : Q),
         resmap objQ2R (obj_mirror o normal inv) = obj_mirror (objQ2R o) (map Q2R normal) (Q2R inv).
Proof. exact @obj_mirror_transfer. Qed.
Print Assumptions C09_executed_is_proved_mirror.

Theorem C09_executed_is_proved_project :
  forall (o : obj Q) (keep : list bool), objQ2R (obj_project o keep) = obj_project (objQ2R o) keep.
Proof. exact @obj_project_transfer. Qed.
Print Assumptions C09_executed_is_proved_project.

Theorem C09_executed_is_proved_set_dimension :
  forall (o : obj Q) (newdim : nat), objQ2R (obj_set_dimension o newdim) = obj_set_dimension (objQ2R o) newdim.
Proof. exact @obj_set_dimension_transfer. Qed.
Print Assumptions C09_executed_is_proved_set_dimension.

Theorem C09_executed_is_proved_force_rational :
  forall o : obj Q, objQ2R (obj_force_rational o) = obj_force_rational (objQ2R o).
Proof. exact @obj_force_rational_transfer. Qed.
Print Assumptions C09_executed_is_proved_force_rational.

