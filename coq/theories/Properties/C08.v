(* C08 — Periodic objects are genuinely periodic and convert losslessly.       (PARTIAL, see below)
   Models: evaluate() wrap (Model/BasisEval.v), make_periodic / lower_periodic (Model/Periodic.v),
   split at the seam (Model/Split.v).  Reference: Spec/Continuity.v. *)
From Coq Require Import List Arith Reals Lra Lia Bool ZArith QArith.
From SplipyModel Require Import Spec.BSpline Spec.Continuity Model.Num Model.BasisDef Model.BasisEval Model.Tensor Model.Obj
  Model.KnotInsert Model.Split Model.Periodic Proofs.ObjEval Proofs.TensorLemmas Proofs.TensorApply Extract.Exec.
Import ListNotations.
Open Scope R_scope.

(* 1. wrap invariance: in a periodic direction the normalised parameter and side are the same at t and at
      t + z*period for every integer z (t strictly inside the domain), hence so are all evaluated rows *)
Theorem C08_wrap_invariance (k : list R) (p per1 : nat) (tol : R) from_right t z : (0 < per1)%nat ->
  let s := kn k (p - 1) in let e := kn k (length k - p) in s < t < e ->
  normalise k p per1 tol from_right (t + IZR z * (e - s)) = normalise k p per1 tol from_right t.
Proof. exact (wrap_invariance k p per1 tol from_right t z). Qed.
Print Assumptions C08_wrap_invariance.

(* 2. the jump between the span polynomials of adjacent spans at their common knot is a dipole that vanishes
      unless the knot is repeated q more times: degree-q pieces agree at a knot of multiplicity <= q *)
Theorem C08_pieces_agree (k : nat -> R) : sorted k -> forall m q, (q <= m)%nat -> repb k m q = false ->
  forall i, P k (S m) q i (k (S m)) = P k m q i (k (S m)).
Proof. intros Hk m q. exact (pieces_agree k Hk m q). Qed.
Print Assumptions C08_pieces_agree.

(* 3. consequently the limits from the right and from the left of every B-spline agree at such a knot
      (value continuity; derivatives follow by applying this to the lower-degree B-splines of the derivative
      recurrence, C03_recurrence_is_derivative) *)
Theorem C08_continuous_at_knot (k : nat -> R) : sorted k -> forall m q i, (q <= m)%nat ->
  k m < k (S m) -> k (S m) < k (S (S m)) -> repb k m q = false ->
  B true k q i (k (S m)) = B false k q i (k (S m)).
Proof. intros Hk m q i. exact (B_continuous_at_knot k Hk m q i). Qed.
Print Assumptions C08_continuous_at_knot.

(* 4. rolling the control net along a direction is a permutation handled by the lifting lemma: stated for any
      matrix, used by lower_periodic and by the periodic branch of split *)
Theorem C08_roll_commutes dim c (C : list (list R)) rows d N' cps :
  (d < length rows)%nat -> (c < dim)%nat -> net_ok dim rows cps -> (0 < prodl (map (@length R) rows))%nat ->
  row_rel (nth d rows []) N' C ->
  tsum (upd rows d N') (cnet dim c (apply_dir dim (map (@length R) rows) d C cps)) = tsum rows (cnet dim c cps).
Proof. exact (tsum_apply_dir dim c C rows d N' cps). Qed.
Print Assumptions C08_roll_commutes.

(* PARTIAL.  Not proved: seam smoothness for the wrapped sums of a periodic basis (needs the periodicity of
   the ghost knots), knot/control-point round trip of split(seam) o make_periodic (refuted for continuity >= 1
   with non-uniform knots next to the seam: known finding C08-open-close-cps), and that lower_periodic
   preserves the map.  These are covered by the transcription + correspondence (L1) and by the statement
   evaluated on the implementation (L2). *)

(* non-vacuity, executed on Q: a C1-periodic quadratic with 4 functions lowered to C0 keeps its map *)
Example C08_example :
  let b := q_mkBasis 3 [-1; 0; 1; 2; 3; 4; 5; 6]%Q 2 in
  let o := q_mkObj [b] [[0;0]; [4;1]; [3;5]; [-2;2]]%Q 2 false in
  match q_obj_lower_periodic o 1 0 with
  | Ok o' => b_per1 (nth 0 (o_bases o') b) = 1%nat /\
             (match q_obj_eval (1#10000000000) o' [(5#2)%Q] with Ok v => map Qred v | Err _ => [] end)
             = (match q_obj_eval (1#10000000000) o [(5#2)%Q] with Ok v => map Qred v | Err _ => [] end)
  | Err _ => False
  end.
Proof. vm_compute. split; reflexivity. Qed.

(* ------------------------------------------------------------------------------------------------------
   Added in build session 4 (statements re-stated from the proof files by harness tooling; each is closed by
   exact). *)
From SplipyModel Require Import Proofs.SeamContinuity Proofs.MakePeriodicKnots Proofs.PeriodicInsert Transfer.ParamObj Transfer.ParamOps Transfer.ParamOps2 Proofs.PeriodicEndToEnd.
Open Scope R_scope.
Theorem C08_seam_derivatives :
  forall k : nat -> R,
         sorted k ->
         forall (q n cont : nat) (T : R),
         (1 <= n)%nat ->
         (cont < q)%nat ->
         (forall i : nat, k (i + n)%nat = k i + T) ->
         forall c : nat -> R,
         (forall i : nat, c (i + n)%nat = c i) ->
         k cont < k (S cont) ->
         k (S cont) = k q ->
         k q < k (S q) ->
         forall r N : nat,
         (r <= cont)%nat -> (n + cont + 1 <= N)%nat -> Sd k q c true r (k q) N = Sd k q c false r (k (q + n)%nat) N.
Proof. exact @seam_derivatives. Qed.
Print Assumptions C08_seam_derivatives.

Theorem C08_seam_derivatives_list :
  forall K : nat -> R,
         sorted K ->
         forall (q n cont : nat) (T : R),
         (1 <= n)%nat ->
         (cont < q)%nat ->
         (forall i : nat, (i + n <= n + cont + q + 1)%nat -> K (i + n)%nat = K i + T) ->
         forall c : nat -> R,
         (forall i : nat, c (i + n)%nat = c i) ->
         K cont < K (S cont) ->
         K (S cont) = K q ->
         K q < K (S q) ->
         forall r : nat,
         (r <= cont)%nat ->
         sumf (fun i : nat => c i * Deriv.dB true K r q i (K q)) 0 (n + cont + 1) =
         sumf (fun i : nat => c i * Deriv.dB false K r q i (K (q + n)%nat)) 0 (n + cont + 1).
Proof. exact @seam_derivatives_list. Qed.
Print Assumptions C08_seam_derivatives_list.

Theorem C08_wrap_value :
  forall (k : nat -> R) (q n : nat) (T : R),
         (forall i : nat, k (i + n)%nat = k i + T) ->
         forall c : nat -> R,
         (forall i : nat, c (i + n)%nat = c i) ->
         forall (side : bool) (r a N : nat) (t : R),
         sumf (fun i : nat => c i * Deriv.dB side k r q i (t + T)) (a + n) N =
         sumf (fun i : nat => c i * Deriv.dB side k r q i t) a N.
Proof. exact @wrap_value. Qed.
Print Assumptions C08_wrap_value.

Theorem C08_continuous_at_multiple_knot :
  forall k : nat -> R,
         sorted k ->
         forall a mu : nat,
         (1 <= mu)%nat ->
         k a < k (S a) ->
         k (S a) = k (a + mu)%nat ->
         k (a + mu)%nat < k (S (a + mu)) ->
         forall r q i : nat,
         (mu + r <= q)%nat -> (q <= a)%nat -> Deriv.dB true k r q i (k (S a)) = Deriv.dB false k r q i (k (S a)).
Proof. exact @dB_continuous_at_multiple_knot. Qed.
Print Assumptions C08_continuous_at_multiple_knot.

Theorem C08_make_periodic_images :
  forall (p cont : nat) (s e : R) (mid : list R),
         (cont + 2 <= p)%nat ->
         (cont <= length mid)%nat ->
         forall i : nat,
         (i + b_nfun (basis_make_periodic {| b_order := p; b_knots := open_knots p s e mid; b_per1 := 0 |} cont) <
          length (b_knots (basis_make_periodic {| b_order := p; b_knots := open_knots p s e mid; b_per1 := 0 |} cont)))%nat ->
         kn (b_knots (basis_make_periodic {| b_order := p; b_knots := open_knots p s e mid; b_per1 := 0 |} cont))
           (i + b_nfun (basis_make_periodic {| b_order := p; b_knots := open_knots p s e mid; b_per1 := 0 |} cont)) =
         kn (b_knots (basis_make_periodic {| b_order := p; b_knots := open_knots p s e mid; b_per1 := 0 |} cont)) i +
         (b_end (basis_make_periodic {| b_order := p; b_knots := open_knots p s e mid; b_per1 := 0 |} cont) -
          b_start (basis_make_periodic {| b_order := p; b_knots := open_knots p s e mid; b_per1 := 0 |} cont)).
Proof. exact @mp_images. Qed.
Print Assumptions C08_make_periodic_images.

Theorem C08_make_periodic_sorted :
  forall (p cont : nat) (s e : R) (mid : list R),
         (cont + 2 <= p)%nat ->
         (cont <= length mid)%nat ->
         sorted (kn (open_knots p s e mid)) ->
         sorted
           (kn (b_knots (basis_make_periodic {| b_order := p; b_knots := open_knots p s e mid; b_per1 := 0 |} cont))).
Proof. exact @mp_sorted. Qed.
Print Assumptions C08_make_periodic_sorted.

Theorem C08_make_periodic_seam_rows :
  forall (p cont : nat) (s e : R) (mid : list R),
         (cont + 2 <= p)%nat ->
         (cont <= length mid)%nat ->
         sorted (kn (open_knots p s e mid)) ->
         s < e ->
         Forall (fun x : R => s < x < e) mid ->
         forall r : nat,
         (r <= cont)%nat ->
         ref_row true
           (b_knots (basis_make_periodic {| b_order := p; b_knots := open_knots p s e mid; b_per1 := 0 |} cont)) p
           (cont + 1) r s =
         ref_row false
           (b_knots (basis_make_periodic {| b_order := p; b_knots := open_knots p s e mid; b_per1 := 0 |} cont)) p
           (cont + 1) r e.
Proof. exact @mp_seam_rows. Qed.
Print Assumptions C08_make_periodic_seam_rows.

Theorem C08_open_close_knots :
  forall (p cont : nat) (k0 : list R),
         (cont + 2 <= p)%nat ->
         (2 * p + cont <= length k0)%nat ->
         (forall i : nat,
          (i + b_nfun {| b_order := p; b_knots := k0; b_per1 := cont + 1 |} < length k0)%nat ->
          kn k0 (i + b_nfun {| b_order := p; b_knots := k0; b_per1 := cont + 1 |}) =
          kn k0 i +
          (b_end {| b_order := p; b_knots := k0; b_per1 := cont + 1 |} -
           b_start {| b_order := p; b_knots := k0; b_per1 := cont + 1 |})) ->
         (forall i : nat,
          (cont + 1 <= i <= p - 1)%nat -> kn k0 i = b_start {| b_order := p; b_knots := k0; b_per1 := cont + 1 |}) ->
         b_knots
           (basis_make_periodic
              {|
                b_order := p;
                b_knots := open_knots_of {| b_order := p; b_knots := k0; b_per1 := cont + 1 |};
                b_per1 := 0
              |} cont) = k0.
Proof. exact @open_close_knots. Qed.
Print Assumptions C08_open_close_knots.

Theorem C08_close_open_make_periodic :
  forall (p cont : nat) (s e : R) (mid : list R),
         (cont + 2 <= p)%nat ->
         (cont <= length mid)%nat ->
         basis_make_periodic
           {|
             b_order :=
               b_order (basis_make_periodic {| b_order := p; b_knots := open_knots p s e mid; b_per1 := 0 |} cont);
             b_knots :=
               open_knots_of
                 (basis_make_periodic {| b_order := p; b_knots := open_knots p s e mid; b_per1 := 0 |} cont);
             b_per1 := 0
           |} cont = basis_make_periodic {| b_order := p; b_knots := open_knots p s e mid; b_per1 := 0 |} cont.
Proof. exact @close_open_make_periodic. Qed.
Print Assumptions C08_close_open_make_periodic.

Theorem C08_split_opens_at_seam :
  forall (p cont : nat) (s e : R) (mid : list R),
         (cont + 2 <= p)%nat ->
         (cont <= length mid)%nat ->
         sorted (kn (open_knots p s e mid)) ->
         s < e ->
         Forall (fun x : R => s < x < e) mid ->
         let bI := {| b_order := p; b_knots := seam_inserted_knots p cont s e mid; b_per1 := cont + 1 |} in
         let mu := py_bisect_left (b_knots bI) (hd 0 [s]) in
         let kk := b_knots (basis_roll bI mu) in firstn (length kk - b_per1 bI) kk = open_knots p s e mid.
Proof. exact @split_opens_at_seam. Qed.
Print Assumptions C08_split_opens_at_seam.

Theorem C08_executed_is_proved_make_periodic :
  forall (o : obj Q) (cont : Z) (d : nat),
         resmap objQ2R (obj_make_periodic o cont d) = obj_make_periodic (objQ2R o) cont d.
Proof. exact @obj_make_periodic_transfer. Qed.
Print Assumptions C08_executed_is_proved_make_periodic.

Theorem C08_executed_is_proved_lower_periodic :
  forall (fuel : nat) (o : obj Q) (per1_target d : nat),
         resmap objQ2R (obj_lower_periodic fuel o per1_target d) = obj_lower_periodic fuel (objQ2R o) per1_target d.
Proof. exact @obj_lower_periodic_transfer. Qed.
Print Assumptions C08_executed_is_proved_lower_periodic.

Theorem C08_lower_periodic_step_preserves_map :
  forall (k : list R) (p per1 n : nat) (T : R),
         per_canon k p per1 n T ->
         forall (dim c : nat) (side : bool) (t : R) (rows : list (list R)) (d : nat) (cps : list (list R)),
         after_start side (kn k (p - 1)) t ->
         before_end side t (kn k (n + per1)) ->
         (d < length rows)%nat ->
         (c < dim)%nat ->
         nth d rows [] = ref_row side k p per1 0 t ->
         net_ok dim rows cps ->
         (0 < prodl (map (length (A:=R)) rows))%nat ->
         let rows1 := upd rows d (ref_row side (knew_model k p per1 (kn k (p - 1))) p per1 0 t) in
         let cps1 :=
           apply_dir dim (map (length (A:=R)) rows) d
             (mat_of_writes (n + 1) n (insert_writes k p n (py_bisect_right k (kn k (p - 1))) (kn k (p - 1)))) cps in
         let rows2 := upd rows1 d (ref_row side (tl (knew_model k p per1 (kn k (p - 1)))) p (per1 - 1) 0 t) in
         let cps2 := apply_dir dim (map (length (A:=R)) rows1) d (roll_matrix (n + 1) 1) cps1 in
         coord c (teval dim rows2 cps2) = coord c (teval dim rows cps).
Proof. exact @lower_periodic_step_preserves_map. Qed.
Print Assumptions C08_lower_periodic_step_preserves_map.

Theorem C08_lower_periodic_step :
  forall (k : list R) (p per1 n : nat) (T : R),
         per_canon k p per1 n T ->
         forall (o : obj R) (d fuel target : nat),
         nth d (o_bases o) {| b_order := 0; b_knots := []; b_per1 := 0 |} =
         {| b_order := p; b_knots := k; b_per1 := per1 |} ->
         (target < per1)%nat ->
         let o1 :=
           {|
             o_bases :=
               upd (o_bases o) d {| b_order := p; b_knots := knew_model k p per1 (kn k (p - 1)); b_per1 := per1 |};
             o_cps :=
               apply_dir (o_ncomp o) (o_shape o) d
                 (mat_of_writes (n + 1) n (insert_writes k p n (py_bisect_right k (kn k (p - 1))) (kn k (p - 1))))
                 (o_cps o);
             o_dim := o_dim o;
             o_rat := o_rat o
           |} in
         obj_lower_periodic (S fuel) o target d =
         obj_lower_periodic fuel (obj_along o1 d (lower_step_basis k p per1) (roll_matrix (n + 1) 1)) target d.
Proof. exact @obj_lower_periodic_step. Qed.
Print Assumptions C08_lower_periodic_step.

Theorem C08_lower_periodic_step_canonical :
  forall (k : list R) (p per1 n : nat) (T : R),
         per_canon k p per1 n T ->
         (2 <= per1)%nat -> per_canon (tl (knew_model k p per1 (kn k (p - 1)))) p (per1 - 1) (n + 1) T.
Proof. exact @lower_step_canon. Qed.
Print Assumptions C08_lower_periodic_step_canonical.

Theorem C08_roll_drop :
  forall (k : list R) (p per1 n : nat) (T : R),
         per_canon k p per1 n T ->
         let kk :=
           b_knots (basis_roll {| b_order := p; b_knots := knew_model k p per1 (kn k (p - 1)); b_per1 := per1 |} 1) in
         firstn (length kk - 1) kk = tl (knew_model k p per1 (kn k (p - 1))).
Proof. exact @roll_drop. Qed.
Print Assumptions C08_roll_drop.

Theorem C08_lower_periodic_step_then_evaluate :
  forall (tol : R) (o : obj R) (d n : nat) (T : R),
         0 < tol ->
         wf_obj_R tol o ->
         (d < length (o_bases o))%nat ->
         canon_dir o d n T ->
         let bd := nth d (o_bases o) dflt_basis in
         exists o2 : obj R,
           (forall fuel target : nat,
            (target < b_per1 bd)%nat -> obj_lower_periodic (S fuel) o target d = obj_lower_periodic fuel o2 target d) /\
           wf_obj_R tol o2 /\
           length (o_bases o2) = length (o_bases o) /\
           (forall i : nat, i <> d -> nth i (o_bases o2) dflt_basis = nth i (o_bases o) dflt_basis) /\
           (let bd2 := nth d (o_bases o2) dflt_basis in
            b_order bd2 = b_order bd /\
            b_per1 bd2 = (b_per1 bd - 1)%nat /\
            b_start bd2 = b_start bd /\ b_end bd2 = b_end bd /\ b_nfun bd2 = (n + 1)%nat) /\
           ((2 <= b_per1 bd)%nat -> canon_dir o2 d (n + 1) T) /\
           (forall ts : list R,
            (forall i : nat,
             (i < length (o_bases o))%nat -> i <> d -> in_dom tol (nth i (o_bases o) dflt_basis) (nth i ts 0)) ->
            b_start bd <= nth d ts 0 <= b_end bd -> obj_eval tol o2 ts = obj_eval tol o ts).
Proof. exact @lower_periodic_step_eval. Qed.
Print Assumptions C08_lower_periodic_step_then_evaluate.

Theorem C08_lower_periodic_then_evaluate :
  forall (tol : R) (d : nat),
         0 < tol ->
         forall (m : nat) (o : obj R) (n : nat) (T : R) (target fuel : nat),
         wf_obj_R tol o ->
         (d < length (o_bases o))%nat ->
         canon_dir o d n T ->
         let bd := nth d (o_bases o) dflt_basis in
         b_per1 bd = (target + m)%nat ->
         (m <= fuel)%nat ->
         exists o' : obj R,
           obj_lower_periodic fuel o target d = Ok o' /\
           wf_obj_R tol o' /\
           length (o_bases o') = length (o_bases o) /\
           (forall i : nat, i <> d -> nth i (o_bases o') dflt_basis = nth i (o_bases o) dflt_basis) /\
           (let bd' := nth d (o_bases o') dflt_basis in
            b_order bd' = b_order bd /\
            b_per1 bd' = target /\ b_start bd' = b_start bd /\ b_end bd' = b_end bd /\ b_nfun bd' = (n + m)%nat) /\
           ((1 <= target)%nat -> canon_dir o' d (n + m) T) /\
           (forall ts : list R,
            (forall i : nat,
             (i < length (o_bases o))%nat -> i <> d -> in_dom tol (nth i (o_bases o) dflt_basis) (nth i ts 0)) ->
            b_start bd <= nth d ts 0 <= b_end bd -> obj_eval tol o' ts = obj_eval tol o ts).
Proof. exact @lower_periodic_eval. Qed.
Print Assumptions C08_lower_periodic_then_evaluate.

