(* C08 — Periodic objects are genuinely periodic and convert losslessly.       (PARTIAL, see below)
   Models: evaluate() wrap (Model/BasisEval.v), make_periodic / lower_periodic (Model/Periodic.v),
   split at the seam (Model/Split.v).  Reference: Spec/Continuity.v. *)
From Coq Require Import List Arith Reals Lra Lia Bool ZArith QArith.
From SplipyModel Require Import Spec.BSpline Spec.Continuity Model.Num Model.BasisDef Model.BasisEval Model.Tensor Model.Obj
  Model.KnotInsert Model.Split Model.Periodic Proofs.ObjEval Proofs.TensorLemmas Proofs.TensorApply Extract.Exec.
Import ListNotations.
Open Scope R_scope.

(* 1. wrap invariance: in a periodic direction the normalised parameter and side are the same at t and at
      t + z*period for every integer z (t strictly inside the domain), hence so are all evaluated rows *)
Theorem C08_wrap_invariance (k : list R) (p per1 : nat) (tol : R) from_right t z : (0 < per1)%nat ->
  let s := kn k (p - 1) in let e := kn k (length k - p) in s < t < e ->
  normalise k p per1 tol from_right (t + IZR z * (e - s)) = normalise k p per1 tol from_right t.
Proof. exact (wrap_invariance k p per1 tol from_right t z). Qed.
Print Assumptions C08_wrap_invariance.

(* 2. the jump between the span polynomials of adjacent spans at their common knot is a dipole that vanishes
      unless the knot is repeated q more times: degree-q pieces agree at a knot of multiplicity <= q *)
Theorem C08_pieces_agree (k : nat -> R) : sorted k -> forall m q, (q <= m)%nat -> repb k m q = false ->
  forall i, P k (S m) q i (k (S m)) = P k m q i (k (S m)).
Proof. intros Hk m q. exact (pieces_agree k Hk m q). Qed.
Print Assumptions C08_pieces_agree.

(* 3. consequently the limits from the right and from the left of every B-spline agree at such a knot
      (value continuity; derivatives follow by applying this to the lower-degree B-splines of the derivative
      recurrence, C03_recurrence_is_derivative) *)
Theorem C08_continuous_at_knot (k : nat -> R) : sorted k -> forall m q i, (q <= m)%nat ->
  k m < k (S m) -> k (S m) < k (S (S m)) -> repb k m q = false ->
  B true k q i (k (S m)) = B false k q i (k (S m)).
Proof. intros Hk m q i. exact (B_continuous_at_knot k Hk m q i). Qed.
Print Assumptions C08_continuous_at_knot.

(* 4. rolling the control net along a direction is a permutation handled by the lifting lemma: stated for any
      matrix, used by lower_periodic and by the periodic branch of split *)
Theorem C08_roll_commutes dim c (C : list (list R)) rows d N' cps :
  (d < length rows)%nat -> (c < dim)%nat -> net_ok dim rows cps -> (0 < prodl (map (@length R) rows))%nat ->
  row_rel (nth d rows []) N' C ->
  tsum (upd rows d N') (cnet dim c (apply_dir dim (map (@length R) rows) d C cps)) = tsum rows (cnet dim c cps).
Proof. exact (tsum_apply_dir dim c C rows d N' cps). Qed.
Print Assumptions C08_roll_commutes.

(* PARTIAL.  Not proved: seam smoothness for the wrapped sums of a periodic basis (needs the periodicity of
   the ghost knots), knot/control-point round trip of split(seam) o make_periodic (refuted for continuity >= 1
   with non-uniform knots next to the seam: known finding C08-open-close-cps), and that lower_periodic
   preserves the map.  These are covered by the transcription + correspondence (L1) and by the statement
   evaluated on the implementation (L2). *)

(* non-vacuity, executed on Q: a C1-periodic quadratic with 4 functions lowered to C0 keeps its map *)
Example C08_example :
  let b := q_mkBasis 3 [-1; 0; 1; 2; 3; 4; 5; 6]%Q 2 in
  let o := q_mkObj [b] [[0;0]; [4;1]; [3;5]; [-2;2]]%Q 2 false in
  match q_obj_lower_periodic o 1 0 with
  | Ok o' => b_per1 (nth 0 (o_bases o') b) = 1%nat /\
             (match q_obj_eval (1#10000000000) o' [(5#2)%Q] with Ok v => map Qred v | Err _ => [] end)
             = (match q_obj_eval (1#10000000000) o [(5#2)%Q] with Ok v => map Qred v | Err _ => [] end)
  | Err _ => False
  end.
Proof. vm_compute. split; reflexivity. Qed.
