(* C18 — Global numbering is a consistent bijection; IFEM orientation flags determine the orientation.
   Model: Model/Numbering.v (patches in insertion order; a control point contained in no earlier patch gets the next
   free number in the patch's own C-order, the others carry the number of the first patch containing them).
   The exported face list and the OpenFOAM ordering are checked at the implementation level only. *)
From Coq Require Import List Arith Lia Bool.
From SplipyModel Require Import Model.Numbering Model.Orient Proofs.OrientProofs Proofs.NumberingProofs Extract.Exec.
Import ListNotations.

(* 1. two control points anywhere in the model carry the same global number exactly when they are the same
      geometric point, and every number is below ncps *)
Theorem C18_numbering_consistent ps nss ncps : number_model ps = (nss, ncps) ->
  length nss = length ps /\
  (forall a i b j, a < length ps -> i < length (nth a ps []) -> b < length ps -> j < length (nth b ps []) ->
     (nth i (nth a nss []) 0 = nth j (nth b nss []) 0 <-> nth i (nth a ps []) 0 = nth j (nth b ps []) 0)) /\
  (forall a i, a < length ps -> i < length (nth a ps []) -> nth i (nth a nss []) 0 < ncps).
Proof. exact (numbering_correct ps nss ncps). Qed.
Print Assumptions C18_numbering_consistent.

(* 2. the numbers used are exactly 0 .. ncps-1 *)
Theorem C18_numbering_surjective ps nss ncps : number_model ps = (nss, ncps) ->
  forall v, v < ncps -> exists a i, a < length ps /\ i < length (nth a ps []) /\ nth i (nth a nss []) 0 = v.
Proof. exact (numbering_surjective ps nss ncps). Qed.
Print Assumptions C18_numbering_surjective.

(* 3. the IFEM orientation flag written for an interface determines the relative orientation (2 / 8 cases) *)
Theorem C18_ifem_flag_injective n : 1 <= n <= 2 ->
  forallb (fun a => forallb (fun b => implb (match oifem a, oifem b with Some x, Some y => x =? y | _, _ => false end) (orient_eqb a b))
                            (all_orients n)) (all_orients n) = true.
Proof. exact (ifem_flag_injective n). Qed.
Print Assumptions C18_ifem_flag_injective.

(* non-vacuity: two patches sharing two points *)
Example C18_example : number_model [[10; 11; 12; 13]; [12; 13; 14; 15]; [15; 10]] = ([[0; 1; 2; 3]; [2; 3; 4; 5]; [5; 0]], 6).
Proof. vm_compute. reflexivity. Qed.

(* ------------------------------------------------------------------------------------------------------
   Added in build session 4 (statements re-stated from the proof files by harness tooling; each is closed by
   exact). *)
From SplipyModel Require Import Model.Faces Proofs.FacesProofs Model.Orient Model.Faces2 Proofs.Faces2Proofs Model.OFoam Proofs.OFoamProofs.
Theorem C18_cell_numbers_bijection :
  forall (shs : list idx3) (nums : list (list nat)) (n : nat),
         cell_numbers_model shs = (nums, n) ->
         n = total_cells shs /\
         NoDup (concat nums) /\
         length (concat nums) = n /\
         (forall v : nat, In v (concat nums) <-> v < n) /\
         (forall v : nat, v < n -> count_occ Nat.eq_dec (concat nums) v = 1).
Proof. exact @cell_numbers_bijection. Qed.
Print Assumptions C18_cell_numbers_bijection.

Theorem C18_face_count :
  forall start nx ny nz : nat,
         1 <= nx ->
         1 <= ny ->
         1 <= nz ->
         length (internal_faces_all start (nx, ny, nz)) = 3 * nx * ny * nz - (ny * nz + nx * nz + nx * ny) /\
         length (internal_faces_all start (nx, ny, nz)) + (ny * nz + nx * nz + nx * ny) = 3 * nx * ny * nz /\
         length (boundary_faces_all start (nx, ny, nz)) = 2 * (ny * nz + nx * nz + nx * ny) /\
         length (patch_faces start (nx, ny, nz)) = 3 * nx * ny * nz + (ny * nz + nx * nz + nx * ny).
Proof. exact @face_count. Qed.
Print Assumptions C18_face_count.

Theorem C18_internal_face_owner_neighbor :
  forall (start : nat) (sh : idx3) (f : Faces.face),
         In f (internal_faces_all start sh) ->
         exists (d : nat) (q : idx3),
           d < 3 /\
           In f (internal_faces start sh d) /\
           in_cells sh q /\
           in_cells sh (add_e d q) /\
           owner f = cell_number start sh q /\
           neighbor f = Some (cell_number start sh (add_e d q)) /\
           cell_number start sh q < cell_number start sh (add_e d q) /\
           cell_number start sh (add_e d q) = cell_number start sh q + stride sh d /\ adjacent q (add_e d q).
Proof. exact @internal_face_owner_neighbor. Qed.
Print Assumptions C18_internal_face_owner_neighbor.

Theorem C18_adjacent_cells_have_face :
  forall (start : nat) (sh c c' : idx3),
         in_cells sh c ->
         in_cells sh c' ->
         adjacent c c' ->
         exists f : Faces.face,
           In f (internal_faces_all start sh) /\
           (owner f = cell_number start sh c /\ neighbor f = Some (cell_number start sh c') \/
            owner f = cell_number start sh c' /\ neighbor f = Some (cell_number start sh c)).
Proof. exact @adjacent_cells_have_face. Qed.
Print Assumptions C18_adjacent_cells_have_face.

Theorem C18_internal_pairs_NoDup :
  forall (start : nat) (sh : idx3), NoDup (map face_pair (internal_faces_all start sh)).
Proof. exact @internal_pairs_NoDup. Qed.
Print Assumptions C18_internal_pairs_NoDup.

Theorem C18_cell_six_faces :
  forall (start : nat) (sh c : idx3),
         pos_shape sh -> in_cells sh c -> length (filter (touches (cell_number start sh c)) (patch_faces start sh)) = 6.
Proof. exact @cell_six_faces. Qed.
Print Assumptions C18_cell_six_faces.

Theorem C18_internal_face_nodes :
  forall (start : nat) (sh : idx3) (d : nat) (f : Faces.face),
         d < 3 ->
         In f (internal_faces start sh d) ->
         exists q : idx3,
           in_cells sh q /\
           in_cells sh (add_e d q) /\
           owner f = cell_number start sh q /\
           neighbor f = Some (cell_number start sh (add_e d q)) /\
           (forall p : idx3, In p (nodes f) <-> In p (corners q) /\ In p (corners (add_e d q))) /\
           NoDup (nodes f) /\ (forall p : idx3, In p (nodes f) -> in_cps sh p).
Proof. exact @internal_face_nodes. Qed.
Print Assumptions C18_internal_face_nodes.

Theorem C18_boundary_lower_face_nodes :
  forall (start : nat) (sh : idx3) (d : nat) (f : Faces.face),
         d < 3 ->
         pos_shape sh ->
         In f (boundary_faces start sh d false) ->
         exists q : idx3,
           in_cells sh q /\
           get d q = 0 /\
           owner f = cell_number start sh q /\
           neighbor f = None /\
           (forall p : idx3, In p (nodes f) <-> In p (corners q) /\ get d p = 0) /\
           NoDup (nodes f) /\ (forall p : idx3, In p (nodes f) -> in_cps sh p).
Proof. exact @boundary_lower_face_nodes. Qed.
Print Assumptions C18_boundary_lower_face_nodes.

Theorem C18_boundary_upper_face_nodes :
  forall (start : nat) (sh : idx3) (d : nat) (f : Faces.face),
         d < 3 ->
         pos_shape sh ->
         In f (boundary_faces start sh d true) ->
         exists q : idx3,
           in_cells sh q /\
           S (get d q) = get d sh /\
           owner f = cell_number start sh q /\
           neighbor f = None /\
           (forall p : idx3, In p (nodes f) <-> In p (corners q) /\ get d p = get d sh) /\
           NoDup (nodes f) /\ (forall p : idx3, In p (nodes f) -> in_cps sh p).
Proof. exact @boundary_upper_face_nodes. Qed.
Print Assumptions C18_boundary_upper_face_nodes.

Theorem C18_internal_face_orientation :
  forall (start : nat) (sh : idx3) (d : nat) (f : Faces.face),
         d < 3 ->
         In f (internal_faces start sh d) ->
         normal f = zunit d /\
         normal012 f = zunit d /\
         BinInt.Z.lt BinNums.Z0 (zget d (normal f)) /\
         (exists q : idx3,
            in_cells sh q /\
            in_cells sh (add_e d q) /\
            owner f = cell_number start sh q /\
            neighbor f = Some (cell_number start sh (add_e d q)) /\ normal f = vsub (zpt (add_e d q)) (zpt q)).
Proof. exact @internal_face_orientation. Qed.
Print Assumptions C18_internal_face_orientation.

Theorem C18_boundary_upper_face_orientation :
  forall (start : nat) (sh : idx3) (d : nat) (f : Faces.face),
         d < 3 ->
         pos_shape sh ->
         In f (boundary_faces start sh d true) ->
         normal f = zunit d /\ normal012 f = zunit d /\ BinInt.Z.lt BinNums.Z0 (zget d (normal f)).
Proof. exact @boundary_upper_face_orientation. Qed.
Print Assumptions C18_boundary_upper_face_orientation.

Theorem C18_boundary_lower_face_orientation :
  forall (start : nat) (sh : idx3) (d : nat) (f : Faces.face),
         d < 3 ->
         pos_shape sh ->
         In f (boundary_faces start sh d false) ->
         normal f = vneg (zunit d) /\ normal012 f = vneg (zunit d) /\ BinInt.Z.lt (zget d (normal f)) BinNums.Z0.
Proof. exact @boundary_lower_face_orientation. Qed.
Print Assumptions C18_boundary_lower_face_orientation.

Theorem C18_owner_below_neighbour :
  forall (start : nat) (sh : idx3) (f : Faces.face),
         pos_shape sh ->
         In f (patch_faces start sh) -> match neighbor f with
                                        | Some m => owner f < m
                                        | None => True
                                        end.
Proof. exact @faces_final_assert. Qed.
Print Assumptions C18_owner_below_neighbour.

Theorem C18_no_face_twice :
  forall (start : nat) (sh : idx3), pos_shape sh -> NoDup (map face_key (patch_faces start sh)).
Proof. exact @patch_faces_key_NoDup. Qed.
Print Assumptions C18_no_face_twice.

Theorem C18_interface_closed_form :
  forall g : gluing,
         wf_gluing g -> interface_faces g = map (iface2 g) (layer_cells (g_shA g) (g_dA g) (g_sideA g)).
Proof. exact @interface_closed. Qed.
Print Assumptions C18_interface_closed_form.

Theorem C18_interface_neighbor_adjacent :
  forall g : gluing,
         wf_gluing g ->
         forall f : Faces.face,
         In f (interface_faces g) ->
         exists a c : idx3,
           in_cells (g_shA g) a /\
           on_layer (g_shA g) (g_dA g) (g_sideA g) a = true /\
           in_cells (g_shB g) c /\
           on_layer (g_shB g) (g_dB g) (g_sideB g) c = true /\
           owner f = cell_number (g_startA g) (g_shA g) a /\
           neighbor f = Some (cell_number (g_startB g) (g_shB g) c) /\
           inface (g_dB g) c = osrc (face_orient g) (face_shape (g_shB g) (g_dB g)) (inface (g_dA g) a) /\
           (forall v : vec, In v (map (embB g) (corners c)) <-> In v (zcorners (across g a))).
Proof. exact @interface_neighbor_adjacent. Qed.
Print Assumptions C18_interface_neighbor_adjacent.

Theorem C18_interface_pair_once :
  forall g : gluing,
         wf_gluing g ->
         disjoint_numbers g ->
         forall a : idx3,
         in_cells (g_shA g) a ->
         on_layer (g_shA g) (g_dA g) (g_sideA g) a = true ->
         length
           (filter (joins (cell_number (g_startA g) (g_shA g) a) (cell_number (g_startB g) (g_shB g) (nbr_cell g a)))
              (model_faces g)) = 1.
Proof. exact @interface_pair_once. Qed.
Print Assumptions C18_interface_pair_once.

Theorem C18_cross_pair_is_interface :
  forall g : gluing,
         wf_gluing g ->
         disjoint_numbers g ->
         forall a c : idx3,
         in_cells (g_shA g) a ->
         in_cells (g_shB g) c ->
         0 <
         length
           (filter (joins (cell_number (g_startA g) (g_shA g) a) (cell_number (g_startB g) (g_shB g) c))
              (model_faces g)) ->
         on_layer (g_shA g) (g_dA g) (g_sideA g) a = true /\
         c = nbr_cell g a /\ on_layer (g_shB g) (g_dB g) (g_sideB g) c = true.
Proof. exact @cross_pair_is_interface. Qed.
Print Assumptions C18_cross_pair_is_interface.

Theorem C18_two_patch_cellA_six_faces :
  forall g : gluing,
         wf_gluing g ->
         disjoint_numbers g ->
         forall a : idx3,
         in_cells (g_shA g) a -> length (filter (touches (cell_number (g_startA g) (g_shA g) a)) (model_faces g)) = 6.
Proof. exact @cellA_six_faces. Qed.
Print Assumptions C18_two_patch_cellA_six_faces.

Theorem C18_two_patch_cellB_six_faces :
  forall g : gluing,
         wf_gluing g ->
         disjoint_numbers g ->
         forall c : idx3,
         in_cells (g_shB g) c -> length (filter (touches (cell_number (g_startB g) (g_shB g) c)) (model_faces g)) = 6.
Proof. exact @cellB_six_faces. Qed.
Print Assumptions C18_two_patch_cellB_six_faces.

Theorem C18_interface_owner_below_neighbour_iff :
  forall g : gluing,
         wf_gluing g ->
         disjoint_numbers g ->
         forall (f : Faces.face) (m : nat),
         In f (interface_faces g) -> neighbor f = Some m -> owner f < m <-> g_startA g < g_startB g.
Proof. exact @interface_assert_iff. Qed.
Print Assumptions C18_interface_owner_below_neighbour_iff.

Theorem C18_two_patch_final_assert :
  forall g : gluing,
         wf_gluing g ->
         forall f : Faces.face,
         g_startA g + ncells (g_shA g) <= g_startB g ->
         In f (model_faces g) -> match neighbor f with
                                 | Some m => owner f < m
                                 | None => True
                                 end.
Proof. exact @model_faces_final_assert. Qed.
Print Assumptions C18_two_patch_final_assert.

Theorem C18_interface_face_orientation :
  forall g : gluing,
         wf_gluing g ->
         forall f : Faces.face,
         In f (interface_faces g) ->
         exists a : idx3,
           in_cells (g_shA g) a /\
           on_layer (g_shA g) (g_dA g) (g_sideA g) a = true /\
           owner f = cell_number (g_startA g) (g_shA g) a /\
           neighbor f = Some (cell_number (g_startB g) (g_shB g) (nbr_cell g a)) /\
           normal f = (if g_sideA g then zunit (g_dA g) else vneg (zunit (g_dA g))) /\
           normal012 f = normal f /\
           normal f = vsub (across g a) (zpt a) /\
           (if g_sideA g
            then BinInt.Z.lt BinNums.Z0 (zget (g_dA g) (normal f))
            else BinInt.Z.lt (zget (g_dA g) (normal f)) BinNums.Z0).
Proof. exact @interface_face_orientation. Qed.
Print Assumptions C18_interface_face_orientation.

Theorem C18_interface_face_nodes :
  forall g : gluing,
         wf_gluing g ->
         forall f : Faces.face,
         In f (interface_faces g) ->
         exists a : idx3,
           in_cells (g_shA g) a /\
           on_layer (g_shA g) (g_dA g) (g_sideA g) a = true /\
           owner f = cell_number (g_startA g) (g_shA g) a /\
           NoDup (nodes f) /\
           (forall p : idx3,
            In p (nodes f) <->
            In p (corners a) /\ get (g_dA g) p = side_index (get (g_dA g) (cpshape (g_shA g))) (g_sideA g)).
Proof. exact @interface_face_nodes. Qed.
Print Assumptions C18_interface_face_nodes.

Theorem C18_two_patch_face_count :
  forall g : gluing,
         wf_gluing g ->
         nperslice (g_shB g) (g_dB g) = nperslice (g_shA g) (g_dA g) /\
         length (model_faces g) + nperslice (g_shA g) (g_dA g) =
         length (patch_faces (g_startA g) (g_shA g)) + length (patch_faces (g_startB g) (g_shB g)).
Proof. exact @model_face_count. Qed.
Print Assumptions C18_two_patch_face_count.

Theorem C18_ofoam_order_perm :
  forall faces : list face, Permutation.Permutation faces (ofoam_order faces).
Proof. exact @ofoam_order_perm. Qed.
Print Assumptions C18_ofoam_order_perm.

Theorem C18_ofoam_order_sorted :
  forall faces : list face, Sorted.StronglySorted face_le (ofoam_order faces).
Proof. exact @ofoam_order_sorted. Qed.
Print Assumptions C18_ofoam_order_sorted.

Theorem C18_ofoam_internal_first :
  forall faces : list face,
         ofoam_order faces = filter is_internal (ofoam_order faces) ++ filter is_boundary (ofoam_order faces).
Proof. exact @ofoam_internal_first. Qed.
Print Assumptions C18_ofoam_internal_first.

Theorem C18_ofoam_internal_index :
  forall (faces : list face) (i : nat) (f : face),
         nth_error (ofoam_order faces) i = Some f -> is_internal f = true <-> i < n_internal faces.
Proof. exact @ofoam_internal_index. Qed.
Print Assumptions C18_ofoam_internal_index.

Theorem C18_ofoam_internal_before_boundary :
  forall (faces : list face) (i j : nat) (f g : face),
         nth_error (ofoam_order faces) i = Some f ->
         nth_error (ofoam_order faces) j = Some g -> f_name f = None -> f_name g <> None -> i < j.
Proof. exact @ofoam_internal_before_boundary. Qed.
Print Assumptions C18_ofoam_internal_before_boundary.

Theorem C18_ofoam_internal_sorted :
  forall faces : list face, Sorted.StronglySorted own_nb_le (firstn (n_internal faces) (ofoam_order faces)).
Proof. exact @ofoam_internal_sorted. Qed.
Print Assumptions C18_ofoam_internal_sorted.

Theorem C18_ofoam_same_name_sorted :
  forall (faces : list face) (n : option nat),
         Sorted.StronglySorted own_nb_le (filter (has_name n) (ofoam_order faces)).
Proof. exact @ofoam_same_name_sorted. Qed.
Print Assumptions C18_ofoam_same_name_sorted.

Theorem C18_ofoam_names_increasing :
  forall faces : list face,
         Sorted.StronglySorted (fun x y : face => name_le (f_name x) (f_name y)) (ofoam_order faces).
Proof. exact @ofoam_names_increasing. Qed.
Print Assumptions C18_ofoam_names_increasing.

Theorem C18_ofoam_same_name_contiguous :
  forall (faces : list face) (i j k : nat) (f g h : face),
         i <= j ->
         j <= k ->
         nth_error (ofoam_order faces) i = Some f ->
         nth_error (ofoam_order faces) j = Some g ->
         nth_error (ofoam_order faces) k = Some h -> f_name f = f_name h -> f_name g = f_name f.
Proof. exact @ofoam_same_name_contiguous. Qed.
Print Assumptions C18_ofoam_same_name_contiguous.

Theorem C18_ofoam_order_stable :
  forall (faces : list face) (f0 : face), filter (same_key f0) (ofoam_order faces) = filter (same_key f0) faces.
Proof. exact @ofoam_order_stable. Qed.
Print Assumptions C18_ofoam_order_stable.

Theorem C18_groupby_name_spec :
  forall l : list face,
         concat (map snd (groupby_name l)) = l /\
         Forall group_ok (groupby_name l) /\ adj_diff (map fst (groupby_name l)).
Proof. exact @groupby_name_spec. Qed.
Print Assumptions C18_groupby_name_spec.

Theorem C18_ofoam_blocks_names_increasing :
  forall faces : list face, Sorted.StronglySorted lt (map b_name (boundary_blocks (ofoam_order faces))).
Proof. exact @ofoam_blocks_names_increasing. Qed.
Print Assumptions C18_ofoam_blocks_names_increasing.

Theorem C18_ofoam_blocks_count :
  forall faces : list face,
         length (boundary_blocks (ofoam_order faces)) = declared_blocks faces /\
         declared_blocks (ofoam_order faces) = declared_blocks faces.
Proof. exact @ofoam_blocks_count. Qed.
Print Assumptions C18_ofoam_blocks_count.

Theorem C18_ofoam_blocks_names :
  forall (faces : list face) (n : nat),
         In n (map b_name (boundary_blocks (ofoam_order faces))) <-> (exists f : face, In f faces /\ f_name f = Some n).
Proof. exact @ofoam_blocks_names. Qed.
Print Assumptions C18_ofoam_blocks_names.

Theorem C18_ofoam_blocks_first_start :
  forall (faces : list face) (b : block),
         hd_error (boundary_blocks (ofoam_order faces)) = Some b -> b_start b = n_internal faces.
Proof. exact @ofoam_blocks_first_start. Qed.
Print Assumptions C18_ofoam_blocks_first_start.

Theorem C18_ofoam_blocks_next_start :
  forall (faces : list face) (i : nat) (b b' : block),
         nth_error (boundary_blocks (ofoam_order faces)) i = Some b ->
         nth_error (boundary_blocks (ofoam_order faces)) (S i) = Some b' -> b_start b' = b_start b + b_nfaces b.
Proof. exact @ofoam_blocks_next_start. Qed.
Print Assumptions C18_ofoam_blocks_next_start.

Theorem C18_ofoam_blocks_total :
  forall faces : list face,
         total_nfaces (boundary_blocks (ofoam_order faces)) = length (filter is_boundary faces) /\
         n_internal faces + total_nfaces (boundary_blocks (ofoam_order faces)) = length faces.
Proof. exact @ofoam_blocks_total. Qed.
Print Assumptions C18_ofoam_blocks_total.

Theorem C18_ofoam_blocks_cover :
  forall (faces : list face) (b : block),
         In b (boundary_blocks (ofoam_order faces)) ->
         0 < b_nfaces b /\
         n_internal faces <= b_start b /\
         b_start b + b_nfaces b <= length faces /\
         (forall i : nat,
          b_start b <= i < b_start b + b_nfaces b ->
          exists f : face, nth_error (ofoam_order faces) i = Some f /\ f_name f = Some (b_name b)).
Proof. exact @ofoam_blocks_cover. Qed.
Print Assumptions C18_ofoam_blocks_cover.

Theorem C18_ofoam_blocks_cover_conv :
  forall (faces : list face) (i : nat) (f : face) (n : nat),
         nth_error (ofoam_order faces) i = Some f ->
         f_name f = Some n ->
         exists b : block,
           In b (boundary_blocks (ofoam_order faces)) /\ b_name b = n /\ b_start b <= i < b_start b + b_nfaces b.
Proof. exact @ofoam_blocks_cover_conv. Qed.
Print Assumptions C18_ofoam_blocks_cover_conv.

