(* C18 — Global numbering is a consistent bijection; IFEM orientation flags determine the orientation.
   Model: Model/Numbering.v (patches in insertion order; a control point contained in no earlier patch gets the next
   free number in the patch's own C-order, the others carry the number of the first patch containing them).
   The exported face list and the OpenFOAM ordering are checked at the implementation level only. *)
From Coq Require Import List Arith Lia Bool.
From SplipyModel Require Import Model.Numbering Model.Orient Proofs.OrientProofs Proofs.NumberingProofs Extract.Exec.
Import ListNotations.

(* 1. two control points anywhere in the model carry the same global number exactly when they are the same
      geometric point, and every number is below ncps *)
Theorem C18_numbering_consistent ps nss ncps : number_model ps = (nss, ncps) ->
  length nss = length ps /\
  (forall a i b j, a < length ps -> i < length (nth a ps []) -> b < length ps -> j < length (nth b ps []) ->
     (nth i (nth a nss []) 0 = nth j (nth b nss []) 0 <-> nth i (nth a ps []) 0 = nth j (nth b ps []) 0)) /\
  (forall a i, a < length ps -> i < length (nth a ps []) -> nth i (nth a nss []) 0 < ncps).
Proof. exact (numbering_correct ps nss ncps). Qed.
Print Assumptions C18_numbering_consistent.

(* 2. the numbers used are exactly 0 .. ncps-1 *)
Theorem C18_numbering_surjective ps nss ncps : number_model ps = (nss, ncps) ->
  forall v, v < ncps -> exists a i, a < length ps /\ i < length (nth a ps []) /\ nth i (nth a nss []) 0 = v.
Proof. exact (numbering_surjective ps nss ncps). Qed.
Print Assumptions C18_numbering_surjective.

(* 3. the IFEM orientation flag written for an interface determines the relative orientation (2 / 8 cases) *)
Theorem C18_ifem_flag_injective n : 1 <= n <= 2 ->
  forallb (fun a => forallb (fun b => implb (match oifem a, oifem b with Some x, Some y => x =? y | _, _ => false end) (orient_eqb a b))
                            (all_orients n)) (all_orients n) = true.
Proof. exact (ifem_flag_injective n). Qed.
Print Assumptions C18_ifem_flag_injective.

(* non-vacuity: two patches sharing two points *)
Example C18_example : number_model [[10; 11; 12; 13]; [12; 13; 14; 15]; [15; 10]] = ([[0; 1; 2; 3]; [2; 3; 4; 5]; [5; 0]], 6).
Proof. vm_compute. reflexivity. Qed.
