(* C02 — Object evaluation equals the tensor-product NURBS definition on its domain.
   Model: Model/Obj.v (validate, rows_at, eval_h = teval, obj_eval), Model/Tensor.v. *)
From Coq Require Import List Arith Reals Lra Lia Bool ZArith QArith Qreals.
From SplipyModel Require Import Spec.BSpline Spec.Deriv Model.Num Model.BasisDef Model.BasisEval Model.Tensor Model.Obj
  Proofs.Bridge Proofs.EvalConsequences Proofs.TensorLemmas Proofs.TensorApply Proofs.SnapSpec Proofs.ObjEval Proofs.Greville Proofs.OrderRaise Proofs.EvalEndToEnd
  Transfer.ParamBase Transfer.ParamObj Extract.Exec.
Import ListNotations.
Open Scope R_scope.

(* 1. curves: the evaluation is the defining sum  sum_i N_i(t) P_i  (coordinate-wise) *)
Theorem C02_curve_is_defining_sum dim (N : list R) (cps : list (list R)) c :
  Forall (fun v => length v = dim) cps -> length cps = length N -> (c < dim)%nat ->
  coord c (teval dim [N] cps) = lc c N cps.
Proof. exact (teval_curve dim N cps c). Qed.
Print Assumptions C02_curve_is_defining_sum.

(* 1b. END TO END on the model's own [obj_eval], any parametric dimension: for a well-formed object with non-periodic
       directions and a parameter tuple of its domain, the result is the tensor-product defining sum
         sum_{i1} ... sum_{in}  N_i1(t1) ... N_in(tn)  P_{i1...in}        ([tsum], row-major control net)
       of Cox-de Boor values at the normalised parameter/side of each direction, divided by the same sum of the weights
       when the object is rational *)
Theorem C02_evaluate_is_tensor_product_sum tol (o : obj R) (ts : list R) :
  0 < tol -> wf_obj_R tol o ->
  (forall i, (i < length (o_bases o))%nat -> b_per1 (nth i (o_bases o) dflt_basis) = 0%nat) ->
  (forall i, (i < length (o_bases o))%nat -> in_dom tol (nth i (o_bases o) dflt_basis) (nth i ts 0)) ->
  let rows := ref_rows tol o ts in
  let r := map (fun c => tsum rows (cnet (@o_ncomp R o) c (o_cps o))) (seq 0 (@o_ncomp R o)) in
  @obj_eval R NumR tol o ts = Ok (if o_rat o then @project_rat R NumR (o_dim o) r else r).
Proof. intros Htol Hwf Hnp Hdom. exact (obj_eval_is_tensor_sum tol Htol o Hwf Hnp ts Hdom). Qed.
Print Assumptions C02_evaluate_is_tensor_product_sum.

(* 2. each row used by evaluate() is a vector of convex weights (non-negative, sum one, one
      entry per basis function) at every validated parameter, periodic or not *)
Theorem C02_rows_are_convex_weights (k : list R) (p per1 : nat) (tol : R) :
  sorted (kn k) -> (1 <= p)%nat -> (2 * p <= length k)%nat -> 0 < tol ->
  (0 < length k - p - per1)%nat -> 2 * tol <= kn k (length k - p) - kn k (p - 1) ->
  forall t, (per1 = 0%nat -> kn k (p - 1) <= snap1 k tol t <= kn k (length k - p)) ->
  let N := hd [] (basis_evaluate k p per1 tol 0 true [snap1 k tol t]) in
  length N = (length k - p - per1)%nat /\ Forall (fun x => 0 <= x) N /\ rsum N = 1.
Proof. intros HK Hp Hl Ht Hn Hd. exact (basis_row_convex k p per1 tol HK Hp Hl Ht Hn Hd). Qed.
Print Assumptions C02_rows_are_convex_weights.

(* 3. parameters outside a non-periodic direction raise ValueError, and nothing else does *)
Theorem C02_out_of_domain_raises (tol : R) (bs : list (basis R)) (ts : list R) :
  ((forall i, (i < length bs)%nat -> in_dom tol (nth i bs dflt_basis) (nth i ts 0)) ->
     validate tol bs ts
     = Ok (map (fun i => snap1 (b_knots (nth i bs dflt_basis)) tol (nth i ts 0)) (seq 0 (length bs)))) /\
  ((exists i, (i < length bs)%nat /\ ~ in_dom tol (nth i bs dflt_basis) (nth i ts 0)) ->
     validate tol bs ts = Err ValueError).
Proof. exact (validate_spec tol bs ts). Qed.
Print Assumptions C02_out_of_domain_raises.

(* 4. periodic directions wrap by the period (interior parameters; the seam itself is C08) *)
Theorem C02_periodic_wrap (k : list R) (p per1 : nat) (tol : R) from_right t z :
  (0 < per1)%nat ->
  let s := kn k (p - 1) in let e := kn k (length k - p) in
  s < t < e ->
  normalise k p per1 tol from_right (t + IZR z * (e - s)) = normalise k p per1 tol from_right t.
Proof. exact (wrap_invariance k p per1 tol from_right t z). Qed.
Print Assumptions C02_periodic_wrap.

(* 5. a curve whose control points are the Greville abscissae of a non-periodic basis is the identity *)
Theorem C02_greville_identity (k : list R) (p : nat) :
  sorted (kn k) -> (2 <= p)%nat -> forall side t mu,
  (0 < length k - p)%nat -> (p <= mu <= length k - p)%nat ->
  in_span side (kn k (mu - 1)) (kn k mu) t ->
  sumf (fun c => greville k p c * nth c (ref_row side k p 0 0 t) 0) 0 (length k - p) = t.
Proof. intros HK Hp. exact (greville_row_identity k p HK Hp). Qed.
Print Assumptions C02_greville_identity.

(* 6. every evaluated point of a non-rational object lies in the box of its control points *)
Theorem C02_bounding_box tol (o : obj R) ts v c lo hi :
  0 < tol -> wf_obj_R tol o -> o_rat o = false -> (c < o_dim o)%nat ->
  Forall (fun P => lo <= coord c P <= hi) (o_cps o) ->
  obj_eval tol o ts = Ok v -> lo <= coord c v <= hi.
Proof. exact (obj_eval_bbox tol o ts v c lo hi). Qed.
Print Assumptions C02_bounding_box.

(* 7. the executed (Q) instance is the proved (R) instance *)
Theorem C02_executed_is_proved (tol : Q) (o : obj Q) (ts : list Q) :
  resmap (map Q2R) (q_obj_eval tol o ts) = @obj_eval R NumR (Q2R tol) (objQ2R o) (map Q2R ts).
Proof. exact (obj_eval_transfer tol o ts). Qed.
Print Assumptions C02_executed_is_proved.

(* non-vacuity: a rational biquadratic-by-linear surface evaluates inside its domain and raises outside *)
Example C02_example :
  let bu := q_mkBasis 3 [0; 0; 0; 1; 2; 2; 2]%Q 0 in
  let bv := q_mkBasis 2 [0; 0; 1; 1]%Q 0 in
  let o := q_mkObj [bu; bv]
             [[0;0;1]; [0;2;1]; [1;0;2]; [2;4;2]; [3;1;1]; [3;3;1]; [8;0;2]; [8;8;2]]%Q 2 true in
  (match q_obj_eval (1#10000000000) o [1; 1#2]%Q with Ok v => map Qred v | Err _ => [] end) = [(3#2); (4#3)]%Q /\
  q_obj_eval (1#10000000000) o [5#2; 1#2]%Q = Err ValueError.
Proof. vm_compute. split; reflexivity. Qed.

(* ------------------------------------------------------------------------------------------------------
   Added in build session 4 (statements re-stated from the proof files by harness tooling; each is closed by
   exact). *)
From SplipyModel Require Import Model.EvalForms Proofs.EvalFormsProofs Transfer.ParamObj Transfer.ParamOps Transfer.ParamOps2 Model.DefaultObj Proofs.DefaultObjProofs.
Open Scope R_scope.
Theorem C02_grid_spec :
  forall (F : Type) (H : Num F) (tol : F) (o : obj F) (lists g : list (list F)),
         obj_eval_grid tol o lists = Ok g ->
         length g = prodl (map (length (A:=F)) lists) /\
         (forall idx : list nat,
          Forall2 (fun (l : list F) (i : nat) => (i < length l)%nat) lists idx ->
          obj_eval tol o (tuple_at lists idx) = Ok (nth (ravel (map (length (A:=F)) lists) idx) g [])).
Proof. exact @grid_spec. Qed.
Print Assumptions C02_grid_spec.

Theorem C02_pointwise_is_grid_diagonal :
  forall (F : Type) (H : Num F) (tol : F) (o : obj F) (lists : list (list F)) (m : nat) (g : list (list F)),
         lists <> [] ->
         (forall l : list F, In l lists -> length l = m) ->
         obj_eval_grid tol o lists = Ok g ->
         obj_eval_pointwise tol o lists = Ok (map (fun i : nat => nth (i * gsum m (length lists)) g []) (seq 0 m)).
Proof. exact @pointwise_diagonal. Qed.
Print Assumptions C02_pointwise_is_grid_diagonal.

Theorem C02_pointwise_unequal_lengths :
  forall (F : Type) (H : Num F) (tol : F) (o : obj F) (l0 : list F) (rest : list (list F)),
         (exists l : list F, In l rest /\ length l <> length l0) ->
         obj_eval_pointwise tol o (l0 :: rest) = Err ValueError.
Proof. exact @pointwise_unequal. Qed.
Print Assumptions C02_pointwise_unequal_lengths.

Theorem C02_singleton_lists_give_one_point :
  forall (F : Type) (H : Num F) (tol : F) (o : obj F) (ts : list F),
         obj_eval_grid tol o (map (fun t : F => [t]) ts) =
         match obj_eval tol o ts with
         | Ok v => Ok [v]
         | Err e => Err e
         end.
Proof. exact @grid_singletons. Qed.
Print Assumptions C02_singleton_lists_give_one_point.

Theorem C02_scalars_give_one_point :
  forall (F : Type) (H : Num F) (tol : F) (o : obj F) (ts : list F),
         obj_eval_scalars tol o ts = obj_eval tol o ts.
Proof. exact @scalars_eval. Qed.
Print Assumptions C02_scalars_give_one_point.

Theorem C02_grid_value_error_iff :
  forall (tol : R) (o : obj R) (lists : list (list R)),
         length lists = o_pardim o ->
         (obj_eval_grid tol o lists = Err ValueError <->
          (exists i : nat,
             (i < o_pardim o)%nat /\
             b_per1 (nth i (o_bases o) dflt_basis) = 0%nat /\
             (nth i lists [] = [] \/
              (exists t : R, In t (nth i lists []) /\ ~ in_dom tol (nth i (o_bases o) dflt_basis) t)))) /\
         ((forall i : nat,
           (i < o_pardim o)%nat ->
           b_per1 (nth i (o_bases o) dflt_basis) = 0%nat ->
           nth i lists [] <> [] /\ (forall t : R, In t (nth i lists []) -> in_dom tol (nth i (o_bases o) dflt_basis) t)) ->
          exists g : list (list R), obj_eval_grid tol o lists = Ok g).
Proof. exact @grid_value_error_iff. Qed.
Print Assumptions C02_grid_value_error_iff.

Theorem C02_executed_is_proved_grid :
  forall (tol : Q) (o : obj Q) (lists : list (list Q)),
         resmap (map (map Q2R)) (obj_eval_grid tol o lists) = obj_eval_grid (Q2R tol) (objQ2R o) (map (map Q2R) lists).
Proof. exact @obj_eval_grid_transfer. Qed.
Print Assumptions C02_executed_is_proved_grid.

Theorem C02_executed_is_proved_pointwise :
  forall (tol : Q) (o : obj Q) (lists : list (list Q)),
         resmap (map (map Q2R)) (obj_eval_pointwise tol o lists) =
         obj_eval_pointwise (Q2R tol) (objQ2R o) (map (map Q2R) lists).
Proof. exact @obj_eval_pointwise_transfer. Qed.
Print Assumptions C02_executed_is_proved_pointwise.

Theorem C02_default_object_is_identity :
  forall tol : R,
         0 < tol ->
         forall bases : list (basis R),
         Forall (wf_basis_R tol) bases ->
         (forall i : nat, (i < length bases)%nat -> b_per1 (nth i bases dflt_basis) = 0%nat) ->
         (forall i : nat, (i < length bases)%nat -> (2 <= b_order (nth i bases dflt_basis))%nat) ->
         forall ts : list R,
         (forall i : nat, (i < length bases)%nat -> in_dom tol (nth i bases dflt_basis) (nth i ts 0)) ->
         obj_eval tol (default_obj bases) ts = Ok (snapped_point tol bases ts (default_dim bases)).
Proof. exact @default_obj_identity. Qed.
Print Assumptions C02_default_object_is_identity.

Theorem C02_default_object_is_identity_coordinates :
  forall (tol : R) (bases : list (basis R)) (ts : list R),
         0 < tol ->
         Forall (wf_basis_R tol) bases ->
         (forall i : nat, (i < length bases)%nat -> b_per1 (nth i bases dflt_basis) = 0%nat) ->
         (forall i : nat, (i < length bases)%nat -> (2 <= b_order (nth i bases dflt_basis))%nat) ->
         (forall i : nat, (i < length bases)%nat -> in_dom tol (nth i bases dflt_basis) (nth i ts 0)) ->
         exists v : list R,
           obj_eval tol (default_obj bases) ts = Ok v /\
           length v = default_dim bases /\
           (forall c : nat,
            (c < length bases)%nat ->
            coord c v = snap1 (b_knots (nth c bases dflt_basis)) tol (nth c ts 0) /\
            Rabs (coord c v - nth c ts 0) < tol /\
            ((forall j : nat,
              (j < length (b_knots (nth c bases dflt_basis)))%nat ->
              ~ Rabs (kn (b_knots (nth c bases dflt_basis)) j - nth c ts 0) < tol) -> coord c v = nth c ts 0)) /\
           (forall c : nat, (length bases <= c)%nat -> coord c v = 0).
Proof. exact @default_obj_identity_coord. Qed.
Print Assumptions C02_default_object_is_identity_coordinates.

Theorem C02_default_object_is_identity_on_domain :
  forall (tol : R) (bases : list (basis R)) (ts : list R),
         0 < tol ->
         Forall (wf_basis_R tol) bases ->
         (forall i : nat, (i < length bases)%nat -> b_per1 (nth i bases dflt_basis) = 0%nat) ->
         (forall i : nat, (i < length bases)%nat -> (2 <= b_order (nth i bases dflt_basis))%nat) ->
         (forall i : nat,
          (i < length bases)%nat -> b_start (nth i bases dflt_basis) <= nth i ts 0 <= b_end (nth i bases dflt_basis)) ->
         obj_eval tol (default_obj bases) ts = Ok (snapped_point tol bases ts (default_dim bases)).
Proof. exact @default_obj_identity_on_domain. Qed.
Print Assumptions C02_default_object_is_identity_on_domain.

Theorem C02_default_rational_object_is_identity :
  forall (tol : R) (bases : list (basis R)) (ts : list R),
         0 < tol ->
         Forall (wf_basis_R tol) bases ->
         (forall i : nat, (i < length bases)%nat -> b_per1 (nth i bases dflt_basis) = 0%nat) ->
         (forall i : nat, (i < length bases)%nat -> (2 <= b_order (nth i bases dflt_basis))%nat) ->
         (forall i : nat, (i < length bases)%nat -> in_dom tol (nth i bases dflt_basis) (nth i ts 0)) ->
         obj_eval tol (default_obj_rat bases) ts = Ok (snapped_point tol bases ts (default_dim bases)).
Proof. exact @default_obj_rat_identity. Qed.
Print Assumptions C02_default_rational_object_is_identity.

Theorem C02_default_object_shape :
  forall bases : list (basis R),
         o_bases (default_obj bases) = bases /\
         o_shape (default_obj bases) = map b_nfun bases /\
         length (o_cps (default_obj bases)) = prodl (map b_nfun bases) /\
         o_dim (default_obj bases) = (if length bases =? 1 then 2%nat else length bases) /\
         o_rat (default_obj bases) = false /\
         Forall (fun P : list R => length P = o_dim (default_obj bases)) (o_cps (default_obj bases)).
Proof. exact @default_obj_shape. Qed.
Print Assumptions C02_default_object_shape.

Theorem C02_default_object_wf :
  forall (tol : R) (bases : list (basis R)), Forall (wf_basis_R tol) bases -> wf_obj_R tol (default_obj bases).
Proof. exact @default_obj_wf. Qed.
Print Assumptions C02_default_object_wf.

Theorem C02_evaluated_point_in_reported_bounding_box :
  forall (tol : R) (o : obj R) (ts v : list R),
         0 < tol ->
         wf_obj_R tol o ->
         o_rat o = false ->
         obj_eval tol o ts = Ok v ->
         length (obj_bounding_box o) = o_dim o /\
         length v = o_dim o /\
         (forall c : nat,
          (c < o_dim o)%nat ->
          fst (nth c (obj_bounding_box o) (0, 0)) <= coord c v <= snd (nth c (obj_bounding_box o) (0, 0))).
Proof. exact @eval_in_bounding_box. Qed.
Print Assumptions C02_evaluated_point_in_reported_bounding_box.

Theorem C02_bounding_box_is_control_point_box :
  forall (o : obj R) (c : nat),
         (c < o_dim o)%nat ->
         o_cps o <> [] ->
         let lohi := nth c (obj_bounding_box o) (0, 0) in
         Forall (fun P : list R => fst lohi <= coord c P <= snd lohi) (o_cps o) /\
         (exists P : list R, In P (o_cps o) /\ coord c P = fst lohi) /\
         (exists P : list R, In P (o_cps o) /\ coord c P = snd lohi).
Proof. exact @bbox_is_control_point_box. Qed.
Print Assumptions C02_bounding_box_is_control_point_box.

Theorem C02_tensor_sum_separable :
  forall rows : list (list R),
         Forall (fun N : list R => rsum N = 1) rows ->
         forall (c : nat) (g : nat -> R),
         (c < length rows)%nat ->
         tsum rows (fun flat : nat => g (nth c (unravel (map (length (A:=R)) rows) flat) 0%nat)) =
         lcf (nth c rows []) g.
Proof. exact @tsum_separable. Qed.
Print Assumptions C02_tensor_sum_separable.

