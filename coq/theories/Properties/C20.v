(* C20 — Tolerances are honoured and global settings never leak.
   Models: snap/evaluate (Model/BasisEval.v), continuity and VertexDict (Model/Tol.v), state() programs
   (Model/StateCtx.v, the repaired try/finally code). *)
From Coq Require Import List Arith Reals Lra Lia Bool ZArith.
From SplipyModel Require Import Spec.BSpline Model.Num Model.BasisDef Model.BasisEval Model.Obj Model.KnotInsert Model.Tol Model.StateCtx
  Proofs.SnapSpec Proofs.TolProofs Proofs.StateProofs.
Import ListNotations.
Open Scope R_scope.

(* 1. snap: a parameter within the tolerance of some knot becomes a knot within the tolerance; otherwise unchanged *)
Theorem C20_snap_spec (k : list R) (tol : R) : sorted (kn k) -> 0 < tol -> forall t,
  let s := snap1 k tol t in
  (exists i, (i < length k)%nat /\ s = kn k i /\ Rabs (kn k i - t) < tol) \/
  (s = t /\ forall i, (i < length k)%nat -> ~ Rabs (kn k i - t) < tol).
Proof. intros HK Ht t. exact (snap1_spec k HK tol Ht t). Qed.
Print Assumptions C20_snap_spec.

(* 2. evaluation and derivative evaluation (any order, both sides) at t is evaluation at snap(t) *)
Theorem C20_evaluate_tolerant (k : list R) p per1 tol d fr t : sorted (kn k) -> 0 < tol ->
  basis_evaluate k p per1 tol d fr [t] = basis_evaluate k p per1 tol d fr [snap1 k tol t].
Proof. exact (evaluate_tolerant k p per1 tol d fr t). Qed.
Print Assumptions C20_evaluate_tolerant.

(* 3. rounding fuzz just beyond the end of an open non-periodic domain is the end knot (no ValueError) *)
Theorem C20_fuzz_beyond_end (tol : R) (b : basis R) t :
  sorted (kn (b_knots b)) -> 0 < tol -> b_knots b <> [] -> last (b_knots b) 0 = b_end b ->
  b_end b < t -> Rabs (b_end b - t) < tol -> snap1 (b_knots b) tol t = b_end b.
Proof. exact (fuzz_beyond_end_ok tol b t). Qed.
Print Assumptions C20_fuzz_beyond_end.

(* 4. continuity(): exactly the knots in [x - tol, x + tol) are counted *)
Theorem C20_continuity_window (k : list R) (x tol : R) : sorted (kn k) -> 0 < tol ->
  let hi := py_bisect_left k (x + tol) in let lo := py_bisect_left k (x - tol) in
  (lo <= hi <= length k)%nat /\
  forall j, (j < length k)%nat -> ((lo <= j < hi)%nat <-> x - tol <= kn k j < x + tol).
Proof. exact (continuity_window k x tol). Qed.
Print Assumptions C20_continuity_window.

(* 5. vertices: a stored coordinate matches a query coordinate iff it lies in the tolerance window *)
Theorem C20_vertex_identification (rtol atol key v : R) : 0 <= rtol < 1 -> 0 <= atol -> atol <= key ->
  vd_coord_match rtol atol key v = true <-> (key - atol <= v * (1 + rtol) /\ v * (1 - rtol) < key + atol).
Proof. exact (vertexdict_window rtol atol key v). Qed.
Print Assumptions C20_vertex_identification.

(* 6. with-blocks restore every setting however the block ends, at any nesting depth *)
Theorem C20_with_restores (V : Type) (kvs : list (nat * V)) (body : prog V) (s : settings V) k :
  (k < NSTATES)%nat -> fst (exec V (With kvs body) s) k = s k.
Proof. exact (with_restores V kvs body s k). Qed.
Print Assumptions C20_with_restores.

(* 7. no program changes a setting that it does not assign at top level; library calls write nothing *)
Theorem C20_only_assign_writes (V : Type) (p : prog V) (s : settings V) k : (k < NSTATES)%nat ->
  ~ In k (top_assigned V p) -> fst (exec V p s) k = s k.
Proof. exact (only_assign_writes V p s k). Qed.
Print Assumptions C20_only_assign_writes.

(* 8. the generator-based code before the repair (a 'fix:' commit in /repo) leaked on exceptions *)
Theorem C20_with_restores_unrepaired_refuted :
  exists (p : prog nat) (s : settings nat) k, (k < NSTATES)%nat /\ fst (exec_old nat p s) k <> s k.
Proof. exact with_restores_unrepaired_refuted. Qed.
Print Assumptions C20_with_restores_unrepaired_refuted.

(* non-vacuity: a three-deep program that raises inside the innermost block *)
Example C20_example :
  let p := Seq (Assign 4%nat 1%nat) (With [(4, 2); (0, 3)]%nat (With [(1, 5)]%nat (Seq (Assign 2%nat 9%nat) (With [(4, 7)]%nat Raise)))) in
  let r := exec nat p (fun _ => 0%nat) in
  map (fst r) (seq 0 6) = [0; 0; 0; 0; 1; 0]%nat /\ snd r = Exc.
Proof. vm_compute. split; reflexivity. Qed.

(* ------------------------------------------------------------------------------------------------------
   Added in build session 4 (statements re-stated from the proof files by harness tooling; each is closed by
   exact). *)
From SplipyModel Require Import Transfer.ParamObj Transfer.ParamOps Transfer.ParamOps2.
Open Scope R_scope.
Theorem C20_executed_is_proved_continuity :
  forall (tol : QArith_base.Q) (b : basis QArith_base.Q) (x : QArith_base.Q),
         basis_continuity tol b x = basis_continuity (Q2R tol) (basisQ2R b) (Q2R x).
Proof. exact @basis_continuity_transfer. Qed.
Print Assumptions C20_executed_is_proved_continuity.

