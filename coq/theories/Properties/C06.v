(* C06 — reverse, swap and reparam are exact reparametrisations.
   Model: Model/Reparam.v.  Reference: Spec/Reparam.v. *)
From Coq Require Import List Arith Reals Lra Lia Bool ZArith QArith Qreals.
From SplipyModel Require Import Spec.BSpline Spec.Reparam Model.Num Model.BasisDef Model.BasisEval Model.Tensor Model.Obj
  Model.KnotInsert Model.Reparam Proofs.TensorLemmas Proofs.TensorApply Proofs.ReparamObj Extract.Exec.
Import ListNotations.
Open Scope R_scope.

(* 1. basis level: an increasing affine change of the knots and the parameter leaves every B-spline unchanged *)
Theorem C06_reparam_basis side al be k q : 0 < al -> forall i t,
  B side (fun j => al * k j + be) q i (al * t + be) = B side k q i t.
Proof. exact (reparam_basis side al be k q). Qed.
Print Assumptions C06_reparam_basis.

(* 2. basis level: mirroring the knots about [a,b] mirrors the functions and flips the side *)
Theorem C06_reverse_basis (k : nat -> R) : sorted k -> forall (L : nat) (a b : R) side q i t,
  (i + q + 2 <= L)%nat ->
  B side (kr k L a b) q i (a + b - t) = B (negb side) k q (L - q - 2 - i) t.
Proof. intros Hk L a b side q. exact (reverse_basis k Hk L a b side q). Qed.
Print Assumptions C06_reverse_basis.

(* 3. BSplineBasis.reparam: ValueError iff end <= start; otherwise the knots are mapped by the affine
      map onto exactly [s,e], order and periodicity untouched (so by 1 the object evaluated at the mapped
      parameter equals the old object) *)
Theorem C06_reparam_spec (b : basis R) : b_knots b <> [] -> b_start b < b_end b -> forall s e,
  (e <= s -> basis_reparam b s e = Err ValueError) /\
  (s < e -> exists b', basis_reparam b s e = Ok b' /\
      b_order b' = b_order b /\ b_per1 b' = b_per1 b /\ length (b_knots b') = length (b_knots b) /\
      (forall i, kn (b_knots b') i = (e - s) / (b_end b - b_start b) * (kn (b_knots b) i - b_start b) + s) /\
      b_start b' = s /\ b_end b' = e).
Proof. intros Hne Hdom s e. exact (basis_reparam_spec b Hne Hdom s e). Qed.
Print Assumptions C06_reparam_spec.

(* 4. BSplineBasis.reverse produces the mirrored knot function of 2 *)
Theorem C06_reverse_knots (b : basis R) i : (i < length (b_knots b))%nat -> b_start b < b_end b ->
  kn (b_knots (basis_reverse b)) i = kr (kn (b_knots b)) (length (b_knots b)) (b_start b) (b_end b) i.
Proof. exact (basis_reverse_knots b i). Qed.
Print Assumptions C06_reverse_knots.

(* 5. object level (any pardim, any non-periodic direction): reversing the control net along d together
      with the row of basis values in that direction leaves every coordinate of the evaluation unchanged *)
Theorem C06_reverse_preserves_map dim c (rows : list (list R)) d cps :
  (d < length rows)%nat -> (c < dim)%nat -> net_ok dim rows cps -> (0 < prodl (map (@length R) rows))%nat ->
  coord c (teval dim (upd rows d (rev (nth d rows [])))
             (apply_dir dim (map (@length R) rows) d (rev_matrix (length (nth d rows [])) 0) cps))
  = coord c (teval dim rows cps).
Proof. exact (reverse_preserves_map dim c rows d cps). Qed.
Print Assumptions C06_reverse_preserves_map.

(* 6. swap (surfaces): exchanging the two rows and transposing the flat net leaves the contraction unchanged *)
Theorem C06_swap_surface (N M : list R) (f : nat -> R) :
  tsum [N; M] f = tsum [M; N] (fun idx => f ((idx mod length N) * length M + idx / length N)%nat).
Proof. exact (tsum_swap2 N M f). Qed.
Print Assumptions C06_swap_surface.

(* PARTIAL: reverse on periodic directions (matrix = reversal followed by a roll of periodic+1) and swap for
   volumes are covered by the transcription + correspondence (L1) and by the map relation on the
   implementation (L2) only; the periodic analogue of 2 (wrapped sums) is not proved. *)

Example C06_example_eval :
  let b := q_mkBasis 3 [0; 0; 0; 1; 3; 3; 3]%Q 0 in
  let o := q_mkObj [b] [[0;0]; [1;2]; [3;1]; [4;4]]%Q 2 false in
  (match q_obj_eval (1#10000000000) (q_obj_reverse o 0) [(5#2)%Q] with Ok v => map Qred v | Err _ => [] end)
  = (match q_obj_eval (1#10000000000) o [(1#2)%Q] with Ok v => map Qred v | Err _ => [] end).
Proof. vm_compute. reflexivity. Qed.

(* ------------------------------------------------------------------------------------------------------
   Added in build session 4 (statements re-stated from the proof files by harness tooling; each is closed by
   exact). *)
From SplipyModel Require Import Proofs.ObjEval Proofs.ReparamEndToEnd Proofs.ReverseEndToEnd Proofs.SwapEndToEnd Transfer.ParamObj Transfer.ParamOps Transfer.ParamOps2 Proofs.PeriodicInsert Proofs.PeriodicReverse.
Open Scope R_scope.
Theorem C06_reparam_then_evaluate :
  forall (tol : R) (o : obj R) (d : nat) (s e : R) (o' : obj R) (ts : list R),
         0 < tol ->
         wf_obj_R tol o ->
         (d < length (o_bases o))%nat ->
         s < e ->
         obj_reparam_dir o d s e = Ok o' ->
         (d < length ts)%nat ->
         let bd := nth d (o_bases o) dflt_basis in
         let al := (e - s) / (b_end bd - b_start bd) in
         knot_clear (b_knots bd) (Rmax tol (tol / al)) (nth d ts 0) ->
         (b_per1 bd <> 0%nat -> b_start bd <= nth d ts 0 <= b_end bd) ->
         obj_eval tol o' (upd ts d (al * (nth d ts 0 - b_start bd) + s)) = obj_eval tol o ts.
Proof. exact @reparam_dir_eval. Qed.
Print Assumptions C06_reparam_then_evaluate.

Theorem C06_reparam_then_evaluate_scaled_tolerance :
  forall (tol : R) (o : obj R) (d : nat) (s e : R) (o' : obj R) (ts : list R),
         0 < tol ->
         wf_obj_R tol o ->
         (d < length (o_bases o))%nat ->
         s < e ->
         obj_reparam_dir o d s e = Ok o' ->
         (d < length ts)%nat ->
         let bd := nth d (o_bases o) dflt_basis in
         let al := (e - s) / (b_end bd - b_start bd) in
         (forall i : nat,
          (i < length (o_bases o))%nat ->
          i <> d ->
          let bi := nth i (o_bases o) dflt_basis in
          knot_clear (b_knots bi) (Rmax tol (al * tol)) (nth i ts 0) /\
          (b_per1 bi <> 0%nat -> b_start bi <= nth i ts 0 <= b_end bi)) ->
         obj_eval (al * tol) o' (upd ts d (al * (nth d ts 0 - b_start bd) + s)) = obj_eval tol o ts.
Proof. exact @reparam_dir_eval_scaled. Qed.
Print Assumptions C06_reparam_then_evaluate_scaled_tolerance.

Theorem C06_reparam_curve_then_evaluate :
  forall (tol : R) (o : obj R) (s e : R) (o' : obj R) (t : R),
         0 < tol ->
         wf_obj_R tol o ->
         length (o_bases o) = 1%nat ->
         s < e ->
         obj_reparam_dir o 0 s e = Ok o' ->
         let b := nth 0 (o_bases o) dflt_basis in
         let al := (e - s) / (b_end b - b_start b) in
         obj_eval (al * tol) o' [al * (t - b_start b) + s] = obj_eval tol o [t].
Proof. exact @reparam_curve_eval. Qed.
Print Assumptions C06_reparam_curve_then_evaluate.

Theorem C06_reparam_domain :
  forall (tol : R) (o : obj R) (d : nat) (s e : R) (o' : obj R),
         0 < tol ->
         wf_obj_R tol o ->
         (d < length (o_bases o))%nat ->
         s < e ->
         obj_reparam_dir o d s e = Ok o' ->
         let bd := nth d (o_bases o) dflt_basis in
         let bd' := nth d (o_bases o') dflt_basis in
         let al := (e - s) / (b_end bd - b_start bd) in
         b_start bd' = s /\
         b_end bd' = e /\
         b_order bd' = b_order bd /\
         b_per1 bd' = b_per1 bd /\
         length (b_knots bd') = length (b_knots bd) /\
         (forall i : nat, kn (b_knots bd') i = al * (kn (b_knots bd) i - b_start bd) + s) /\
         length (o_bases o') = length (o_bases o) /\
         (forall i : nat, i <> d -> nth i (o_bases o') dflt_basis = nth i (o_bases o) dflt_basis) /\
         o_cps o' = o_cps o /\ o_dim o' = o_dim o /\ o_rat o' = o_rat o.
Proof. exact @reparam_dir_domain. Qed.
Print Assumptions C06_reparam_domain.

Theorem C06_reparam_inverse :
  forall (tol : R) (o : obj R) (d : nat) (s e : R) (o' : obj R),
         0 < tol ->
         wf_obj_R tol o ->
         (d < length (o_bases o))%nat ->
         s < e ->
         obj_reparam_dir o d s e = Ok o' ->
         let bd := nth d (o_bases o) dflt_basis in obj_reparam_dir o' d (b_start bd) (b_end bd) = Ok o.
Proof. exact @reparam_dir_inverse. Qed.
Print Assumptions C06_reparam_inverse.

Theorem C06_reparam_total :
  forall (tol : R) (o : obj R) (d : nat) (s e : R),
         0 < tol ->
         wf_obj_R tol o ->
         (d < length (o_bases o))%nat ->
         (e <= s -> obj_reparam_dir o d s e = Err ValueError) /\
         (s < e -> exists o' : obj R, obj_reparam_dir o d s e = Ok o').
Proof. exact @reparam_dir_total. Qed.
Print Assumptions C06_reparam_total.

Theorem C06_reverse_then_evaluate :
  forall tol : R,
         0 < tol ->
         forall o : obj R,
         wf_obj_R tol o ->
         forall d : nat,
         (d < length (o_bases o))%nat ->
         b_per1 (nth d (o_bases o) dflt_basis) = 0%nat ->
         forall ts ts2 : list R,
         (forall i : nat, (i < length (o_bases o))%nat -> in_dom tol (nth i (o_bases o) dflt_basis) (nth i ts 0)) ->
         rev_ok (b_knots (nth d (o_bases o) dflt_basis)) (b_order (nth d (o_bases o) dflt_basis)) tol (nth d ts 0) ->
         nth d ts2 0 = b_start (nth d (o_bases o) dflt_basis) + b_end (nth d (o_bases o) dflt_basis) - nth d ts 0 ->
         (forall i : nat, i <> d -> nth i ts2 0 = nth i ts 0) -> obj_eval tol (obj_reverse o d) ts2 = obj_eval tol o ts.
Proof. exact @reverse_eval. Qed.
Print Assumptions C06_reverse_then_evaluate.

Theorem C06_reverse_then_evaluate_clear :
  forall (tol : R) (o : obj R) (d : nat) (ts : list R),
         0 < tol ->
         wf_obj_R tol o ->
         (d < length (o_bases o))%nat ->
         (d < length ts)%nat ->
         let bd := nth d (o_bases o) dflt_basis in
         let a := b_start bd in
         let e := b_end bd in
         b_per1 bd = 0%nat ->
         (forall i : nat, (i < length (o_bases o))%nat -> in_dom tol (nth i (o_bases o) dflt_basis) (nth i ts 0)) ->
         (forall v : R, In v (b_knots bd) -> tol <= Rabs (v - nth d ts 0) \/ v = a \/ v = e) ->
         obj_eval tol (obj_reverse o d) (upd ts d (a + e - nth d ts 0)) = obj_eval tol o ts.
Proof. exact @reverse_eval_clear. Qed.
Print Assumptions C06_reverse_then_evaluate_clear.

Theorem C06_reverse_then_evaluate_at_knot :
  forall (tol : R) (o : obj R) (d : nat) (ts : list R) (m r : nat),
         0 < tol ->
         wf_obj_R tol o ->
         (d < length (o_bases o))%nat ->
         (d < length ts)%nat ->
         let bd := nth d (o_bases o) dflt_basis in
         let a := b_start bd in
         let e := b_end bd in
         let K := kn (b_knots bd) in
         b_per1 bd = 0%nat ->
         (forall i : nat, (i < length (o_bases o))%nat -> in_dom tol (nth i (o_bases o) dflt_basis) (nth i ts 0)) ->
         (1 <= r)%nat ->
         (r <= b_order bd - 1)%nat ->
         (b_order bd - 1 <= m)%nat ->
         K m < K (S m) ->
         K (S m) = K (m + r)%nat ->
         K (m + r)%nat < K (S (m + r)) ->
         nth d ts 0 = K (S m) ->
         (forall v : R, In v (b_knots bd) -> v = K (S m) \/ tol <= Rabs (v - K (S m))) ->
         obj_eval tol (obj_reverse o d) (upd ts d (a + e - K (S m))) = obj_eval tol o ts.
Proof. exact @reverse_eval_knot. Qed.
Print Assumptions C06_reverse_then_evaluate_at_knot.

Theorem C06_reverse_domain :
  forall tol : R,
         0 < tol ->
         forall o : obj R,
         wf_obj_R tol o ->
         forall d : nat,
         (d < length (o_bases o))%nat ->
         b_per1 (nth d (o_bases o) dflt_basis) = 0%nat ->
         b_start (nth d (o_bases (obj_reverse o d)) dflt_basis) = b_start (nth d (o_bases o) dflt_basis) /\
         b_end (nth d (o_bases (obj_reverse o d)) dflt_basis) = b_end (nth d (o_bases o) dflt_basis) /\
         b_order (nth d (o_bases (obj_reverse o d)) dflt_basis) = b_order (nth d (o_bases o) dflt_basis) /\
         b_per1 (nth d (o_bases (obj_reverse o d)) dflt_basis) = b_per1 (nth d (o_bases o) dflt_basis) /\
         b_nfun (nth d (o_bases (obj_reverse o d)) dflt_basis) = b_nfun (nth d (o_bases o) dflt_basis) /\
         length (o_bases (obj_reverse o d)) = length (o_bases o) /\
         (forall i : nat, i <> d -> nth i (o_bases (obj_reverse o d)) dflt_basis = nth i (o_bases o) dflt_basis) /\
         (forall j : nat,
          kn (b_knots (nth d (o_bases (obj_reverse o d)) dflt_basis)) j =
          b_start (nth d (o_bases o) dflt_basis) + b_end (nth d (o_bases o) dflt_basis) -
          kn (b_knots (nth d (o_bases o) dflt_basis)) (length (b_knots (nth d (o_bases o) dflt_basis)) - 1 - j)) /\
         o_dim (obj_reverse o d) = o_dim o /\ o_rat (obj_reverse o d) = o_rat o.
Proof. exact @reverse_domain. Qed.
Print Assumptions C06_reverse_domain.

Theorem C06_reverse_wf :
  forall tol : R,
         0 < tol ->
         forall o : obj R,
         wf_obj_R tol o ->
         forall d : nat,
         (d < length (o_bases o))%nat ->
         b_per1 (nth d (o_bases o) dflt_basis) = 0%nat -> wf_obj_R tol (obj_reverse o d).
Proof. exact @reverse_wf. Qed.
Print Assumptions C06_reverse_wf.

Theorem C06_reverse_involution :
  forall (tol : R) (o : obj R) (d : nat),
         0 < tol ->
         wf_obj_R tol o ->
         (d < length (o_bases o))%nat ->
         b_per1 (nth d (o_bases o) dflt_basis) = 0%nat -> obj_reverse (obj_reverse o d) d = o.
Proof. exact @reverse_involution. Qed.
Print Assumptions C06_reverse_involution.

Theorem C06_swap_then_evaluate :
  forall (tol : R) (o : obj R),
         wf_obj_R tol o ->
         forall d1 d2 : nat,
         d1 <> d2 ->
         (d1 < length (o_bases o))%nat ->
         (d2 < length (o_bases o))%nat ->
         forall ts ts2 : list R,
         (forall i : nat, (i < length (o_bases o))%nat -> in_dom tol (nth i (o_bases o) dflt_basis) (nth i ts 0)) ->
         (forall i : nat, nth i ts2 0 = nth (tr d1 d2 i) ts 0) ->
         obj_eval tol (obj_swap o d1 d2) ts2 = obj_eval tol o ts.
Proof. exact @swap_eval. Qed.
Print Assumptions C06_swap_then_evaluate.

Theorem C06_swap_wf :
  forall (tol : R) (o : obj R),
         wf_obj_R tol o ->
         forall d1 d2 : nat,
         d1 <> d2 -> (d1 < length (o_bases o))%nat -> (d2 < length (o_bases o))%nat -> wf_obj_R tol (obj_swap o d1 d2).
Proof. exact @swap_wf. Qed.
Print Assumptions C06_swap_wf.

Theorem C06_swap_involution :
  forall (tol : R) (o : obj R) (d1 d2 : nat),
         wf_obj_R tol o ->
         d1 <> d2 ->
         (d1 < length (o_bases o))%nat -> (d2 < length (o_bases o))%nat -> obj_swap (obj_swap o d1 d2) d1 d2 = o.
Proof. exact @swap_involution. Qed.
Print Assumptions C06_swap_involution.

Theorem C06_swap_curve :
  forall (o : obj R) (d1 d2 : nat), length (o_bases o) = 1%nat -> obj_swap o d1 d2 = o.
Proof. exact @swap_curve. Qed.
Print Assumptions C06_swap_curve.

Theorem C06_executed_is_proved_reverse :
  forall (o : obj Q) (d : nat), objQ2R (obj_reverse o d) = obj_reverse (objQ2R o) d.
Proof. exact @obj_reverse_transfer. Qed.
Print Assumptions C06_executed_is_proved_reverse.

Theorem C06_executed_is_proved_swap :
  forall (o : obj Q) (d1 d2 : nat), objQ2R (obj_swap o d1 d2) = obj_swap (objQ2R o) d1 d2.
Proof. exact @obj_swap_transfer. Qed.
Print Assumptions C06_executed_is_proved_swap.

Theorem C06_executed_is_proved_reparam :
  forall (o : obj Q) (d : nat) (s e : Q),
         resmap objQ2R (obj_reparam_dir o d s e) = obj_reparam_dir (objQ2R o) d (Q2R s) (Q2R e).
Proof. exact @obj_reparam_dir_transfer. Qed.
Print Assumptions C06_executed_is_proved_reparam.

Theorem C06_reverse_periodic_canonical :
  forall (k : list R) (p per1 n : nat) (T : R),
         per_canon k p per1 n T ->
         let a := kn k (p - 1) in
         let e := kn k (length k - p) in
         per_canon (rknots a e k) p per1 n T /\
         kn (rknots a e k) (p - 1) = a /\ kn (rknots a e k) (length (rknots a e k) - p) = e /\ e = a + T.
Proof. exact @reverse_canon. Qed.
Print Assumptions C06_reverse_periodic_canonical.

Theorem C06_reverse_periodic_rows :
  forall (k : list R) (p per1 : nat),
         sorted (kn k) ->
         (1 <= p)%nat ->
         (2 * p <= length k)%nat ->
         (0 < length k - p - per1)%nat ->
         forall (side : bool) (t : R),
         row_rel (ref_row side k p per1 0 t)
           (ref_row (negb side) (rknots (kn k (p - 1)) (kn k (length k - p)) k) p per1 0
              (kn k (p - 1) + kn k (length k - p) - t)) (rev_matrix (length k - p - per1) per1).
Proof. exact @ref_row_reverse. Qed.
Print Assumptions C06_reverse_periodic_rows.

Theorem C06_reverse_periodic_then_evaluate :
  forall (tol : R) (o : obj R) (d : nat) (ts ts2 : list R),
         0 < tol ->
         wf_obj_R tol o ->
         (d < length (o_bases o))%nat ->
         let bd := nth d (o_bases o) dflt_basis in
         let a := b_start bd in
         let e := b_end bd in
         (0 < b_per1 bd)%nat ->
         (forall i : nat, (i < length (o_bases o))%nat -> in_dom tol (nth i (o_bases o) dflt_basis) (nth i ts 0)) ->
         a <= nth d ts 0 <= e ->
         rev_ok (b_knots bd) (b_order bd) tol (nth d ts 0) ->
         nth d ts2 0 = a + e - nth d ts 0 ->
         (forall i : nat, i <> d -> nth i ts2 0 = nth i ts 0) -> obj_eval tol (obj_reverse o d) ts2 = obj_eval tol o ts.
Proof. exact @reverse_periodic_eval. Qed.
Print Assumptions C06_reverse_periodic_then_evaluate.

Theorem C06_reverse_periodic_then_evaluate_wrapped :
  forall (tol : R) (o : obj R) (d : nat) (ts ts2 : list R) (t0 : R) (z : Z),
         0 < tol ->
         wf_obj_R tol o ->
         (d < length (o_bases o))%nat ->
         let bd := nth d (o_bases o) dflt_basis in
         let a := b_start bd in
         let e := b_end bd in
         (0 < b_per1 bd)%nat ->
         (forall i : nat, (i < length (o_bases o))%nat -> in_dom tol (nth i (o_bases o) dflt_basis) (nth i ts 0)) ->
         nth d ts 0 = t0 + IZR z * (e - a) ->
         a < t0 < e ->
         (forall v : R, In v (b_knots bd) -> tol <= Rabs (v - nth d ts 0)) ->
         (forall v : R, In v (b_knots bd) -> v <> t0) \/ cont_at (b_knots bd) (b_order bd) t0 ->
         nth d ts2 0 = a + e - nth d ts 0 ->
         (forall i : nat, i <> d -> nth i ts2 0 = nth i ts 0) -> obj_eval tol (obj_reverse o d) ts2 = obj_eval tol o ts.
Proof. exact @reverse_periodic_eval_wrapped. Qed.
Print Assumptions C06_reverse_periodic_then_evaluate_wrapped.

Theorem C06_reverse_periodic_domain :
  forall tol : R,
         0 < tol ->
         forall o : obj R,
         wf_obj_R tol o ->
         forall d : nat,
         (d < length (o_bases o))%nat ->
         b_start (nth d (o_bases (obj_reverse o d)) dflt_basis) = b_start (nth d (o_bases o) dflt_basis) /\
         b_end (nth d (o_bases (obj_reverse o d)) dflt_basis) = b_end (nth d (o_bases o) dflt_basis) /\
         b_order (nth d (o_bases (obj_reverse o d)) dflt_basis) = b_order (nth d (o_bases o) dflt_basis) /\
         b_per1 (nth d (o_bases (obj_reverse o d)) dflt_basis) = b_per1 (nth d (o_bases o) dflt_basis) /\
         b_nfun (nth d (o_bases (obj_reverse o d)) dflt_basis) = b_nfun (nth d (o_bases o) dflt_basis) /\
         length (o_bases (obj_reverse o d)) = length (o_bases o) /\
         (forall i : nat, i <> d -> nth i (o_bases (obj_reverse o d)) dflt_basis = nth i (o_bases o) dflt_basis) /\
         (forall j : nat,
          kn (b_knots (nth d (o_bases (obj_reverse o d)) dflt_basis)) j =
          b_start (nth d (o_bases o) dflt_basis) + b_end (nth d (o_bases o) dflt_basis) -
          kn (b_knots (nth d (o_bases o) dflt_basis)) (length (b_knots (nth d (o_bases o) dflt_basis)) - 1 - j)) /\
         o_dim (obj_reverse o d) = o_dim o /\ o_rat (obj_reverse o d) = o_rat o.
Proof. exact @reverse_periodic_domain. Qed.
Print Assumptions C06_reverse_periodic_domain.

Theorem C06_reverse_periodic_wf :
  forall tol : R,
         0 < tol ->
         forall o : obj R,
         wf_obj_R tol o -> forall d : nat, (d < length (o_bases o))%nat -> wf_obj_R tol (obj_reverse o d).
Proof. exact @reverse_periodic_wf. Qed.
Print Assumptions C06_reverse_periodic_wf.

Theorem C06_reverse_periodic_involution :
  forall (tol : R) (o : obj R) (d : nat),
         0 < tol -> wf_obj_R tol o -> (d < length (o_bases o))%nat -> obj_reverse (obj_reverse o d) d = o.
Proof. exact @reverse_periodic_involution. Qed.
Print Assumptions C06_reverse_periodic_involution.

