(* C06 — reverse, swap and reparam are exact reparametrisations.
   Model: Model/Reparam.v.  Reference: Spec/Reparam.v. *)
From Coq Require Import List Arith Reals Lra Lia Bool ZArith QArith Qreals.
From SplipyModel Require Import Spec.BSpline Spec.Reparam Model.Num Model.BasisDef Model.BasisEval Model.Tensor Model.Obj
  Model.KnotInsert Model.Reparam Proofs.TensorLemmas Proofs.TensorApply Proofs.ReparamObj Extract.Exec.
Import ListNotations.
Open Scope R_scope.

(* 1. basis level: an increasing affine change of the knots and the parameter leaves every B-spline unchanged *)
Theorem C06_reparam_basis side al be k q : 0 < al -> forall i t,
  B side (fun j => al * k j + be) q i (al * t + be) = B side k q i t.
Proof. exact (reparam_basis side al be k q). Qed.
Print Assumptions C06_reparam_basis.

(* 2. basis level: mirroring the knots about [a,b] mirrors the functions and flips the side *)
Theorem C06_reverse_basis (k : nat -> R) : sorted k -> forall (L : nat) (a b : R) side q i t,
  (i + q + 2 <= L)%nat ->
  B side (kr k L a b) q i (a + b - t) = B (negb side) k q (L - q - 2 - i) t.
Proof. intros Hk L a b side q. exact (reverse_basis k Hk L a b side q). Qed.
Print Assumptions C06_reverse_basis.

(* 3. BSplineBasis.reparam: ValueError iff end <= start; otherwise the knots are mapped by the affine
      map onto exactly [s,e], order and periodicity untouched (so by 1 the object evaluated at the mapped
      parameter equals the old object) *)
Theorem C06_reparam_spec (b : basis R) : b_knots b <> [] -> b_start b < b_end b -> forall s e,
  (e <= s -> basis_reparam b s e = Err ValueError) /\
  (s < e -> exists b', basis_reparam b s e = Ok b' /\
      b_order b' = b_order b /\ b_per1 b' = b_per1 b /\ length (b_knots b') = length (b_knots b) /\
      (forall i, kn (b_knots b') i = (e - s) / (b_end b - b_start b) * (kn (b_knots b) i - b_start b) + s) /\
      b_start b' = s /\ b_end b' = e).
Proof. intros Hne Hdom s e. exact (basis_reparam_spec b Hne Hdom s e). Qed.
Print Assumptions C06_reparam_spec.

(* 4. BSplineBasis.reverse produces the mirrored knot function of 2 *)
Theorem C06_reverse_knots (b : basis R) i : (i < length (b_knots b))%nat -> b_start b < b_end b ->
  kn (b_knots (basis_reverse b)) i = kr (kn (b_knots b)) (length (b_knots b)) (b_start b) (b_end b) i.
Proof. exact (basis_reverse_knots b i). Qed.
Print Assumptions C06_reverse_knots.

(* 5. object level (any pardim, any non-periodic direction): reversing the control net along d together
      with the row of basis values in that direction leaves every coordinate of the evaluation unchanged *)
Theorem C06_reverse_preserves_map dim c (rows : list (list R)) d cps :
  (d < length rows)%nat -> (c < dim)%nat -> net_ok dim rows cps -> (0 < prodl (map (@length R) rows))%nat ->
  coord c (teval dim (upd rows d (rev (nth d rows [])))
             (apply_dir dim (map (@length R) rows) d (rev_matrix (length (nth d rows [])) 0) cps))
  = coord c (teval dim rows cps).
Proof. exact (reverse_preserves_map dim c rows d cps). Qed.
Print Assumptions C06_reverse_preserves_map.

(* 6. swap (surfaces): exchanging the two rows and transposing the flat net leaves the contraction unchanged *)
Theorem C06_swap_surface (N M : list R) (f : nat -> R) :
  tsum [N; M] f = tsum [M; N] (fun idx => f ((idx mod length N) * length M + idx / length N)%nat).
Proof. exact (tsum_swap2 N M f). Qed.
Print Assumptions C06_swap_surface.

(* PARTIAL: reverse on periodic directions (matrix = reversal followed by a roll of periodic+1) and swap for
   volumes are covered by the transcription + correspondence (L1) and by the map relation on the
   implementation (L2) only; the periodic analogue of 2 (wrapped sums) is not proved. *)

Example C06_example_eval :
  let b := q_mkBasis 3 [0; 0; 0; 1; 3; 3; 3]%Q 0 in
  let o := q_mkObj [b] [[0;0]; [1;2]; [3;1]; [4;4]]%Q 2 false in
  (match q_obj_eval (1#10000000000) (q_obj_reverse o 0) [(5#2)%Q] with Ok v => map Qred v | Err _ => [] end)
  = (match q_obj_eval (1#10000000000) o [(1#2)%Q] with Ok v => map Qred v | Err _ => [] end).
Proof. vm_compute. reflexivity. Qed.
