(* C04 — Knot insertion and refinement never change the geometry.
   Model: Model/KnotInsert.v (transcription of BSplineBasis.insert_knot incl. the modular indices and
   the ghost-knot repair, SplineObject.insert_knot, refine).  Reference: Spec/Boehm.v. *)
From Coq Require Import List Arith Reals Lra Lia Bool ZArith QArith Qreals Permutation.
From SplipyModel Require Import Spec.BSpline Spec.Boehm Model.Num Model.BasisDef Model.BasisEval Model.Tensor Model.Obj
  Model.KnotInsert Proofs.TensorLemmas Proofs.InsertMatrix Proofs.TensorApply Proofs.InsertObj Proofs.ObjEval Proofs.SnapChar Proofs.InsertEndToEnd Proofs.InsertListEndToEnd Proofs.OrderProofs Proofs.RaiseNested
  Transfer.ParamBase Transfer.ParamObj Transfer.ParamInsert Extract.Exec.
Import ListNotations.
Open Scope R_scope.

(* 1. Boehm's identity, arbitrary multiplicities, both one-sided variants, every i and t *)
Theorem C04_boehm (side : bool) (k : nat -> R) : sorted k -> forall (mu : nat) (x : R),
  (1 <= mu)%nat -> k (mu - 1)%nat <= x -> x < k mu -> forall q i t,
  B side k q i t = alpha k mu x q i * B side (k' k mu x) q i t
                   + (1 - alpha k mu x q (i + 1)) * B side (k' k mu x) q (i + 1) t.
Proof. exact (boehm side k). Qed.
Print Assumptions C04_boehm.

(* 2. the matrix the code writes (three loops, modular indices, the two closed-interval tests) has
      exactly Boehm's entries: old function c is the combination of the new ones, non-periodic basis *)
Theorem C04_insert_matrix_is_boehm (k : list R) (p : nat) (x : R) :
  sorted (kn k) -> (1 <= p)%nat -> (2 * p <= length k)%nat ->
  kn k (p - 1) <= x < kn k (length k - p) ->
  forall side c t, (c < length k - p)%nat ->
  sumf (fun r => B side (k' (kn k) (py_bisect_right k x) x) (p - 1) r t
                 * lookup_last (insert_writes k p (length k - p) (py_bisect_right k x) x) r c)
       0 (S (length k - p))
  = B side (kn k) (p - 1) c t.
Proof. intros HK Hp Hl Hx. exact (insert_row_identity k p x HK Hp Hl Hx). Qed.
Print Assumptions C04_insert_matrix_is_boehm.

(* 3. what insert_knot returns on a non-periodic basis; the new knot vector is sorted and is the old one
      plus exactly the inserted value *)
Theorem C04_insert_knot_result (k : list R) (p : nat) (x : R) :
  sorted (kn k) -> (1 <= p)%nat -> (2 * p <= length k)%nat ->
  kn k (p - 1) <= x < kn k (length k - p) ->
  basis_insert_knot (mkBasis p k 0) x
  = Ok (mkBasis p (insert_at k (py_bisect_right k x) x) 0,
        mat_of_writes (length k - p + 1) (length k - p) (insert_writes k p (length k - p) (py_bisect_right k x) x)).
Proof. intros HK Hp Hl Hx. exact (basis_insert_knot_nonperiodic k p x HK Hp Hl Hx). Qed.
Print Assumptions C04_insert_knot_result.

Theorem C04_insert_knot_knots (k : list R) (p : nat) (x : R) :
  sorted (kn k) -> (1 <= p)%nat -> (2 * p <= length k)%nat ->
  kn k (p - 1) <= x < kn k (length k - p) ->
  sorted (kn (insert_at k (py_bisect_right k x) x)) /\
  Permutation (insert_at k (py_bisect_right k x) x) (x :: k) /\
  length (insert_at k (py_bisect_right k x) x) = S (length k).
Proof.
  intros HK Hp Hl Hx. split; [exact (insert_knots_sorted k p x HK Hp Hl Hx)|].
  split; [apply insert_at_perm|apply insert_at_length].
Qed.
Print Assumptions C04_insert_knot_knots.

(* 4. object level, every pardim and every direction: applying that matrix along direction d of the
      control net leaves every coordinate (weights included) of the evaluation unchanged, for every
      parameter of every direction and both one-sided variants *)
Theorem C04_insert_knot_preserves_map (k : list R) (p : nat) (x : R) :
  sorted (kn k) -> (1 <= p)%nat -> (2 * p <= length k)%nat ->
  kn k (p - 1) <= x < kn k (length k - p) ->
  forall dim c side t (rows : list (list R)) d cps,
  (d < length rows)%nat -> (c < dim)%nat -> nth d rows [] = Nold k p side t ->
  net_ok dim rows cps -> (0 < prodl (map (@length R) rows))%nat ->
  coord c (teval dim (upd rows d (Nnew k p x side t))
             (apply_dir dim (map (@length R) rows) d
                (mat_of_writes (length k - p + 1) (length k - p)
                   (insert_writes k p (length k - p) (py_bisect_right k x) x)) cps))
  = coord c (teval dim rows cps).
Proof. intros HK Hp Hl Hx. exact (insert_knot_preserves_map k p x HK Hp Hl Hx). Qed.
Print Assumptions C04_insert_knot_preserves_map.

(* 5. the general lifting lemma behind 4 (also used by C05-C07, C12): any matrix applied along a
      direction commutes with evaluation when N_old = N_new x C *)
Theorem C04_apply_dir_commutes dim c (C : list (list R)) rows d N' cps :
  (d < length rows)%nat -> (c < dim)%nat ->
  net_ok dim rows cps -> (0 < prodl (map (@length R) rows))%nat ->
  row_rel (nth d rows []) N' C ->
  tsum (upd rows d N') (cnet dim c (apply_dir dim (map (@length R) rows) d C cps))
  = tsum rows (cnet dim c cps).
Proof. exact (tsum_apply_dir dim c C rows d N' cps). Qed.
Print Assumptions C04_apply_dir_commutes.

(* 6. executed = proved *)
Theorem C04_executed_is_proved (o : obj Q) d (xs : list Q) :
  resobjmap (q_obj_insert_knots o d xs) = @obj_insert_knots R NumR (objQ2R o) d (map Q2R xs).
Proof. exact (obj_insert_knots_transfer o d xs). Qed.
Print Assumptions C04_executed_is_proved.

(* 6b. END TO END on the model's own functions (the two that the correspondence run compares with
       SplineObject.insert_knot and SplineObject.evaluate): for every well-formed object (any pardim, rational or not;
       the other directions may be periodic), every non-periodic direction d, every x in [start_d, end_d) and every
       parameter tuple of the domain whose d-th entry is not within twice the snapping tolerance of x,
       insertion succeeds and evaluation of the result equals evaluation of the original.  (Within the tolerance the
       implementation snaps the parameter onto the new knot: the evaluated parameter itself changes.) *)
Theorem C04_insert_then_evaluate tol (o : obj R) d x ts :
  0 < tol -> wf_obj_R tol o -> (d < length (o_bases o))%nat ->
  let bd := nth d (o_bases o) dflt_basis in
  b_per1 bd = 0%nat -> @b_start R NumR bd <= x < @b_end R NumR bd ->
  (forall i, (i < length (o_bases o))%nat -> in_dom tol (nth i (o_bases o) dflt_basis) (nth i ts 0)) ->
  2 * tol <= Rabs (x - nth d ts 0) ->
  exists o', @obj_insert_knots R NumR o d [x] = Ok o' /\ @obj_eval R NumR tol o' ts = @obj_eval R NumR tol o ts.
Proof. exact (insert_knot_eval_far tol o d x ts). Qed.
Print Assumptions C04_insert_then_evaluate.

Example C04_wf_example :
  let b := @mkBasis R 3 [0; 0; 0; 1; 2; 2; 2] 0 in
  let o := @mkObj R [b] [[0; 1]; [1; 3]; [2; 0]; [4; 1]] 2 false in
  wf_obj_R (1/1000) o /\ @b_start R NumR b <= 1/2 < @b_end R NumR b.
Proof.
  cbv zeta. split; [split; [|split]|].
  - constructor; [|constructor]. split; [|split; [|split; [|split]]].
    + apply Proofs.RaiseNested.sorted_kn_lsorted. repeat (constructor; try lra).
    + cbn; lia.
    + cbn; lia.
    + cbn; lia.
    + unfold b_end, b_start, kn. cbn. lra.
  - repeat constructor.
  - reflexivity.
  - unfold b_end, b_start, kn. cbn. lra.
Qed.

(* 6d. the same for a LIST of knots (insert_knot with a list, refine and the graded refinement utilities all reduce to
       this): the insertion succeeds, the result is well formed with the same domain and the other directions
       untouched, and evaluation is unchanged at every parameter tuple of the domain whose d-th entry is farther than
       twice the snapping tolerance from every inserted value *)
Theorem C04_insert_list_then_evaluate tol d ts (xs : list R) (o : obj R) :
  0 < tol -> wf_obj_R tol o -> (d < length (o_bases o))%nat ->
  b_per1 (nth d (o_bases o) dflt_basis) = 0%nat ->
  (forall x, In x xs -> @b_start R NumR (nth d (o_bases o) dflt_basis) <= x < @b_end R NumR (nth d (o_bases o) dflt_basis) /\ 2 * tol <= Rabs (x - nth d ts 0)) ->
  (forall i, (i < length (o_bases o))%nat -> in_dom tol (nth i (o_bases o) dflt_basis) (nth i ts 0)) ->
  exists o', @obj_insert_knots R NumR o d xs = Ok o' /\ wf_obj_R tol o' /\
             @obj_eval R NumR tol o' ts = @obj_eval R NumR tol o ts /\
             length (o_bases o') = length (o_bases o) /\
             (forall i, i <> d -> nth i (o_bases o') dflt_basis = nth i (o_bases o) dflt_basis) /\
             @b_start R NumR (nth d (o_bases o') dflt_basis) = @b_start R NumR (nth d (o_bases o) dflt_basis) /\
             @b_end R NumR (nth d (o_bases o') dflt_basis) = @b_end R NumR (nth d (o_bases o) dflt_basis).
Proof. intros Htol. exact (insert_knots_eval tol Htol d ts xs o). Qed.
Print Assumptions C04_insert_list_then_evaluate.

(* 6c. snap() depends on the knot vector only through its values, and is unchanged by the insertion of a knot for
       every parameter that is not within the tolerance of the new knot *)
Theorem C04_snap_after_insertion (k k2 : list R) x tol t :
  sorted (@kn R NumR k) -> sorted (@kn R NumR k2) -> (forall v, In v k2 <-> (In v k \/ v = x)) -> 0 < tol ->
  tol <= Rabs (x - t) -> @snap1 R NumR k2 tol t = @snap1 R NumR k tol t.
Proof. exact (snap1_insert_far k k2 x tol t). Qed.
Print Assumptions C04_snap_after_insertion.

(* 7. PARTIAL.  Periodic directions are covered by the transcription + correspondence only.  The
      faithful transcription of the ghost-knot repair changes the map when the periodic basis has fewer
      than order+continuity functions (head and tail ghost ranges overlap): a witness, executed on Q.
      (Full statement that is NOT proved: insert_knot_preserves_map for periodic directions with
       n >= order + continuity.) *)
Theorem C04_insert_knot_periodic_small_refuted :
  exists (o o' : obj Q) (x t : Q) (v v' : list Q),
    q_obj_insert_knots o 0 [x] = Ok o' /\
    q_obj_eval (1#10000000000) o [t] = Ok v /\ q_obj_eval (1#10000000000) o' [t] = Ok v' /\
    forallb (fun ab => Qeq_bool (fst ab) (snd ab)) (combine v v') = false.
Proof.
  exists (q_mkObj [q_mkBasis 3 [15; 31#2; 16; 33#2; 17; 35#2; 18; 37#2]%Q 2] [[1]; [4]; [9]]%Q 1 false).
  eexists. exists (1081#64)%Q, 17%Q. eexists. eexists.
  split; [vm_compute; reflexivity|]. split; [vm_compute; reflexivity|]. split; [vm_compute; reflexivity|].
  vm_compute. reflexivity.
Qed.
Print Assumptions C04_insert_knot_periodic_small_refuted.

(* non-vacuity of 4: a rational surface, insertion in the second direction *)
Example C04_example :
  let bu := q_mkBasis 3 [0; 0; 0; 1; 2; 2; 2]%Q 0 in
  let bv := q_mkBasis 2 [0; 0; 1; 1]%Q 0 in
  let o := q_mkObj [bu; bv] [[0;0;1]; [0;2;1]; [1;0;2]; [2;4;2]; [3;1;1]; [3;3;1]; [8;0;2]; [8;8;2]]%Q 2 true in
  match q_obj_insert_knots o 1 [1#4]%Q with
  | Ok o' => (length (o_cps o') = 12%nat) /\
             (match q_obj_eval (1#10000000000) o' [1; 1#2]%Q with Ok v => map Qred v | Err _ => [] end) = [(3#2); (4#3)]%Q
  | Err _ => False
  end.
Proof. vm_compute. split; reflexivity. Qed.

(* ------------------------------------------------------------------------------------------------------
   Added in build session 4 (statements re-stated from the proof files by harness tooling; each is closed by
   exact). *)
From SplipyModel Require Import Proofs.ObjEval Proofs.SeamContinuity Proofs.PeriodicInsert Proofs.PeriodicEndToEnd Proofs.PeriodicInsertWrap Model.Refinement Proofs.RefinementProofs.
Open Scope R_scope.
Theorem C04_periodic_boehm :
  forall K : nat -> R,
         sorted K ->
         forall (q n : nat) (T : R),
         (forall i : nat, K (i + n)%nat = K i + T) ->
         forall c : nat -> R,
         (forall i : nat, c (i + n)%nat = c i) ->
         forall (mu : nat) (x : R),
         (q < mu <= n)%nat ->
         K (mu - 1)%nat <= x < K mu ->
         forall (side : bool) (t : R) (a N N' : nat),
         (mu + a * n <= N)%nat ->
         (mu + a * (n + 1) + 1 <= N')%nat ->
         before_end side t (K (mu + a * n)%nat) ->
         sumf (fun i : nat => c i * B side K q i t) 0 N =
         sumf (fun i : nat => cp K q n c mu x i * B side (Kp K n T mu x) q i t) 0 N'.
Proof. exact @periodic_boehm. Qed.
Print Assumptions C04_periodic_boehm.

Theorem C04_periodic_boehm_exact :
  forall K : nat -> R,
         sorted K ->
         forall (q n : nat) (T : R),
         (forall i : nat, K (i + n)%nat = K i + T) ->
         forall c : nat -> R,
         (forall i : nat, c (i + n)%nat = c i) ->
         forall (mu : nat) (x : R),
         (q < mu <= n)%nat ->
         K (mu - 1)%nat <= x < K mu ->
         forall (side : bool) (t : R) (a : nat),
         sumf (fun i : nat => c i * B side K q i t) 0 (mu + a * n) =
         sumf (fun i : nat => cp K q n c mu x i * B side (Kp K n T mu x) q i t) 0 (mu + a * (n + 1) + 1).
Proof. exact @periodic_boehm_exact. Qed.
Print Assumptions C04_periodic_boehm_exact.

Theorem C04_basis_insert_knot_periodic :
  forall (k : list R) (p per1 n : nat) (T x : R),
         per_canon k p per1 n T ->
         b_start {| b_order := p; b_knots := k; b_per1 := per1 |} <= x <
         b_end {| b_order := p; b_knots := k; b_per1 := per1 |} ->
         let mu := py_bisect_right k x in
         let C := mat_of_writes (n + 1) n (insert_writes k p n mu x) in
         exists knew : list R,
           basis_insert_knot {| b_order := p; b_knots := k; b_per1 := per1 |} x =
           Ok ({| b_order := p; b_knots := knew; b_per1 := per1 |}, C) /\
           per_canon knew p per1 (n + 1) T /\
           b_start {| b_order := p; b_knots := knew; b_per1 := per1 |} =
           b_start {| b_order := p; b_knots := k; b_per1 := per1 |} /\
           b_end {| b_order := p; b_knots := knew; b_per1 := per1 |} =
           b_end {| b_order := p; b_knots := k; b_per1 := per1 |} /\
           firstn (n + 1) (skipn per1 knew) = insert_at (firstn n (skipn per1 k)) (mu - per1) x /\
           (forall (side : bool) (t : R),
            after_start side (b_start {| b_order := p; b_knots := k; b_per1 := per1 |}) t ->
            before_end side t (b_end {| b_order := p; b_knots := k; b_per1 := per1 |}) ->
            row_rel (ref_row side k p per1 0 t) (ref_row side knew p per1 0 t) C).
Proof. exact @basis_insert_knot_periodic. Qed.
Print Assumptions C04_basis_insert_knot_periodic.

Theorem C04_basis_insert_knot_periodic_interior :
  forall (k : list R) (p per1 n : nat) (T x : R),
         per_canon k p per1 n T ->
         kn k (p + per1 - 1) <= x < kn k n ->
         let mu := py_bisect_right k x in
         let C := mat_of_writes (n + 1) n (insert_writes k p n mu x) in
         basis_insert_knot {| b_order := p; b_knots := k; b_per1 := per1 |} x =
         Ok ({| b_order := p; b_knots := insert_at k mu x; b_per1 := per1 |}, C) /\
         per_canon (insert_at k mu x) p per1 (n + 1) T /\
         (forall (side : bool) (t : R),
          row_rel (ref_row side k p per1 0 t) (ref_row side (insert_at k mu x) p per1 0 t) C).
Proof. exact @basis_insert_knot_periodic_interior. Qed.
Print Assumptions C04_basis_insert_knot_periodic_interior.

Theorem C04_insert_knot_periodic_interior_preserves_map :
  forall (k : list R) (p per1 n : nat) (T x : R),
         per_canon k p per1 n T ->
         kn k (p + per1 - 1) <= x < kn k n ->
         let mu := py_bisect_right k x in
         forall (dim c : nat) (side : bool) (t : R) (rows : list (list R)) (d : nat) (cps : list (list R)),
         (d < length rows)%nat ->
         (c < dim)%nat ->
         nth d rows [] = ref_row side k p per1 0 t ->
         net_ok dim rows cps ->
         (0 < prodl (map (length (A:=R)) rows))%nat ->
         coord c
           (teval dim (upd rows d (ref_row side (insert_at k mu x) p per1 0 t))
              (apply_dir dim (map (length (A:=R)) rows) d (mat_of_writes (n + 1) n (insert_writes k p n mu x)) cps)) =
         coord c (teval dim rows cps).
Proof. exact @insert_knot_periodic_interior_preserves_map. Qed.
Print Assumptions C04_insert_knot_periodic_interior_preserves_map.

Theorem C04_insert_knot_periodic_preserves_map :
  forall (k : list R) (p per1 n : nat) (T x : R) (b' : basis R) (C : list (list R)),
         per_canon k p per1 n T ->
         b_start {| b_order := p; b_knots := k; b_per1 := per1 |} <= x <
         b_end {| b_order := p; b_knots := k; b_per1 := per1 |} ->
         basis_insert_knot {| b_order := p; b_knots := k; b_per1 := per1 |} x = Ok (b', C) ->
         forall (dim c : nat) (side : bool) (t : R) (rows : list (list R)) (d : nat) (cps : list (list R)),
         after_start side (b_start {| b_order := p; b_knots := k; b_per1 := per1 |}) t ->
         before_end side t (b_end {| b_order := p; b_knots := k; b_per1 := per1 |}) ->
         (d < length rows)%nat ->
         (c < dim)%nat ->
         nth d rows [] = ref_row side k p per1 0 t ->
         net_ok dim rows cps ->
         (0 < prodl (map (length (A:=R)) rows))%nat ->
         coord c
           (teval dim (upd rows d (ref_row side (b_knots b') (b_order b') (b_per1 b') 0 t))
              (apply_dir dim (map (length (A:=R)) rows) d C cps)) = coord c (teval dim rows cps).
Proof. exact @insert_knot_periodic_preserves_map. Qed.
Print Assumptions C04_insert_knot_periodic_preserves_map.

Theorem C04_periodic_hypotheses_satisfiable :
  per_canon ex_knots 4 3 8 8.
Proof. exact @ex_canon. Qed.
Print Assumptions C04_periodic_hypotheses_satisfiable.

Theorem C04_insert_knot_periodic_then_evaluate :
  forall (tol : R) (o : obj R) (d n : nat) (T x : R),
         0 < tol ->
         wf_obj_R tol o ->
         (d < length (o_bases o))%nat ->
         canon_dir o d n T ->
         let bd := nth d (o_bases o) dflt_basis in
         b_start bd <= x < b_end bd ->
         exists o' : obj R,
           obj_insert_knots o d [x] = Ok o' /\
           wf_obj_R tol o' /\
           canon_dir o' d (n + 1) T /\
           length (o_bases o') = length (o_bases o) /\
           (forall i : nat, i <> d -> nth i (o_bases o') dflt_basis = nth i (o_bases o) dflt_basis) /\
           (let bd' := nth d (o_bases o') dflt_basis in
            b_order bd' = b_order bd /\
            b_per1 bd' = b_per1 bd /\
            b_start bd' = b_start bd /\
            b_end bd' = b_end bd /\
            (forall v : R, b_start bd <= v <= b_end bd -> In v (b_knots bd') <-> In v (b_knots bd) \/ v = x) /\
            (forall ts : list R,
             (forall i : nat, (i < length (o_bases o))%nat -> in_dom tol (nth i (o_bases o) dflt_basis) (nth i ts 0)) ->
             snap1 (b_knots bd') tol (nth d ts 0) = snap1 (b_knots bd) tol (nth d ts 0) ->
             obj_eval tol o' ts = obj_eval tol o ts) /\
            (forall t : R,
             b_start bd <= t <= b_end bd ->
             param_ok_snap tol (b_knots bd) x t -> snap1 (b_knots bd') tol t = snap1 (b_knots bd) tol t) /\
            (forall ts : list R,
             (forall i : nat, (i < length (o_bases o))%nat -> in_dom tol (nth i (o_bases o) dflt_basis) (nth i ts 0)) ->
             b_start bd <= nth d ts 0 <= b_end bd ->
             param_ok_snap tol (b_knots bd) x (nth d ts 0) -> obj_eval tol o' ts = obj_eval tol o ts) /\
            (forall ts : list R,
             (forall i : nat, (i < length (o_bases o))%nat -> in_dom tol (nth i (o_bases o) dflt_basis) (nth i ts 0)) ->
             (forall v : R, In v (b_knots bd) \/ In v (b_knots bd') -> tol <= Rabs (v - nth d ts 0)) ->
             obj_eval tol o' ts = obj_eval tol o ts)).
Proof. exact @insert_knot_periodic_eval. Qed.
Print Assumptions C04_insert_knot_periodic_then_evaluate.

Theorem C04_insert_knots_periodic_then_evaluate :
  forall (tol : R) (d : nat) (ts : list R),
         0 < tol ->
         forall (xs : list R) (o : obj R) (n : nat) (T : R),
         wf_obj_R tol o ->
         (d < length (o_bases o))%nat ->
         canon_dir o d n T ->
         let bd := nth d (o_bases o) dflt_basis in
         (forall x : R, In x xs -> b_start bd <= x < b_end bd /\ param_ok_snap tol (b_knots bd) x (nth d ts 0)) ->
         (forall i : nat, (i < length (o_bases o))%nat -> in_dom tol (nth i (o_bases o) dflt_basis) (nth i ts 0)) ->
         b_start bd <= nth d ts 0 <= b_end bd ->
         exists o' : obj R,
           obj_insert_knots o d xs = Ok o' /\
           wf_obj_R tol o' /\
           canon_dir o' d (n + length xs) T /\
           obj_eval tol o' ts = obj_eval tol o ts /\
           length (o_bases o') = length (o_bases o) /\
           (forall i : nat, i <> d -> nth i (o_bases o') dflt_basis = nth i (o_bases o) dflt_basis) /\
           (let bd' := nth d (o_bases o') dflt_basis in
            b_order bd' = b_order bd /\ b_per1 bd' = b_per1 bd /\ b_start bd' = b_start bd /\ b_end bd' = b_end bd).
Proof. exact @insert_knots_periodic_eval. Qed.
Print Assumptions C04_insert_knots_periodic_then_evaluate.

Theorem C04_periodic_change_of_basis_then_evaluate :
  forall (tol : R) (o : obj R) (d : nat) (k2 : list R) (p2 : nat) (M : list (list R)) (ts : list R),
         0 < tol ->
         wf_obj_R tol o ->
         (d < length (o_bases o))%nat ->
         let bd := nth d (o_bases o) dflt_basis in
         let b2 := {| b_order := p2; b_knots := k2; b_per1 := b_per1 bd |} in
         (1 <= b_per1 bd)%nat ->
         sorted (kn k2) ->
         (1 <= p2)%nat ->
         (2 * p2 <= length k2)%nat ->
         (0 < b_nfun b2)%nat ->
         b_start b2 = b_start bd ->
         b_end b2 = b_end bd ->
         (forall (side : bool) (t : R),
          after_start side (b_start bd) t ->
          before_end side t (b_end bd) ->
          row_rel (ref_row side (b_knots bd) (b_order bd) (b_per1 bd) 0 t) (ref_row side k2 p2 (b_per1 bd) 0 t) M) ->
         (forall i : nat, (i < length (o_bases o))%nat -> in_dom tol (nth i (o_bases o) dflt_basis) (nth i ts 0)) ->
         snap1 k2 tol (nth d ts 0) = snap1 (b_knots bd) tol (nth d ts 0) ->
         wf_obj_R tol (Split.obj_along o d b2 M) /\ obj_eval tol (Split.obj_along o d b2 M) ts = obj_eval tol o ts.
Proof. exact @periodic_change_dir_eval. Qed.
Print Assumptions C04_periodic_change_of_basis_then_evaluate.

Theorem C04_wrap_knot_spec :
  forall (b : basis R) (x : R),
         (1 <= b_per1 b)%nat ->
         b_start b < b_end b ->
         exists (x' : R) (m : Z),
           wrap_knot b x = Ok x' /\
           b_start b <= x' < b_end b /\
           x' = x - IZR m * (b_end b - b_start b) /\
           (b_start b <= x < b_end b -> x' = x) /\
           (forall (y : R) (m' : Z), b_start b <= y < b_end b -> y = x - IZR m' * (b_end b - b_start b) -> y = x') /\
           wrap_knot b x' = Ok x'.
Proof. exact @wrap_knot_spec. Qed.
Print Assumptions C04_wrap_knot_spec.

Theorem C04_wrap_knot_open_spec :
  forall (b : basis R) (x : R),
         b_per1 b = 0%nat ->
         (b_start b <= x <= b_end b -> wrap_knot b x = Ok x) /\
         (x < b_start b \/ b_end b < x -> wrap_knot b x = Err ValueError).
Proof. exact @wrap_knot_open_spec. Qed.
Print Assumptions C04_wrap_knot_open_spec.

Theorem C04_basis_insert_knot_wrap :
  forall (b : basis R) (x : R),
         (1 <= b_per1 b)%nat ->
         b_start b < b_end b -> basis_insert_knot b x = basis_insert_knot b (wrapv (b_start b) (b_end b) x).
Proof. exact @basis_insert_knot_wrap. Qed.
Print Assumptions C04_basis_insert_knot_wrap.

Theorem C04_basis_insert_knot_periodic_any :
  forall (k : list R) (p per1 n : nat) (T x : R),
         per_canon k p per1 n T ->
         let b := {| b_order := p; b_knots := k; b_per1 := per1 |} in
         let x' := wrapv (b_start b) (b_end b) x in
         let mu := py_bisect_right k x' in
         let C := mat_of_writes (n + 1) n (insert_writes k p n mu x') in
         b_start b <= x' < b_end b /\
         (exists m : Z, x' = x - IZR m * T) /\
         (b_start b <= x < b_end b -> x' = x) /\
         basis_insert_knot b x = basis_insert_knot b x' /\
         (exists knew : list R,
            basis_insert_knot b x = Ok ({| b_order := p; b_knots := knew; b_per1 := per1 |}, C) /\
            per_canon knew p per1 (n + 1) T /\
            b_start {| b_order := p; b_knots := knew; b_per1 := per1 |} = b_start b /\
            b_end {| b_order := p; b_knots := knew; b_per1 := per1 |} = b_end b /\
            firstn (n + 1) (skipn per1 knew) = insert_at (firstn n (skipn per1 k)) (mu - per1) x' /\
            (forall (side : bool) (t : R),
             after_start side (b_start b) t ->
             before_end side t (b_end b) -> row_rel (ref_row side k p per1 0 t) (ref_row side knew p per1 0 t) C)).
Proof. exact @basis_insert_knot_periodic_any. Qed.
Print Assumptions C04_basis_insert_knot_periodic_any.

Theorem C04_insert_knot_periodic_preserves_map_any :
  forall (k : list R) (p per1 n : nat) (T x : R) (b' : basis R) (C : list (list R)),
         per_canon k p per1 n T ->
         basis_insert_knot {| b_order := p; b_knots := k; b_per1 := per1 |} x = Ok (b', C) ->
         forall (dim c : nat) (side : bool) (t : R) (rows : list (list R)) (d : nat) (cps : list (list R)),
         after_start side (b_start {| b_order := p; b_knots := k; b_per1 := per1 |}) t ->
         before_end side t (b_end {| b_order := p; b_knots := k; b_per1 := per1 |}) ->
         (d < length rows)%nat ->
         (c < dim)%nat ->
         nth d rows [] = ref_row side k p per1 0 t ->
         net_ok dim rows cps ->
         (0 < prodl (map (length (A:=R)) rows))%nat ->
         coord c
           (teval dim (upd rows d (ref_row side (b_knots b') (b_order b') (b_per1 b') 0 t))
              (apply_dir dim (map (length (A:=R)) rows) d C cps)) = coord c (teval dim rows cps).
Proof. exact @insert_knot_periodic_preserves_map_any. Qed.
Print Assumptions C04_insert_knot_periodic_preserves_map_any.

Theorem C04_insert_knot_periodic_eval_any :
  forall (tol : R) (o : obj R) (d n : nat) (T x : R),
         0 < tol ->
         wf_obj_R tol o ->
         (d < length (o_bases o))%nat ->
         canon_dir o d n T ->
         let bd := nth d (o_bases o) dflt_basis in
         let x' := wrapv (b_start bd) (b_end bd) x in
         b_start bd <= x' < b_end bd /\
         (exists m : Z, x' = x - IZR m * T) /\
         (b_start bd <= x < b_end bd -> x' = x) /\
         obj_insert_knots o d [x] = obj_insert_knots o d [x'] /\
         (exists o' : obj R,
            obj_insert_knots o d [x] = Ok o' /\
            wf_obj_R tol o' /\
            canon_dir o' d (n + 1) T /\
            length (o_bases o') = length (o_bases o) /\
            (forall i : nat, i <> d -> nth i (o_bases o') dflt_basis = nth i (o_bases o) dflt_basis) /\
            (let bd' := nth d (o_bases o') dflt_basis in
             b_order bd' = b_order bd /\
             b_per1 bd' = b_per1 bd /\
             b_start bd' = b_start bd /\
             b_end bd' = b_end bd /\
             sorted (kn (b_knots bd')) /\
             length (b_knots bd') = S (length (b_knots bd)) /\
             (forall i : nat,
              (i + (n + 1) < length (b_knots bd'))%nat -> kn (b_knots bd') (i + (n + 1)) = kn (b_knots bd') i + T) /\
             In x' (b_knots bd') /\
             (forall v : R, b_start bd <= v <= b_end bd -> In v (b_knots bd') <-> In v (b_knots bd) \/ v = x') /\
             (forall ts : list R,
              (forall i : nat, (i < length (o_bases o))%nat -> in_dom tol (nth i (o_bases o) dflt_basis) (nth i ts 0)) ->
              snap1 (b_knots bd') tol (nth d ts 0) = snap1 (b_knots bd) tol (nth d ts 0) ->
              obj_eval tol o' ts = obj_eval tol o ts) /\
             (forall t : R,
              b_start bd <= t <= b_end bd ->
              param_ok_snap tol (b_knots bd) x' t -> snap1 (b_knots bd') tol t = snap1 (b_knots bd) tol t) /\
             (forall ts : list R,
              (forall i : nat, (i < length (o_bases o))%nat -> in_dom tol (nth i (o_bases o) dflt_basis) (nth i ts 0)) ->
              b_start bd <= nth d ts 0 <= b_end bd ->
              param_ok_snap tol (b_knots bd) x' (nth d ts 0) -> obj_eval tol o' ts = obj_eval tol o ts) /\
             (forall ts : list R,
              (forall i : nat, (i < length (o_bases o))%nat -> in_dom tol (nth i (o_bases o) dflt_basis) (nth i ts 0)) ->
              (forall v : R, In v (b_knots bd) \/ In v (b_knots bd') -> tol <= Rabs (v - nth d ts 0)) ->
              obj_eval tol o' ts = obj_eval tol o ts))).
Proof. exact @insert_knot_periodic_eval_any. Qed.
Print Assumptions C04_insert_knot_periodic_eval_any.

Theorem C04_obj_insert_knots_wrap_list :
  forall (tol : R) (d : nat),
         0 < tol ->
         forall (xs : list R) (o : obj R) (n : nat) (T : R),
         wf_obj_R tol o ->
         (d < length (o_bases o))%nat ->
         canon_dir o d n T ->
         let bd := nth d (o_bases o) dflt_basis in
         obj_insert_knots o d xs = obj_insert_knots o d (map (wrapv (b_start bd) (b_end bd)) xs).
Proof. exact @obj_insert_knots_wrap_list. Qed.
Print Assumptions C04_obj_insert_knots_wrap_list.

Theorem C04_insert_knots_periodic_eval_any :
  forall (tol : R) (d : nat) (ts : list R),
         0 < tol ->
         forall (xs : list R) (o : obj R) (n : nat) (T : R),
         wf_obj_R tol o ->
         (d < length (o_bases o))%nat ->
         canon_dir o d n T ->
         let bd := nth d (o_bases o) dflt_basis in
         let w := wrapv (b_start bd) (b_end bd) in
         (forall x : R, In x xs -> param_ok_snap tol (b_knots bd) (w x) (nth d ts 0)) ->
         (forall i : nat, (i < length (o_bases o))%nat -> in_dom tol (nth i (o_bases o) dflt_basis) (nth i ts 0)) ->
         b_start bd <= nth d ts 0 <= b_end bd ->
         (forall x : R, In x xs -> b_start bd <= w x < b_end bd /\ (exists m : Z, w x = x - IZR m * T)) /\
         obj_insert_knots o d xs = obj_insert_knots o d (map w xs) /\
         (exists o' : obj R,
            obj_insert_knots o d xs = Ok o' /\
            wf_obj_R tol o' /\
            canon_dir o' d (n + length xs) T /\
            obj_eval tol o' ts = obj_eval tol o ts /\
            length (o_bases o') = length (o_bases o) /\
            (forall i : nat, i <> d -> nth i (o_bases o') dflt_basis = nth i (o_bases o) dflt_basis) /\
            (let bd' := nth d (o_bases o') dflt_basis in
             b_order bd' = b_order bd /\ b_per1 bd' = b_per1 bd /\ b_start bd' = b_start bd /\ b_end bd' = b_end bd)).
Proof. exact @insert_knots_periodic_eval_any. Qed.
Print Assumptions C04_insert_knots_periodic_eval_any.

Theorem C04_ex_insert_list_any :
  forall t : R,
         0 <= t <= 8 ->
         1 / 1000 <= Rabs (9 / 2 - t) ->
         1 / 1000 <= Rabs (1 / 2 - t) ->
         1 / 1000 <= Rabs (15 / 2 - t) ->
         1 / 1000 <= Rabs (5 / 2 - t) ->
         exists o' : obj R,
           obj_insert_knots ex_curve 0 [-23 / 2; 33 / 2; -1 / 2; 5 / 2] = Ok o' /\
           obj_insert_knots ex_curve 0 [9 / 2; 1 / 2; 15 / 2; 5 / 2] = Ok o' /\
           wf_obj_R (1 / 1000) o' /\
           canon_dir o' 0 12 8 /\ obj_eval (1 / 1000) o' [t] = obj_eval (1 / 1000) ex_curve [t].
Proof. exact @ex_insert_list_any. Qed.
Print Assumptions C04_ex_insert_list_any.

Theorem C04_geo_candidates_closed :
  forall (alpha ks ke : R) (n : nat),
         gs alpha (S n) <> 0 -> geo_candidates alpha ks ke n = Ok (map (geo_x alpha ks ke n) (seq 0 n)).
Proof. exact @geo_candidates_closed. Qed.
Print Assumptions C04_geo_candidates_closed.

Theorem C04_geo_candidates_zero :
  forall (alpha ks ke : R) (n : nat), gs alpha (S n) = 0 -> geo_candidates alpha ks ke n = Err Singular.
Proof. exact @geo_candidates_zero. Qed.
Print Assumptions C04_geo_candidates_zero.

Theorem C04_geo_x_props :
  forall (alpha ks ke : R) (n : nat),
         0 < alpha ->
         ks < ke ->
         (forall i : nat, (i < n)%nat -> ks < geo_x alpha ks ke n i < ke) /\
         (forall i j : nat, (i < j)%nat -> (j < n)%nat -> geo_x alpha ks ke n i < geo_x alpha ks ke n j) /\
         geo_x alpha ks ke n 0 - ks = (ke - ks) / gs alpha (S n) /\
         (forall i : nat,
          geo_x alpha ks ke n (S i) - geo_x alpha ks ke n i = alpha ^ S i * ((ke - ks) / gs alpha (S n))) /\
         (forall i : nat,
          geo_x alpha ks ke n (S (S i)) - geo_x alpha ks ke n (S i) =
          alpha * (geo_x alpha ks ke n (S i) - geo_x alpha ks ke n i)) /\
         ((1 <= n)%nat -> ke - geo_x alpha ks ke n (n - 1) = alpha ^ n * ((ke - ks) / gs alpha (S n))).
Proof. exact @geo_x_props. Qed.
Print Assumptions C04_geo_x_props.

Theorem C04_geo_inserted_props :
  forall (atol rtol : R) (ex0 : list R) (alpha ks ke : R) (n : nat),
         0 < alpha ->
         ks < ke ->
         exists cand : list R,
           geo_candidates alpha ks ke n = Ok cand /\
           length cand = n /\
           Sorted.StronglySorted Rlt (keep_new atol rtol ex0 cand) /\
           (forall x : R, In x (keep_new atol rtol ex0 cand) -> ks < x < ke).
Proof. exact @geo_inserted_props. Qed.
Print Assumptions C04_geo_inserted_props.

Theorem C04_refine_new_In :
  forall (sp : list R) (n : nat) (x : R),
         In x (refine_new sp n) <->
         (exists (k0 k1 : R) (j : nat), In (k0, k1) (combine sp (tl sp)) /\ (1 <= j <= n)%nat /\ x = lin_pt k0 k1 n j).
Proof. exact @refine_new_In. Qed.
Print Assumptions C04_refine_new_In.

Theorem C04_refine_new_inside :
  forall (sp : list R) (n : nat) (x : R),
         Sorted.StronglySorted Rlt sp ->
         In x (refine_new sp n) ->
         exists k0 k1 : R, In (k0, k1) (combine sp (tl sp)) /\ In k0 sp /\ In k1 sp /\ k0 < x < k1.
Proof. exact @refine_new_inside. Qed.
Print Assumptions C04_refine_new_inside.

Theorem C04_refine_new_length :
  forall (sp : list R) (n : nat), length (refine_new sp n) = (n * (length sp - 1))%nat.
Proof. exact @refine_new_length. Qed.
Print Assumptions C04_refine_new_length.

Theorem C04_refine_new_sorted :
  forall (n : nat) (sp : list R), Sorted.StronglySorted Rlt sp -> Sorted.StronglySorted Rlt (refine_new sp n).
Proof. exact @refine_new_sorted. Qed.
Print Assumptions C04_refine_new_sorted.

Theorem C04_graded_props :
  forall (phi : R -> R) (S0 : R),
         0 < S0 ->
         (forall x y : R, - S0 <= x -> x < y -> y <= S0 -> phi x < phi y) ->
         (forall x : R, phi (- x) = - phi x) ->
         forall (ks ke : R) (n : nat),
         ks < ke ->
         (forall i : nat, (1 <= i <= n)%nat -> ks < graded_knot phi S0 ks (ke - ks) n i < ke) /\
         (forall i j : nat,
          (1 <= i)%nat ->
          (i < j)%nat -> (j <= n)%nat -> graded_knot phi S0 ks (ke - ks) n i < graded_knot phi S0 ks (ke - ks) n j) /\
         (forall i : nat,
          (1 <= i <= n)%nat ->
          graded_knot phi S0 ks (ke - ks) n i + graded_knot phi S0 ks (ke - ks) n (n + 1 - i) = ks + ke).
Proof. exact @graded_props. Qed.
Print Assumptions C04_graded_props.

Theorem C04_edge_refine_knots :
  forall (S0 ks ke : R) (n : nat),
         0 < S0 ->
         ks < ke ->
         (forall i : nat, (1 <= i <= n)%nat -> ks < graded_knot atan S0 ks (ke - ks) n i < ke) /\
         (forall i j : nat,
          (1 <= i)%nat ->
          (i < j)%nat -> (j <= n)%nat -> graded_knot atan S0 ks (ke - ks) n i < graded_knot atan S0 ks (ke - ks) n j) /\
         (forall i : nat,
          (1 <= i <= n)%nat ->
          graded_knot atan S0 ks (ke - ks) n i + graded_knot atan S0 ks (ke - ks) n (n + 1 - i) = ks + ke).
Proof. exact @edge_refine_knots. Qed.
Print Assumptions C04_edge_refine_knots.

Theorem C04_center_refine_knots :
  forall (S0 ks ke : R) (n : nat),
         0 < S0 < PI / 2 ->
         ks < ke ->
         (forall i : nat, (1 <= i <= n)%nat -> ks < graded_knot tan S0 ks (ke - ks) n i < ke) /\
         (forall i j : nat,
          (1 <= i)%nat ->
          (i < j)%nat -> (j <= n)%nat -> graded_knot tan S0 ks (ke - ks) n i < graded_knot tan S0 ks (ke - ks) n j) /\
         (forall i : nat,
          (1 <= i <= n)%nat ->
          graded_knot tan S0 ks (ke - ks) n i + graded_knot tan S0 ks (ke - ks) n (n + 1 - i) = ks + ke).
Proof. exact @center_refine_knots. Qed.
Print Assumptions C04_center_refine_knots.

Theorem C04_geometric_refine_eval :
  forall tol : R,
         0 < tol ->
         forall o : obj R,
         wf_obj_R tol o ->
         forall d : nat,
         (d < length (o_bases o))%nat ->
         b_per1 (nth d (o_bases o) dflt_basis) = 0%nat ->
         forall ts : list R,
         (forall i : nat, (i < length (o_bases o))%nat -> in_dom tol (nth i (o_bases o) dflt_basis) (nth i ts 0)) ->
         forall (atol rtol alpha : R) (n : nat),
         0 < alpha ->
         (1 <= n)%nat ->
         hd 0 (dir_knots tol o d) < last (dir_knots tol o d) 0 ->
         (forall x : R,
          In x
            (keep_new atol rtol (dir_knots tol o d)
               (map (geo_x alpha (hd 0 (dir_knots tol o d)) (last (dir_knots tol o d) 0) n) (seq 0 n))) ->
          2 * tol <= Rabs (x - nth d ts 0)) ->
         exists o' : obj R, geometric_refine tol atol rtol o alpha n d false = Ok o' /\ same_geometry tol o d ts o'.
Proof. exact @geometric_refine_eval. Qed.
Print Assumptions C04_geometric_refine_eval.

Theorem C04_refine_dir_eval :
  forall tol : R,
         0 < tol ->
         forall o : obj R,
         wf_obj_R tol o ->
         forall d : nat,
         (d < length (o_bases o))%nat ->
         b_per1 (nth d (o_bases o) dflt_basis) = 0%nat ->
         forall ts : list R,
         (forall i : nat, (i < length (o_bases o))%nat -> in_dom tol (nth i (o_bases o) dflt_basis) (nth i ts 0)) ->
         forall n : nat,
         (forall x : R, In x (refine_new (dir_knots tol o d) n) -> 2 * tol <= Rabs (x - nth d ts 0)) ->
         exists o' : obj R, obj_refine_dir tol o d n = Ok o' /\ same_geometry tol o d ts o'.
Proof. exact @refine_dir_eval. Qed.
Print Assumptions C04_refine_dir_eval.

Theorem C04_refine_direction_eval :
  forall tol : R,
         0 < tol ->
         forall o : obj R,
         wf_obj_R tol o ->
         forall d : nat,
         (d < length (o_bases o))%nat ->
         b_per1 (nth d (o_bases o) dflt_basis) = 0%nat ->
         forall ts : list R,
         (forall i : nat, (i < length (o_bases o))%nat -> in_dom tol (nth i (o_bases o) dflt_basis) (nth i ts 0)) ->
         forall n : nat,
         (forall x : R, In x (refine_new (dir_knots tol o d) n) -> 2 * tol <= Rabs (x - nth d ts 0)) ->
         exists o' : obj R, obj_refine tol o [n] (Some d) = Ok o' /\ same_geometry tol o d ts o'.
Proof. exact @refine_direction_eval. Qed.
Print Assumptions C04_refine_direction_eval.

Theorem C04_graded_refine_eval :
  forall tol : R,
         0 < tol ->
         forall o : obj R,
         wf_obj_R tol o ->
         forall d : nat,
         (d < length (o_bases o))%nat ->
         b_per1 (nth d (o_bases o) dflt_basis) = 0%nat ->
         forall ts : list R,
         (forall i : nat, (i < length (o_bases o))%nat -> in_dom tol (nth i (o_bases o) dflt_basis) (nth i ts 0)) ->
         forall (phi : R -> R) (S0 atol rtol : R) (n : nat),
         0 < S0 ->
         (forall x y : R, - S0 <= x -> x < y -> y <= S0 -> phi x < phi y) ->
         (forall x : R, phi (- x) = - phi x) ->
         (1 <= n)%nat ->
         hd 0 (dir_knots tol o d) < last (dir_knots tol o d) 0 ->
         (forall x : R,
          In x
            (keep_new atol rtol (dir_knots tol o d)
               (graded_candidates phi S0 (hd 0 (dir_knots tol o d)) (last (dir_knots tol o d) 0) n)) ->
          2 * tol <= Rabs (x - nth d ts 0)) ->
         exists o' : obj R, graded_refine phi tol atol rtol o S0 n d = Ok o' /\ same_geometry tol o d ts o'.
Proof. exact @graded_refine_eval. Qed.
Print Assumptions C04_graded_refine_eval.

Theorem C04_geometric_refine_reverse_decomp :
  forall (tol atol rtol : R) (o : obj R) (alpha : R) (n d : nat),
         geometric_refine tol atol rtol o alpha n d true =
         match geometric_refine tol atol rtol (Reparam.obj_reverse o d) alpha n d false with
         | Ok o2 => Ok (Reparam.obj_reverse o2 d)
         | Err e => Err e
         end.
Proof. exact @geometric_refine_reverse_decomp. Qed.
Print Assumptions C04_geometric_refine_reverse_decomp.

Theorem C04_geometric_refine_reversed_middle :
  forall (tol : R) (o : obj R) (d : nat) (ts : list R) (atol rtol alpha : R) (n : nat),
         0 < tol ->
         wf_obj_R tol o ->
         (d < length (o_bases o))%nat ->
         b_per1 (nth d (o_bases o) dflt_basis) = 0%nat ->
         let o1 := Reparam.obj_reverse o d in
         let sp1 := dir_knots tol o1 d in
         (forall i : nat, (i < length (o_bases o1))%nat -> in_dom tol (nth i (o_bases o1) dflt_basis) (nth i ts 0)) ->
         0 < alpha ->
         (1 <= n)%nat ->
         (2 <= b_order (nth d (o_bases o) dflt_basis))%nat ->
         (forall x : R,
          In x (keep_new atol rtol sp1 (map (geo_x alpha (hd 0 sp1) (last sp1 0) n) (seq 0 n))) ->
          2 * tol <= Rabs (x - nth d ts 0)) ->
         exists o2 : obj R,
           geometric_refine tol atol rtol o1 alpha n d false = Ok o2 /\
           same_geometry tol o1 d ts o2 /\
           geometric_refine tol atol rtol o alpha n d true = Ok (Reparam.obj_reverse o2 d).
Proof. exact @geometric_refine_reversed_middle. Qed.
Print Assumptions C04_geometric_refine_reversed_middle.

Theorem C04_geo_first_span_refuted :
  exists (alpha ks ke k1 : R) (n i : nat),
           0 < alpha /\ ks < k1 < ke /\ (i < n)%nat /\ ~ geo_x alpha ks ke n i < k1.
Proof. exact @geo_first_span_refuted. Qed.
Print Assumptions C04_geo_first_span_refuted.

Theorem C04_geo_negative_alpha_refuted :
  exists (alpha ks ke : R) (n i : nat),
           ks < ke /\ (i < n)%nat /\ gs alpha (S n) <> 0 /\ ~ geo_x alpha ks ke n i <= ke.
Proof. exact @geo_negative_alpha_refuted. Qed.
Print Assumptions C04_geo_negative_alpha_refuted.

