(* C13 — Primitive factories lie on the named analytic shapes.
   Regenerated from the source on every run: Gen/CircleNets.v (the two hard-coded nets of curve_factory.circle),
   Gen/CircleSegment.v (control point rule, step and counts of circle_segment), Gen/RotationMatrix.v.
   Hand model tied by correspondence: Model/Factory.v (circle_segment loop, revolve, extrude nets).
   libm's cos, sin, sqrt, atan2 are read as the real functions (trusted; see DESIGN.md). *)
From Coq Require Import List Arith Reals Lra Lia Bool ZArith QArith Qreals.
From SplipyModel Require Import Spec.BSpline Model.Num Model.Affine Model.Factory
  Gen.CircleNets Gen.CircleSegment Gen.RotationMatrix
  Proofs.CircleProofs Proofs.PlaceProofs Extract.Exec.
Import ListNotations.
Open Scope R_scope.

(* 1. three homogeneous control points of a circular arc blended with quadratic Bernstein weights give a
      point on the circle: X^2 + Y^2 = r^2 W^2 *)
Theorem C13_conic_arc (r wm x0 y0 x1 y1 x2 y2 b0 b1 b2 : R) :
  b1 * b1 = 4 * (b0 * b2) ->
  x0 * x0 + y0 * y0 = r * r -> x1 * x1 + y1 * y1 = r * r -> x2 * x2 + y2 * y2 = r * r ->
  x0 * x1 + y0 * y1 = r * r * wm -> x1 * x2 + y1 * y2 = r * r * wm ->
  x0 * x2 + y0 * y2 = r * r * (2 * (wm * wm) - 1) ->
  let X := b0 * x0 + b1 * x1 + b2 * x2 in
  let Y := b0 * y0 + b1 * y1 + b2 * y2 in
  let W := b0 * 1 + b1 * wm + b2 * 1 in
  X * X + Y * Y = r * r * (W * W).
Proof. exact (conic_arc r wm x0 y0 x1 y1 x2 y2 b0 b1 b2). Qed.
Print Assumptions C13_conic_arc.

(* 2. on a knot span bounded by double knots the three non-zero quadratic B-splines are Bernstein weights *)
Theorem C13_quadratic_weights_are_bernstein side (k : nat -> R) m t :
  sorted k -> (2 <= m)%nat -> in_span side (k m) (k (S m)) t ->
  k (m - 1)%nat = k m -> k (m + 2)%nat = k (S m) ->
  let b0 := B side k 2 (m - 2) t in let b1 := B side k 2 (m - 1) t in let b2 := B side k 2 m t in
  b1 * b1 = 4 * (b0 * b2) /\ b0 + b1 + b2 = 1.
Proof. intros Hs Hm Hsp Hl Hr. exact (B2_bernstein side k Hs m t Hm Hsp Hl Hr). Qed.
Print Assumptions C13_quadratic_weights_are_bernstein.

(* 3. curve_factory.circle, type p2C0: every span of the net in the current source is on the unit circle,
      with positive weights *)
Theorem C13_circle_p2C0 j b0 b1 b2 : (j < 4)%nat -> b1 * b1 = 4 * (b0 * b2) ->
  let net := @circle_net_p2C0 R NumR (sqrt 2) in
  let P0 := nth (2 * j) net [] in let P1 := nth (2 * j + 1) net [] in let P2 := nth ((2 * j + 2) mod 8) net [] in
  let X := b0 * hx P0 + b1 * hx P1 + b2 * hx P2 in
  let Y := b0 * hy P0 + b1 * hy P1 + b2 * hy P2 in
  let W := b0 * hw P0 + b1 * hw P1 + b2 * hw P2 in
  X * X + Y * Y = W * W /\ hw P0 = 1 /\ hw P2 = 1 /\ 0 < hw P1.
Proof. exact (circle_p2C0_span_on_circle j b0 b1 b2). Qed.
Print Assumptions C13_circle_p2C0.

(* 4. type p4C1: the five non-zero quartic B-splines on uniformly tripled knots, and the net of the current
      source blended with them, span by span *)
Theorem C13_quartic_weights side (k : nat -> R) m' t a h : sorted k ->
  in_span side (k (4 + m')%nat) (k (S (4 + m'))) t -> 0 < h ->
  k m' = a - h -> k (1 + m')%nat = a - h -> k (2 + m')%nat = a -> k (3 + m')%nat = a -> k (4 + m')%nat = a ->
  k (5 + m')%nat = a + h -> k (6 + m')%nat = a + h -> k (7 + m')%nat = a + h ->
  k (8 + m')%nat = a + 2 * h -> k (9 + m')%nat = a + 2 * h ->
  map (fun i => B side k 4 (i + m') t) (seq 0 5) = q4 ((t - a) / h).
Proof.
  intros Hs Hsp Hh K0 K1 K2 K3 K4 K5 K6 K7 K8 K9.
  exact (B4_values_list side k Hs m' t a h Hsp Hh K0 K1 K2 K3 K4 K5 K6 K7 K8 K9).
Qed.
Print Assumptions C13_quartic_weights.
Theorem C13_circle_p4C1 j u : (j < 4)%nat ->
  blend4 hx j u * blend4 hx j u + blend4 hy j u * blend4 hy j u = blend4 hw j u * blend4 hw j u.
Proof. exact (circle_p4C1_span_on_circle j u). Qed.
Print Assumptions C13_circle_p4C1.

(* 5. circle_segment: control point i of the loop in the current source is (r cos(i dt), r sin(i dt), w_i);
      every span lies on the circle of radius r; the arc runs from angle 0 to angle theta; weights positive *)
Theorem C13_segment_control_point r dt n i : (i < n)%nat ->
  nth i (@cs_loop R NumR r (cos dt) dt cos sin 0 n 0) [] =
  [r * cos (INR i * dt); r * sin (INR i * dt); if Nat.even i then 1 else cos dt].
Proof. exact (cs_control_point r dt n i). Qed.
Print Assumptions C13_segment_control_point.
Theorem C13_segment_on_circle r dt n j b0 b1 b2 : (2 * j + 2 < n)%nat -> b1 * b1 = 4 * (b0 * b2) ->
  let net := @cs_loop R NumR r (cos dt) dt cos sin 0 n 0 in
  let P0 := nth (2 * j) net [] in let P1 := nth (2 * j + 1) net [] in let P2 := nth (2 * j + 2) net [] in
  let X := b0 * hx P0 + b1 * hx P1 + b2 * hx P2 in
  let Y := b0 * hy P0 + b1 * hy P1 + b2 * hy P2 in
  let W := b0 * hw P0 + b1 * hw P1 + b2 * hw P2 in
  X * X + Y * Y = r * r * (W * W).
Proof. exact (cs_span_on_circle r dt n j b0 b1 b2). Qed.
Print Assumptions C13_segment_on_circle.
Theorem C13_segment_ends r theta ks : (1 <= ks)%nat ->
  let dt := @cs_dt R NumR theta ks in
  let net := @cs_loop R NumR r (cos dt) dt cos sin 0 (cs_n ks) 0 in
  nth 0 net [] = [r * cos 0; r * sin 0; 1] /\ nth (cs_n ks - 1) net [] = [r * cos theta; r * sin theta; 1].
Proof. exact (cs_ends r theta ks). Qed.
Print Assumptions C13_segment_ends.
Theorem C13_segment_weights_positive theta ks : (1 <= ks)%nat -> Rabs theta <= INR ks * (2 * PI / 3) ->
  0 < cos (@cs_dt R NumR theta ks).
Proof. exact (cs_weight_pos theta ks). Qed.
Print Assumptions C13_segment_weights_positive.

(* 6. placement by centre and normal (flip_and_move_plane_geometry, rotate_local_x_axis): with the
      rotation matrices of the current source, a planar point lands in the plane orthogonal to the normal at
      the same distance from the centre, the local z axis lands on the normal, the requested x-axis is
      recovered, and the placement is an isometry.  cp, sp = cos, sin(phi/2); ct, st = cos, sin(theta/2). *)
Theorem C13_placement_plane cp sp ct st x y : cp * cp + sp * sp = 1 -> ct * ct + st * st = 1 ->
  let q := rv (rv [x; y; 0] (rotmat cp (0 - 0 * sp) (0 - 1 * sp) (0 - 0 * sp))) (rotmat ct (0 - 0 * st) (0 - 0 * st) (0 - 1 * st)) in
  dot3 q (nrm cp sp ct st) = 0 /\ dot3 q q = x * x + y * y.
Proof. intros Hp Ht. exact (placement_plane cp sp ct st Hp Ht x y). Qed.
Print Assumptions C13_placement_plane.
Theorem C13_placement_normal cp sp ct st : cp * cp + sp * sp = 1 -> ct * ct + st * st = 1 ->
  rv (rv [0; 0; 1] (rotmat cp (0 - 0 * sp) (0 - 1 * sp) (0 - 0 * sp))) (rotmat ct (0 - 0 * st) (0 - 0 * st) (0 - 1 * st))
  = nrm cp sp ct st.
Proof. exact (placement_normal cp sp ct st). Qed.
Print Assumptions C13_placement_normal.
Theorem C13_placement_xaxis cp sp ct st v0 v1 v2 : cp * cp + sp * sp = 1 -> ct * ct + st * st = 1 ->
  let x' := rv (rv [v0; v1; v2] (rotmat ct (0 - 0 * (0 - st)) (0 - 0 * (0 - st)) (0 - 1 * (0 - st))))
               (rotmat cp (0 - 0 * (0 - sp)) (0 - 1 * (0 - sp)) (0 - 0 * (0 - sp))) in
  rv (rv x' (rotmat cp (0 - 0 * sp) (0 - 1 * sp) (0 - 0 * sp))) (rotmat ct (0 - 0 * st) (0 - 0 * st) (0 - 1 * st)) = [v0; v1; v2]
  /\ nth 2 x' 0 = dot3 [v0; v1; v2] (nrm cp sp ct st).
Proof. intros Hp Ht. exact (placement_xaxis cp sp ct st Hp Ht v0 v1 v2). Qed.
Print Assumptions C13_placement_xaxis.
Theorem C13_placement_isometry cp sp ct st x y z : cp * cp + sp * sp = 1 -> ct * ct + st * st = 1 ->
  let q := rv (rv [x; y; z] (rotmat cp (0 - 0 * sp) (0 - 1 * sp) (0 - 0 * sp))) (rotmat ct (0 - 0 * st) (0 - 0 * st) (0 - 1 * st)) in
  dot3 q q = x * x + y * y + z * z.
Proof. intros Hp Ht. exact (placement_isometry cp sp ct st Hp Ht x y z). Qed.
Print Assumptions C13_placement_isometry.

(* 7. revolve: control point (i, j) of the flat net, and every section is the profile rotated about z by the
      angle of the sweep point, height unchanged *)
Theorem C13_revolve_net (prof seg : list (list R)) i j : (i < length seg)%nat -> (j < length prof)%nat ->
  nth (i * length prof + j) (@revolve_cps R NumR prof seg) [] = @revolve_row R NumR (nth i seg []) (nth j prof []).
Proof. exact (revolve_cps_nth prof seg i j). Qed.
Print Assumptions C13_revolve_net.
Theorem C13_revolve_sections (prof seg : list (list R)) (M N : list R) :
  let S c := wsum M (fun i => wsum N (fun j => nth c (@revolve_row R NumR (nth i seg []) (nth j prof [])) 0)) in
  let P c := wsum N (fun j => nth c (nth j prof []) 0) in
  let C c := wsum M (fun i => nth c (nth i seg []) 0) in
  C 0%nat * C 0%nat + C 1%nat * C 1%nat = C 2%nat * C 2%nat -> C 2%nat <> 0 -> P 3%nat <> 0 ->
  let c := C 0%nat / C 2%nat in let s := C 1%nat / C 2%nat in
  let x := P 0%nat / P 3%nat in let y := P 1%nat / P 3%nat in let z := P 2%nat / P 3%nat in
  c * c + s * s = 1 /\
  S 0%nat / S 3%nat = x * c - y * s /\ S 1%nat / S 3%nat = x * s + y * c /\ S 2%nat / S 3%nat = z.
Proof. exact (revolve_section_is_rotated_profile prof seg M N). Qed.
Print Assumptions C13_revolve_sections.

(* 8. extrude: the surface is the profile translated by v * amount (weighted when rational) *)
Theorem C13_extrude_sections dim rat (amount : list R) (prof : list (list R)) (N : list R) v c :
  length N = length prof -> (c < dim)%nat ->
  let net := @extrude_cps R NumR dim rat amount prof in
  let n := length prof in
  (1 - v) * wsum N (fun j => nth c (nth j net []) 0) + v * wsum N (fun j => nth c (nth (n + j) net []) 0)
  = wsum N (fun j => nth c (nth j prof []) 0)
    + v * (nth c amount 0 * wsum N (fun j => if rat then nth dim (nth j prof []) 0 else 1)).
Proof. intros HN. exact (extrude_is_translation dim rat amount prof N v HN c). Qed.
Print Assumptions C13_extrude_sections.

(* 9. ellipse = circle scaled by (r1, r2) (curve_factory.ellipse multiplies the circle net by [r1, r2, 1]; scaling
      commutes with evaluation by C09): a point of the unit circle lands on the ellipse with semi-axes r1, r2 *)
Theorem C13_ellipse_from_circle r1 r2 x y : r1 <> 0 -> r2 <> 0 -> x * x + y * y = 1 ->
  (r1 * x) * (r1 * x) / (r1 * r1) + (r2 * y) * (r2 * y) / (r2 * r2) = 1.
Proof. intros H1 H2 E. replace 1 with (x * x + y * y) by exact E. field. split; assumption. Qed.
Print Assumptions C13_ellipse_from_circle.

(* 10. n_gon / polygons / lines (order 2): on the knot span m exactly two basis functions are non-zero, they are
       (1 - lambda, lambda) with lambda in [0, 1]: every evaluated point lies on the segment between two consecutive
       control points; the vertices (r cos, r sin) of n_gon lie on the circle of radius r *)
Theorem C13_linear_span_is_segment side (k : nat -> R) (c : nat -> R) m t : sorted k -> (1 <= m)%nat ->
  in_span side (k m) (k (S m)) t ->
  let lam := w (k m) (k (m + 1)%nat) t in
  sumf (fun i => c i * B side k 1 i t) (m - 1) 2 = (1 - lam) * c (m - 1)%nat + lam * c m /\ 0 <= lam <= 1.
Proof.
  intros Hk Hm Hs. cbv zeta. split.
  - rewrite (deboor_step side k Hk 0 c m t Hm Hs). replace (m - 0)%nat with m by lia. cbn [sumf].
    rewrite (B0_span side k Hk m t Hs m), Nat.eqb_refl. replace (m + 0 + 1)%nat with (m + 1)%nat by lia. ring.
  - apply w_range. replace (m + 1)%nat with (S m) by lia. unfold in_span in Hs. destruct side; lra.
Qed.
Print Assumptions C13_linear_span_is_segment.

Theorem C13_ngon_vertex_on_circle r cs sn : cs * cs + sn * sn = 1 -> (r * cs) * (r * cs) + (r * sn) * (r * sn) = r * r.
Proof. intros E. replace ((r * cs) * (r * cs) + (r * sn) * (r * sn)) with (r * r * (cs * cs + sn * sn)) by ring. rewrite E. ring. Qed.
Print Assumptions C13_ngon_vertex_on_circle.

(* non-vacuity: the regenerated nets on a Pythagorean stand-in, the revolve net of a two-point profile *)
Example C13_example :
  length (q_circle_net_p2C0 (7#5)) = 8%nat /\ length (q_circle_net_p4C1 (7#5)) = 12%nat /\
  map (map Qred) (q_revolve_cps [[1; 0; 0; 1]; [2; 0; 1; 1]]%Q [[1; 0; 1]; [(3#5); (4#5); (1#2)]]%Q)
  = [[1; 0; 0; 1]; [2; 0; 1; 1]; [(3#5); (4#5); 0; (1#2)]; [(6#5); (8#5); (1#2); (1#2)]]%Q.
Proof. vm_compute. repeat split; reflexivity. Qed.

(* ------------------------------------------------------------------------------------------------------
   Added in build session 4 (statements re-stated from the proof files by harness tooling; each is closed by
   exact). *)
From SplipyModel Require Import Proofs.CompositeShapes Gen.DiscSquare Proofs.DiscSquareTie Proofs.ThreePoint Model.Ellipse Proofs.EllipseProofs.
Open Scope R_scope.
Theorem C13_sphere_from_revolve_net :
  forall (prof seg : list (list R)) (M N : list R),
         wsum M (fun i : nat => nth 0 (nth i seg []) 0) * wsum M (fun i : nat => nth 0 (nth i seg []) 0) +
         wsum M (fun i : nat => nth 1 (nth i seg []) 0) * wsum M (fun i : nat => nth 1 (nth i seg []) 0) =
         wsum M (fun i : nat => nth 2 (nth i seg []) 0) * wsum M (fun i : nat => nth 2 (nth i seg []) 0) ->
         wsum M (fun i : nat => nth 2 (nth i seg []) 0) <> 0 ->
         wsum N (fun j : nat => nth 3 (nth j prof []) 0) <> 0 ->
         forall r : R,
         wsum N (fun j : nat => nth 0 (nth j prof []) 0) / wsum N (fun j : nat => nth 3 (nth j prof []) 0) *
         (wsum N (fun j : nat => nth 0 (nth j prof []) 0) / wsum N (fun j : nat => nth 3 (nth j prof []) 0)) +
         wsum N (fun j : nat => nth 1 (nth j prof []) 0) / wsum N (fun j : nat => nth 3 (nth j prof []) 0) *
         (wsum N (fun j : nat => nth 1 (nth j prof []) 0) / wsum N (fun j : nat => nth 3 (nth j prof []) 0)) +
         wsum N (fun j : nat => nth 2 (nth j prof []) 0) / wsum N (fun j : nat => nth 3 (nth j prof []) 0) *
         (wsum N (fun j : nat => nth 2 (nth j prof []) 0) / wsum N (fun j : nat => nth 3 (nth j prof []) 0)) = 
         r * r ->
         wsum M (fun i : nat => wsum N (fun j : nat => nth 0 (revolve_row (nth i seg []) (nth j prof [])) 0)) /
         wsum M (fun i : nat => wsum N (fun j : nat => nth 3 (revolve_row (nth i seg []) (nth j prof [])) 0)) *
         (wsum M (fun i : nat => wsum N (fun j : nat => nth 0 (revolve_row (nth i seg []) (nth j prof [])) 0)) /
          wsum M (fun i : nat => wsum N (fun j : nat => nth 3 (revolve_row (nth i seg []) (nth j prof [])) 0))) +
         wsum M (fun i : nat => wsum N (fun j : nat => nth 1 (revolve_row (nth i seg []) (nth j prof [])) 0)) /
         wsum M (fun i : nat => wsum N (fun j : nat => nth 3 (revolve_row (nth i seg []) (nth j prof [])) 0)) *
         (wsum M (fun i : nat => wsum N (fun j : nat => nth 1 (revolve_row (nth i seg []) (nth j prof [])) 0)) /
          wsum M (fun i : nat => wsum N (fun j : nat => nth 3 (revolve_row (nth i seg []) (nth j prof [])) 0))) +
         wsum M (fun i : nat => wsum N (fun j : nat => nth 2 (revolve_row (nth i seg []) (nth j prof [])) 0)) /
         wsum M (fun i : nat => wsum N (fun j : nat => nth 3 (revolve_row (nth i seg []) (nth j prof [])) 0)) *
         (wsum M (fun i : nat => wsum N (fun j : nat => nth 2 (revolve_row (nth i seg []) (nth j prof [])) 0)) /
          wsum M (fun i : nat => wsum N (fun j : nat => nth 3 (revolve_row (nth i seg []) (nth j prof [])) 0))) = 
         r * r.
Proof. exact @sphere_from_revolve_net. Qed.
Print Assumptions C13_sphere_from_revolve_net.

Theorem C13_torus_from_revolve_net :
  forall (prof seg : list (list R)) (M N : list R),
         wsum M (fun i : nat => nth 0 (nth i seg []) 0) * wsum M (fun i : nat => nth 0 (nth i seg []) 0) +
         wsum M (fun i : nat => nth 1 (nth i seg []) 0) * wsum M (fun i : nat => nth 1 (nth i seg []) 0) =
         wsum M (fun i : nat => nth 2 (nth i seg []) 0) * wsum M (fun i : nat => nth 2 (nth i seg []) 0) ->
         wsum M (fun i : nat => nth 2 (nth i seg []) 0) <> 0 ->
         wsum N (fun j : nat => nth 3 (nth j prof []) 0) <> 0 ->
         forall r Rr : R,
         wsum N (fun j : nat => nth 1 (nth j prof []) 0) / wsum N (fun j : nat => nth 3 (nth j prof []) 0) = 0 ->
         (wsum N (fun j : nat => nth 0 (nth j prof []) 0) / wsum N (fun j : nat => nth 3 (nth j prof []) 0) - Rr) *
         (wsum N (fun j : nat => nth 0 (nth j prof []) 0) / wsum N (fun j : nat => nth 3 (nth j prof []) 0) - Rr) +
         wsum N (fun j : nat => nth 2 (nth j prof []) 0) / wsum N (fun j : nat => nth 3 (nth j prof []) 0) *
         (wsum N (fun j : nat => nth 2 (nth j prof []) 0) / wsum N (fun j : nat => nth 3 (nth j prof []) 0)) = 
         r * r ->
         let X :=
           wsum M (fun i : nat => wsum N (fun j : nat => nth 0 (revolve_row (nth i seg []) (nth j prof [])) 0)) /
           wsum M (fun i : nat => wsum N (fun j : nat => nth 3 (revolve_row (nth i seg []) (nth j prof [])) 0)) in
         let Y :=
           wsum M (fun i : nat => wsum N (fun j : nat => nth 1 (revolve_row (nth i seg []) (nth j prof [])) 0)) /
           wsum M (fun i : nat => wsum N (fun j : nat => nth 3 (revolve_row (nth i seg []) (nth j prof [])) 0)) in
         let Z :=
           wsum M (fun i : nat => wsum N (fun j : nat => nth 2 (revolve_row (nth i seg []) (nth j prof [])) 0)) /
           wsum M (fun i : nat => wsum N (fun j : nat => nth 3 (revolve_row (nth i seg []) (nth j prof [])) 0)) in
         (X * X + Y * Y + Z * Z + Rr * Rr - r * r) * (X * X + Y * Y + Z * Z + Rr * Rr - r * r) =
         4 * (Rr * Rr) * (X * X + Y * Y) /\
         (0 <= wsum N (fun j : nat => nth 0 (nth j prof []) 0) / wsum N (fun j : nat => nth 3 (nth j prof []) 0) ->
          (sqrt (X * X + Y * Y) - Rr) * (sqrt (X * X + Y * Y) - Rr) + Z * Z = r * r).
Proof. exact @torus_from_revolve_net. Qed.
Print Assumptions C13_torus_from_revolve_net.

Theorem C13_solid_torus_from_revolve_net :
  forall (prof seg : list (list R)) (M N : list R),
         wsum M (fun i : nat => nth 0 (nth i seg []) 0) * wsum M (fun i : nat => nth 0 (nth i seg []) 0) +
         wsum M (fun i : nat => nth 1 (nth i seg []) 0) * wsum M (fun i : nat => nth 1 (nth i seg []) 0) =
         wsum M (fun i : nat => nth 2 (nth i seg []) 0) * wsum M (fun i : nat => nth 2 (nth i seg []) 0) ->
         wsum M (fun i : nat => nth 2 (nth i seg []) 0) <> 0 ->
         wsum N (fun j : nat => nth 3 (nth j prof []) 0) <> 0 ->
         forall r Rr : R,
         wsum N (fun j : nat => nth 1 (nth j prof []) 0) / wsum N (fun j : nat => nth 3 (nth j prof []) 0) = 0 ->
         0 <= wsum N (fun j : nat => nth 0 (nth j prof []) 0) / wsum N (fun j : nat => nth 3 (nth j prof []) 0) ->
         (wsum N (fun j : nat => nth 0 (nth j prof []) 0) / wsum N (fun j : nat => nth 3 (nth j prof []) 0) - Rr) *
         (wsum N (fun j : nat => nth 0 (nth j prof []) 0) / wsum N (fun j : nat => nth 3 (nth j prof []) 0) - Rr) +
         wsum N (fun j : nat => nth 2 (nth j prof []) 0) / wsum N (fun j : nat => nth 3 (nth j prof []) 0) *
         (wsum N (fun j : nat => nth 2 (nth j prof []) 0) / wsum N (fun j : nat => nth 3 (nth j prof []) 0)) <= 
         r * r ->
         let X :=
           wsum M (fun i : nat => wsum N (fun j : nat => nth 0 (revolve_row (nth i seg []) (nth j prof [])) 0)) /
           wsum M (fun i : nat => wsum N (fun j : nat => nth 3 (revolve_row (nth i seg []) (nth j prof [])) 0)) in
         let Y :=
           wsum M (fun i : nat => wsum N (fun j : nat => nth 1 (revolve_row (nth i seg []) (nth j prof [])) 0)) /
           wsum M (fun i : nat => wsum N (fun j : nat => nth 3 (revolve_row (nth i seg []) (nth j prof [])) 0)) in
         let Z :=
           wsum M (fun i : nat => wsum N (fun j : nat => nth 2 (revolve_row (nth i seg []) (nth j prof [])) 0)) /
           wsum M (fun i : nat => wsum N (fun j : nat => nth 3 (revolve_row (nth i seg []) (nth j prof [])) 0)) in
         (sqrt (X * X + Y * Y) - Rr) * (sqrt (X * X + Y * Y) - Rr) + Z * Z <= r * r.
Proof. exact @solid_torus_from_revolve_net. Qed.
Print Assumptions C13_solid_torus_from_revolve_net.

Theorem C13_cylinder_from_extrude_net :
  forall (prof : list (list R)) (N : list R) (v h : R) (n centre : list R),
         length N = length prof ->
         wsum N (fun j : nat => nth 3 (nth j prof []) 0) <> 0 ->
         forall r : R,
         dot3 n n = 1 ->
         dot3
           (sub3
              [wsum N (fun j : nat => nth 0 (nth j prof []) 0) / wsum N (fun j : nat => nth 3 (nth j prof []) 0);
               wsum N (fun j : nat => nth 1 (nth j prof []) 0) / wsum N (fun j : nat => nth 3 (nth j prof []) 0);
               wsum N (fun j : nat => nth 2 (nth j prof []) 0) / wsum N (fun j : nat => nth 3 (nth j prof []) 0)]
              centre) n = 0 ->
         dot3
           (sub3
              [wsum N (fun j : nat => nth 0 (nth j prof []) 0) / wsum N (fun j : nat => nth 3 (nth j prof []) 0);
               wsum N (fun j : nat => nth 1 (nth j prof []) 0) / wsum N (fun j : nat => nth 3 (nth j prof []) 0);
               wsum N (fun j : nat => nth 2 (nth j prof []) 0) / wsum N (fun j : nat => nth 3 (nth j prof []) 0)]
              centre)
           (sub3
              [wsum N (fun j : nat => nth 0 (nth j prof []) 0) / wsum N (fun j : nat => nth 3 (nth j prof []) 0);
               wsum N (fun j : nat => nth 1 (nth j prof []) 0) / wsum N (fun j : nat => nth 3 (nth j prof []) 0);
               wsum N (fun j : nat => nth 2 (nth j prof []) 0) / wsum N (fun j : nat => nth 3 (nth j prof []) 0)]
              centre) = r * r ->
         let d :=
           sub3
             [((1 - v) * wsum N (fun j : nat => nth 0 (nth j (extrude_cps 3 true (scal3 h n) prof) []) 0) +
               v * wsum N (fun j : nat => nth 0 (nth (length prof + j) (extrude_cps 3 true (scal3 h n) prof) []) 0)) /
              ((1 - v) * wsum N (fun j : nat => nth 3 (nth j (extrude_cps 3 true (scal3 h n) prof) []) 0) +
               v * wsum N (fun j : nat => nth 3 (nth (length prof + j) (extrude_cps 3 true (scal3 h n) prof) []) 0));
              ((1 - v) * wsum N (fun j : nat => nth 1 (nth j (extrude_cps 3 true (scal3 h n) prof) []) 0) +
               v * wsum N (fun j : nat => nth 1 (nth (length prof + j) (extrude_cps 3 true (scal3 h n) prof) []) 0)) /
              ((1 - v) * wsum N (fun j : nat => nth 3 (nth j (extrude_cps 3 true (scal3 h n) prof) []) 0) +
               v * wsum N (fun j : nat => nth 3 (nth (length prof + j) (extrude_cps 3 true (scal3 h n) prof) []) 0));
              ((1 - v) * wsum N (fun j : nat => nth 2 (nth j (extrude_cps 3 true (scal3 h n) prof) []) 0) +
               v * wsum N (fun j : nat => nth 2 (nth (length prof + j) (extrude_cps 3 true (scal3 h n) prof) []) 0)) /
              ((1 - v) * wsum N (fun j : nat => nth 3 (nth j (extrude_cps 3 true (scal3 h n) prof) []) 0) +
               v * wsum N (fun j : nat => nth 3 (nth (length prof + j) (extrude_cps 3 true (scal3 h n) prof) []) 0))]
             centre in
         dot3 d n = v * h /\ rad2 d n = r * r /\ (0 <= v <= 1 -> 0 <= h -> 0 <= dot3 d n <= h).
Proof. exact @cylinder_from_extrude_net. Qed.
Print Assumptions C13_cylinder_from_extrude_net.

Theorem C13_solid_cylinder_from_extrude_net :
  forall (prof : list (list R)) (N : list R) (v h : R) (n centre : list R),
         length N = length prof ->
         wsum N (fun j : nat => nth 3 (nth j prof []) 0) <> 0 ->
         forall r : R,
         dot3 n n = 1 ->
         dot3
           (sub3
              [wsum N (fun j : nat => nth 0 (nth j prof []) 0) / wsum N (fun j : nat => nth 3 (nth j prof []) 0);
               wsum N (fun j : nat => nth 1 (nth j prof []) 0) / wsum N (fun j : nat => nth 3 (nth j prof []) 0);
               wsum N (fun j : nat => nth 2 (nth j prof []) 0) / wsum N (fun j : nat => nth 3 (nth j prof []) 0)]
              centre) n = 0 ->
         dot3
           (sub3
              [wsum N (fun j : nat => nth 0 (nth j prof []) 0) / wsum N (fun j : nat => nth 3 (nth j prof []) 0);
               wsum N (fun j : nat => nth 1 (nth j prof []) 0) / wsum N (fun j : nat => nth 3 (nth j prof []) 0);
               wsum N (fun j : nat => nth 2 (nth j prof []) 0) / wsum N (fun j : nat => nth 3 (nth j prof []) 0)]
              centre)
           (sub3
              [wsum N (fun j : nat => nth 0 (nth j prof []) 0) / wsum N (fun j : nat => nth 3 (nth j prof []) 0);
               wsum N (fun j : nat => nth 1 (nth j prof []) 0) / wsum N (fun j : nat => nth 3 (nth j prof []) 0);
               wsum N (fun j : nat => nth 2 (nth j prof []) 0) / wsum N (fun j : nat => nth 3 (nth j prof []) 0)]
              centre) <= r * r ->
         let d :=
           sub3
             [((1 - v) * wsum N (fun j : nat => nth 0 (nth j (extrude_cps 3 true (scal3 h n) prof) []) 0) +
               v * wsum N (fun j : nat => nth 0 (nth (length prof + j) (extrude_cps 3 true (scal3 h n) prof) []) 0)) /
              ((1 - v) * wsum N (fun j : nat => nth 3 (nth j (extrude_cps 3 true (scal3 h n) prof) []) 0) +
               v * wsum N (fun j : nat => nth 3 (nth (length prof + j) (extrude_cps 3 true (scal3 h n) prof) []) 0));
              ((1 - v) * wsum N (fun j : nat => nth 1 (nth j (extrude_cps 3 true (scal3 h n) prof) []) 0) +
               v * wsum N (fun j : nat => nth 1 (nth (length prof + j) (extrude_cps 3 true (scal3 h n) prof) []) 0)) /
              ((1 - v) * wsum N (fun j : nat => nth 3 (nth j (extrude_cps 3 true (scal3 h n) prof) []) 0) +
               v * wsum N (fun j : nat => nth 3 (nth (length prof + j) (extrude_cps 3 true (scal3 h n) prof) []) 0));
              ((1 - v) * wsum N (fun j : nat => nth 2 (nth j (extrude_cps 3 true (scal3 h n) prof) []) 0) +
               v * wsum N (fun j : nat => nth 2 (nth (length prof + j) (extrude_cps 3 true (scal3 h n) prof) []) 0)) /
              ((1 - v) * wsum N (fun j : nat => nth 3 (nth j (extrude_cps 3 true (scal3 h n) prof) []) 0) +
               v * wsum N (fun j : nat => nth 3 (nth (length prof + j) (extrude_cps 3 true (scal3 h n) prof) []) 0))]
             centre in
         dot3 d n = v * h /\ rad2 d n <= r * r /\ (0 <= v <= 1 -> 0 <= h -> 0 <= dot3 d n <= h).
Proof. exact @solid_cylinder_from_extrude_net. Qed.
Print Assumptions C13_solid_cylinder_from_extrude_net.

Theorem C13_extrude_cartesian_rational :
  forall (dim : nat) (amount : list R) (prof : list (list R)) (N : list R) (v : R),
         length N = length prof ->
         forall c : nat,
         (c < dim)%nat ->
         let net := extrude_cps dim true amount prof in
         let H :=
           fun k : nat =>
           (1 - v) * wsum N (fun j : nat => nth k (nth j net []) 0) +
           v * wsum N (fun j : nat => nth k (nth (length prof + j) net []) 0) in
         let P := fun k : nat => wsum N (fun j : nat => nth k (nth j prof []) 0) in
         P dim <> 0 -> H dim = P dim /\ H c / H dim = P c / P dim + v * nth c amount 0.
Proof. exact @extrude_cartesian_rational. Qed.
Print Assumptions C13_extrude_cartesian_rational.

Theorem C13_radial_interpolation :
  forall (r u : R) (centre Q n : list R),
         0 <= r ->
         0 <= u <= 1 ->
         dot3 (sub3 Q centre) (sub3 Q centre) = r * r ->
         let P := add3 (scal3 (1 - u) centre) (scal3 u Q) in
         let d := sub3 P centre in
         dot3 d d = u * r * (u * r) /\
         sqrt (dot3 d d) = u * r /\ dot3 d d <= r * r /\ dot3 d n = u * dot3 (sub3 Q centre) n.
Proof. exact @radial_interpolation. Qed.
Print Assumptions C13_radial_interpolation.

Theorem C13_disc_square_boundary :
  forall r w b0 b1 b2 : R,
         w * w = 1 / 2 ->
         b1 * b1 = 4 * (b0 * b2) ->
         let net := disc_square_net_gen r w in
         forall i0 i1 i2 : nat,
         In (i0, i1, i2) [(0%nat, 1%nat, 2%nat); (6%nat, 7%nat, 8%nat); (0%nat, 3%nat, 6%nat); (2%nat, 5%nat, 8%nat)] ->
         let P0 := nth i0 net [] in
         let P1 := nth i1 net [] in
         let P2 := nth i2 net [] in
         blend3 hx P0 P1 P2 b0 b1 b2 * blend3 hx P0 P1 P2 b0 b1 b2 +
         blend3 hy P0 P1 P2 b0 b1 b2 * blend3 hy P0 P1 P2 b0 b1 b2 =
         r * r * (blend3 hw P0 P1 P2 b0 b1 b2 * blend3 hw P0 P1 P2 b0 b1 b2) /\ hw P0 = 1 /\ hw P1 = w /\ hw P2 = 1.
Proof. exact @disc_square_gen_boundary. Qed.
Print Assumptions C13_disc_square_boundary.

Theorem C13_disc_square_inside :
  forall r w a0 a1 a2 b0 b1 b2 : R,
         w * w = 1 / 2 ->
         0 < w ->
         0 <= a0 ->
         0 <= a1 ->
         0 <= a2 ->
         0 <= b0 ->
         0 <= b1 ->
         0 <= b2 ->
         a1 * a1 = 4 * (a0 * a2) ->
         b1 * b1 = 4 * (b0 * b2) ->
         a0 + a1 + a2 = 1 ->
         b0 + b1 + b2 = 1 ->
         let net := disc_square_net_gen r w in
         let X := blend33 hx net a0 a1 a2 b0 b1 b2 in
         let Y := blend33 hy net a0 a1 a2 b0 b1 b2 in
         let W := blend33 hw net a0 a1 a2 b0 b1 b2 in
         0 < W /\ X * X + Y * Y <= r * r * (W * W) /\ X / W * (X / W) + Y / W * (Y / W) <= r * r.
Proof. exact @disc_square_gen_inside. Qed.
Print Assumptions C13_disc_square_inside.

Theorem C13_placement_frame :
  forall cp sp ct st : R,
         cp * cp + sp * sp = 1 ->
         ct * ct + st * st = 1 ->
         forall (centre : list R) (X Y Z : R),
         let d := sub3 (place cp sp ct st centre [X; Y; Z]) centre in
         dot3 d (nrm cp sp ct st) = Z /\ dot3 d d = X * X + Y * Y + Z * Z /\ rad2 d (nrm cp sp ct st) = X * X + Y * Y.
Proof. exact @placement_frame. Qed.
Print Assumptions C13_placement_frame.

Theorem C13_sphere_factory_chain :
  forall cp sp ct st : R,
         cp * cp + sp * sp = 1 ->
         ct * ct + st * st = 1 ->
         forall (r ca sa : R) (centre : list R) (X Y Z : R),
         ca * ca + sa * sa = 1 ->
         X * X + Y * Y + Z * Z = r * r ->
         let q1 := rv [X; Y; Z] (rotmat ca (0 - 0 * sa) (0 - 0 * sa) (0 - 1 * sa)) in
         let Q := place cp sp ct st centre q1 in dot3 (sub3 Q centre) (sub3 Q centre) = r * r.
Proof. exact @sphere_factory_chain. Qed.
Print Assumptions C13_sphere_factory_chain.

Theorem C13_torus_factory_chain :
  forall cp sp ct st : R,
         cp * cp + sp * sp = 1 ->
         ct * ct + st * st = 1 ->
         forall (r Rr ca sa : R) (centre : list R) (X Y Z : R),
         ca * ca + sa * sa = 1 ->
         (X * X + Y * Y + Z * Z + Rr * Rr - r * r) * (X * X + Y * Y + Z * Z + Rr * Rr - r * r) =
         4 * (Rr * Rr) * (X * X + Y * Y) ->
         let q1 := rv [X; Y; Z] (rotmat ca (0 - 0 * sa) (0 - 0 * sa) (0 - 1 * sa)) in
         let d := sub3 (place cp sp ct st centre q1) centre in
         (dot3 d d + Rr * Rr - r * r) * (dot3 d d + Rr * Rr - r * r) = 4 * (Rr * Rr) * rad2 d (nrm cp sp ct st).
Proof. exact @torus_factory_chain. Qed.
Print Assumptions C13_torus_factory_chain.

Theorem C13_cylinder_placed :
  forall cp sp ct st : R,
         cp * cp + sp * sp = 1 ->
         ct * ct + st * st = 1 ->
         forall (r h v : R) (centre : list R) (x y : R),
         x * x + y * y = r * r ->
         let P := add3 (place cp sp ct st centre [x; y; 0]) (scal3 v (scal3 h (nrm cp sp ct st))) in
         let d := sub3 P centre in
         dot3 d (nrm cp sp ct st) = v * h /\
         rad2 d (nrm cp sp ct st) = r * r /\ (0 <= v <= 1 -> 0 <= h -> 0 <= dot3 d (nrm cp sp ct st) <= h).
Proof. exact @cylinder_placed. Qed.
Print Assumptions C13_cylinder_placed.

Theorem C13_solid_cylinder_placed :
  forall cp sp ct st : R,
         cp * cp + sp * sp = 1 ->
         ct * ct + st * st = 1 ->
         forall (r h v : R) (centre : list R) (x y : R),
         x * x + y * y <= r * r ->
         let P := add3 (place cp sp ct st centre [x; y; 0]) (scal3 v (scal3 h (nrm cp sp ct st))) in
         let d := sub3 P centre in
         dot3 d (nrm cp sp ct st) = v * h /\
         rad2 d (nrm cp sp ct st) <= r * r /\ (0 <= v <= 1 -> 0 <= h -> 0 <= dot3 d (nrm cp sp ct st) <= h).
Proof. exact @solid_cylinder_placed. Qed.
Print Assumptions C13_solid_cylinder_placed.

Theorem C13_three_point_determinant :
  forall P0 P1 P2 : list R, det3 (tp_mat P0 P1 P2) = 4 * dot3 (tp_normal P0 P1 P2) (tp_normal P0 P1 P2).
Proof. exact @tp_det. Qed.
Print Assumptions C13_three_point_determinant.

Theorem C13_three_point_circumcentre :
  forall P0 P1 P2 : list R,
         dot3 (tp_normal P0 P1 P2) (tp_normal P0 P1 P2) <> 0 ->
         dot3 (sub3 P0 (tp_centre P0 P1 P2)) (sub3 P0 (tp_centre P0 P1 P2)) = tp_radius P0 P1 P2 * tp_radius P0 P1 P2 /\
         dot3 (sub3 P1 (tp_centre P0 P1 P2)) (sub3 P1 (tp_centre P0 P1 P2)) = tp_radius P0 P1 P2 * tp_radius P0 P1 P2 /\
         dot3 (sub3 P2 (tp_centre P0 P1 P2)) (sub3 P2 (tp_centre P0 P1 P2)) = tp_radius P0 P1 P2 * tp_radius P0 P1 P2 /\
         dot3 (tp_normal P0 P1 P2) (sub3 (tp_centre P0 P1 P2) P0) = 0 /\
         dot3 (tp_normal P0 P1 P2) (sub3 (tp_centre P0 P1 P2) P1) = 0 /\
         dot3 (tp_normal P0 P1 P2) (sub3 (tp_centre P0 P1 P2) P2) = 0 /\ 0 < tp_radius P0 P1 P2.
Proof. exact @tp_circumcentre. Qed.
Print Assumptions C13_three_point_circumcentre.

Theorem C13_three_point_circumcentre_unique :
  forall P0 P1 P2 : list R,
         dot3 (tp_normal P0 P1 P2) (tp_normal P0 P1 P2) <> 0 ->
         forall y0 y1 y2 : R,
         let Y := [y0; y1; y2] in
         dot3 (tp_normal P0 P1 P2) (sub3 Y P0) = 0 ->
         dot3 (sub3 P1 Y) (sub3 P1 Y) = dot3 (sub3 P0 Y) (sub3 P0 Y) ->
         dot3 (sub3 P2 Y) (sub3 P2 Y) = dot3 (sub3 P0 Y) (sub3 P0 Y) -> Y = tp_centre P0 P1 P2.
Proof. exact @tp_circumcentre_unique. Qed.
Print Assumptions C13_three_point_circumcentre_unique.

Theorem C13_three_point_solve_is_centre :
  forall P0 P1 P2 : list R,
         dot3 (tp_normal P0 P1 P2) (tp_normal P0 P1 P2) <> 0 ->
         forall x0 x1 x2 : R,
         solves3 (tp_mat P0 P1 P2) (tp_rhs P0 P1 P2) [x0; x1; x2] -> [x0; x1; x2] = tp_centre P0 P1 P2.
Proof. exact @tp_solve_is_centre. Qed.
Print Assumptions C13_three_point_solve_is_centre.

Theorem C13_three_point_arc :
  forall a0 a1 a2 b0 b1 b2 c0 c1 c2 : R,
         dot3 (tp_normal [a0; a1; a2] [b0; b1; b2] [c0; c1; c2]) (tp_normal [a0; a1; a2] [b0; b1; b2] [c0; c1; c2]) <>
         0 ->
         forall cp sp ct st : R,
         cp * cp + sp * sp = 1 ->
         ct * ct + st * st = 1 ->
         nrm cp sp ct st = tp_unit_normal [a0; a1; a2] [b0; b1; b2] [c0; c1; c2] ->
         forall ca sa rho' : R,
         ca * ca + sa * sa = 1 ->
         0 < rho' ->
         nth 0
           (rv
              (rv (sub3 [a0; a1; a2] (tp_centre [a0; a1; a2] [b0; b1; b2] [c0; c1; c2]))
                 (rotmat ct (0 - 0 * (0 - st)) (0 - 0 * (0 - st)) (0 - 1 * (0 - st))))
              (rotmat cp (0 - 0 * (0 - sp)) (0 - 1 * (0 - sp)) (0 - 0 * (0 - sp)))) 0 = rho' * (ca * ca - sa * sa) ->
         nth 1
           (rv
              (rv (sub3 [a0; a1; a2] (tp_centre [a0; a1; a2] [b0; b1; b2] [c0; c1; c2]))
                 (rotmat ct (0 - 0 * (0 - st)) (0 - 0 * (0 - st)) (0 - 1 * (0 - st))))
              (rotmat cp (0 - 0 * (0 - sp)) (0 - 1 * (0 - sp)) (0 - 0 * (0 - sp)))) 0 = rho' * (2 * sa * ca) ->
         forall theta0 rho : R,
         - PI < theta0 <= PI ->
         0 < rho ->
         dot3 (sub3 [a0; a1; a2] (tp_centre [a0; a1; a2] [b0; b1; b2] [c0; c1; c2]))
           (sub3 [c0; c1; c2] (tp_centre [a0; a1; a2] [b0; b1; b2] [c0; c1; c2])) = rho * cos theta0 ->
         dot3
           (cross3 (sub3 [a0; a1; a2] (tp_centre [a0; a1; a2] [b0; b1; b2] [c0; c1; c2]))
              (sub3 [c0; c1; c2] (tp_centre [a0; a1; a2] [b0; b1; b2] [c0; c1; c2])))
           (tp_unit_normal [a0; a1; a2] [b0; b1; b2] [c0; c1; c2]) = rho * sin theta0 ->
         (forall t : R,
          dot3
            (sub3 (tp_point a0 a1 a2 b0 b1 b2 c0 c1 c2 cp sp ct st ca sa t)
               (tp_centre [a0; a1; a2] [b0; b1; b2] [c0; c1; c2]))
            (sub3 (tp_point a0 a1 a2 b0 b1 b2 c0 c1 c2 cp sp ct st ca sa t)
               (tp_centre [a0; a1; a2] [b0; b1; b2] [c0; c1; c2])) =
          tp_radius [a0; a1; a2] [b0; b1; b2] [c0; c1; c2] * tp_radius [a0; a1; a2] [b0; b1; b2] [c0; c1; c2] /\
          dot3 (tp_normal [a0; a1; a2] [b0; b1; b2] [c0; c1; c2])
            (sub3 (tp_point a0 a1 a2 b0 b1 b2 c0 c1 c2 cp sp ct st ca sa t)
               (tp_centre [a0; a1; a2] [b0; b1; b2] [c0; c1; c2])) = 0) /\
         tp_point a0 a1 a2 b0 b1 b2 c0 c1 c2 cp sp ct st ca sa 0 = [a0; a1; a2] /\
         0 < tp_sweep theta0 < 2 * PI /\
         tp_point a0 a1 a2 b0 b1 b2 c0 c1 c2 cp sp ct st ca sa (tp_sweep theta0) = [c0; c1; c2] /\
         (forall beta : R,
          0 <= beta < 2 * PI ->
          cos beta =
          dot3 (sub3 [a0; a1; a2] (tp_centre [a0; a1; a2] [b0; b1; b2] [c0; c1; c2]))
            (sub3 [b0; b1; b2] (tp_centre [a0; a1; a2] [b0; b1; b2] [c0; c1; c2])) /
          (tp_radius [a0; a1; a2] [b0; b1; b2] [c0; c1; c2] * tp_radius [a0; a1; a2] [b0; b1; b2] [c0; c1; c2]) ->
          sin beta =
          dot3
            (cross3 (sub3 [a0; a1; a2] (tp_centre [a0; a1; a2] [b0; b1; b2] [c0; c1; c2]))
               (sub3 [b0; b1; b2] (tp_centre [a0; a1; a2] [b0; b1; b2] [c0; c1; c2])))
            (tp_unit_normal [a0; a1; a2] [b0; b1; b2] [c0; c1; c2]) /
          (tp_radius [a0; a1; a2] [b0; b1; b2] [c0; c1; c2] * tp_radius [a0; a1; a2] [b0; b1; b2] [c0; c1; c2]) ->
          0 < beta < tp_sweep theta0 /\ tp_point a0 a1 a2 b0 b1 b2 c0 c1 c2 cp sp ct st ca sa beta = [b0; b1; b2]) /\
         dot3 (sub3 [a0; a1; a2] (tp_centre [a0; a1; a2] [b0; b1; b2] [c0; c1; c2]))
           (sub3 [b0; b1; b2] (tp_centre [a0; a1; a2] [b0; b1; b2] [c0; c1; c2])) /
         (tp_radius [a0; a1; a2] [b0; b1; b2] [c0; c1; c2] * tp_radius [a0; a1; a2] [b0; b1; b2] [c0; c1; c2]) *
         (dot3 (sub3 [a0; a1; a2] (tp_centre [a0; a1; a2] [b0; b1; b2] [c0; c1; c2]))
            (sub3 [b0; b1; b2] (tp_centre [a0; a1; a2] [b0; b1; b2] [c0; c1; c2])) /
          (tp_radius [a0; a1; a2] [b0; b1; b2] [c0; c1; c2] * tp_radius [a0; a1; a2] [b0; b1; b2] [c0; c1; c2])) +
         dot3
           (cross3 (sub3 [a0; a1; a2] (tp_centre [a0; a1; a2] [b0; b1; b2] [c0; c1; c2]))
              (sub3 [b0; b1; b2] (tp_centre [a0; a1; a2] [b0; b1; b2] [c0; c1; c2])))
           (tp_unit_normal [a0; a1; a2] [b0; b1; b2] [c0; c1; c2]) /
         (tp_radius [a0; a1; a2] [b0; b1; b2] [c0; c1; c2] * tp_radius [a0; a1; a2] [b0; b1; b2] [c0; c1; c2]) *
         (dot3
            (cross3 (sub3 [a0; a1; a2] (tp_centre [a0; a1; a2] [b0; b1; b2] [c0; c1; c2]))
               (sub3 [b0; b1; b2] (tp_centre [a0; a1; a2] [b0; b1; b2] [c0; c1; c2])))
            (tp_unit_normal [a0; a1; a2] [b0; b1; b2] [c0; c1; c2]) /
          (tp_radius [a0; a1; a2] [b0; b1; b2] [c0; c1; c2] * tp_radius [a0; a1; a2] [b0; b1; b2] [c0; c1; c2])) = 1.
Proof. exact @three_point_arc. Qed.
Print Assumptions C13_three_point_arc.

Theorem C13_three_point_arc_through_middle :
  forall a0 a1 a2 b0 b1 b2 c0 c1 c2 : R,
         dot3 (tp_normal [a0; a1; a2] [b0; b1; b2] [c0; c1; c2]) (tp_normal [a0; a1; a2] [b0; b1; b2] [c0; c1; c2]) <>
         0 ->
         forall cp sp ct st : R,
         cp * cp + sp * sp = 1 ->
         ct * ct + st * st = 1 ->
         nrm cp sp ct st = tp_unit_normal [a0; a1; a2] [b0; b1; b2] [c0; c1; c2] ->
         forall ca sa rho' : R,
         ca * ca + sa * sa = 1 ->
         0 < rho' ->
         nth 0
           (rv
              (rv (sub3 [a0; a1; a2] (tp_centre [a0; a1; a2] [b0; b1; b2] [c0; c1; c2]))
                 (rotmat ct (0 - 0 * (0 - st)) (0 - 0 * (0 - st)) (0 - 1 * (0 - st))))
              (rotmat cp (0 - 0 * (0 - sp)) (0 - 1 * (0 - sp)) (0 - 0 * (0 - sp)))) 0 = rho' * (ca * ca - sa * sa) ->
         nth 1
           (rv
              (rv (sub3 [a0; a1; a2] (tp_centre [a0; a1; a2] [b0; b1; b2] [c0; c1; c2]))
                 (rotmat ct (0 - 0 * (0 - st)) (0 - 0 * (0 - st)) (0 - 1 * (0 - st))))
              (rotmat cp (0 - 0 * (0 - sp)) (0 - 1 * (0 - sp)) (0 - 0 * (0 - sp)))) 0 = rho' * (2 * sa * ca) ->
         forall theta0 rho : R,
         - PI < theta0 <= PI ->
         0 < rho ->
         dot3 (sub3 [a0; a1; a2] (tp_centre [a0; a1; a2] [b0; b1; b2] [c0; c1; c2]))
           (sub3 [c0; c1; c2] (tp_centre [a0; a1; a2] [b0; b1; b2] [c0; c1; c2])) = rho * cos theta0 ->
         dot3
           (cross3 (sub3 [a0; a1; a2] (tp_centre [a0; a1; a2] [b0; b1; b2] [c0; c1; c2]))
              (sub3 [c0; c1; c2] (tp_centre [a0; a1; a2] [b0; b1; b2] [c0; c1; c2])))
           (tp_unit_normal [a0; a1; a2] [b0; b1; b2] [c0; c1; c2]) = rho * sin theta0 ->
         exists beta : R,
           0 < beta < tp_sweep theta0 /\ tp_point a0 a1 a2 b0 b1 b2 c0 c1 c2 cp sp ct st ca sa beta = [b0; b1; b2].
Proof. exact @three_point_arc_through_middle. Qed.
Print Assumptions C13_three_point_arc_through_middle.

Theorem C13_three_point_arc_planar :
  forall a0 a1 a2 b0 b1 b2 c0 c1 c2 : R,
         dot3 (tp_normal [a0; a1; a2] [b0; b1; b2] [c0; c1; c2]) (tp_normal [a0; a1; a2] [b0; b1; b2] [c0; c1; c2]) <>
         0 ->
         forall cp sp ct st : R,
         cp * cp + sp * sp = 1 ->
         ct * ct + st * st = 1 ->
         nrm cp sp ct st = tp_unit_normal [a0; a1; a2] [b0; b1; b2] [c0; c1; c2] ->
         forall ca sa rho' : R,
         ca * ca + sa * sa = 1 ->
         0 < rho' ->
         nth 0
           (rv
              (rv (sub3 [a0; a1; a2] (tp_centre [a0; a1; a2] [b0; b1; b2] [c0; c1; c2]))
                 (rotmat ct (0 - 0 * (0 - st)) (0 - 0 * (0 - st)) (0 - 1 * (0 - st))))
              (rotmat cp (0 - 0 * (0 - sp)) (0 - 1 * (0 - sp)) (0 - 0 * (0 - sp)))) 0 = rho' * (ca * ca - sa * sa) ->
         nth 1
           (rv
              (rv (sub3 [a0; a1; a2] (tp_centre [a0; a1; a2] [b0; b1; b2] [c0; c1; c2]))
                 (rotmat ct (0 - 0 * (0 - st)) (0 - 0 * (0 - st)) (0 - 1 * (0 - st))))
              (rotmat cp (0 - 0 * (0 - sp)) (0 - 1 * (0 - sp)) (0 - 0 * (0 - sp)))) 0 = rho' * (2 * sa * ca) ->
         forall t : R,
         a2 = 0 -> b2 = 0 -> c2 = 0 -> nth 2 (tp_point a0 a1 a2 b0 b1 b2 c0 c1 c2 cp sp ct st ca sa t) 0 = 0.
Proof. exact @three_point_arc_planar. Qed.
Print Assumptions C13_three_point_arc_planar.

Theorem C13_three_point_arc_instance :
  tp_centre [1; 0; 0] [0; 1; 0] [-1; 0; 0] = [0; 0; 0] /\
         tp_radius [1; 0; 0] [0; 1; 0] [-1; 0; 0] = 1 /\
         tp_point 1 0 0 0 1 0 (-1) 0 0 1 0 1 0 1 0 0 = [1; 0; 0] /\
         tp_point 1 0 0 0 1 0 (-1) 0 0 1 0 1 0 1 0 PI = [-1; 0; 0] /\
         (exists beta : R, 0 < beta < PI /\ tp_point 1 0 0 0 1 0 (-1) 0 0 1 0 1 0 1 0 beta = [0; 1; 0]).
Proof. exact @three_point_arc_instance. Qed.
Print Assumptions C13_three_point_arc_instance.

Theorem C13_ngon_ccw :
  forall (n : nat) (r : R),
         (3 <= n)%nat ->
         0 < r ->
         forall i : nat,
         ngon_x n r i * ngon_y n r (S i) - ngon_y n r i * ngon_x n r (S i) = r * r * sin (ThreePoint.ngon_dt n) /\
         0 < r * r * sin (ThreePoint.ngon_dt n).
Proof. exact @ngon_ccw. Qed.
Print Assumptions C13_ngon_ccw.

Theorem C13_ngon_eval :
  forall (n : nat) (r : R),
         (3 <= n)%nat ->
         forall (side : bool) (m : nat) (t : R),
         (1 <= m <= n)%nat ->
         in_span side (INR m - 1) (INR m) t ->
         let k := BasisDef.kn (ngon_knots n) in
         let lam := t - (INR m - 1) in
         let Px := sumf (fun j : nat => nth 0 (nth (j mod n) (ngon_cps n r) []) 0 * B side k 1 j t) 0 (S n) in
         let Py := sumf (fun j : nat => nth 1 (nth (j mod n) (ngon_cps n r) []) 0 * B side k 1 j t) 0 (S n) in
         Px = (1 - lam) * ngon_x n r (m - 1) + lam * ngon_x n r m /\
         Py = (1 - lam) * ngon_y n r (m - 1) + lam * ngon_y n r m /\ 0 <= lam <= 1 /\ Px * Px + Py * Py <= r * r.
Proof. exact @ngon_eval. Qed.
Print Assumptions C13_ngon_eval.

Theorem C13_ngon_placed :
  forall cp sp ct st : R,
         cp * cp + sp * sp = 1 ->
         ct * ct + st * st = 1 ->
         forall (centre : list R) (n : nat) (r : R),
         (3 <= n)%nat ->
         0 < r ->
         forall i : nat,
         let Q := fun j : nat => place cp sp ct st centre [ngon_x n r j; ngon_y n r j; 0] in
         dot3 (sub3 (Q i) centre) (nrm cp sp ct st) = 0 /\
         dot3 (sub3 (Q i) centre) (sub3 (Q i) centre) = r * r /\
         cross3 (sub3 (Q i) centre) (sub3 (Q (S i)) centre) =
         scal3 (r * r * sin (ThreePoint.ngon_dt n)) (nrm cp sp ct st) /\
         0 < r * r * sin (ThreePoint.ngon_dt n) /\ Q 0%nat = add3 (scal3 r (rot cp sp ct st [1; 0; 0])) centre.
Proof. exact @ngon_placed. Qed.
Print Assumptions C13_ngon_placed.

Theorem C13_line_eval :
  forall (side : bool) (a b : list R) (relative : bool) (t : R) (c : nat),
         in_span side 0 1 t ->
         let cps := line_cps a b relative in
         length cps = 2%nat /\
         sumf (fun i : nat => nth c (nth i cps []) 0 * B side (BasisDef.kn unit_knots) 1 i t) 0 2 =
         (1 - t) * nth c a 0 + t * nth c (nth 1 cps []) 0.
Proof. exact @line_eval. Qed.
Print Assumptions C13_line_eval.

Theorem C13_polygon_eval :
  forall (side : bool) (k c : nat -> R) (m N : nat) (t : R),
         sorted k ->
         (1 <= m <= N)%nat ->
         in_span side (k m) (k (S m)) t ->
         let lam := w (k m) (k (m + 1)%nat) t in
         sumf (fun i : nat => c i * B side k 1 i t) 0 (S N) = (1 - lam) * c (m - 1)%nat + lam * c m /\ 0 <= lam <= 1.
Proof. exact @polygon_eval. Qed.
Print Assumptions C13_polygon_eval.

Theorem C13_polygon_interpolates :
  forall (k c : nat -> R) (m N : nat),
         sorted k ->
         (1 <= m <= N)%nat -> k m < k (S m) -> sumf (fun i : nat => c i * B true k 1 i (k m)) 0 (S N) = c (m - 1)%nat.
Proof. exact @polygon_interpolates. Qed.
Print Assumptions C13_polygon_interpolates.

Theorem C13_square_model :
  forall sx sy lx ly : R,
         match obj_scale (DefaultObj.default_obj [unit_basis; unit_basis]) [sx; sy] with
         | Ok o1 => obj_translate o1 [lx; ly]
         | Err e => Err e
         end =
         Ok
           {|
             Obj.o_bases := [unit_basis; unit_basis];
             Obj.o_cps := square_net sx sy lx ly;
             Obj.o_dim := 2;
             Obj.o_rat := false
           |}.
Proof. exact @square_model. Qed.
Print Assumptions C13_square_model.

Theorem C13_square_eval :
  forall (su sv : bool) (u v sx sy lx ly : R),
         in_span su 0 1 u ->
         in_span sv 0 1 v ->
         Tensor.teval 2 [OrderRaise.Brow su unit_knots 2 u; OrderRaise.Brow sv unit_knots 2 v] (square_net sx sy lx ly) =
         [lx + u * sx; ly + v * sy].
Proof. exact @square_eval. Qed.
Print Assumptions C13_square_eval.

Theorem C13_cube_model :
  forall sx sy sz lx ly lz : R,
         match obj_scale (DefaultObj.default_obj [unit_basis; unit_basis; unit_basis]) [sx; sy; sz] with
         | Ok o1 => obj_translate o1 [lx; ly; lz]
         | Err e => Err e
         end =
         Ok
           {|
             Obj.o_bases := [unit_basis; unit_basis; unit_basis];
             Obj.o_cps := cube_net sx sy sz lx ly lz;
             Obj.o_dim := 3;
             Obj.o_rat := false
           |}.
Proof. exact @cube_model. Qed.
Print Assumptions C13_cube_model.

Theorem C13_cube_eval :
  forall (su sv sw : bool) (u v w' sx sy sz lx ly lz : R),
         in_span su 0 1 u ->
         in_span sv 0 1 v ->
         in_span sw 0 1 w' ->
         Tensor.teval 3
           [OrderRaise.Brow su unit_knots 2 u; OrderRaise.Brow sv unit_knots 2 v; OrderRaise.Brow sw unit_knots 2 w']
           (cube_net sx sy sz lx ly lz) = [lx + u * sx; ly + v * sy; lz + w' * sz].
Proof. exact @cube_eval. Qed.
Print Assumptions C13_cube_eval.

Theorem C13_ellipse_axis_aligned :
  forall (rtol atol r1 r2 e0 e1 e2 cp sp ct st : R) (ty : ctype) (c0 : Obj.obj R),
         0 <= rtol ->
         0 <= atol ->
         unit_circle (sqrt 2) PI ty = Ok c0 ->
         allclose rtol atol [e0; e1; e2] [0; 0; 0] = false ->
         exists o : Obj.obj R,
           ellipse_obj rtol atol (sqrt 2) PI r1 r2 [e0; e1; e2] [0; 0; 1] ty 1 0 cp sp ct st = Ok o /\
           Obj.o_bases o = Obj.o_bases c0 /\
           Obj.o_dim o = 3%nat /\
           Obj.o_rat o = true /\
           (forall i : nat,
            (i < length (Obj.o_cps c0))%nat -> nth 3 (nth i (Obj.o_cps o) []) 0 = nth 2 (nth i (Obj.o_cps c0) []) 0) /\
           (forall P : nat -> R,
            blends ty (Obj.o_cps o) P ->
            let W := P 3%nat in
            P 2%nat = e2 * W /\
            r2 * r2 * ((P 0%nat - e0 * W) * (P 0%nat - e0 * W)) + r1 * r1 * ((P 1%nat - e1 * W) * (P 1%nat - e1 * W)) =
            r1 * r1 * (r2 * r2) * (W * W) /\
            (W <> 0 ->
             r1 <> 0 ->
             r2 <> 0 ->
             (P 0%nat / W - e0) / r1 * ((P 0%nat / W - e0) / r1) + (P 1%nat / W - e1) / r2 * ((P 1%nat / W - e1) / r2) =
             1)).
Proof. exact @ellipse_axis_aligned. Qed.
Print Assumptions C13_ellipse_axis_aligned.

Theorem C13_ellipse_flat0_shape :
  forall (rtol atol r1 r2 e0 e1 e2 : R) (normal : list R) (ca sa cp sp ct st : R) (ty : ctype) (c0 : Obj.obj R),
         0 <= rtol ->
         0 <= atol ->
         length normal = 3%nat ->
         ca * ca + sa * sa = 1 ->
         unit_circle (sqrt 2) PI ty = Ok c0 ->
         allclose rtol atol normal [0; 0; 1] = true ->
         allclose rtol atol [e0; e1; e2] [0; 0; 0] = true ->
         exists o : Obj.obj R,
           ellipse_obj rtol atol (sqrt 2) PI r1 r2 [e0; e1; e2] normal ty ca sa cp sp ct st = Ok o /\
           Obj.o_bases o = Obj.o_bases c0 /\
           Obj.o_dim o = 2%nat /\
           Obj.o_rat o = true /\
           (forall P : nat -> R,
            blends ty (Obj.o_cps o) P ->
            let c := cs2 ca sa in
            let s := sn2 ca sa in
            let W := P 2%nat in
            r2 * r2 * ((c * P 0%nat + s * P 1%nat) * (c * P 0%nat + s * P 1%nat)) +
            r1 * r1 * ((c * P 1%nat - s * P 0%nat) * (c * P 1%nat - s * P 0%nat)) = r1 * r1 * (r2 * r2) * (W * W)).
Proof. exact @ellipse_flat0_shape. Qed.
Print Assumptions C13_ellipse_flat0_shape.

Theorem C13_ellipse_flat_shape :
  forall rtol atol : R,
         0 <= rtol ->
         0 <= atol ->
         forall (r1 r2 e0 e1 e2 : R) (normal : list R) (ca sa cp sp ct st : R),
         length normal = 3%nat ->
         ca * ca + sa * sa = 1 ->
         forall (ty : ctype) (c0 : Obj.obj R),
         unit_circle (sqrt 2) PI ty = Ok c0 ->
         allclose rtol atol normal [0; 0; 1] = true ->
         allclose rtol atol [e0; e1; e2] [0; 0; 0] = false ->
         exists o : Obj.obj R,
           ellipse_obj rtol atol (sqrt 2) PI r1 r2 [e0; e1; e2] normal ty ca sa cp sp ct st = Ok o /\
           ellipse_spec r1 r2 ty c0 o [cs2 ca sa; sn2 ca sa; 0] [- sn2 ca sa; cs2 ca sa; 0] [0; 0; 1] [e0; e1; e2].
Proof. exact @ellipse_flat_shape. Qed.
Print Assumptions C13_ellipse_flat_shape.

Theorem C13_ellipse_tilt_shape :
  forall rtol atol : R,
         0 <= rtol ->
         0 <= atol ->
         forall (r1 r2 e0 e1 e2 : R) (normal : list R) (ca sa cp sp ct st : R),
         length normal = 3%nat ->
         ca * ca + sa * sa = 1 ->
         cp * cp + sp * sp = 1 ->
         ct * ct + st * st = 1 ->
         forall (ty : ctype) (c0 : Obj.obj R),
         unit_circle (sqrt 2) PI ty = Ok c0 ->
         allclose rtol atol normal [0; 0; 1] = false ->
         exists o : Obj.obj R,
           ellipse_obj rtol atol (sqrt 2) PI r1 r2 [e0; e1; e2] normal ty ca sa cp sp ct st = Ok o /\
           ellipse_spec r1 r2 ty c0 o (tilt cp sp ct st [cs2 ca sa; sn2 ca sa; 0])
             (tilt cp sp ct st [- sn2 ca sa; cs2 ca sa; 0]) (nrm cp sp ct st)
             (if allclose rtol atol [e0; e1; e2] [0; 0; 0] then [0; 0; 0] else [e0; e1; e2]).
Proof. exact @ellipse_tilt_shape. Qed.
Print Assumptions C13_ellipse_tilt_shape.

Theorem C13_ngon_default :
  forall rtol atol : R,
         0 <= rtol ->
         0 <= atol ->
         forall (n : nat) (r : R) (fc fs : R -> R),
         (3 <= n)%nat ->
         0 < r ->
         forall cp sp ct st : R,
         ngon_obj rtol atol PI fc fs n r [0; 0; 0] [0; 0; 1] cp sp ct st =
         Ok
           {|
             Obj.o_bases := [{| Obj.b_order := 2; Obj.b_knots := ngon_knot n; Obj.b_per1 := 1 |}];
             Obj.o_cps := ngon_net PI fc fs n r;
             Obj.o_dim := 2;
             Obj.o_rat := false
           |}.
Proof. exact @ngon_default. Qed.
Print Assumptions C13_ngon_default.

Theorem C13_ngon_structure :
  forall (n : nat) (r : R) (fc fs : R -> R),
         (3 <= n)%nat ->
         let b := {| Obj.b_order := 2; Obj.b_knots := ngon_knot n; Obj.b_per1 := 1 |} in
         Obj.b_order b = 2%nat /\
         Obj.b_per1 b = 1%nat /\
         Obj.b_nfun b = n /\
         length (ngon_net PI fc fs n r) = n /\
         (forall i : nat, (i <= n + 2)%nat -> BasisDef.kn (Obj.b_knots b) i = INR i - 1) /\
         sorted (BasisDef.kn (Obj.b_knots b)) /\ Obj.b_start b = 0 /\ Obj.b_end b = INR n.
Proof. exact @ngon_structure. Qed.
Print Assumptions C13_ngon_structure.

Theorem C13_ngon_vertex_radius :
  forall (n : nat) (r : R) (fc fs : R -> R),
         (forall x : R, fc x * fc x + fs x * fs x = 1) ->
         forall i : nat,
         (i < n)%nat ->
         nth 0 (nth i (ngon_net PI fc fs n r) []) 0 * nth 0 (nth i (ngon_net PI fc fs n r) []) 0 +
         nth 1 (nth i (ngon_net PI fc fs n r) []) 0 * nth 1 (nth i (ngon_net PI fc fs n r) []) 0 = 
         r * r.
Proof. exact @ngon_vertex_radius. Qed.
Print Assumptions C13_ngon_vertex_radius.

Theorem C13_ngon_edges :
  forall (n : nat) (r : R) (fc fs : R -> R),
         (3 <= n)%nat ->
         forall (side : bool) (m : nat) (t : R) (c : nat),
         (1 <= m <= n)%nat ->
         in_span side (INR m - 1) (INR m) t ->
         let k := BasisDef.kn (ngon_knot n) in
         let V := fun j : nat => nth c (nth (j mod n) (ngon_net PI fc fs n r) []) 0 in
         let lam := t - (INR m - 1) in
         sumf (fun j : nat => V j * B side k 1 j t) 0 (S n) = (1 - lam) * V (m - 1)%nat + lam * V m /\ 0 <= lam <= 1.
Proof. exact @ngon_edges. Qed.
Print Assumptions C13_ngon_edges.

Theorem C13_ngon_tilt_vertices :
  forall (rtol atol : R) (n : nat) (r : R) (fc fs : R -> R),
         (3 <= n)%nat ->
         0 < r ->
         (forall x : R, fc x * fc x + fs x * fs x = 1) ->
         forall (e0 e1 e2 : R) (normal : list R) (cp sp ct st : R),
         cp * cp + sp * sp = 1 ->
         ct * ct + st * st = 1 ->
         length normal = 3%nat ->
         allclose rtol atol normal [0; 0; 1] = false ->
         exists o : Obj.obj R,
           ngon_obj rtol atol PI fc fs n r [e0; e1; e2] normal cp sp ct st = Ok o /\
           Obj.o_dim o = 3%nat /\
           Obj.o_rat o = false /\
           Obj.o_bases o = [{| Obj.b_order := 2; Obj.b_knots := ngon_knot n; Obj.b_per1 := 1 |}] /\
           length (Obj.o_cps o) = n /\
           (forall i : nat,
            (i < n)%nat ->
            let e := if allclose rtol atol [e0; e1; e2] [0; 0; 0] then [0; 0; 0] else [e0; e1; e2] in
            let V := nth i (Obj.o_cps o) [] in
            let d := [nth 0 V 0 - nth 0 e 0; nth 1 V 0 - nth 1 e 0; nth 2 V 0 - nth 2 e 0] in
            length V = 3%nat /\ dot3 d d = r * r /\ dot3 d (nrm cp sp ct st) = 0).
Proof. exact @ngon_tilt_vertices. Qed.
Print Assumptions C13_ngon_tilt_vertices.

Theorem C13_ellipse_tiny_center_refuted :
  let e0 := 1 / 1000000000 in
         exists o : Obj.obj R,
           ellipse_obj np_rtol np_atol (sqrt 2) PI 1 1 [e0; 0; 0] [0; 0; 1] P2C0 1 0 1 0 1 0 = Ok o /\
           Obj.o_dim o = 2%nat /\
           (exists x y w : R,
              nth 0 (Obj.o_cps o) [] = [x; y; w] /\
              w = 1 /\
              1 * 1 * ((x - e0 * w) * (x - e0 * w)) + 1 * 1 * ((y - 0 * w) * (y - 0 * w)) <> 1 * 1 * (1 * 1) * (w * w)).
Proof. exact @ellipse_tiny_center_refuted. Qed.
Print Assumptions C13_ellipse_tiny_center_refuted.

Theorem C13_ellipse_no_radius_check :
  (exists o : Obj.obj R, ellipse_obj np_rtol np_atol (sqrt 2) PI 0 3 [0; 0; 0] [0; 0; 1] P2C0 1 0 1 0 1 0 = Ok o) /\
         circle_obj np_rtol np_atol (sqrt 2) PI 0 [0; 0; 0] [0; 0; 1] P2C0 1 0 1 0 1 0 = Err ValueError.
Proof. exact @ellipse_no_radius_check. Qed.
Print Assumptions C13_ellipse_no_radius_check.

